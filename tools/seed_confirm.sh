#!/bin/bash
# tools/seed_confirm.sh <Cxx> <name> <patch> <demo> "<needs>" : confirm a seeded change in a scratch worktree
# (demo passes without, fails with; 49 tests pass with) and store it under seeded/<Cxx>-<name>/.
set -u
pid="$1"; name="$2"; patch="$3"; demo="$4"; needs="${5:-}"
wt=/var/tmp/verif-wt-$$
git -C /repo worktree add --detach "$wt" HEAD -q || exit 3
cd "$wt"
PYTHONPATH="$wt" /venv/bin/python "$demo" "$wt" > /var/tmp/seed_demo0.$$ 2>&1; d0=$?
git apply "$patch" || { echo "patch does not apply"; git -C /repo worktree remove --force "$wt"; exit 3; }
PYTHONPATH="$wt" /venv/bin/python -m pytest -q -p no:cacheprovider tests > /var/tmp/seed_tests.$$ 2>&1; t=$?
tests=$(tail -1 /var/tmp/seed_tests.$$)
PYTHONPATH="$wt" /venv/bin/python "$demo" "$wt" > /var/tmp/seed_demo1.$$ 2>&1; d1=$?
cd /verif
git -C /repo worktree remove --force "$wt"
echo "demo clean exit=$d0; tests with patch: $tests (exit $t); demo with patch exit=$d1"
if [ "$d0" = 0 ] && [ "$t" = 0 ] && [ "$d1" != 0 ]; then
  out=/verif/seeded/$pid-$name; mkdir -p "$out"
  cp "$patch" "$out/patch.diff"; cp "$demo" "$out/demo.py"
  head -c 1500 /var/tmp/seed_demo1.$$ > "$out/demo_output_with_patch.txt"
  /venv/bin/python - "$pid" "$name" "$needs" "$tests" "$(git -C /repo rev-parse --short HEAD)" <<'PY'
import json,sys
pid,name,needs,tests,head=sys.argv[1:6]
json.dump({"property":pid,"name":name,"needs_to_manifest":needs,"base_commit":head,
 "confirmed":{"demo_exit_without_patch":0,"tests_with_patch":tests,"demo_exit_with_patch":"non-zero"},
 "ran":["scratch worktree of /repo HEAD under /var/tmp","python demo.py <tree> (clean): exit 0","git apply patch.diff","python -m pytest -q tests: "+tests,"python demo.py <tree> (patched): exit != 0"],
 "detected_by":None},open(f"/verif/seeded/{pid}-{name}/meta.json","w"),indent=1)
PY
  echo "stored $out"
else
  echo "NOT CONFIRMED"
fi
rm -f /var/tmp/seed_demo0.$$ /var/tmp/seed_demo1.$$ /var/tmp/seed_tests.$$
