#!/bin/bash
# tools/seedtest_wt.sh <patch> <Cxx> [tier] : like seedtest.sh, but on a scratch worktree (VERIF_REPO), leaving /repo alone
set -u
patch="$1"; pid="$2"; tier="${3:-quick}"
HERE="$(cd "$(dirname "$0")/.." && pwd)"
wt=${SEEDWT:-/var/tmp/wt-seedtest}
git -C "$wt" checkout -q -- . ; git -C "$wt" apply "$patch" || { echo "patch does not apply"; exit 3; }
VERIF_REPO="$wt" "$HERE/check" "$pid" --tier "$tier" > /var/tmp/seedtestwt.$$.log 2>&1; rc=$?
git -C "$wt" checkout -q -- .
grep -E "^(VIOLATION|OK|ERROR|KNOWN)" /var/tmp/seedtestwt.$$.log | head -8
grep -E "^  ->" /var/tmp/seedtestwt.$$.log | head -4
echo "exit=$rc"; rm -f /var/tmp/seedtestwt.$$.log
