#!/bin/bash
# tools/seedtest.sh <patch> <Cxx> [tier]  : apply a seeded change to /repo, run the check, undo.
set -u
patch="$1"; pid="$2"; tier="${3:-quick}"
git -C /repo apply "$patch" || { echo "patch does not apply"; exit 3; }
/verif/check "$pid" --tier "$tier" > /var/tmp/seedtest.$$.log 2>&1; rc=$?
git -C /repo checkout -- . 
grep -E "^(VIOLATION|OK|ERROR|KNOWN)" /var/tmp/seedtest.$$.log | head -8
grep -E "^  ->" /var/tmp/seedtest.$$.log | head -4
echo "exit=$rc"; rm -f /var/tmp/seedtest.$$.log
