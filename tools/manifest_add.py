#!/usr/bin/env python3
"""tools/manifest_add.py <Cxx> <technique> <level text> <level note>   (adds/replaces a check entry and validates MANIFEST.json)"""
import json, sys
pid, technique, text, note = sys.argv[1:5]
category = sys.argv[5] if len(sys.argv) > 5 else "proof"
m = json.load(open("/verif/MANIFEST.json"))
e = {"property_id": pid, "quick_cmd": f"./check {pid} --tier quick", "thorough_cmd": f"./check {pid} --tier thorough",
     "evidence_file": f"evidence/{pid}.json", "replay_cmd_template": f"./check {pid} --replay {{path}}", "engine": "coq",
     "level_claimed": {"category": category, "text": text, "design_ref": f"DESIGN.md section 5, {pid}"}, "level_note": note, "technique": technique}
m["checks"] = [c for c in m["checks"] if c["property_id"] != pid] + [e]
for en in m["engines"]:
    if pid not in en["serves_properties"]:
        en["serves_properties"].append(pid)
json.dump(m, open("/verif/MANIFEST.json", "w"), indent=1)
import subprocess
r = subprocess.run(["/opt/veriftools/pyvenv/bin/python", "-c", "import json,jsonschema;jsonschema.validate(json.load(open('/verif/MANIFEST.json')),json.load(open('/root/.vp/MANIFEST.schema.json')));print('manifest valid')"])
sys.exit(r.returncode)
