"""Synthetic group vectors inside a real MolecularContainer, and recording of the libm values (10**x, log10)
that the real Group methods evaluate, so that the Coq float instance can be run on the same tables."""
import math

from . import common, genval, structures


def make_mol():
    common.impl_setup()
    text = structures.read("conf-alt-AB.pdb")
    mol, _ = structures.run(text)
    return mol


def fake_group(q, pka, mpka, titr=True, coul=()):
    import propka.atom
    import propka.group
    from propka.determinant import Determinant
    a = propka.atom.Atom()
    g = propka.group.Group(a)
    g.charge, g.pka_value, g.model_pka, g.titratable = q, pka, mpka, titr
    for v in coul:
        d = Determinant(g, v)
        g.determinants["coulomb"].append(d)
    return g


class Recorder:
    """pow10 / log10 tables of everything Group.calculate_charge / calculate_folding_energy evaluate."""

    def __init__(self):
        self.p10 = {}
        self.l10 = {}

    def charge(self, g, ph):
        for pk in (g.model_pka, g.pka_value):
            x = g.charge * (pk - ph)
            self.p10[x] = 10 ** x

    def folding(self, g, ph):
        for pk in (g.pka_value, g.model_pka):
            x = ph - pk
            c = 10 ** x
            self.p10[x] = c
            self.l10[1 + c] = math.log10(1 + c)

    def coq(self):
        def tbl(d):
            return "[" + "; ".join(f"({genval.fhex(k)}, {genval.fhex(v)})" for k, v in d.items()) + "]"
        return tbl(self.p10), tbl(self.l10)


def coq_grp(g):
    return (f"(mk_grp {genval.fhex(g.charge)} {genval.fhex(g.model_pka)} {genval.fhex(g.pka_value)} "
            f"{genval.fhex(0.0)} {'true' if g.titratable else 'false'})")


def coq_list(xs):
    return "[" + "; ".join(xs) + "]"
