"""Fail-closed translator from a small numeric subset of Python (ast) to (a) Gallina over the `Num F`
class of coq/lib/Num.v and (b) an executable Python closure (the same IR evaluated with floats) used to
validate the translation against the real functions bit for bit.

Accepted: module-level numeric constants; functions/methods with positional args; docstrings, asserts,
logging calls and type hints are dropped; `x = e`, `x op= e`, tuple targets, `if/elif/else`, `return`,
`for v in <list>: <accumulating body>`, arithmetic, comparisons, and/or/not, abs/min/max/float,
math.sqrt/sin/cos/asin/acos/log10/pi, `10**e`, `e**2`, attribute reads on declared record types,
constructor calls of declared record types, calls of other translated functions, constant subscripts of
declared tuple arguments.  Anything else raises Untranslatable naming the node."""
import ast
import fractions
import math

Fr = fractions.Fraction


class Untranslatable(Exception):
    pass


# ---- types: 'F' (number), 'B' (bool), ('rec', name), ('tup', [types]), ('list', type)
class Rec:
    def __init__(self, name, fields, ctor_kw=None):
        self.name = name            # Coq record name
        self.fields = fields        # [(pyname, type)]
        self.ctor_kw = ctor_kw      # python constructor keyword names in field order (or None = positional)

    def ftype(self, f):
        for n, t in self.fields:
            if n == f:
                return t
        raise Untranslatable(f"record {self.name} has no field {f}")


BIN = {ast.Add: "add", ast.Sub: "sub", ast.Mult: "mul", ast.Div: "div"}
CMP = {ast.Lt: "lt", ast.Gt: "gt", ast.LtE: "le", ast.GtE: "ge", ast.Eq: "eq", ast.NotEq: "ne"}
MATH1 = {"sqrt": "sqrt", "sin": "sin", "cos": "cos", "asin": "asin", "acos": "acos", "log10": "log10"}


class Module:
    """One translation unit: records, constants, translated functions (in order)."""

    def __init__(self):
        self.recs = {}       # python class name -> Rec
        self.consts = {}     # name -> Fraction | float
        self.funcs = {}      # key -> Func
        self.order = []

    def add_rec(self, pyname, rec):
        self.recs[pyname] = rec


class Func:
    def __init__(self, name, params, ret, body):
        self.name, self.params, self.ret, self.body = name, params, ret, body  # params: [(name, type)]


class Tr:
    """Translate one FunctionDef to IR."""

    def __init__(self, mod: Module, fdef, name, argtypes, consts, self_type=None, const_args=None, methods=None,
                 ret=None, events=None, opaque_calls=None, skip_assign=(), membership=None):
        self.mod, self.f, self.name = mod, fdef, name
        self.consts = consts
        self.const_args = const_args or {}    # arg name -> python constant (specialisation, e.g. state='folded')
        self.methods = methods or {}          # (rectype name, method) -> func key
        self.env = {}
        self.params = []
        # ---- "event" mode: X.determinants['kind'].append(Determinant(obj, v)) becomes an emitted (owner, kind, partner, value) tuple
        self.events = events            # {'objects': {argname: index}} or None
        self.opaque_calls = opaque_calls or {}     # dotted call name -> parameter name (the call result becomes a parameter)
        self.skip_assign = set(skip_assign)        # names whose assignment is dropped (they are parameters)
        self.membership = membership or {}         # (attr, container attr) -> field name holding the membership boolean
        self.end_return = None
        args = [a.arg for a in fdef.args.args]
        for a in args:
            if a in self.const_args:
                continue
            if a not in argtypes:
                raise Untranslatable(f"{name}: no declared type for argument {a}")
            t = argtypes[a]
            if t is None:      # dropped argument (unused)
                continue
            self.env[a] = t
            self.params.append((a, t))
        for a, t in argtypes.items():      # pseudo-parameters (flattened attribute paths)
            if a not in args and t is not None:
                self.env[a] = t
                self.params.append((a, t))
        self.ret_hint = ret
        if self.events is not None:
            self.env["ev__"] = ("list", ("tup", ["F", "F", "F", "F"]))

    # ---- expressions: returns (ir, type)
    def expr(self, e):
        if isinstance(e, ast.Constant):
            v = e.value
            if isinstance(v, bool):
                return ("bool", v), "B"
            if isinstance(v, (int, float)):
                return ("lit", Fr(str(v)) if isinstance(v, float) else Fr(v)), "F"
            if v is None:
                return ("none",), "N"
            if isinstance(v, str):
                return ("str", v), "S"
            raise Untranslatable(ast.dump(e))
        if isinstance(e, ast.Name) and self.events is not None and e.id in self.events["objects"] and getattr(self, "_as_value", False):
            return ("lit", Fr(self.events["objects"][e.id])), "F"
        if isinstance(e, ast.Name):
            if e.id in self.const_args:
                return self.expr(ast.Constant(self.const_args[e.id]))
            if e.id in self.env:
                return ("var", e.id), self.env[e.id]
            if e.id in self.consts:
                v = self.consts[e.id]
                return ("lit", v if isinstance(v, Fr) else Fr(v)), "F"
            raise Untranslatable(f"{self.name}: unknown name {e.id}")
        if isinstance(e, ast.Attribute):
            if isinstance(e.value, ast.Name) and e.value.id == "math" and e.attr == "pi":
                return ("pi",), "F"
            v, t = self.expr(e.value)
            if isinstance(t, tuple) and t[0] == "rec":
                rec = self.mod.recs[t[1]]
                return ("field", rec.name, e.attr, v), rec.ftype(e.attr)
            if isinstance(t, tuple) and t[0] == "elem_value" and e.attr == "value":
                return v, "F"
            raise Untranslatable(f"{self.name}: attribute {e.attr} on {t}")
        if isinstance(e, ast.UnaryOp):
            v, t = self.expr(e.operand)
            if isinstance(e.op, ast.USub):
                if isinstance(t, tuple) and t[0] == "rec" and ("rec:" + t[1], "__neg__") in self.methods:
                    return ("app", self.methods[("rec:" + t[1], "__neg__")], [v]), t
                self.need(t, "F", e)
                return ("neg", v), "F"
            if isinstance(e.op, ast.Not):
                self.need(t, "B", e)
                return ("not", v), "B"
            raise Untranslatable(ast.dump(e))
        if isinstance(e, ast.BinOp):
            if isinstance(e.op, ast.Pow):
                if isinstance(e.left, ast.Constant) and e.left.value == 10:
                    v, t = self.expr(e.right)
                    self.need(t, "F", e)
                    return ("fn", "pow10", v), "F"
                if isinstance(e.right, ast.Constant) and e.right.value == 2:
                    v, t = self.expr(e.left)
                    self.need(t, "F", e)
                    return ("bin", "mul", v, v), "F"
                raise Untranslatable(f"{self.name}: power {ast.dump(e)}")
            a, ta = self.expr(e.left)
            b, tb = self.expr(e.right)
            if isinstance(e.op, ast.MatMult):
                key = self.methods.get(("rec:" + ta[1], "__matmul__")) if isinstance(ta, tuple) else None
                if key is None:
                    raise Untranslatable(f"{self.name}: @ on {ta}")
                return ("app", key, [a, b]), self.mod.funcs[key].ret
            if isinstance(ta, tuple) and ta[0] == "rec":
                m = {ast.Add: "__add__", ast.Sub: "__sub__"}.get(type(e.op))
                key = self.methods.get(("rec:" + ta[1], m)) if m else None
                if key is None:
                    raise Untranslatable(f"{self.name}: operator on record {ta}")
                return ("app", key, [a, b]), self.mod.funcs[key].ret
            if type(e.op) in BIN:
                self.need(ta, "F", e)
                self.need(tb, "F", e)
                return ("bin", BIN[type(e.op)], a, b), "F"
            raise Untranslatable(ast.dump(e))
        if isinstance(e, ast.Compare) and len(e.ops) == 1 and isinstance(e.ops[0], (ast.In, ast.NotIn)) \
                and isinstance(e.left, ast.Attribute) and isinstance(e.comparators[0], ast.Attribute):
            key = (e.left.attr, e.comparators[0].attr)
            if key in self.membership:
                v, t = self.expr(ast.Attribute(value=e.left.value, attr=self.membership[key], ctx=ast.Load()))
                self.need(t, "B", e)
                return (v if isinstance(e.ops[0], ast.In) else ("not", v)), "B"
            raise Untranslatable(f"{self.name}: membership test {ast.dump(e)[:160]}")
        if isinstance(e, ast.Compare) and len(e.ops) == 1:
            op = e.ops[0]
            a, ta = self.expr(e.left)
            b, tb = self.expr(e.comparators[0])
            if ta == "S" and tb == "S" and isinstance(op, (ast.Eq, ast.NotEq)):
                r = (a[1] == b[1]) if isinstance(op, ast.Eq) else (a[1] != b[1])
                return ("bool", r), "B"
            if isinstance(op, (ast.Is, ast.IsNot)) and (ta == "N" or tb == "N"):
                r = (ta == tb) if isinstance(op, ast.Is) else (ta != tb)
                return ("bool", r), "B"
            if type(op) in CMP:
                self.need(ta, "F", e)
                self.need(tb, "F", e)
                return ("cmp", CMP[type(op)], a, b), "B"
            raise Untranslatable(ast.dump(e))
        if isinstance(e, ast.BoolOp):
            vals = [self.expr(v) for v in e.values]
            for v, t in vals:
                self.need(t, "B", e)
            isand = isinstance(e.op, ast.And)
            r = vals[0][0]
            for v, _ in vals[1:]:
                if r[0] == "bool":          # constant folding (specialised arguments)
                    r = v if r[1] == isand else r
                elif v[0] == "bool" and v[1] == isand:
                    pass
                else:
                    r = ("and" if isand else "or", r, v)
            return r, "B"
        if isinstance(e, ast.List) and self.events is not None and len(e.elts) == 2 and isinstance(e.elts[0], ast.Name) \
                and e.elts[0].id in self.events["objects"]:
            self._as_value = True
            try:
                a, ta = self.expr(e.elts[0])
            finally:
                self._as_value = False
            b, tb = self.expr(e.elts[1])
            self.need(tb, "F", e)
            return ("tuple", [a, b]), ("tup", ["F", "F"])
        if isinstance(e, ast.Tuple) or isinstance(e, ast.List):
            vals = [self.expr(v) for v in e.elts]
            return ("tuple", [v for v, _ in vals]), ("tup", [t for _, t in vals])
        if isinstance(e, ast.Subscript):
            if isinstance(e.slice, ast.Constant) and isinstance(e.slice.value, int):
                v, t = self.expr(e.value)
                if isinstance(t, tuple) and t[0] == "tup":
                    i = e.slice.value
                    return ("proj", i, len(t[1]), v), t[1][i]
            if isinstance(e.slice, ast.Constant) and isinstance(e.slice.value, str):
                # self.determinants['coulomb'] -> declared pseudo-variable
                key = self.flat(e)
                if key in self.env:
                    return ("var", key), self.env[key]
            raise Untranslatable(f"{self.name}: subscript {ast.dump(e)}")
        if isinstance(e, ast.IfExp):
            c, tc = self.expr(e.test)
            a, ta = self.expr(e.body)
            b, tb = self.expr(e.orelse)
            self.need(tc, "B", e)
            return ("if", c, a, b), ta
        if isinstance(e, ast.Call):
            return self.call(e)
        raise Untranslatable(f"{self.name}: {ast.dump(e)[:200]}")

    def flat(self, e):
        if isinstance(e, ast.Subscript):
            return self.flat(e.value) + "_" + str(e.slice.value)
        if isinstance(e, ast.Attribute):
            return self.flat(e.value) + "_" + e.attr
        if isinstance(e, ast.Name):
            return e.id
        raise Untranslatable(ast.dump(e))

    def need(self, t, want, node):
        if t != want:
            raise Untranslatable(f"{self.name}: expected {want}, got {t} in {ast.dump(node)[:160]}")

    def dotted(self, f):
        if isinstance(f, ast.Name):
            return f.id
        if isinstance(f, ast.Attribute):
            b = self.dotted(f.value)
            return None if b is None else b + "." + f.attr
        return None

    def call(self, e):
        f = e.func
        args = e.args
        dn = self.dotted(f)
        if dn in self.opaque_calls:
            nm = self.opaque_calls[dn]
            if nm not in self.env:
                raise Untranslatable(f"{self.name}: opaque call {dn} has no declared parameter {nm}")
            return ("var", nm), self.env[nm]
        if isinstance(f, ast.Name) and f.id == "Determinant" and self.events is not None and len(args) == 2:
            self._as_value = True
            try:
                a, ta = self.expr(args[0])
            finally:
                self._as_value = False
            b, tb = self.expr(args[1])
            self.need(ta, "F", e)
            self.need(tb, "F", e)
            return ("tuple", [a, b]), ("tup", ["F", "F"])
        if isinstance(f, ast.Name):
            if f.id == "abs" and len(args) == 1 and not e.keywords:
                v, t = self.expr(args[0])
                self.need(t, "F", e)
                return ("abs", v), "F"
            if f.id in ("max", "min") and len(args) >= 2 and not e.keywords:
                vals = [self.expr(a) for a in args]
                for _, t in vals:
                    self.need(t, "F", e)
                r = vals[0][0]
                for v, _ in vals[1:]:
                    r = (f.id, r, v)
                return r, "F"
            if f.id == "float" and len(args) == 1:
                v, t = self.expr(args[0])
                self.need(t, "F", e)
                return v, "F"
            if f.id in self.mod.recs:                     # constructor
                rec = self.mod.recs[f.id]
                vals = {}
                names = [n for n, _ in rec.fields]
                kw = rec.ctor_kw or names
                for i, a in enumerate(args):
                    vals[names[i]] = self.expr(a)
                for k in e.keywords:
                    if k.arg not in kw:
                        raise Untranslatable(f"{self.name}: constructor keyword {k.arg}")
                    vals[names[kw.index(k.arg)]] = self.expr(k.value)
                out = []
                for n, t in rec.fields:
                    if n not in vals:
                        raise Untranslatable(f"{self.name}: constructor {f.id} misses {n} (defaults not modelled)")
                    self.need(vals[n][1], t, e)
                    out.append(vals[n][0])
                return ("mk", rec.name, out), ("rec", f.id)
            if f.id in self.mod.funcs:
                fn = self.mod.funcs[f.id]
                vals = [self.expr(a) for a in args]
                if e.keywords or len(vals) != len(fn.params):
                    raise Untranslatable(f"{self.name}: call arity {f.id}")
                for (v, t), (_, pt) in zip(vals, fn.params):
                    self.need(t, pt, e)
                return ("app", f.id, [v for v, _ in vals]), fn.ret
        if isinstance(f, ast.Attribute):
            if isinstance(f.value, ast.Name) and f.value.id == "math":
                if f.attr in MATH1 and len(args) == 1:
                    v, t = self.expr(args[0])
                    self.need(t, "F", e)
                    return ("fn", MATH1[f.attr], v), "F"
                raise Untranslatable(f"{self.name}: math.{f.attr}")
            # method call on a record value
            v, t = self.expr(f.value)
            if isinstance(t, tuple) and t[0] == "rec":
                key = self.methods.get(("rec:" + t[1], f.attr))
                if key is not None:
                    fn = self.mod.funcs[key]
                    vals = [(v, t)] + [self.expr(a) for a in args]
                    if e.keywords or len(vals) != len(fn.params):
                        raise Untranslatable(f"{self.name}: call arity {f.attr}")
                    for (vv, tt), (_, pt) in zip(vals, fn.params):
                        self.need(tt, pt, e)
                    return ("app", key, [vv for vv, _ in vals]), fn.ret
        raise Untranslatable(f"{self.name}: call {ast.dump(e)[:200]}")

    # ---- statements
    def assigned(self, stmts):
        out = []
        for s in stmts:
            names = []
            if isinstance(s, ast.Assign):
                for t in s.targets:
                    names += [x.id for x in (t.elts if isinstance(t, ast.Tuple) else [t]) if isinstance(x, ast.Name)]
            elif isinstance(s, ast.AugAssign) and isinstance(s.target, ast.Name):
                names.append(s.target.id)
            elif isinstance(s, ast.If):
                names += self.assigned(s.body) + self.assigned(s.orelse)
            elif isinstance(s, ast.For):
                names += self.assigned(s.body)
            if isinstance(s, (ast.Assign, ast.AugAssign)):
                for t in (s.targets if isinstance(s, ast.Assign) else [s.target]):
                    if isinstance(t, ast.Subscript) and isinstance(t.value, ast.Name):
                        names.append(t.value.id)
            if self.is_event(s):
                names.append("ev__")
            names = [n for n in names if n not in self.skip_assign]
            for n in names:
                if n not in out:
                    out.append(n)
        return out

    def definitely(self, stmts):
        """names assigned on every path through stmts"""
        out = set()
        for s in stmts:
            if isinstance(s, ast.Assign):
                for t in s.targets:
                    out |= {x.id for x in (t.elts if isinstance(t, ast.Tuple) else [t]) if isinstance(x, ast.Name)}
            elif isinstance(s, ast.AugAssign) and isinstance(s.target, ast.Name):
                out.add(s.target.id)
            elif isinstance(s, ast.If):
                out |= self.definitely(s.body) & self.definitely(s.orelse)
        return out

    def is_event(self, s):
        """X.determinants['kind'].append(d)"""
        if self.events is None or not (isinstance(s, ast.Expr) and isinstance(s.value, ast.Call)):
            return False
        f = s.value.func
        return (isinstance(f, ast.Attribute) and f.attr == "append" and isinstance(f.value, ast.Subscript)
                and isinstance(f.value.value, ast.Attribute) and f.value.value.attr == "determinants"
                and isinstance(f.value.value.value, ast.Name) and f.value.value.value.id in self.events["objects"]
                and isinstance(f.value.slice, ast.Constant) and len(s.value.args) == 1)

    def reads(self, stmts):
        """names possibly read by the statements (over-approximation)"""
        out = set()
        for s in stmts:
            for n in ast.walk(s):
                if isinstance(n, ast.Name) and isinstance(n.ctx, ast.Load):
                    out.add(n.id)
                if isinstance(n, ast.AugAssign) and isinstance(n.target, ast.Name):
                    out.add(n.target.id)
                if isinstance(n, (ast.Assign, ast.AugAssign)):
                    for t in (n.targets if isinstance(n, ast.Assign) else [n.target]):
                        if isinstance(t, ast.Subscript) and isinstance(t.value, ast.Name):
                            out.add(t.value.id)
            if self.events is not None and any(self.is_event(x) for x in ast.walk(s) if isinstance(x, ast.Expr)):
                out.add("ev__")
        return out

    def uses_defs(self, s):
        """(names read, names definitely written) by one simple statement"""
        uses, defs = set(), set()
        if isinstance(s, ast.Assign):
            uses |= {n.id for n in ast.walk(s.value) if isinstance(n, ast.Name)}
            for t in s.targets:
                if isinstance(t, ast.Name):
                    defs.add(t.id)
                elif isinstance(t, (ast.Tuple, ast.List)):
                    defs |= {x.id for x in t.elts if isinstance(x, ast.Name)}
                elif isinstance(t, ast.Subscript) and isinstance(t.value, ast.Name):
                    uses.add(t.value.id)
        elif isinstance(s, ast.AugAssign):
            uses |= {n.id for n in ast.walk(s.value) if isinstance(n, ast.Name)}
            if isinstance(s.target, ast.Name):
                uses.add(s.target.id)
            elif isinstance(s.target, ast.Subscript) and isinstance(s.target.value, ast.Name):
                uses.add(s.target.value.id)
        else:
            uses |= {n.id for n in ast.walk(s) if isinstance(n, ast.Name) and isinstance(n.ctx, ast.Load)}
            if self.is_event(s):
                uses.add("ev__")
        return uses, defs

    def live_in(self, stmts, live_out):
        """variables live before the statements, given those live after them"""
        live = set(live_out)
        for s in reversed(stmts):
            if isinstance(s, ast.If):
                live = ({n.id for n in ast.walk(s.test) if isinstance(n, ast.Name)}
                        | self.live_in(s.body, live) | self.live_in(s.orelse, live))
            elif isinstance(s, ast.For):
                body_live = self.live_in(s.body, live | self.reads(s.body))
                live = live | body_live | {n.id for n in ast.walk(s.iter) if isinstance(n, ast.Name)}
            elif isinstance(s, ast.Return):
                live = {n.id for n in ast.walk(s) if isinstance(n, ast.Name)}
            else:
                u, d = self.uses_defs(s)
                live = (live - d) | u
        return live

    def returns(self, stmts):
        if not stmts:
            return False
        s = stmts[-1]
        if isinstance(s, ast.Return):
            return True
        if isinstance(s, ast.If):
            return self.returns(s.body) and self.returns(s.orelse)
        return False

    def skip(self, s):
        if isinstance(s, ast.Expr) and isinstance(s.value, ast.Constant) and isinstance(s.value.value, str):
            return True
        if isinstance(s, ast.Assert):
            return True
        if isinstance(s, ast.Expr) and isinstance(s.value, ast.Call):
            f = s.value.func
            if isinstance(f, ast.Attribute) and isinstance(f.value, ast.Name) and f.value.id in ("_LOGGER", "warnings"):
                return True
        if isinstance(s, ast.Pass):
            return True
        return False

    def block(self, stmts, k, live=frozenset()):
        """IR of statements followed by continuation k (a function env -> (ir, type)) or None."""
        if not stmts:
            if k is None:
                if self.end_return:
                    vals = [self.expr(ast.Name(id=v, ctx=ast.Load())) for v in self.end_return]
                    if len(vals) == 1:
                        return vals[0]
                    return ("tuple", [x for x, _ in vals]), ("tup", [t for _, t in vals])
                raise Untranslatable(f"{self.name}: fell off the end without return")
            return k()
        s, rest = stmts[0], stmts[1:]
        if self.skip(s):
            return self.block(rest, k, live)
        if isinstance(s, ast.Assign) and len(s.targets) == 1 and isinstance(s.targets[0], ast.Name) and s.targets[0].id in self.skip_assign:
            return self.block(rest, k, live)
        if self.is_event(s):
            f = s.value.func
            owner = self.events["objects"][f.value.value.value.id]
            kind = {"sidechain": 0, "backbone": 1, "coulomb": 2}.get(f.value.slice.value)
            if kind is None:
                raise Untranslatable(f"{self.name}: determinant kind {f.value.slice.value!r}")
            d, td = self.expr(s.value.args[0])
            if td != ("tup", ["F", "F"]):
                raise Untranslatable(f"{self.name}: appended value is not a determinant: {td}")
            ev = ("tuple", [("lit", Fr(owner)), ("lit", Fr(kind)), ("proj", 0, 2, d), ("proj", 1, 2, d)])
            b, tb = self.block(rest, k, live)
            return ("let", ["ev__"], ("snoc", ("var", "ev__"), ev), b), tb
        if isinstance(s, (ast.Assign, ast.AugAssign)) and isinstance((s.targets[0] if isinstance(s, ast.Assign) else s.target), ast.Subscript):
            tgt = s.targets[0] if isinstance(s, ast.Assign) else s.target
            if isinstance(tgt.value, ast.Name) and isinstance(tgt.slice, ast.Constant) and isinstance(tgt.slice.value, int) \
                    and isinstance(self.env.get(tgt.value.id), tuple) and self.env[tgt.value.id][0] == "tup":
                nm, i = tgt.value.id, tgt.slice.value
                tt = self.env[nm][1]
                if isinstance(s, ast.AugAssign):
                    if type(s.op) not in BIN:
                        raise Untranslatable(f"{self.name}: augmented store {ast.dump(s)[:120]}")
                    val = ast.BinOp(left=ast.Subscript(value=ast.Name(id=nm, ctx=ast.Load()), slice=ast.Constant(i), ctx=ast.Load()), op=s.op, right=s.value)
                else:
                    val = s.value
                v, tv = self.expr(val)
                self.need(tv, tt[i], s)
                parts = [v if j == i else ("proj", j, len(tt), ("var", nm)) for j in range(len(tt))]
                b, tb = self.block(rest, k, live)
                return ("let", [nm], ("tuple", parts), b), tb
            raise Untranslatable(f"{self.name}: subscript store {ast.dump(tgt)[:120]}")
        if isinstance(s, ast.Return):
            return self.expr(s.value)
        if isinstance(s, ast.AnnAssign) and s.value is not None and isinstance(s.target, ast.Name):
            s = ast.Assign(targets=[s.target], value=s.value)
        if isinstance(s, ast.Assign) and len(s.targets) == 1:
            tgt = s.targets[0]
            v, t = self.expr(s.value)
            if isinstance(tgt, ast.Name):
                if t in ("S", "N"):
                    raise Untranslatable(f"{self.name}: string/None variable {tgt.id}")
                saved = dict(self.env)
                self.env[tgt.id] = t
                b, tb = self.block(rest, k, live)
                self.env = saved
                return ("let", [tgt.id], v, b), tb
            if isinstance(tgt, (ast.Tuple, ast.List)) and all(isinstance(x, ast.Name) for x in tgt.elts) \
                    and isinstance(t, tuple) and t[0] == "tup" and len(t[1]) == len(tgt.elts):
                saved = dict(self.env)
                names = []
                for x, tt in zip(tgt.elts, t[1]):
                    self.env[x.id] = tt
                    names.append(x.id)
                b, tb = self.block(rest, k, live)
                self.env = saved
                return ("let", names, v, b), tb
            raise Untranslatable(f"{self.name}: assignment target {ast.dump(tgt)[:120]}")
        if isinstance(s, ast.AugAssign) and isinstance(s.target, ast.Name) and type(s.op) in BIN:
            new = ast.Assign(targets=[s.target], value=ast.BinOp(left=ast.Name(id=s.target.id, ctx=ast.Load()),
                                                                 op=s.op, right=s.value))
            return self.block([new] + rest, k, live)
        if isinstance(s, ast.If):
            c, tc = self.expr(s.test)
            if tc == "F":               # truthiness of a number
                c, tc = ("cmp", "ne", c, ("lit", Fr(0))), "B"
            self.need(tc, "B", s)
            if c[0] == "bool":       # constant-folded test (specialised argument)
                return self.block((s.body if c[1] else s.orelse) + rest, k, live)
            if self.returns(s.body) and (not s.orelse or self.returns(s.orelse)):
                a, ta = self.block(s.body, None)
                b, tb = self.block(s.orelse, None) if s.orelse else self.block(rest, k, live)
                return ("if", c, a, b), ta
            if self.returns(s.body) or (s.orelse and self.returns(s.orelse)):
                # one branch returns, the other continues
                if self.returns(s.body):
                    a, ta = self.block(s.body, None)
                    b, tb = self.block(s.orelse + rest, k, live)
                else:
                    a, ta = self.block(s.body + rest, k, live)
                    b, tb = self.block(s.orelse, None)
                return ("if", c, a, b), ta
            vs = [v for v in self.assigned([s])]
            pre = [v for v in vs if v in self.env]
            # variables first assigned inside the if must be assigned on both paths
            # a variable first assigned on one path only is undefined afterwards: it is left out of the join,
            # so a later read of it fails closed ("unknown name")
            both = self.definitely(s.body) & self.definitely(s.orelse)
            needed = self.live_in(rest, set(live))
            vs = [v for v in vs if (v in self.env or v in both) and v in needed]
            if not vs:
                raise Untranslatable(f"{self.name}: if-statement without effect {ast.dump(s)[:120]}")
            types = {}

            def join():
                vals = [self.expr(ast.Name(id=v, ctx=ast.Load())) for v in vs]
                for v, (_, t) in zip(vs, vals):
                    types[v] = t
                if len(vals) == 1:
                    return vals[0]
                return ("tuple", [x for x, _ in vals]), ("tup", [t for _, t in vals])
            saved = dict(self.env)
            a, _ = self.block(s.body, join, frozenset(vs))
            self.env = dict(saved)
            b, _ = self.block(s.orelse, join, frozenset(vs))
            self.env = dict(saved)
            for v in vs:
                self.env[v] = types[v]
            body, tb = self.block(rest, k, live)
            self.env = saved
            return ("let", vs, ("if", c, a, b), body), tb
        if isinstance(s, ast.For) and isinstance(s.target, ast.Name) and not s.orelse:
            lst, tl = self.expr(s.iter)
            if not (isinstance(tl, tuple) and tl[0] == "list"):
                raise Untranslatable(f"{self.name}: for over {tl}")
            accs = self.assigned(s.body)
            for v in accs:
                if v not in self.env:
                    raise Untranslatable(f"{self.name}: loop variable {v} not initialised before the loop")
            saved = dict(self.env)
            self.env[s.target.id] = tl[1]

            def join():
                vals = [self.expr(ast.Name(id=v, ctx=ast.Load())) for v in accs]
                if len(vals) == 1:
                    return vals[0]
                return ("tuple", [x for x, _ in vals]), ("tup", [t for _, t in vals])
            stepbody, _ = self.block(s.body, join, frozenset(accs))
            self.env = dict(saved)
            init = join()[0]
            body, tb = self.block(rest, k, live)
            self.env = saved
            return ("let", accs, ("fold", accs, s.target.id, stepbody, init, lst), body), tb
        raise Untranslatable(f"{self.name}: statement {ast.dump(s)[:200]}")

    def translate(self, end_return=None):
        self.end_return = end_return
        body, ret = self.block(self.f.body, None, frozenset(end_return or []))
        if self.events is not None:
            body = ("let", ["ev__"], ("nil",), body)
        return Func(self.name, self.params, ret, body)


# ---------------------------------------------------------------------------------------------
# Coq printer
def coq_type(t, mod):
    if t == "F":
        return "F"
    if t == "B":
        return "bool"
    if t[0] == "rec":
        return f"({mod.recs[t[1]].name} F)"
    if t[0] == "tup":
        return "(" + " * ".join(coq_type(x, mod) for x in t[1]) + ")"
    if t[0] == "list":
        return f"(list {coq_type(t[1], mod)})"
    if t[0] == "elem_value":
        return "F"
    raise Untranslatable(f"type {t}")


def lit(fr):
    return f"(nlit ({fr.numerator}) ({fr.denominator}))"


def pat(names):
    if len(names) == 1:
        return names[0]
    return "'(" + ", ".join(names) + ")"


def coq(ir, ind=2):
    k = ir[0]
    sp = " " * ind
    if k == "lit":
        return lit(ir[1])
    if k == "bool":
        return "true" if ir[1] else "false"
    if k == "var":
        return ir[1]
    if k == "pi":
        return "npi"
    if k == "bin":
        return f"(n{ir[1]} {coq(ir[2], ind)} {coq(ir[3], ind)})"
    if k == "neg":
        return f"(nneg {coq(ir[1], ind)})"
    if k == "abs":
        return f"(nabs {coq(ir[1], ind)})"
    if k == "fn":
        return f"(n{ir[1]} {coq(ir[2], ind)})"
    if k == "cmp":
        a, b = coq(ir[2], ind), coq(ir[3], ind)
        return {"lt": f"(nltb {a} {b})", "gt": f"(nltb {b} {a})", "le": f"(nleb {a} {b})", "ge": f"(nleb {b} {a})",
                "eq": f"(neqb {a} {b})", "ne": f"(negb (neqb {a} {b}))"}[ir[1]]
    if k == "and":
        return f"(andb {coq(ir[1], ind)} {coq(ir[2], ind)})"
    if k == "or":
        return f"(orb {coq(ir[1], ind)} {coq(ir[2], ind)})"
    if k == "not":
        return f"(negb {coq(ir[1], ind)})"
    if k == "max":     # Python: the first maximal element wins
        return f"(nmax {coq(ir[1], ind)} {coq(ir[2], ind)})"
    if k == "min":
        return f"(nmin {coq(ir[1], ind)} {coq(ir[2], ind)})"
    if k == "tuple":
        return "(" + ", ".join(coq(x, ind) for x in ir[1]) + ")"
    if k == "proj":
        i, n, v = ir[1], ir[2], coq(ir[3], ind)
        names = ["_"] * n
        names[i] = "p__"
        return f"(let '({', '.join(names)}) := {v} in p__)"
    if k == "field":
        return f"({ir[1]}_{ir[2]} {coq(ir[3], ind)})"
    if k == "mk":
        return f"(mk_{ir[1]} " + " ".join(coq(x, ind) for x in ir[2]) + ")"
    if k == "app":
        return f"({cname(ir[1])} " + " ".join(coq(x, ind) for x in ir[2]) + ")"
    if k == "if":
        return f"(if {coq(ir[1], ind)}\n{sp}then {coq(ir[2], ind + 2)}\n{sp}else {coq(ir[3], ind + 2)})"
    if k == "let":
        return f"(let {pat(ir[1])} := {coq(ir[2], ind + 2)} in\n{sp}{coq(ir[3], ind)})"
    if k == "nil":
        return "[]"
    if k == "snoc":
        return f"({coq(ir[1], ind)} ++ [{coq(ir[2], ind)}])%list"
    if k == "fold":
        accs, v, step, init, lst = ir[1], ir[2], ir[3], ir[4], ir[5]
        return (f"(fold_left (fun acc__ {v} => let {pat(accs)} := acc__ in {coq(step, ind + 2)})\n{sp}  "
                f"{coq(lst, ind)} {coq(init, ind)})")
    raise Untranslatable(f"print {k}")


def cname(key):
    return key.replace(".", "_")


def emit_func(fn: Func, mod: Module):
    ps = " ".join(f"({n} : {coq_type(t, mod)})" for n, t in fn.params)
    return f"Definition {cname(fn.name)} {ps} : {coq_type(fn.ret, mod)} :=\n  {coq(fn.body, 2)}.\n"


def emit_module(mod: Module, header, funcs=None):
    out = [header, "From Coq Require Import List Bool ZArith.", "From V Require Import Num.", "Import ListNotations.", ""]
    for rec in mod.recs.values():
        fields = "; ".join(f"{rec.name}_{n} : {'F' if t == 'F' else coq_type(t, mod).replace(' F)', ' F)')}" for n, t in rec.fields)
        out.append(f"Record {rec.name} (F : Type) := mk_{rec.name} {{ {fields} }}.")
        out.append(f"Arguments mk_{rec.name} {{F}}.")
        for n, _ in rec.fields:
            out.append(f"Arguments {rec.name}_{n} {{F}}.")
    out += ["", "Section Gen.", "Context {F : Type} {NumF_ : Num F}.", ""]
    for key in mod.order:
        if funcs is None or key in funcs:
            out.append(emit_func(mod.funcs[key], mod))
    out.append("End Gen.")
    return "\n".join(out) + "\n"


# ---------------------------------------------------------------------------------------------
# Python evaluator of the IR (floats) — validates AST -> IR against the real function
def _max(a, b):
    return b if a < b else a


def _min(a, b):
    return b if b < a else a


def evaluate(ir, env, mod):
    k = ir[0]
    ev = lambda x: evaluate(x, env, mod)
    if k == "lit":
        return ir[1].numerator / ir[1].denominator
    if k == "bool":
        return ir[1]
    if k == "var":
        return env[ir[1]]
    if k == "pi":
        return math.pi
    if k == "bin":
        a, b = ev(ir[2]), ev(ir[3])
        return a + b if ir[1] == "add" else a - b if ir[1] == "sub" else a * b if ir[1] == "mul" else a / b
    if k == "neg":
        return -ev(ir[1])
    if k == "abs":
        return abs(ev(ir[1]))
    if k == "fn":
        v = ev(ir[2])
        return {"sqrt": math.sqrt, "sin": math.sin, "cos": math.cos, "asin": math.asin, "acos": math.acos,
                "log10": math.log10, "pow10": lambda x: 10 ** x}[ir[1]](v)
    if k == "cmp":
        a, b = ev(ir[2]), ev(ir[3])
        return {"lt": a < b, "gt": a > b, "le": a <= b, "ge": a >= b, "eq": a == b, "ne": a != b}[ir[1]]
    if k == "and":
        return ev(ir[1]) and ev(ir[2])
    if k == "or":
        return ev(ir[1]) or ev(ir[2])
    if k == "not":
        return not ev(ir[1])
    if k == "max":
        return _max(ev(ir[1]), ev(ir[2]))
    if k == "min":
        return _min(ev(ir[1]), ev(ir[2]))
    if k == "tuple":
        return tuple(ev(x) for x in ir[1])
    if k == "proj":
        return ev(ir[3])[ir[1]]
    if k == "field":
        return ev(ir[3])[ir[2]]
    if k == "mk":
        rec = [r for r in mod.recs.values() if r.name == ir[1]][0]
        return {n: ev(x) for (n, _), x in zip(rec.fields, ir[2])}
    if k == "app":
        fn = mod.funcs[ir[1]]
        return evaluate(fn.body, {n: ev(x) for (n, _), x in zip(fn.params, ir[2])}, mod)
    if k == "if":
        return ev(ir[2]) if ev(ir[1]) else ev(ir[3])
    if k == "let":
        v = ev(ir[2])
        e2 = dict(env)
        if len(ir[1]) == 1:
            e2[ir[1][0]] = v
        else:
            for n, x in zip(ir[1], v):
                e2[n] = x
        return evaluate(ir[3], e2, mod)
    if k == "nil":
        return []
    if k == "snoc":
        return ev(ir[1]) + [ev(ir[2])]
    if k == "fold":
        accs, var, step, init, lst = ir[1], ir[2], ir[3], ir[4], ir[5]
        acc = ev(init)
        for item in ev(lst):
            e2 = dict(env)
            e2[var] = item
            if len(accs) == 1:
                e2[accs[0]] = acc
            else:
                for n, x in zip(accs, acc):
                    e2[n] = x
            acc = evaluate(step, e2, mod)
        return acc
    raise Untranslatable(f"eval {k}")


def load_ast(path):
    tree = ast.parse(open(path).read())
    consts, fns = {}, {}
    for n in tree.body:
        if isinstance(n, ast.Assign) and len(n.targets) == 1 and isinstance(n.targets[0], ast.Name):
            consts[n.targets[0].id] = n.value
        if isinstance(n, ast.FunctionDef):
            fns[n.name] = n
        if isinstance(n, ast.ClassDef):
            for m in n.body:
                if isinstance(m, ast.FunctionDef):
                    fns[n.name + "." + m.name] = m
    return consts, fns
