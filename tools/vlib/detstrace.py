"""Hook-free recording of the determinant bookkeeping of a real propka run as the operation sequence of model/Dets.v,
and replay of that sequence in the Coq model (binary64 instance): the final state must agree bit for bit.

Recording: Group.__init__ swaps the three determinant lists for logging lists; Determinant gets an identity and its
label/value writes are logged; calculate_total_pka, remove_determinants, clone, __iadd__, __truediv__ and
NCCG.swap_interactions are wrapped and logged as high-level operations (their inner effects are NOT logged - the model has
to reproduce them).  Energies written by the desolvation / reorganisation code are synchronised at the points where they
are read (recompute, clone, iadd, final snapshot)."""
import contextlib

from . import common, genval

KINDS = ["sidechain", "backbone", "coulomb"]
KCOQ = {"sidechain": "SC", "backbone": "BB", "coulomb": "CO"}


class LogList(list):
    __slots__ = ("rec", "owner", "kind")

    def append(self, det):
        super().append(det)
        self.rec.on_append(self.owner, self.kind, det)

    def remove(self, det):
        super().remove(det)
        self.rec.on_remove(self.owner, self.kind, det)


class Recorder:
    def __init__(self):
        self.ops = []
        self.gidx = {}          # id(group) -> index
        self.groups = []        # keep alive
        self.didx = {}
        self.dets = []
        self.labels = {}
        self.keys = {}
        self.depth = 0
        self.unmodelled = []
        self.known = {}         # group index -> (vol, nvol, buried, loc) as last told to the model
        self.newdets = None
        self.det_owner = {}     # det index -> (group index, kind)
        self.registered_new = set()

    # ---- ids
    def lab(self, s):
        return self.labels.setdefault(s, len(self.labels) + 1)

    def key_of(self, g):
        a = g.atom
        k = (g.label, None if a.type == "atom" else a.res_num)
        return self.keys.setdefault(k, len(self.keys) + 1)

    def g(self, grp):
        i = self.gidx.get(id(grp))
        if i is None:
            i = len(self.groups)
            self.gidx[id(grp)] = i
            self.groups.append(grp)
        return i

    def d(self, det):
        i = self.didx.get(id(det))
        if i is None:
            i = len(self.dets) + 1
            self.didx[id(det)] = i
            self.dets.append(det)
        return i

    def det_rec(self, det):
        return (self.d(det), self.key_of(det.group), self.lab(det.group.label), self.lab(det.label), float(det.value))

    # ---- events
    def emit(self, *op):
        self.ops.append(op)

    def on_append(self, owner, kind, det):
        if self.depth == 0:
            self.ensure_new(owner)
            self.emit("OAppend", self.g(owner), kind, self.det_rec(det))
        elif self.newdets is not None:
            self.newdets.append(self.d(det))
        self.det_owner[self.d(det)] = (self.g(owner), kind)

    def on_remove(self, owner, kind, det):
        if self.depth == 0:
            self.unmodelled.append(("list.remove outside a modelled operation", owner.label, kind))

    def on_det_write(self, det, name, value):
        if self.depth == 0 and id(det) in self.didx:
            if name == "value" and self.d(det) in self.det_owner:
                gi, kind = self.det_owner[self.d(det)]
                self.emit("OSetDetValue", gi, kind, self.d(det), float(value))
            else:
                self.unmodelled.append((f"Determinant.{name} written outside a modelled operation", det.label))

    def ensure_new(self, grp):
        i = self.g(grp)
        if i not in self.registered_new:
            self.registered_new.add(i)
            self.emit("ONew", i, self.lab(grp.label), self.key_of(grp), float(grp.model_pka), bool(grp.atom.cysteine_bridge))
            self.known[i] = (0.0, 0.0, 0.0, 0.0)
        return i

    def sync(self, grp):
        """tell the model about energies written since it last looked"""
        i = self.ensure_new(grp)
        cur = (float(grp.energy_volume), float(grp.num_volume), float(grp.buried), float(grp.energy_local))
        old = self.known.get(i)
        if old is None or cur[:3] != old[:3]:
            self.emit("OSetDesolv", i, cur[0], cur[1], cur[2])
        if old is None or cur[3] != old[3]:
            self.emit("OSetLocal", i, cur[3])
        self.known[i] = cur
        return i

    def snapshot(self):
        out = []
        for i, g in enumerate(self.groups):
            if i not in self.registered_new:
                out.append(None)
                continue
            out.append({"pka": float(g.pka_value), "vol": float(g.energy_volume), "loc": float(g.energy_local), "buried": float(g.buried),
                        "nvol": float(g.num_volume), "label": g.label, "avr": i in getattr(self, "avr", set()),
                        "dets": {k: [(self.d(d), self.lab(d.label), float(d.value)) for d in g.determinants[k]] for k in KINDS}})
        return out


@contextlib.contextmanager
def recording():
    """Context manager: patches propka for the duration of the block and yields the Recorder."""
    common.impl_setup()
    import propka.group as G
    import propka.determinant as D
    import propka.coupled_groups as C
    rec = Recorder()
    rec.avr = set()
    saved = {}

    def patch(obj, name, new):
        saved[(obj, name)] = getattr(obj, name)
        setattr(obj, name, new)

    o_init = G.Group.__init__

    def g_init(self, atom):
        o_init(self, atom)
        for k in KINDS:
            ll = LogList()
            ll.rec, ll.owner, ll.kind = rec, self, k
            self.determinants[k] = ll
        rec.g(self)
    patch(G.Group, "__init__", g_init)

    o_dinit = D.Determinant.__init__

    def d_init(self, group, value):
        o_dinit(self, group, value)
        rec.d(self)
    patch(D.Determinant, "__init__", d_init)

    def d_setattr(self, name, value):
        object.__setattr__(self, name, value)
        if name in ("value", "label"):
            rec.on_det_write(self, name, value)
    patch(D.Determinant, "__setattr__", d_setattr)

    o_total = G.Group.calculate_total_pka

    def total(self):
        if rec.depth == 0:
            i = rec.sync(self)
            rec.emit("ORecompute", i)
        rec.depth += 1
        try:
            return o_total(self)
        finally:
            rec.depth -= 1
    patch(G.Group, "calculate_total_pka", total)

    o_remove = G.Group.remove_determinants

    def remove(self, labels):
        if rec.depth == 0:
            rec.emit("ORemoveLabels", rec.ensure_new(self), [rec.lab(l) for l in labels])
        rec.depth += 1
        try:
            return o_remove(self, labels)
        finally:
            rec.depth -= 1
    patch(G.Group, "remove_determinants", remove)

    o_swap = C.NonCovalentlyCoupledGroups.swap_interactions

    def swap(self, groups1, groups2, include_side_chain_hbs=True):
        if rec.depth == 0:
            if not include_side_chain_hbs:
                rec.unmodelled.append(("swap_interactions without side-chain hydrogen bonds",))
            for a, b in zip(groups1, groups2):
                rec.emit("OSwap", rec.sync(a), rec.sync(b))
        rec.depth += 1
        try:
            return o_swap(self, groups1, groups2, include_side_chain_hbs)
        finally:
            rec.depth -= 1
    patch(C.NonCovalentlyCoupledGroups, "swap_interactions", swap)

    o_clone = G.Group.clone

    def clone(self):
        src = rec.sync(self)
        rec.depth += 1
        try:
            res = o_clone(self)
        finally:
            rec.depth -= 1
        i = rec.g(res)
        rec.registered_new.add(i)
        rec.known[i] = (0.0, 0.0, 0.0, 0.0)
        rec.avr.add(i)
        rec.emit("OClone", i, src)
        return res
    patch(G.Group, "clone", clone)

    o_iadd = G.Group.__iadd__

    def iadd(self, other):
        top = rec.depth == 0
        if top:
            dst, src = rec.ensure_new(self), rec.sync(other)
            rec.newdets = []
        rec.depth += 1
        try:
            r = o_iadd(self, other)
        finally:
            rec.depth -= 1
        if top:
            rec.emit("OIadd", dst, src, list(rec.newdets))
            rec.newdets = None
            rec.known[dst] = (float(self.energy_volume), float(self.num_volume), float(self.buried), float(self.energy_local))
        return r
    patch(G.Group, "__iadd__", iadd)

    o_div = G.Group.__truediv__

    def div(self, value):
        top = rec.depth == 0
        if top:
            dst = rec.ensure_new(self)
            rec.emit("ODiv", dst, float(value))
        rec.depth += 1
        try:
            r = o_div(self, value)
        finally:
            rec.depth -= 1
        if top:
            rec.known[dst] = (float(self.energy_volume), float(self.num_volume), float(self.buried), float(self.energy_local))
        return r
    patch(G.Group, "__truediv__", div)

    try:
        yield rec
    finally:
        for (obj, name), old in saved.items():
            if name == "__setattr__":
                try:
                    delattr(obj, name)
                except AttributeError:
                    setattr(obj, name, old)
            else:
                setattr(obj, name, old)


def finalize(rec):
    """sync every group once more so that the final energies are known to the model"""
    for g in list(rec.groups):
        if rec.gidx[id(g)] in rec.registered_new and rec.gidx[id(g)] not in rec.avr:
            rec.sync(g)


# ---------------------------------------------------------------------------------------------- Coq side
def coq_det(d):
    i, key, glab, lab, v = d
    return f"(mkd {i} {key} {glab} {lab} {genval.fhex(v)})"


def coq_op(op):
    fx = genval.fhex
    n = op[0]
    if n == "ONew":
        return f"ONew {op[1]} {op[2]} {op[3]} {fx(op[4])} {'true' if op[5] else 'false'}"
    if n == "OAppend":
        return f"OAppend {op[1]} {KCOQ[op[2]]} {coq_det(op[3])}"
    if n == "OSetDesolv":
        return f"OSetDesolv {op[1]} {fx(op[2])} {fx(op[3])} {fx(op[4])}"
    if n == "OSetLocal":
        return f"OSetLocal {op[1]} {fx(op[2])}"
    if n == "OSetDetValue":
        return f"OSetDetValue {op[1]} {KCOQ[op[2]]} {op[3]} {fx(op[4])}"
    if n == "ORecompute":
        return f"ORecompute {op[1]}"
    if n == "ORemoveLabels":
        return f"ORemoveLabels {op[1]} ([{'; '.join(str(x) for x in op[2])}])%nat"
    if n == "OSwap":
        return f"OSwap {op[1]} {op[2]}"
    if n == "OClone":
        return f"OClone {op[1]} {op[2]}"
    if n == "OIadd":
        return f"OIadd {op[1]} {op[2]} ([{'; '.join(str(x) for x in op[3])}])%nat"
    if n == "ODiv":
        return f"ODiv {op[1]} {fx(op[2])}"
    raise ValueError(op)


PRE = ("From Coq Require Import List ZArith PrimFloat.\nFrom V Require Import Num FloatIO Dets.\nImport ListNotations.\n"
       "Open Scope nat_scope.\nOpen Scope float_scope.\n"
       "Definition mkd (i k gl l : nat) (v : float) : det float := {| d_id := i; d_key := k; d_glabel := gl; d_label := l; d_val := v |}.\n"
       "Definition f3 (x : float) : list Z := let '(a, b, c) := fout x in [a; b; c].\n"
       "Definition rdets (l : list (det float)) : list (list Z) := map (fun d => [Z.of_nat (d_id d); Z.of_nat (d_label d)] ++ f3 (d_val d))%list l.\n"
       "Definition rgrp (g : grp float) : list (list (list Z)) :=\n"
       "  [[f3 (g_pka g); f3 (g_vol g); f3 (g_loc g); f3 (g_buried g); f3 (g_nvol g); [if g_dirty g then 1%Z else 0%Z]]; rdets (g_sc g); rdets (g_bb g); rdets (g_co g)].\n")


def model_final(rec, tag="dets", keep_plain=25):
    """Replay rec.ops in the Coq model; returns per group the rendered final state (None for groups left out).
    Groups that only ever see ONew / ORecompute (backbone groups: hundreds per structure) are left out of the replay except
    for a sample of `keep_plain` of them."""
    n = len(rec.groups)
    busy = set()
    for o in rec.ops:
        if o[0] not in ("ONew", "ORecompute"):
            busy.add(o[1])
            if o[0] in ("OSwap", "OClone", "OIadd"):
                busy.add(o[2])
    plain = [i for i in range(n) if i not in busy]
    keep = busy | set(plain[::max(1, len(plain) // keep_plain)][:keep_plain] if plain else [])
    ops = [o for o in rec.ops if o[1] in keep]
    chunks = [ops[i:i + 400] for i in range(0, len(ops), 400)] or [[]]
    defs = ""
    for ci, ch in enumerate(chunks):
        defs += f"Definition ops{ci} : list (op float) := [" + ";\n ".join(coq_op(o) for o in ch) + "].\n"
    allops = " ++ ".join(f"ops{ci}" for ci in range(len(chunks)))
    pre = PRE + defs + f"Definition final := fold_left step ({allops})%list (@state0 float NumFl).\n"
    idx = sorted(keep)
    res = common.coq_eval(tag, pre, [f"rgrp (final {i}%nat)" for i in idx], shard=100000)
    out = [None] * n
    for i, r in zip(idx, res):
        head, sc, bb, co = r
        vals = [genval.decode_fout(tuple(t)) for t in head[:5]]
        out[i] = {"pka": vals[0], "vol": vals[1], "loc": vals[2], "buried": vals[3], "nvol": vals[4], "dirty": bool(head[5][0]),
                  "dets": {k: [(d[0], d[1], genval.decode_fout(tuple(d[2:5]))) for d in lst] for k, lst in zip(KINDS, (sc, bb, co))}}
    rec.replayed_ops = len(ops)
    return out


def compare(rec, model):
    """differences between the implementation's final state and the replayed model state"""
    snap = rec.snapshot()
    dis = []
    for i, (a, b) in enumerate(zip(snap, model)):
        if a is None or b is None:
            continue
        for f in ("pka", "vol", "loc", "buried", "nvol"):
            if genval.bits(a[f] + 0.0) != genval.bits(b[f] + 0.0):      # (+ 0.0: a negative zero - a fully exposed base has desolvation -0.0 - equals zero)
                dis.append({"group": a["label"], "index": i, "field": f, "impl": a[f], "model": b[f]})
        for k in KINDS:
            la = [(x[0], x[1], genval.bits(x[2] + 0.0)) for x in a["dets"][k]]
            lb = [(x[0], x[1], genval.bits(x[2] + 0.0)) for x in b["dets"][k]]
            if la != lb:
                dis.append({"group": a["label"], "index": i, "field": "dets:" + k, "impl": a["dets"][k], "model": b["dets"][k]})
    for u in rec.unmodelled:
        dis.append({"unmodelled_event": u})
    return dis
