"""Helper for C03: run a list of jobs sequentially in THIS process and print their results as JSON.
usage: python -m vlib.purejob <spec.json>     spec = {"jobs": [{"text": ..., "name": "x.pdb", "opts": [...], "mode": "stream"|"path", "cwd": dir|null}]}"""
import io
import json
import os
import re
import sys


def strip_date(t):
    return "\n".join(l for l in t.splitlines() if not re.search(r"\b\d{4}-\d{2}-\d{2}\b", l))


def run_job(job):
    from vlib import structures
    import propka.run
    import logging
    logging.getLogger("propka").setLevel(logging.ERROR)
    opts = list(job.get("opts", []))
    if "--quiet" not in opts:
        opts.append("--quiet")
    old = os.getcwd()
    try:
        if job.get("cwd"):
            os.chdir(job["cwd"])
        if job.get("mode") == "path":
            mol = propka.run.single(job["path"], optargs=opts, write_pka=False)
        elif job.get("mode") in ("stream-reused", "stream-read-before"):
            st = io.StringIO(job["text"])
            if job["mode"] == "stream-reused":
                propka.run.single(job.get("name", "x.pdb"), optargs=opts, stream=st, write_pka=False)     # first use of the same stream object
            else:
                st.read()                                                                                # the caller has read the stream to its end
            mol = propka.run.single(job.get("name", "x.pdb"), optargs=opts, stream=st, write_pka=False)
        else:
            mol = propka.run.single(job.get("name", "x.pdb"), optargs=opts, stream=io.StringIO(job["text"]), write_pka=False)
    finally:
        os.chdir(old)
    rec = structures.records(mol)
    return {"records": json.loads(json.dumps(rec)), "pka_text": strip_date(structures.pka_text(mol)), "chains": list(mol.conformations["AVR"].chains)}


def main():
    spec = json.load(open(sys.argv[1]))
    out = []
    for job in spec["jobs"]:
        try:
            out.append(run_job(job))
        except Exception as ex:   # noqa: BLE001
            out.append({"error": f"{type(ex).__name__}: {ex}"})
    json.dump(out, sys.stdout)


if __name__ == "__main__":
    main()
