"""Driver: ./check Cxx [--tier ..] [--replay f]  |  ./check --setup"""
import importlib
import sys
import traceback

from . import common


def setup():
    from . import gen
    gen.regenerate_all()
    rc, out = common.coq_make(["all"], timeout=3000)
    print(out[-3000:])
    if rc != 0:
        print("setup: Coq build failed")
        return 1
    rc, out = common.sh(["bash", "-c",
                         r"grep -rnE '\b(Admitted|admit|Axiom|Parameter|Conjecture|Admit Obligations|bypass_check)\b|Unset Guard' "
                         r"lib model proofs props --include=*.v | grep -v '^[^:]*:[0-9]*: *(\*' || true"], cwd=common.COQ)
    if out.strip():
        print("setup: forbidden constructs found:\n" + out)
        return 1
    print("setup: ok")
    return 0


def main():
    argv = sys.argv[1:]
    if not argv:
        print(__doc__)
        return 2
    if argv[0] == "--setup":
        return setup()
    pid = argv[0].upper()
    try:
        mod = importlib.import_module(f"props.{pid.lower()}")
    except ModuleNotFoundError as ex:
        print(f"no check for {pid}: {ex}")
        return 2
    chk = common.Check(pid, argv[1:])
    try:
        from . import gen
        gen.regenerate_all()
        return mod.run(chk)
    except Exception:
        # an internal error of the machinery must never look like a pass
        traceback.print_exc()
        print(f"ERROR property={pid} internal error of the check (not a verdict)")
        return 2


if __name__ == "__main__":
    sys.exit(main())
