"""Regenerates coq/gen/*.v from /repo's working tree (G: generated models, T: generated tables)."""
from . import common


def regenerate_all():
    common.GEN.mkdir(exist_ok=True)
    return []
