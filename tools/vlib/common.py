"""Shared machinery for the per-property checks: Coq builds, Coq evaluation of model
cases, violation / known-finding classification, evidence and replay files."""
import fcntl
import hashlib
import io
import json
import logging
import os
import random
import re
import subprocess
import sys
import time
from pathlib import Path

VERIF = Path(__file__).resolve().parents[2]
REPO = Path(os.environ.get("VERIF_REPO", "/repo"))
COQ = VERIF / "coq"
GEN = COQ / "gen"
QFLAGS = ["-Q", "lib", "V", "-Q", "model", "V", "-Q", "proofs", "V", "-Q", "props", "V", "-Q", "gen", "V",
          "-w", "-notation-overridden,-deprecated-hint-without-locality,-deprecated-instance-without-locality"]
NCPU = os.cpu_count() or 4

AXIOM_NOTES = {
    "ClassicalDedekindReals.sig_forall_dec": "stdlib real numbers (Coq.Reals)",
    "ClassicalDedekindReals.sig_not_dec": "stdlib real numbers (Coq.Reals)",
    "FunctionalExtensionality.functional_extensionality_dep": "stdlib (Coq.Reals depends on it)",
    "Classical_Prop.classic": "stdlib excluded middle (Coq.Reals / Coquelicot)",
}


def sh(cmd, cwd=None, timeout=600, env=None, input=None):
    e = dict(os.environ)
    if env:
        e.update(env)
    try:
        p = subprocess.run(cmd, cwd=cwd, timeout=timeout, env=e, input=input,
                           stdout=subprocess.PIPE, stderr=subprocess.STDOUT, text=True)
        return p.returncode, p.stdout
    except subprocess.TimeoutExpired as ex:
        out = ex.stdout.decode() if isinstance(ex.stdout, bytes) else (ex.stdout or "")
        return 124, out + "\n[timeout after %ss]" % timeout


class Lock:
    """One Coq build at a time (checks may be launched concurrently)."""
    def __init__(self, name="coq.lock"):
        self.path = COQ / ("." + name)
    def __enter__(self):
        self.f = open(self.path, "w")
        fcntl.flock(self.f, fcntl.LOCK_EX)
        return self
    def __exit__(self, *a):
        fcntl.flock(self.f, fcntl.LOCK_UN)
        self.f.close()


def write_if_changed(path: Path, text: str):
    path.parent.mkdir(parents=True, exist_ok=True)
    if path.exists() and path.read_text() == text:
        return False
    path.write_text(text)
    return True


def coq_project_files():
    files = []
    for d in ("lib", "model", "gen", "proofs", "props"):
        files += sorted(str(p.relative_to(COQ)) for p in (COQ / d).glob("*.v"))
    return files


def ensure_makefile():
    """(Re)write _CoqProject from the files present and regenerate the Makefile when it changed."""
    head = ["-Q lib V", "-Q model V", "-Q proofs V", "-Q props V", "-Q gen V",
            "-arg -w -arg -notation-overridden,-deprecated-hint-without-locality,-deprecated-instance-without-locality"]
    text = "\n".join(head + coq_project_files()) + "\n"
    changed = write_if_changed(COQ / "_CoqProject", text)
    if changed or not (COQ / "Makefile").exists():
        rc, out = sh(["coq_makefile", "-f", "_CoqProject", "-o", "Makefile"], cwd=COQ)
        if rc != 0:
            raise RuntimeError("coq_makefile failed:\n" + out)


def coq_make(targets, timeout=900):
    """Full .vo build of the given targets (and their dependencies)."""
    with Lock():
        ensure_makefile()
        rc, out = sh(["make", "-j", str(NCPU), "-k"] + list(targets), cwd=COQ, timeout=timeout)
    return rc, out


def coqc(relpath, timeout=600):
    with Lock():
        rc, out = sh(["coqc"] + QFLAGS + [relpath], cwd=COQ, timeout=timeout)
    return rc, out


_TOK = re.compile(r"\(?(-?\d+)\)?")


def parse_coq_list(text):
    """Parse the printed value of `Eval vm_compute` of type list (option Z) / list Z / list bool
    / nested lists thereof into Python."""
    m = re.search(r"=\s*(.*?)\n\s*:\s", text, re.S)
    if not m:
        raise ValueError("no value in coq output: " + text[:400])
    s = m.group(1)
    s = s.replace("%Z", "").replace("%nat", "").replace("%float", "")
    s = re.sub(r"Some\s+\(?(-?[\w.+-]+)\)?", r'["S",\1]', s)
    s = s.replace("None", '["N"]').replace("true", "True").replace("false", "False")
    s = s.replace(";", ",")
    s = re.sub(r"\((-?\d+)\)", r"\1", s)
    return eval(s, {"__builtins__": {}}, {})  # digits, brackets, commas, True/False only


def coq_eval(tag, preamble, exprs, timeout=900, shard=400):
    """Evaluate Coq expressions (each a string of type list _) with vm_compute; returns the
    concatenated parsed results.  `exprs` is a list of element strings; they are grouped into
    lists of `shard` elements per file and compiled in parallel."""
    cases = GEN / "cases"
    cases.mkdir(parents=True, exist_ok=True)
    files = []
    for i in range(0, len(exprs), shard):
        name = f"{tag}_{i // shard}"
        body = preamble + "\nSet Printing Width 2000000.\nSet Printing Depth 100000000.\n"
        body += "Eval vm_compute in [" + ";\n ".join(exprs[i:i + shard]) + "].\n"
        (cases / (name + ".v")).write_text(body)
        files.append(name)
    results = []
    procs = []
    with Lock():
        for name in files:
            while len([q for q in procs if q[1].poll() is None]) >= NCPU:
                time.sleep(0.05)
            # output goes to a file: with a pipe, more than NCPU large outputs dead-lock (children block on a full pipe while the launcher
            # waits for a child to exit)
            fh = open(cases / (name + ".out"), "w")
            p = subprocess.Popen(["coqc"] + QFLAGS + ["-Q", "gen/cases", "Cases", f"gen/cases/{name}.v"], cwd=COQ,
                                 stdout=fh, stderr=subprocess.STDOUT, text=True)
            procs.append((name, p, fh))
        outs = []
        for name, p, fh in procs:
            try:
                p.wait(timeout=timeout)
                fh.close()
                out = (cases / (name + ".out")).read_text()
            except subprocess.TimeoutExpired:
                p.kill()
                fh.close()
                out = "[timeout]"
            outs.append((name, p.returncode, out))
    for name, rc, out in outs:
        if rc != 0:
            raise RuntimeError(f"coq evaluation of {name} failed:\n{out[:3000]}")
        results += parse_coq_list(out)
    for name in files:
        for suf in (".v", ".vo", ".vok", ".vos", ".glob", ".out"):
            try:
                (cases / (name + suf)).unlink()
            except FileNotFoundError:
                pass
    return results


def coq_str(s):
    """Python str (code points < 256) -> Coq `list Z` literal fed to `map chr`."""
    return "[" + ";".join(str(ord(c)) for c in s) + "]"


def z(n):
    return f"({n})" if n < 0 else str(n)


# ---------------------------------------------------------------------------------------------
class Check:
    def __init__(self, pid, argv=None):
        import argparse
        ap = argparse.ArgumentParser()
        ap.add_argument("--tier", default=os.environ.get("VERIF_TIER", "quick"), choices=["quick", "thorough"])
        ap.add_argument("--replay", default=None)
        ns = ap.parse_args(argv or [])
        self.pid = pid
        self.tier = ns.tier
        self.replay_path = ns.replay
        self.seed = int(os.environ.get("VERIF_SEED", "0") or 0)
        self.replay_signature = None
        if self.replay_path:
            # a replay re-runs the check with the tier and seed recorded in the replay file (same generated inputs) and reports
            # only whether THAT violation (same signature) is observed again
            rp = json.loads(Path(self.replay_path).read_text())
            self.tier = rp.get("tier", self.tier)
            self.seed = int(rp.get("seed", self.seed))
            self.replay_signature = rp.get("signature")
        self.rng = random.Random(self.seed * 1000003 + int(pid[1:]))
        self.t0 = time.time()
        self.obligations = []      # (name, ok, note)
        self.axioms = set()
        self.violations = []       # dicts
        self.known_hits = []
        self.notes = []
        self.cov = {"evaluations": 0, "distinct_nontrivial": 0, "rule": "", "samples": [],
                    "traces_validated_against_impl": 0}
        self.assumptions = []
        self.corr_stats = {}
        self.known = [k for k in json.loads((VERIF / "known_findings.json").read_text())["findings"]
                      if k["property"] == pid]
        self.checker_cmds = []
        self.distinct = set()

    @property
    def thorough(self):
        return self.tier == "thorough"

    # ---- Coq obligations -------------------------------------------------------------------
    def prove(self, props_file=None, deps=()):
        """Build props/<pid>.v (full .vo build of its dependencies first) and record each theorem in
        it as an obligation.  Returns True when every obligation is discharged."""
        props_file = props_file or f"props/{self.pid}.v"
        src = (COQ / props_file).read_text()
        names = re.findall(r"^(?:Theorem|Lemma|Corollary|Example)\s+(\w+)", src, re.M)
        dep_targets = [d.replace(".v", ".vo") for d in deps]
        # models and libraries are also needed by the vm_compute correspondence runs
        dep_targets += [f.replace(".v", ".vo") for f in coq_project_files() if f.split("/")[0] in ("lib", "model", "gen")]
        rc, out = coq_make(dep_targets + [props_file.replace(".v", ".vo")])
        self.checker_cmds.append(f"make -C coq {props_file.replace('.v', '.vo')} && coqc {props_file} (Coq 8.16.1 kernel, full .vo build)")
        if rc != 0:
            # which theorem broke?  find the file/line of the first error
            m = re.search(r'File "\./([^"]+)", line (\d+)', out)
            where = "unknown"
            broken_in_props = []
            if m:
                f, line = m.group(1), int(m.group(2))
                where = f"{f}:{line}"
                text = (COQ / f).read_text().split("\n")
                nm = None
                for ln in text[:line]:
                    mm = re.match(r"^(?:Theorem|Lemma|Corollary|Example|Definition|Fixpoint)\s+(\w+)", ln)
                    if mm:
                        nm = mm.group(1)
                where += f" ({nm})"
                if f == props_file:
                    broken_in_props = [nm]
            err = out[-1500:]
            for n in names:
                # (the error may sit in a Definition between two theorems: everything before that line is checked)
                before = set(re.findall(r"^(?:Theorem|Lemma|Corollary|Example)\s+(\w+)", "\n".join(text[:line]), re.M)) if (m and f == props_file) else set()
                ok = bool(broken_in_props) and n not in broken_in_props and n in before
                self.obligations.append((n, ok, "" if ok else f"not checked: build stopped at {where}"))
            self.broken_obligation = {"where": where, "log_tail": err}
            return False
        # force a fresh compile of the props file to collect Print Assumptions
        rc, out = coqc(props_file)
        if rc != 0:
            for n in names:
                self.obligations.append((n, False, "props file failed: " + out[-300:]))
            self.broken_obligation = {"where": props_file, "log_tail": out[-1500:]}
            return False
        in_ax = False
        for ln in out.split("\n"):
            if ln.startswith("Axioms:"):
                in_ax = True
                continue
            if ln.startswith("Closed under"):
                in_ax = False
                continue
            if in_ax and ln and not ln[0].isspace():
                mm = re.match(r"^([\w.']+)", ln)
                if mm:
                    self.axioms.add(mm.group(1))
        for n in names:
            self.obligations.append((n, True, ""))
        self.props_output = out
        return True

    # ---- classification --------------------------------------------------------------------
    def _is_known(self, signature):
        for k in self.known:
            if k.get("status", "open") == "open" and k["signature"] == signature:
                return k
        return None

    def finding(self, signature, what, replay, no_input=False):
        """A property failure (or a broken obligation/correspondence).  `signature` identifies the
        mechanism and the discriminating facts of the failing input."""
        k = self._is_known(signature)
        if k is not None:
            if signature not in [h["signature"] for h in self.known_hits]:
                self.known_hits.append({"signature": signature, "what": what})
            return "known"
        for v in self.violations:
            if v["signature"] == signature:
                v["count"] += 1
                return "dup"
        self.violations.append({"signature": signature, "what": what, "replay": replay, "no_input": no_input,
                                "count": 1})
        return "new"

    def broken(self, kind, name, detail, search_fn=None):
        """A proof obligation or a correspondence no longer checks.  Runs the search for a concrete
        failing input (search_fn returns a list of (signature, what, replay) or [])."""
        found = []
        if search_fn is not None:
            found = search_fn() or []
        # failing inputs that are listed known findings exist on the unchanged tree as well: they are reported as such, but they do not
        # explain why an obligation stopped checking
        fresh = [f for f in found if self._is_known(f[0]) is None]
        for sig, what, rep in found:
            if self._is_known(sig) is not None:
                self.finding(sig, what, rep)
        if fresh:
            for sig, what, rep in fresh:
                rep = dict(rep)
                rep["broken"] = {"kind": kind, "name": name, "detail": detail}
                self.finding(sig, what, rep)
        else:
            self.finding(f"{kind}:{name}", f"{kind} {name} no longer checks; no failing input found",
                         {"broken": {"kind": kind, "name": name, "detail": detail}}, no_input=True)

    # ---- coverage --------------------------------------------------------------------------
    def count(self, n=1, key=None, nontrivial=True):
        self.cov["evaluations"] += n
        if key is not None and nontrivial:
            self.distinct.add(key if isinstance(key, (str, int, tuple)) else hashlib.sha1(repr(key).encode()).hexdigest())

    def sample(self, s, limit=6):
        if len(self.cov["samples"]) < limit:
            self.cov["samples"].append(s)

    # ---- finish ----------------------------------------------------------------------------
    def finish(self, level="proof", rule="", assumptions=(), trusted=(), extra=None):
        wall = time.time() - self.t0
        nob = len(self.obligations)
        ndis = len([o for o in self.obligations if o[1]])
        cov = dict(self.cov)
        cov["distinct_nontrivial"] = max(cov.get("distinct_nontrivial", 0), len(self.distinct))
        cov["rule"] = rule
        cov["obligations"] = nob
        cov["discharged"] = ndis
        cov["obligation_list"] = [{"name": n, "discharged": ok, **({"note": note} if note else {})}
                                  for n, ok, note in self.obligations]
        cov["checker_cmd"] = "; ".join(dict.fromkeys(self.checker_cmds)) or "none"
        tb = ["Coq 8.16.1 kernel + vm_compute (no native_compute)",
              "axioms reported by Print Assumptions: " + (", ".join(sorted(self.axioms)) if self.axioms else "none (closed under the global context)")]
        tb += list(trusted)
        cov["trusted_base"] = tb
        cov["correspondence"] = self.corr_stats
        cov["known_findings_hit"] = self.known_hits
        if self.notes:
            cov["notes"] = self.notes
        if extra:
            cov.update(extra)
        if not cov["samples"]:
            cov["samples"] = [o[0] for o in self.obligations[:3]] or ["(none)"]
        if ndis < nob and not self.violations and self.replay_signature is None:
            # safety net: an undischarged obligation is always reported, whatever the property's own classification did
            bad = [o[0] for o in self.obligations if not o[1]]
            self.violations.append({"signature": f"proof:undischarged:{bad[0]}", "what": f"obligation {bad[0]} (and {len(bad) - 1} more) not discharged; no failing input found",
                                    "replay": {"broken": {"kind": "proof", "name": bad[0], "detail": getattr(self, "broken_obligation", None), "undischarged": bad}},
                                    "no_input": True, "count": 1})
        if level == "proof" and (ndis < nob or ndis == 0):
            # a proof-level claim needs every obligation discharged; a run on which some are not reports a violation and says so here
            level = "other"
            cov["explanation"] = (f"proof-level check, but only {ndis} of {nob} obligations were discharged on this run; the run reports the "
                                  "broken obligation (with the failing input the search found, if any) as a violation")
        ev = {"property_id": self.pid, "tier": self.tier, "seed": self.seed, "level": level,
              "coverage": cov, "assumptions": list(assumptions), "wall_s": round(wall, 2),
              "violations": len(self.violations)}
        (VERIF / "evidence").mkdir(exist_ok=True)
        (VERIF / "evidence" / f"{self.pid}.json").write_text(json.dumps(ev, indent=1, default=str) + "\n")
        for h in self.known_hits:
            print(f"KNOWN-FINDING: property={self.pid} {h['signature']} :: {h['what']}")
        rc = 0
        (VERIF / "replay").mkdir(exist_ok=True)
        if self.replay_signature is not None:
            hit = [v for v in self.violations if v["signature"] == self.replay_signature]
            for v in hit:
                tail = " no-failing-input-found" if v["no_input"] else ""
                print(f"VIOLATION property={self.pid} replay={self.replay_path}{tail}")
                print(f"  -> {v['what']}"[:600])
            if not hit:
                others = [v["signature"] for v in self.violations]
                print(f"REPLAY property={self.pid} signature={self.replay_signature} not reproduced on the current tree"
                      + (f" (other violations present: {others})" if others else ""))
            sys.stdout.flush()
            return 1 if hit else 0
        for i, v in enumerate(self.violations):
            path = VERIF / "replay" / f"{self.pid}-seed{self.seed}-{i}.json"
            rep = {"property": self.pid, "signature": v["signature"], "what": v["what"], "occurrences": v["count"],
                   "tier": self.tier, "seed": self.seed, "replay_cmd": f"./check {self.pid} --replay {path}"}
            rep.update(v["replay"] or {})
            path.write_text(json.dumps(rep, indent=1, default=str) + "\n")
            tail = " no-failing-input-found" if v["no_input"] else ""
            print(f"VIOLATION property={self.pid} replay={path}{tail}")
            print(f"  -> {v['what']}"[:600])
            rc = 1
        if rc == 0:
            print(f"OK property={self.pid} tier={self.tier} obligations={ndis}/{nob} evaluations={cov['evaluations']} "
                  f"known={len(self.known_hits)} wall={wall:.1f}s")
        sys.stdout.flush()
        return rc


# ---------------------------------------------------------------------------------------------
class LogCapture(logging.Handler):
    def __init__(self):
        super().__init__(level=logging.DEBUG)
        self.records = []
    def emit(self, record):
        if record.levelno >= logging.WARNING:
            try:
                self.records.append(record.getMessage())
            except Exception:
                self.records.append(str(record.msg))


_CAP = None


def impl_setup():
    """Import propka from the working tree of /repo and silence its logging."""
    global _CAP
    sys.path.insert(0, str(REPO))
    os.environ.setdefault("PYTHONHASHSEED", "0")
    import propka  # noqa
    assert Path(propka.__file__).resolve().parent == (REPO / "propka").resolve(), propka.__file__
    if _CAP is None:
        _CAP = LogCapture()
        root = logging.getLogger()
        root.addHandler(_CAP)
        root.setLevel(logging.WARNING)
        logging.getLogger("propka").setLevel(logging.WARNING)
    return propka


def run_propka(pdb_text, optargs=(), name="x.pdb"):
    """Run the real pipeline on PDB text; returns (molecule, warnings)."""
    impl_setup()
    import propka.run
    _CAP.records.clear()
    optargs = list(optargs)
    if "--quiet" not in optargs and "-q" not in optargs and "--log-level" not in optargs:
        optargs.append("--quiet")
    mol = propka.run.single(name, optargs=optargs, stream=io.StringIO(pdb_text), write_pka=False)
    logging.getLogger("propka").setLevel(logging.WARNING)
    for lg in list(logging.Logger.manager.loggerDict.values()):
        if isinstance(lg, logging.Logger) and lg.name.startswith("propka"):
            lg.setLevel(logging.NOTSET if lg.name != "propka" else logging.WARNING)
    return mol, list(_CAP.records)
