"""T: literal tables re-extracted from the sources as Coq data on every run (coq/gen/Tables_gen.v, Cfg_gen.v)."""
import ast

from . import common

KIND = {"_T_MATRIX": "KMatrix", "_T_PAIR_WISE_MATRIX": "KPairMatrix", "_T_NUMBER_DICTIONARY": "KNumDict",
        "_T_LIST_DICTIONARY": "KListDict", "_T_STRING_DICTIONARY": "KStrDict", "_T_STRING_LIST": "KStrList",
        "_T_STRING": "KStr", "_T_BOOL": "KInt", "int": "KInt", "float": "KFloat"}
TABLE_ERRORS = {}


def cstr(s):
    assert all(ord(c) < 256 for c in s), "non 8-bit character in table"
    return '"' + s.replace('"', '""') + '"'


def clist(xs):
    return "[" + "; ".join(xs) + "]"


def param_kinds():
    tree = ast.parse((common.REPO / "propka" / "parameters.py").read_text())
    out = []
    for n in tree.body:
        if isinstance(n, ast.ClassDef) and n.name == "Parameters":
            for m in n.body:
                if isinstance(m, ast.AnnAssign) and isinstance(m.target, ast.Name):
                    a = m.annotation
                    nm = a.id if isinstance(a, ast.Name) else None
                    if nm not in KIND:
                        TABLE_ERRORS[f"annotation:{m.target.id}"] = ast.dump(a)
                        continue
                    out.append((m.target.id, KIND[nm]))
    return out


def group_types():
    """(class name, [type strings assigned in __init__], [residue_type strings])"""
    tree = ast.parse((common.REPO / "propka" / "group.py").read_text())
    out = []
    for n in tree.body:
        if isinstance(n, ast.ClassDef) and any(isinstance(b, ast.Name) and b.id == "Group" for b in n.bases):
            types = []
            for m in ast.walk(n):
                if isinstance(m, ast.Assign) and len(m.targets) == 1 and isinstance(m.targets[0], ast.Attribute) \
                        and isinstance(m.targets[0].value, ast.Name) and m.targets[0].value.id == "self" \
                        and m.targets[0].attr == "type" and isinstance(m.value, ast.Constant):
                    types.append(m.value.value)
            out.append((n.name, types))
    return out


def attr_uses(attrs, kinds=("Load", "fmt")):
    """(file, enclosing function, attribute) of every read of the given attributes in propka/*.py, including
    uses inside format-string constants."""
    import re
    out = set()
    for f in sorted((common.REPO / "propka").glob("*.py")):
        tree = ast.parse(f.read_text())

        def walk(node, fn):
            for ch in ast.iter_child_nodes(node):
                nf = fn
                if isinstance(ch, (ast.FunctionDef, ast.ClassDef)):
                    nf = (fn + "." if fn else "") + ch.name
                if isinstance(ch, ast.Attribute) and ch.attr in attrs and type(ch.ctx).__name__ in kinds:
                    out.add((f.name, nf or "<module>", ch.attr))
                if "fmt" in kinds and isinstance(ch, ast.Constant) and isinstance(ch.value, str):
                    for m in re.findall(r"[{.](" + "|".join(attrs) + r")\b", ch.value):
                        out.add((f.name, nf or "<module>", m))
                walk(ch, nf)
        walk(tree, "")
    return sorted(out)


def flag_writes(attrs=("titratable", "cysteine_bridge", "exclude_cys_from_results")):
    """every assignment to the given attributes in propka/*.py (and every setattr call, which could be one):
    (file, function, attribute, target object, assigned expression, enclosing if-conditions inside the function)"""
    out = []
    for f in sorted((common.REPO / "propka").glob("*.py")):
        tree = ast.parse(f.read_text())

        def walk(node, fn, guards):
            for field, value in ast.iter_fields(node):
                for ch in (value if isinstance(value, list) else [value]):
                    if not isinstance(ch, ast.AST):
                        continue
                    nf, ng = fn, guards
                    if isinstance(ch, (ast.FunctionDef, ast.ClassDef)):
                        nf, ng = (fn + "." if fn else "") + ch.name, ()
                    if isinstance(node, ast.If) and field in ("body", "orelse"):
                        t = ast.unparse(node.test)
                        ng = guards + ((t if field == "body" else f"not ({t})"),)
                    if isinstance(node, (ast.For, ast.While, ast.Try, ast.With)) and field != "body" and field in ("orelse", "finalbody", "handlers"):
                        ng = guards + (f"<{type(node).__name__}.{field}>",)
                    tg = []
                    if isinstance(ch, ast.Assign):
                        tg = [(t, ch.value) for t in ch.targets]
                    elif isinstance(ch, (ast.AugAssign, ast.AnnAssign)) and ch.value is not None:
                        tg = [(ch.target, ch.value)]
                    for t, v in tg:
                        for tt in (t.elts if isinstance(t, (ast.Tuple, ast.List)) else [t]):
                            if isinstance(tt, ast.Attribute) and tt.attr in attrs:
                                val = "<unpacked>" if isinstance(t, (ast.Tuple, ast.List)) else ("<augmented> " if isinstance(ch, ast.AugAssign) else "") + ast.unparse(v)
                                out.append((f.name, nf or "<module>", tt.attr, ast.unparse(tt.value), val, " and ".join(ng)))
                    if isinstance(ch, ast.Call) and isinstance(ch.func, ast.Name) and ch.func.id == "setattr":
                        out.append((f.name, nf or "<module>", "setattr", ast.unparse(ch.args[0]) if ch.args else "",
                                    ast.unparse(ch.args[1]) if len(ch.args) > 1 else "", " and ".join(ng)))
                    if isinstance(ch, ast.Attribute) and ch.attr == "__dict__":
                        out.append((f.name, nf or "<module>", "__dict__", ast.unparse(ch.value), "", " and ".join(ng)))
                    walk(ch, nf, ng)
        walk(tree, "", ())
    return out


def list_mutations(attr="non_covalently_coupled_groups"):
    """every place that can change the list held in attribute `attr`: assignments to it (through flag_writes) and calls of a mutating list
    method on it: (file, function, kind, target, argument / value, enclosing if-conditions)"""
    out = [(f, fn, "assign", tgt, val, g) for (f, fn, a, tgt, val, g) in flag_writes(attrs=(attr,)) if a == attr]
    methods = ("append", "extend", "insert", "remove", "pop", "clear", "sort", "reverse", "__iadd__", "__setitem__", "__delitem__")
    for f in sorted((common.REPO / "propka").glob("*.py")):
        tree = ast.parse(f.read_text())

        def walk(node, fn, guards):
            for field, value in ast.iter_fields(node):
                for ch in (value if isinstance(value, list) else [value]):
                    if not isinstance(ch, ast.AST):
                        continue
                    nf, ng = fn, guards
                    if isinstance(ch, (ast.FunctionDef, ast.ClassDef)):
                        nf, ng = (fn + "." if fn else "") + ch.name, ()
                    if isinstance(node, ast.If) and field in ("body", "orelse"):
                        t = ast.unparse(node.test)
                        ng = guards + ((t if field == "body" else f"not ({t})"),)
                    if isinstance(ch, ast.Call) and isinstance(ch.func, ast.Attribute) and ch.func.attr in methods \
                            and isinstance(ch.func.value, ast.Attribute) and ch.func.value.attr == attr:
                        out.append((f.name, nf or "<module>", ch.func.attr, ast.unparse(ch.func.value), ", ".join(ast.unparse(a) for a in ch.args), " and ".join(ng)))
                    if isinstance(ch, (ast.AugAssign, ast.Delete, ast.Subscript)) and attr in ast.unparse(ch) and isinstance(ch, (ast.AugAssign, ast.Delete)):
                        out.append((f.name, nf or "<module>", type(ch).__name__, ast.unparse(ch)[:60], "", " and ".join(ng)))
                    walk(ch, nf, ng)
        walk(tree, "", ())
    return out


def bridged_sentinel():
    """the value Group.calculate_total_pka assigns when the atom is bridged: the function must BEGIN with
    `if self.atom.cysteine_bridge: self.pka_value = <constant>; return`"""
    from fractions import Fraction
    tree = ast.parse((common.REPO / "propka" / "group.py").read_text())
    for n in ast.walk(tree):
        if isinstance(n, ast.FunctionDef) and n.name == "calculate_total_pka":
            body = [b for b in n.body if not (isinstance(b, ast.Expr) and isinstance(b.value, ast.Constant))]
            b0 = body[0] if body else None
            if isinstance(b0, ast.If) and ast.unparse(b0.test) == "self.atom.cysteine_bridge" and len(b0.body) == 2 and not b0.orelse \
                    and isinstance(b0.body[0], ast.Assign) and ast.unparse(b0.body[0].targets[0]) == "self.pka_value" \
                    and isinstance(b0.body[0].value, ast.Constant) and isinstance(b0.body[0].value.value, (int, float)) \
                    and isinstance(b0.body[1], ast.Return) and b0.body[1].value is None:
                return Fraction(repr(b0.body[0].value.value))
    TABLE_ERRORS["bridged_sentinel"] = "calculate_total_pka does not begin with the bridged-cysteine early return"
    return None


def global_object_events():
    """Classes instantiated at module level or in class bodies (process-global objects: NCCG, PROTONATOR, descriptors ...) and, for each of
    their methods, the ordered accesses of `self.<attr>`: R (load), W (store / augmented store), M (store into self.<attr>[...]).
    -> (list of (holder, variable, class), list of (class, method, [(attr, kind)]))"""
    holders = []
    classes = {}
    for f in sorted((common.REPO / "propka").glob("*.py")):
        tree = ast.parse(f.read_text())

        def ctor_name(v):
            if isinstance(v, ast.Call):
                fn = v.func
                if isinstance(fn, ast.Name):
                    return fn.id
                if isinstance(fn, ast.Attribute):
                    return fn.attr
            return None
        for n in tree.body:
            if isinstance(n, ast.Assign) and len(n.targets) == 1 and isinstance(n.targets[0], ast.Name) and ctor_name(n.value):
                holders.append((f.name, n.targets[0].id, ctor_name(n.value)))
            if isinstance(n, ast.ClassDef):
                classes[n.name] = (f.name, n)
                for m in n.body:
                    if isinstance(m, ast.Assign) and len(m.targets) == 1 and isinstance(m.targets[0], ast.Name) and ctor_name(m.value):
                        holders.append((f.name, n.name + "." + m.targets[0].id, ctor_name(m.value)))
    holders = [h for h in holders if h[2] in classes]
    events = []
    for cname in sorted({h[2] for h in holders}):
        _, node = classes[cname]
        for m in node.body:
            if not isinstance(m, (ast.FunctionDef,)):
                continue
            if not m.args.args or m.args.args[0].arg != "self":
                continue
            ev = []
            for x in ast.walk(m):
                if isinstance(x, ast.Attribute) and isinstance(x.value, ast.Name) and x.value.id == "self":
                    kind = "W" if isinstance(x.ctx, (ast.Store, ast.Del)) else "R"
                    ev.append((x.lineno, x.col_offset, x.attr, kind))
                if isinstance(x, ast.Subscript) and isinstance(x.ctx, (ast.Store, ast.Del)) and isinstance(x.value, ast.Attribute) \
                        and isinstance(x.value.value, ast.Name) and x.value.value.id == "self":
                    ev.append((x.lineno, x.col_offset - 1, x.value.attr, "M"))
                if isinstance(x, ast.AugAssign) and isinstance(x.target, ast.Attribute) and isinstance(x.target.value, ast.Name) and x.target.value.id == "self":
                    ev.append((x.lineno, x.col_offset, x.target.attr, "W"))
                # setattr(self, ...) / self.__dict__ tricks: recorded as a write of the pseudo attribute '*'
                if isinstance(x, ast.Call) and isinstance(x.func, ast.Name) and x.func.id == "setattr" and x.args and isinstance(x.args[0], ast.Name) and x.args[0].id == "self":
                    ev.append((x.lineno, x.col_offset, "*", "W"))
            ev.sort()
            # assignments evaluate the right-hand side first: order a store after the loads of the same statement line
            events.append((cname, m.name, [(a, k) for _, _, a, k in sorted(ev, key=lambda t: (t[0], 0 if t[3] == "R" else 1, t[1]))]))
    return sorted(holders), events


def hidden_state_sites():
    """other places where state could survive a run: mutable default arguments, cache decorators, module-level containers mutated inside
    functions, `global` statements, class attributes stored through the class name  ->  [(kind, file, function, name)]"""
    out = []
    MUT = ("append", "extend", "update", "add", "pop", "clear", "remove", "insert", "setdefault", "popitem", "discard", "sort", "reverse")
    CONT = ("dict", "list", "set", "defaultdict", "OrderedDict", "Counter", "deque")
    for f in sorted((common.REPO / "propka").glob("*.py")):
        tree = ast.parse(f.read_text())
        modnames, classes = set(), set()
        for n in tree.body:
            if isinstance(n, (ast.Assign, ast.AnnAssign)):
                tgts = n.targets if isinstance(n, ast.Assign) else [n.target]
                v = n.value
                if v is not None and (isinstance(v, (ast.Dict, ast.List, ast.Set, ast.ListComp, ast.DictComp, ast.SetComp))
                                      or (isinstance(v, ast.Call) and isinstance(v.func, ast.Name) and v.func.id in CONT)):
                    modnames.update(t.id for t in tgts if isinstance(t, ast.Name))
            if isinstance(n, ast.ClassDef):
                classes.add(n.name)
        for fn in ast.walk(tree):
            if not isinstance(fn, (ast.FunctionDef, ast.AsyncFunctionDef)):
                continue
            for d in fn.args.defaults + [x for x in fn.args.kw_defaults if x is not None]:
                if isinstance(d, (ast.Dict, ast.List, ast.Set)) or (isinstance(d, ast.Call) and isinstance(d.func, ast.Name) and d.func.id in CONT):
                    out.append(("mutable-default", f.name, fn.name, ""))
            for dec in fn.decorator_list:
                nm = dec.func if isinstance(dec, ast.Call) else dec
                nm = nm.attr if isinstance(nm, ast.Attribute) else getattr(nm, "id", "")
                if nm in ("lru_cache", "cache", "cached_property"):
                    out.append(("cache-decorator", f.name, fn.name, nm))
            for x in ast.walk(fn):
                if isinstance(x, (ast.Global, ast.Nonlocal)):
                    out.append(("global-statement", f.name, fn.name, ",".join(x.names)))
                if isinstance(x, ast.Subscript) and isinstance(x.ctx, (ast.Store, ast.Del)) and isinstance(x.value, ast.Name) and x.value.id in modnames:
                    out.append(("container-mutation", f.name, fn.name, x.value.id))
                if isinstance(x, ast.Call) and isinstance(x.func, ast.Attribute) and x.func.attr in MUT and isinstance(x.func.value, ast.Name) and x.func.value.id in modnames:
                    out.append(("container-mutation", f.name, fn.name, x.func.value.id))
                if isinstance(x, ast.Attribute) and isinstance(x.ctx, ast.Store) and isinstance(x.value, ast.Name) and x.value.id in classes:
                    out.append(("class-attribute-store", f.name, fn.name, x.value.id + "." + x.attr))
    return sorted(set(out))


def exception_dispatch():
    """energy.check_exceptions: the if/elif chain as rows (type1, type2, callee, swapped?)"""
    tree = ast.parse((common.REPO / "propka" / "energy.py").read_text())
    fn = next((n for n in tree.body if isinstance(n, ast.FunctionDef) and n.name == "check_exceptions"), None)
    rows = []
    if fn is None:
        TABLE_ERRORS["check_exceptions"] = "function not found"
        return rows

    def pairs(test):
        """(t1, t2) combinations a test accepts: (a and b) or (c and d) ..."""
        out = []
        terms = test.values if isinstance(test, ast.BoolOp) and isinstance(test.op, ast.Or) else [test]
        for t in terms:
            vs = t.values if isinstance(t, ast.BoolOp) and isinstance(t.op, ast.And) else None
            if not vs or len(vs) != 2:
                raise ValueError("unexpected test shape")
            d = {}
            for c in vs:
                if not (isinstance(c, ast.Compare) and isinstance(c.left, ast.Name) and isinstance(c.ops[0], ast.Eq) and isinstance(c.comparators[0], ast.Constant)):
                    raise ValueError("unexpected comparison")
                d[c.left.id] = c.comparators[0].value
            out.append((d["res_type1"], d["res_type2"]))
        return out
    node = next((n for n in fn.body if isinstance(n, ast.If)), None)
    try:
        while isinstance(node, ast.If):
            call = node.body[0].value
            callee = call.func.id
            swapped = [a.id for a in call.args[:2]] == ["group2", "group1"]
            for a, b in pairs(node.test):
                rows.append((a, b, callee, swapped))
            node = node.orelse[0] if len(node.orelse) == 1 and isinstance(node.orelse[0], ast.If) else None
    except (ValueError, AttributeError, KeyError, IndexError) as ex:
        TABLE_ERRORS["check_exceptions"] = f"unexpected shape: {ex}"
    return rows


def bonds_tables():
    """offsets literal of find_bonds_for_atoms_using_boxes, distance constants and the distances dict of BondMaker"""
    import fractions
    tree = ast.parse((common.REPO / "propka" / "bonds.py").read_text())
    consts = {}
    for n in tree.body:
        if isinstance(n, ast.Assign) and len(n.targets) == 1 and isinstance(n.targets[0], ast.Name) \
                and isinstance(n.value, ast.Constant) and isinstance(n.value.value, (int, float)):
            consts[n.targets[0].id] = fractions.Fraction(str(n.value.value))
    offsets = None
    special = None
    for n in ast.walk(tree):
        if isinstance(n, ast.FunctionDef) and n.name == "find_bonds_for_atoms_using_boxes":
            for m in ast.walk(n):
                if isinstance(m, ast.For) and isinstance(m.iter, ast.List) and all(isinstance(e, ast.Tuple) and len(e.elts) == 3 for e in m.iter.elts):
                    try:
                        offsets = [tuple(ast.literal_eval(x) for x in e.elts) for e in m.iter.elts]
                    except Exception as ex:
                        TABLE_ERRORS["offsets"] = str(ex)
        if isinstance(n, ast.FunctionDef) and n.name == "__init__":
            for m in ast.walk(n):
                if isinstance(m, ast.Assign) and len(m.targets) == 1 and isinstance(m.targets[0], ast.Attribute) \
                        and m.targets[0].attr == "distances" and isinstance(m.value, ast.Dict):
                    special = []
                    for k, v in zip(m.value.keys, m.value.values):
                        if isinstance(k, ast.Constant) and isinstance(v, ast.Name) and v.id in consts:
                            special.append((k.value, consts[v.id]))
                        else:
                            TABLE_ERRORS["distances"] = ast.dump(m.value)[:200]
    if offsets is None:
        TABLE_ERRORS["offsets"] = "offsets literal not found"
        offsets = []
    if special is None:
        TABLE_ERRORS["distances"] = "self.distances literal not found"
        special = []
    return consts, offsets, special


def regenerate():
    TABLE_ERRORS.clear()
    written = []
    consts, offsets, special = bonds_tables()
    q = lambda fr: f"({fr.numerator} # {fr.denominator})"
    bt = ["(* GENERATED by tools/vlib/tables.py from propka/bonds.py - do not edit *)",
          "From Coq Require Import String List ZArith QArith.", "Import ListNotations.", "Open Scope string_scope.", "",
          "Definition offsets : list (Z * Z * Z) :=\n  " + clist([f"(({a})%Z, ({b})%Z, ({c})%Z)" for a, b, c in offsets]) + ".",
          "Definition bond_consts : list (string * Q) :=\n  " + clist([f"({cstr(k)}, {q(v)})" for k, v in sorted(consts.items())]) + ".",
          "Definition special_distances : list (string * Q) :=\n  " + clist([f"({cstr(k)}, {q(v)})" for k, v in special]) + ".", ""]
    # element symbols known to the protonator (keys of Protonate.valence_electrons)
    elems = []
    ptree = ast.parse((common.REPO / "propka" / "protonate.py").read_text())
    for n in ast.walk(ptree):
        if isinstance(n, ast.Assign) and len(n.targets) == 1 and isinstance(n.targets[0], ast.Attribute) \
                and n.targets[0].attr == "valence_electrons" and isinstance(n.value, ast.Dict):
            elems = [k.value for k in n.value.keys if isinstance(k, ast.Constant)]
    if not elems:
        TABLE_ERRORS["valence_electrons"] = "literal not found"
    bt.insert(-1, "Definition known_elements : list string :=\n  " + clist([cstr(e) for e in elems]) + ".")
    if common.write_if_changed(common.GEN / "Bonds_gen.v", "\n".join(bt) + "\n"):
        written.append("Bonds_gen")
    inv = ["(* GENERATED by tools/vlib/tables.py: inventories of attribute readers in propka/*.py - do not edit *)",
           "From Coq Require Import String List.", "Import ListNotations.", "Open Scope string_scope.", "",
           "(* every read (incl. format strings) of the atom attributes numb / occ / beta *)",
           "Definition serial_occ_beta_readers : list (string * string * string) :=\n  "
           + clist([f"({cstr(a)}, {cstr(b)}, {cstr(c)})" for a, b, c in attr_uses(("numb", "occ", "beta"))]) + ".", "",
           "(* every read (incl. format strings) of the residue-identifying attributes *)",
           "Definition residue_identity_reads : list (string * string * string) :=\n  "
           + clist([f"({cstr(a)}, {cstr(b)}, {cstr(c)})" for a, b, c in attr_uses(("chain_id", "res_num", "icode", "residue_label", "label"))]) + ".", ""]
    # constants of ConformationContainer.sort_atoms_key
    ctree = ast.parse((common.REPO / "propka" / "conformation_container.py").read_text())
    skc = []
    for n in ctree.body:
        if isinstance(n, ast.Assign) and len(n.targets) == 1 and isinstance(n.targets[0], ast.Name) and n.targets[0].id in ("UNICODE_MULTIPLIER", "RESIDUE_MULTIPLIER") \
                and isinstance(n.value, ast.Constant) and float(n.value.value) == int(float(n.value.value)):
            skc.append((n.targets[0].id, int(float(n.value.value))))
    if len(skc) != 2:
        TABLE_ERRORS["sort_key_constants"] = "UNICODE_MULTIPLIER / RESIDUE_MULTIPLIER not found as integral literals"
    inv += ["From Coq Require Import ZArith.", "Definition sort_key_constants : list (string * Z) :=\n  " + clist([f"({cstr(k)}, {v}%Z)" for k, v in skc]) + ".", ""]
    inv += ["(* energy.check_exceptions: (type1, type2, callee, arguments swapped) for every accepted pair of group types *)",
            "Definition exception_dispatch : list (string * string * string * bool) :=\n  "
            + clist([f"({cstr(a)}, {cstr(b)}, {cstr(c)}, {'true' if sw else 'false'})" for a, b, c, sw in exception_dispatch()]) + ".", ""]
    inv += ["(* further places where state could survive a run: (kind, file, function, name) *)",
            "Definition hidden_state_sites : list (string * string * string * string) :=\n  "
            + clist([f"({cstr(a)}, {cstr(b)}, {cstr(c)}, {cstr(d)})" for a, b, c, d in hidden_state_sites()]) + ".", ""]
    inv += ["(* every assignment to the titration flags and to the bridge flag: (file, function, attribute, target, value, guards) *)",
            "Definition flag_writes : list (string * string * string * string * string * string) :=\n  "
            + clist(["(" + ", ".join(cstr(x) for x in row) + ")" for row in flag_writes()]) + ".", ""]
    inv += ["(* every place that can change a group's list of non-covalently coupled partners: (file, function, kind, target, argument, guards) *)",
            "Definition coupling_writes : list (string * string * string * string * string * string) :=\n  "
            + clist(["(" + ", ".join(cstr(x) for x in row) + ")" for row in list_mutations()]) + ".", ""]
    bs = bridged_sentinel()
    inv += ["From Coq Require Import QArith.", "(* pKa value Group.calculate_total_pka reports for a bridged cysteine (early return at the top of the function) *)",
            "Definition bridged_pka_sentinel : option Q := " + (f"Some (Qmake ({bs.numerator})%Z {bs.denominator}%positive)" if bs is not None else "None") + ".", ""]
    holders, events = global_object_events()
    inv += ["(* process-global objects (module-level / class-level instances of propka classes) and the self-attribute accesses of their methods *)",
            "Definition global_objects : list (string * string * string) :=\n  " + clist([f"({cstr(a)}, {cstr(b)}, {cstr(c)})" for a, b, c in holders]) + ".",
            "Definition global_object_events : list (string * string * list (string * string)) :=\n  "
            + clist([f"({cstr(c)}, {cstr(m)}, {clist([f'({cstr(a)}, {cstr(k)})' for a, k in ev])})" for c, m, ev in events]) + ".", ""]
    if common.write_if_changed(common.GEN / "Inventory_gen.v", "\n".join(inv) + "\n"):
        written.append("Inventory_gen")
    # electron-counting tables of the protonator and of the bond maker (dict literals assigned to self.<name> in __init__)
    def self_dicts(path, names):
        out = {}
        for n in ast.walk(ast.parse((common.REPO / "propka" / path).read_text())):
            if isinstance(n, ast.Assign) and len(n.targets) == 1 and isinstance(n.targets[0], ast.Attribute) and n.targets[0].attr in names \
                    and isinstance(n.value, ast.Dict):
                try:
                    out[n.targets[0].attr] = list(ast.literal_eval(n.value).items())
                except ValueError:
                    TABLE_ERRORS[n.targets[0].attr] = "non-literal entry"
        for nm in names:
            if nm not in out:
                TABLE_ERRORS[nm] = "dict literal not found"
        return out
    pd = self_dicts("protonate.py", ("valence_electrons", "standard_charges", "bond_lengths"))
    bd = self_dicts("bonds.py", ("num_pi_elec_bonds_backbone", "num_pi_elec_conj_bonds_backbone", "num_pi_elec_bonds_sidechains", "num_pi_elec_conj_bonds_sidechains"))
    zl = lambda kv: clist([f"({cstr(k)}, ({int(v)})%Z)" for k, v in kv if float(v) == int(float(v))])
    pt = ["(* GENERATED by tools/vlib/tables.py from propka/protonate.py and propka/bonds.py - do not edit *)",
          "From Coq Require Import String List ZArith.", "Import ListNotations.", "Open Scope string_scope.", "",
          "Definition valence_electrons : list (string * Z) :=\n  " + zl(pd.get("valence_electrons", [])) + ".",
          "Definition standard_charges : list (string * Z) :=\n  " + zl(pd.get("standard_charges", [])) + ".",
          "Definition pi_backbone : list (string * Z) :=\n  " + zl(bd.get("num_pi_elec_bonds_backbone", [])) + ".",
          "Definition piconj_backbone : list (string * Z) :=\n  " + zl(bd.get("num_pi_elec_conj_bonds_backbone", [])) + ".",
          "Definition pi_sidechains : list (string * Z) :=\n  " + zl(bd.get("num_pi_elec_bonds_sidechains", [])) + ".",
          "Definition piconj_sidechains : list (string * Z) :=\n  " + zl(bd.get("num_pi_elec_conj_bonds_sidechains", [])) + ".", "",
          "(* X-H bond lengths of the protonator in 1/100 Angstrom *)",
          "Definition bond_lengths_centi : list (string * Z) :=\n  "
          + clist([f"({cstr(k)}, ({int(round(float(v) * 100))})%Z)" for k, v in pd.get("bond_lengths", []) if abs(float(v) * 100 - round(float(v) * 100)) < 1e-9]) + ".", ""]
    if common.write_if_changed(common.GEN / "Protonate_gen.v", "\n".join(pt) + "\n"):
        written.append("Protonate_gen")
    cfg = (common.REPO / "propka" / "propka.cfg").read_text()
    lines = cfg.split("\n")
    body = ["(* GENERATED by tools/vlib/tables.py from propka/propka.cfg, parameters.py, group.py - do not edit *)",
            "From Coq Require Import String List.", "From V Require Import Params.", "Import ListNotations.",
            "Open Scope string_scope.", "",
            "Definition cfg_text : list string :=\n  " + clist([cstr(l) for l in lines]).replace("; ", ";\n   ") + ".", "",
            "Definition param_kinds : dict kind :=\n  " + clist([f"({cstr(k)}, {v})" for k, v in param_kinds()]) + ".", "",
            "Definition group_classes : list (string * list string) :=\n  "
            + clist([f"({cstr(c)}, {clist([cstr(t) for t in ts])})" for c, ts in group_types()]) + ".", ""]
    if common.write_if_changed(common.GEN / "Cfg_gen.v", "\n".join(body) + "\n"):
        written.append("Cfg_gen")
    return written
