"""T: literal tables re-extracted from the sources as Coq data (filled in per property)."""
from . import common


def regenerate():
    return []
