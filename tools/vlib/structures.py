"""Structure library shared by the correspondences and oracles: reading the test PDBs, running the real
pipeline on text, canonical result records, and editors (relabel, move, delete, alt-loc, models, ...)."""
import io
import math
from decimal import Decimal
from pathlib import Path

from . import common

PDBDIR = common.REPO / "tests" / "pdb"
ALL_PDBS = ["1FTJ-Chain-A.pdb", "1HPX.pdb", "3SGB.pdb", "3SGB-subset.pdb", "4DFR.pdb", "1HPX-warn.pdb",
            "sample-issue-140.pdb", "conf-alt-AB.pdb", "conf-alt-AB-mutant.pdb", "conf-alt-BC.pdb",
            "conf-model-missing-atoms.pdb", "conf-model-mutant.pdb"]


def read(name):
    return (PDBDIR / name).read_text()


def is_atom(line):
    return line[:6] in ("ATOM  ", "HETATM")


def atom_lines(text):
    return [l for l in text.splitlines() if is_atom(l)]


# ---------------------------------------------------------------------------------------------
def run(text, optargs=(), name="x.pdb"):
    mol, warns = common.run_propka(text, optargs, name)
    return mol, warns


def group_record(g, full=True):
    rec = {
        "label": g.label, "type": g.type, "residue_type": g.residue_type,
        "pka": g.pka_value, "model_pka": g.model_pka, "charge": g.charge, "titratable": bool(g.titratable),
        "vol": g.energy_volume, "nvol": g.num_volume, "loc": g.energy_local, "buried": g.buried,
        "coupled": sorted(x.label for x in g.non_covalently_coupled_groups),
        "penalised_by": g.coupled_titrating_group.label if g.coupled_titrating_group else None,
        "use": bool(g.use_in_calculations()),
    }
    if full:
        rec["dets"] = {t: [(d.label, d.value) for d in g.determinants[t]] for t in ("sidechain", "backbone", "coulomb")}
    return rec


def records(mol, full=True, confs=None):
    out = {}
    for name in (confs or (list(mol.conformation_names) + ["AVR"])):
        c = mol.conformations[name]
        out[name] = [group_record(g, full) for g in c.groups]
    return out


def results(text, optargs=(), full=True, sort_dets=False):
    """Canonical results of a run: per conformation (and AVR) the list of group records."""
    mol, _ = run(text, optargs)
    rec = records(mol, full)
    if sort_dets:
        for c in rec.values():
            for g in c:
                for t in g.get("dets", {}):
                    g["dets"][t] = sorted(g["dets"][t])
    return rec


def diff(a, b, tol=0.0):
    """List of differences between two result records."""
    out = []
    if a.keys() != b.keys():
        out.append(("conformations", sorted(a.keys()), sorted(b.keys())))
    for c in a:
        if c not in b:
            continue
        if len(a[c]) != len(b[c]):
            out.append((c, "ngroups", len(a[c]), len(b[c])))
            continue
        for ga, gb in zip(a[c], b[c]):
            for k in ga:
                va, vb = ga[k], gb.get(k)
                if not _eq(va, vb, tol):
                    out.append((c, ga["label"], k, va, vb))
    return out


def _eq(a, b, tol):
    if isinstance(a, float) and isinstance(b, (int, float)):
        return a == b or (tol > 0 and abs(a - b) <= tol) or (a != a and b != b)
    if isinstance(a, dict) and isinstance(b, dict):
        return a.keys() == b.keys() and all(_eq(a[k], b[k], tol) for k in a)
    if isinstance(a, (list, tuple)) and isinstance(b, (list, tuple)):
        return len(a) == len(b) and all(_eq(x, y, tol) for x, y in zip(a, b))
    return a == b


def pka_text(mol, **kw):
    """Text of the .pka file (without touching the file system beyond a temp file)."""
    import tempfile, os
    fd, path = tempfile.mkstemp(suffix=".pka", dir="/var/tmp")
    os.close(fd)
    try:
        # MolecularContainer.write_pka renames the file for -d / output tags; call the writer itself
        import propka.output
        propka.output.write_pka(mol, mol.version.parameters, filename=path, conformation="AVR",
                                reference=kw.get("reference", "neutral"), verbose=False)
        return Path(path).read_text()
    finally:
        os.unlink(path)


# ---------------------------------------------------------------------------------------------
# line editors (fixed columns)
def get_xyz(line):
    return Decimal(line[30:38].strip()), Decimal(line[38:46].strip()), Decimal(line[46:54].strip())


def set_xyz(line, x, y, z):
    line = line.rstrip("\n").ljust(54)
    f = f"{x:8.3f}{y:8.3f}{z:8.3f}"
    if len(f) != 24:
        raise ValueError(f"coordinate leaves the 8-column PDB field: {(x, y, z)} (harness error, not a verdict)")
    return line[:30] + f + line[54:]


def map_atoms(text, fn):
    """Apply fn(line)->line|None to every ATOM/HETATM line."""
    out = []
    for l in text.splitlines():
        if is_atom(l):
            l = fn(l)
            if l is None:
                continue
        out.append(l)
    return "\n".join(out) + "\n"


ROT24 = None


def rotations24():
    """The 24 proper rotations that permute the axes (signed permutation matrices, det +1)."""
    global ROT24
    if ROT24 is None:
        import itertools
        mats = []
        for perm in itertools.permutations(range(3)):
            for signs in itertools.product((1, -1), repeat=3):
                m = [[0] * 3 for _ in range(3)]
                for i in range(3):
                    m[i][perm[i]] = signs[i]
                det = (m[0][0] * (m[1][1] * m[2][2] - m[1][2] * m[2][1]) - m[0][1] * (m[1][0] * m[2][2] - m[1][2] * m[2][0])
                       + m[0][2] * (m[1][0] * m[2][1] - m[1][1] * m[2][0]))
                if det == 1:
                    mats.append(m)
        ROT24 = mats
    return ROT24


def move(text, rot=None, shift=(0, 0, 0)):
    """Exact rigid motion on the 0.001 A grid (Decimal arithmetic)."""
    sx, sy, sz = (Decimal(str(s)) for s in shift)

    def f(l):
        x, y, z = get_xyz(l)
        if rot is not None:
            v = (x, y, z)
            x, y, z = (sum(Decimal(rot[i][j]) * v[j] for j in range(3)) for i in range(3))
        return set_xyz(l, x + sx, y + sy, z + sz)
    return map_atoms(text, f)


def bbox(text):
    xs = [get_xyz(l) for l in atom_lines(text)]
    return [(min(float(v[i]) for v in xs), max(float(v[i]) for v in xs)) for i in range(3)]


def set_chain(line, c):
    return line[:21] + c + line[22:]


def set_resnum(line, n, icode=" "):
    return line[:22] + f"{n:>4d}" + icode + line[27:]


def residues(text):
    """Ordered list of (chain, resnum-field, icode, resname) residue runs with their line indices."""
    out = []
    last = None
    for i, l in enumerate(text.splitlines()):
        if not is_atom(l):
            if l[:3] in ("TER", "MOD", "END"):
                last = None
            continue
        key = (l[21], l[22:26], l[26:27], l[17:20], l[:6])
        if key != last:
            out.append({"chain": l[21], "num": l[22:26], "icode": l[26:27], "name": l[17:20], "tag": l[:6], "lines": []})
            last = key
        out[-1]["lines"].append(i)
    return out


def fragment(text, first, last):
    """Residue-window fragment (residue run indices first..last inclusive) keeping TER records inside."""
    res = residues(text)
    keep = set()
    for r in res[first:last + 1]:
        keep.update(r["lines"])
    lo, hi = min(keep), max(keep)
    out = []
    for i, l in enumerate(text.splitlines()):
        if i in keep or (lo < i < hi and l[:3] == "TER"):
            out.append(l)
    return "\n".join(out) + "\nEND\n"


ISOSTERIC = {"ASP": ("ASN", {"OD2": "ND2"}), "GLU": ("GLN", {"OE2": "NE2"}), "ASN": ("ASP", {"ND2": "OD2"}), "GLN": ("GLU", {"NE2": "OE2"})}


def altloc_point_mutant(text, res_pred, first="titratable", tags=("A", "B")):
    """Alt-loc point mutant: the first residue satisfying res_pred(residue dict) of type ASP/GLU gets two alternate
    locations, one with the original residue and one with its isosteric amide (ASN/GLN).  first='titratable' puts the acid
    in the first tag.  Returns (text, description) or (None, None)."""
    lines = text.splitlines()
    for r in residues(text):
        if r["name"] in ("ASP", "GLU") and r["tag"] == "ATOM  " and res_pred(r):
            new_name, ren = ISOSTERIC[r["name"]]
            orig = [lines[i] for i in r["lines"]]
            mut = []
            for l in orig:
                nm = l[12:16].strip()
                nm2 = ren.get(nm, nm)
                name_field = (" " + nm2.ljust(3)) if len(nm2) < 4 else nm2
                mut.append(l[:12] + name_field + l[16:17] + new_name + l[20:])
            a = [l[:16] + tags[0] + l[17:] for l in (orig if first == "titratable" else mut)]
            b = [l[:16] + tags[1] + l[17:] for l in (mut if first == "titratable" else orig)]
            out = lines[:r["lines"][0]] + a + b + lines[r["lines"][-1] + 1:]
            return "\n".join(out) + "\n", f"{r['name']}{r['num'].strip()}{r['chain']} alt {tags[0]}={'acid' if first == 'titratable' else 'amide'} {tags[1]}={'amide' if first == 'titratable' else 'acid'}"
    return None, None


def as_models(texts):
    """several structures as MODEL 1..n of one file"""
    out = []
    for i, t in enumerate(texts):
        out.append(f"MODEL     {i + 1:>4d}")
        out += [l for l in t.splitlines() if l[:3] not in ("END", "MOD")]
        out.append("ENDMDL")
    return "\n".join(out) + "\nEND\n"


def truncated_side_chains(text, skip=1):
    """a poorly resolved structure: of the (skip+1)-th ASP, GLU, ARG, HIS of the ATOM records the atoms beyond the group-defining atom are
    removed (carboxyl oxygens, guanidinium nitrogens, two ring atoms); the defining atoms CG / CD / CZ / ring stay. -> (text, [residue descriptions])"""
    drop = {"ASP": ("OD1", "OD2"), "GLU": ("OE1", "OE2"), "ARG": ("NE", "NH1", "NH2"), "HIS": ("CE1", "NE2")}
    seen, chosen = {}, {}
    for r in residues(text):
        if r["tag"] == "ATOM  " and r["name"] in drop:
            seen[r["name"]] = seen.get(r["name"], 0) + 1
            if seen[r["name"]] == skip + 1:
                chosen[(r["chain"], r["num"], r["icode"])] = r["name"]
    out = []
    for l in text.splitlines():
        if is_atom(l) and (l[21], l[22:26], l[26]) in chosen and l[12:16].strip() in drop[chosen[(l[21], l[22:26], l[26])]]:
            continue
        out.append(l)
    return "\n".join(out) + "\n", [f"{v}{k[1].strip()}{k[0]}" for k, v in chosen.items()]
