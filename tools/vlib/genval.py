"""Validation of generated models (G) against the implementation:
 (a) the translator's IR, evaluated in Python floats, must equal the real function bit for bit;
 (b) for functions free of transcendental members the generated Coq text, instantiated at PrimFloat and run
     with vm_compute, must equal the real function bit for bit."""
import math
import struct

from . import common, gen, py2coq as P


def bits(x):
    if isinstance(x, bool):
        return ("b", x)
    if isinstance(x, (tuple, list)):
        return tuple(bits(v) for v in x)
    if isinstance(x, dict):
        return tuple(bits(v) for v in x.values())
    x = float(x)
    if x != x:
        return ("nan",)
    return struct.pack(">d", x)


def fhex(x):
    x = float(x)
    if x != x:
        return "nan"
    if x in (math.inf, -math.inf):
        return "infinity" if x > 0 else "neg_infinity"
    h = x.hex()
    return f"({h})" if h.startswith("-") else h


def decode_fout(t):
    k, a, b = t
    if k == 0:
        return -0.0 if a else 0.0
    if k == 1:
        return -math.inf if a else math.inf
    if k == 2:
        return math.nan
    if k == 3:
        return math.ldexp(a, b)
    if k == 4:
        return bool(a)
    raise ValueError(t)


def uses_transcendental(ir, mod):
    if not isinstance(ir, tuple):
        return False
    if ir[0] == "pi":
        return True
    if ir[0] == "fn" and ir[1] != "sqrt":
        return True
    if ir[0] == "app":
        if uses_transcendental(mod.funcs[ir[1]].body, mod):
            return True
    for x in ir[1:]:
        if isinstance(x, tuple) and uses_transcendental(x, mod):
            return True
        if isinstance(x, list) and any(isinstance(y, tuple) and uses_transcendental(y, mod) for y in x):
            return True
    return False


def coq_value(v, t, mod):
    if t == "F" or (isinstance(t, tuple) and t[0] == "elem_value"):
        return fhex(v)
    if t == "B":
        return "true" if v else "false"
    if t[0] == "rec":
        rec = mod.recs[t[1]]
        return f"(mk_{rec.name} " + " ".join(coq_value(v[n], ft, mod) for n, ft in rec.fields) + ")"
    if t[0] == "tup":
        return "(" + ", ".join(coq_value(x, tt, mod) for x, tt in zip(v, t[1])) + ")"
    if t[0] == "list":
        return "[" + "; ".join(coq_value(x, t[1], mod) for x in v) + "]"
    raise ValueError(t)


def coq_out(expr, t, mod):
    """Coq expression of type list (Z*Z*Z) rendering a value of type t."""
    if t == "F":
        return f"[fout ({expr})]"
    if t == "B":
        return f"[bout ({expr})]"
    if t[0] == "rec":
        rec = mod.recs[t[1]]
        return "(" + " ++ ".join(coq_out(f"{rec.name}_{n} ({expr})", ft, mod) for n, ft in rec.fields) + ")%list"
    if t[0] == "tup":
        n = len(t[1])
        parts = []
        for i, tt in enumerate(t[1]):
            names = ["_"] * n
            names[i] = "p__"
            parts.append(coq_out(f"let '({', '.join(names)}) := ({expr}) in p__", tt, mod))
        return "(" + " ++ ".join(parts) + ")%list"
    if t[0] == "list":
        return f"(flat_map (fun e__ => {coq_out('e__', t[1], mod)}) ({expr}))"
    raise ValueError(t)


def flatten(v):
    if isinstance(v, dict):
        out = []
        for x in v.values():
            out += flatten(x)
        return out
    if isinstance(v, (tuple, list)):
        out = []
        for x in v:
            out += flatten(x)
        return out
    return [v]


def validate(chk, modname, fname, real, inputs, tag=None):
    """real(env) -> value in the IR's shape (dict for records, tuple, float, bool).
    inputs: list of env dicts (argument name -> value in IR shape).  Records disagreement as a broken
    correspondence of the translator.  Returns number of disagreements."""
    mod = gen.MODULES[modname]
    tag = tag or f"{modname}.{fname}"
    if fname in gen.GEN_ERRORS or fname not in mod.funcs:
        chk.corr_stats[tag] = {"cases": 0, "error": gen.GEN_ERRORS.get(fname, "not generated")}
        return None
    fn = mod.funcs[fname]
    dis = []
    want = []
    for env in inputs:
        try:
            w = real(env)
        except (ZeroDivisionError, ValueError, OverflowError) as ex:
            w = ("exc", type(ex).__name__)
        want.append(w)
        try:
            g = P.evaluate(fn.body, dict(env), mod)
        except (ZeroDivisionError, ValueError, OverflowError) as ex:
            g = ("exc", type(ex).__name__)
        if (isinstance(w, tuple) and w and w[0] == "exc") or (isinstance(g, tuple) and g and g[0] == "exc"):
            if w != g:
                dis.append({"input": env, "impl": w, "ir": g})
        elif bits(w) != bits(g):
            dis.append({"input": env, "impl": w, "ir": g})
    ncoq = 0
    if not uses_transcendental(fn.body, mod):
        ok_inputs = [(e, w) for e, w in zip(inputs, want) if not (isinstance(w, tuple) and w and w[0] == "exc")]
        exprs = []
        for env, _ in ok_inputs:
            args = " ".join(coq_value(env[n], t, mod) for n, t in fn.params)
            exprs.append(coq_out(f"{P.cname(fn.name)} {args}", fn.ret, mod))
        pre = ("From Coq Require Import ZArith List PrimFloat.\nFrom V Require Import Num FloatIO " + modname + ".\n"
               "Import ListNotations.\nOpen Scope float_scope.\n")
        res = common.coq_eval("gv_" + tag.replace(".", "_"), pre, exprs, shard=300)
        for (env, w), r in zip(ok_inputs, res):
            got = [decode_fout(t) for t in r]
            if bits(flatten(w)) != bits(got):
                dis.append({"input": env, "impl": w, "coq_float": got})
        ncoq = len(ok_inputs)
    chk.corr_stats[tag] = {"cases": len(inputs), "coq_float_cases": ncoq, "disagreements": len(dis)}
    chk.cov["traces_validated_against_impl"] += len(inputs)
    chk.count(len(inputs), key=("genval", tag))
    if dis:
        chk._genval_dis = getattr(chk, "_genval_dis", []) + [(tag, dis[:5])]
    return len(dis)
