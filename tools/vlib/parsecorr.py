"""Correspondence of model/PdbParse.v with propka.input.get_atom_lines_from_pdb / Atom.set_properties:
the same line lists go through the real generator and through the Coq model (vm_compute); every yielded atom is
compared on all extracted fields, the conformation tag and the terminus tag; errors on the exception class."""
import io

from . import common, structures, tables


def impl_parse(text, ignore, keep_protons, chains):
    """Returns ('ok', [records]) or ('IndexError'|'ValueError'|other, None)."""
    common.impl_setup()
    from propka.input import get_atom_lines_from_pdb
    out = []
    try:
        for conf, atom in get_atom_lines_from_pdb(io.StringIO(text), ignore_residues=ignore, keep_protons=keep_protons,
                                                  chains=chains):
            out.append((conf, atom.terminal, atom.numb, atom.res_num, atom.name, atom.x, atom.y, atom.z, atom.res_name,
                        atom.chain_id, atom.type, atom.occ, atom.beta, atom.icode, atom.element, atom.residue_label))
    except IndexError:
        return ("IndexError", None)
    except ValueError:
        return ("ValueError", None)
    except Exception as ex:
        return (type(ex).__name__, None)
    return ("ok", out)


def lines_of(text):
    """what handle.readlines() returns"""
    return io.StringIO(text).readlines()


def coq_lines(text):
    ls = lines_of(text)
    out = []
    for l in ls:
        if any(ord(c) > 255 for c in l):
            raise ValueError("non 8-bit input")
        body, nl = (l[:-1], True) if l.endswith("\n") else (l, False)
        if all(32 <= ord(c) < 127 and c != '"' for c in body):
            out.append(f'L "{body}"' if nl else f'"{body}"')
        else:
            out.append(f"of_codes [{';'.join(str(ord(c)) for c in l)}]")
    return "[" + "; ".join(out) + "]"


def coq_opts(ignore, keep_protons, chains):
    ch = "[" + "; ".join(f"ascii_of_nat {ord(c)}%nat" for c in (chains or [])) + "]"
    ig = "[" + "; ".join(tables.cstr(s) for s in ignore) + "]"
    return f"{{| ignore_residues := {ig}; keep_protons := {'true' if keep_protons else 'false'}; chains := {ch} |}}"


PRE = ("From Coq Require Import String Ascii List ZArith.\nFrom V Require Import PyString PdbParse.\nImport ListNotations.\n"
       "Open Scope string_scope.\nOpen Scope Z_scope.\nDefinition L (s : string) : string := s ++ String (ascii_of_nat 10%nat) EmptyString.\n")


def s_of(codes):
    return "".join(chr(c) for c in codes)


def decode_model(r):
    if r == [[[-1]]]:
        return ("IndexError", None)
    if r == [[[-2]]]:
        return ("ValueError", None)
    out = []
    for rec in r[1:]:
        (model, alt, term, numb, res_num), name, x, y, z, res_name, chain, ty, occ, beta, icode, el = rec
        out.append((f"{model}{chr(alt)}", {0: None, 1: "N+", 2: "C-"}[term], numb, res_num, s_of(name), s_of(x), s_of(y), s_of(z),
                    s_of(res_name), s_of(chain), s_of(ty), s_of(occ), s_of(beta), s_of(icode), s_of(el)))
    return ("ok", out)


def same(impl, model):
    if impl[0] != model[0]:
        return False
    if impl[0] != "ok":
        return True
    a, b = impl[1], model[1]
    if len(a) != len(b):
        return False
    for ra, rb in zip(a, b):
        if ra[0:5] != rb[0:5]:
            return False
        try:
            if (float(rb[5]), float(rb[6]), float(rb[7])) != (ra[5], ra[6], ra[7]) and not any(v != v for v in ra[5:8]):
                return False
        except ValueError:
            return False
        if tuple(ra[8:15]) != tuple(rb[8:15]):
            return False
    return True


def run_cases(chk, cases, tag="parse"):
    """cases: list of (text, ignore, keep_protons, chains).  Returns list of disagreements."""
    exprs = []
    for text, ignore, keep, chains in cases:
        exprs.append(f"render (parse {coq_opts(ignore, keep, chains)} {coq_lines(text)})")
    # the evaluated value is a list of per-case renderings
    res = common.coq_eval(tag, PRE, exprs, shard=4)
    dis = []
    kinds = {}
    for (text, ignore, keep, chains), r in zip(cases, res):
        impl = impl_parse(text, ignore, keep, chains)
        kinds[impl[0]] = kinds.get(impl[0], 0) + 1
        model = decode_model(r)
        if not same(impl, model):
            first = None
            if impl[0] == "ok" and model[0] == "ok":
                for i, (ra, rb) in enumerate(zip(impl[1], model[1])):
                    if not same(("ok", [ra]), ("ok", [rb])):
                        first = {"index": i, "impl": ra, "model": rb}
                        break
                if first is None:
                    first = {"impl_n": len(impl[1]), "model_n": len(model[1])}
            dis.append({"options": {"ignore": ignore, "keep_protons": keep, "chains": chains}, "impl_status": impl[0], "model_status": model[0],
                        "first_difference": first, "text_head": text[:400]})
    chk.cov["traces_validated_against_impl"] += len(cases)
    st = chk.corr_stats.setdefault("pdb_parser", {"cases": 0, "disagreements": 0, "impl_outcomes": {}})
    st["cases"] += len(cases)
    st["disagreements"] += len(dis)
    for k, v in kinds.items():
        st["impl_outcomes"][k] = st["impl_outcomes"].get(k, 0) + v
    return dis


# ------------------------------------------------------------------------------------------------
# generators of mutated inputs
IGNORE = ["HOH", "H2O", "HOH", "SO4", "PO4", "PEG", "EPE", "TRS"]


def mutate(rng, text):
    """One structured mutation of a PDB text; returns (text, description)."""
    lines = text.splitlines()
    atom_idx = [i for i, l in enumerate(lines) if structures.is_atom(l) and len(l) >= 54]
    if not atom_idx:
        return text, "none"
    k = rng.randrange(16)
    i = rng.choice(atom_idx)
    l = lines[i]
    if k == 0:      # chain ids shuffled / blanked
        c = rng.choice([" ", "B", "Z", "1", "_"])
        old = l[21]
        lines = [structures.set_chain(x, c) if structures.is_atom(x) and len(x) > 21 and x[21] == old else x for x in lines]
        d = f"chain {old!r}->{c!r}"
    elif k == 1:    # TER removed / added / bare
        ters = [j for j, x in enumerate(lines) if x.startswith("TER")]
        if ters and rng.random() < 0.5:
            j = rng.choice(ters)
            lines[j] = rng.choice(["TER", "TER   ", "TER\t", "ter   "]) if rng.random() < 0.6 else ""
            d = "TER edited"
        else:
            lines.insert(i, rng.choice(["TER", "TER   ", "TER    1234      ALA A  12"]))
            d = "TER inserted"
    elif k == 2:    # OXT moved / renamed
        lines[i] = l[:12] + rng.choice([" OXT", " O''", "OXT ", " N  ", " O  "]) + l[16:]
        d = "name edited"
    elif k == 3:    # residue numbers negative / shifted
        sh = rng.choice([-500, -60, 1000, 5])
        def f(x):
            try:
                return structures.set_resnum(x, int(x[22:26]) + sh, x[26])
            except ValueError:
                return x
        lines = [f(x) if structures.is_atom(x) and len(x) > 27 and x[21] == l[21] else x for x in lines]
        d = f"renumber {sh}"
    elif k == 4:    # insertion code
        lines[i] = l[:26] + rng.choice(["A", "B", " "]) + l[27:]
        d = "icode"
    elif k == 5:    # alt-loc letters and digits
        c = rng.choice(["A", "B", "1", "2", "9", "0", " ", "a"])
        for j in atom_idx:
            if lines[j][17:26] == l[17:26]:
                lines[j] = lines[j][:16] + c + lines[j][17:]
        d = f"altloc {c!r}"
    elif k == 6:    # MODEL blocks
        pos = rng.choice(atom_idx)
        lines.insert(pos, rng.choice(["MODEL        2", "MODEL 3", "MODEL        1   ", "ENDMDL", "MODEL  x"]))
        d = "MODEL inserted"
    elif k == 7:    # hydrogens
        lines.insert(i + 1, l[:12] + rng.choice([" H  ", " HA ", "1HB ", " HG1", "HG11", " D  "]) + l[16:])
        d = "hydrogen inserted"
    elif k == 8:    # ignored residue records
        lines.insert(i, ("ATOM  " if rng.random() < 0.5 else "HETATM") + l[6:17] + rng.choice(["HOH", "SO4", "H2O"]) + l[20:])
        d = "ignored residue inserted"
    elif k == 9:    # junk records
        lines.insert(i, rng.choice(["REMARK 300 junk", "ANISOU" + l[6:], "CONECT 1 2", "", "HETATM", "ATOM", "SIGATM" + l[6:], "atom  " + l[6:], "END", "END   ", "ENDMDL",
                                    "SSBOND   1 CYS A   67    CYS A   95", "MASTER"]))
        d = "junk record"
    elif k == 10:   # short line (malformed stream)
        lines[i] = l[:rng.choice([10, 15, 17, 20, 21, 22, 27, 31, 40, 54])]
        d = "truncated"
    elif k == 11:   # bad numbers (malformed stream)
        col = rng.choice([(6, 11), (22, 26), (30, 38), (38, 46), (46, 54)])
        bad = rng.choice(["  x  ", "1_0", " 1e3", "-", "", "   nan", " 1 2 ", "0x1", "+5", " .5", "5.", "1__0", "inf"])
        lines[i] = l[:col[0]] + bad.ljust(col[1] - col[0])[:col[1] - col[0]] + l[col[1]:]
        d = f"number field {col} = {bad!r}"
    elif k == 12:   # column noise in unread columns
        l2 = l.ljust(80)
        lines[i] = l2[:54] + rng.choice(["  0.50", "  1.00", "      ", " -1.00", "  0.00"]) + rng.choice([" 20.00", "999.99", "      "]) \
            + rng.choice([l2[66:76], "      B1  ", "      A   ", "      SEGX"]) + rng.choice([" C", " N", "XX", "  "]) + rng.choice(["1+", "  ", "2-"])
        d = "column noise"
    elif k == 13:   # hybrid-36 serial
        lines[i] = l[:6] + rng.choice(["A0000", "zzzzz", "    1", "-1234", "A00a0", "     "]) + l[11:]
        d = "serial"
    elif k == 14:   # 4-character names / element inference
        lines[i] = l[:12] + rng.choice(["1HG2", "HG11", "CL12", "FE  ", " CA ", "CA  ", "1234", "12  ", " 1H "]) + l[16:]
        d = "name/element"
    else:           # DNA residue / hetatm tag
        lines[i] = rng.choice(["ATOM  ", "HETATM"]) + l[6:17] + rng.choice([" DA", " DT", "LIG", "ALA"]) + l[20:]
        d = "residue name"
    return "\n".join(lines) + "\n", d
