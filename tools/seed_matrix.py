#!/usr/bin/env python3
"""Regenerate the seeded-change table of DESIGN.md (section A.8) from seeded/*/meta.json."""
import json
import pathlib
import re

ROOT = pathlib.Path(__file__).resolve().parent.parent


def rows():
    out = []
    for d in sorted((ROOT / "seeded").iterdir()):
        m = json.loads((d / "meta.json").read_text())
        rnd = m.get("round", 1)
        tag = f" (round {rnd})" if rnd and rnd != 1 else ""
        det = (m.get("detected_by") or "NOT DETECTED").replace("|", "/").replace("\n", " ")
        if len(det) > 330:
            det = det[:327] + "..."
        out.append(f"| `{d.name}`{tag} | {m.get('needs_to_manifest', '').replace('|', '/')} | {det} |")
    return out


def main():
    p = ROOT / "DESIGN.md"
    s = p.read_text()
    head = "| seeded change | what it needs to manifest | caught by |\n|---|---|---|\n"
    i = s.index(head) + len(head)
    j = s.index("\n## A.9")
    s = s[:i] + "\n".join(rows()) + "\n" + s[j:]
    p.write_text(s)
    print(len(rows()), "rows")


if __name__ == "__main__":
    main()
