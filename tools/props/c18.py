"""C18 — parameter tables.  Theorems: coq/props/C18.v (any parameter file: symmetry, default fallback; any
operation sequence: squared cut-offs; shipped file: finite facts by vm_compute over the regenerated text).
Tie: T (cfg text, annotation kinds, group classes re-extracted every run) + correspondence of the hand model
model/Params.v with propka.parameters on the shipped and on generated parameter files."""
import fractions
import itertools
import math

from vlib import common, tables, genval

Fr = fractions.Fraction


def cs(s):
    return tables.cstr(s)


def q(x):
    fr = Fr(repr(float(x))) if not isinstance(x, Fr) else x
    return f"({fr.numerator} # {fr.denominator})"


def fresh_params(lines):
    from propka.parameters import Parameters
    p = Parameters()
    for l in lines:
        p.parse_line(l)
    return p


def queries_for(p, names):
    """Ask the implementation; returns list of Coq query strings."""
    qs = []
    for a, b in itertools.product(names, repeat=2):
        v = p.interaction_matrix.get_value(a, b)
        if v is None:
            vv = "None"
        elif isinstance(v, float):
            vv = f"(Some (VQ {q(v)}))"
        else:
            vv = f"(Some (VS {cs(v)}))"
        qs.append(f"QIm {cs(a)} {cs(b)} {vv}")
        x, y = p.sidechain_cutoffs.get_value(a, b)
        qs.append(f"QPm {cs(a)} {cs(b)} {q(x)} {q(y)}")
    for f in ("VanDerWaalsVolume", "charge", "model_pkas", "ions", "valence_electrons", "custom_model_pkas"):
        d = getattr(p, f)
        for k in list(d.keys()) + ["__absent__"]:
            qs.append(f"QNd {cs(f)} {cs(k)} " + (f"(Some {q(d[k])})" if k in d else "None"))
    for f in ("protein_group_mapping",):
        d = getattr(p, f)
        for k in list(d.keys()) + ["__absent__"]:
            qs.append(f"QSd {cs(f)} {cs(k)} " + (f"(Some {cs(d[k])})" if k in d else "None"))
    for f in ("backbone_NH_hydrogen_bond", "backbone_CO_hydrogen_bond"):
        d = getattr(p, f)
        for k in d:
            qs.append(f"QLd {cs(f)} {cs(k)} [" + "; ".join(q(v) for v in d[k]) + "]")
    for f in ("ignore_residues", "angular_dependent_sidechain_interactions", "acid_list", "base_list",
              "exclude_sidechain_interactions", "backbone_reorganisation_list", "write_out_order"):
        qs.append(f"QSl {cs(f)} [" + "; ".join(cs(v) for v in getattr(p, f)) + "]")
    return qs


SCALARS_F = ["desolv_cutoff", "buried_cutoff", "coulomb_cutoff1", "coulomb_cutoff2", "desolvationSurfaceScalingFactor",
             "desolvationPrefactor", "desolvationAllowance", "coulomb_diel", "COO_HIS_exception", "CYS_CYS_exception",
             "max_intrinsic_pka_diff", "min_interaction_energy", "sidechain_interaction", "min_pka", "max_pka"]
SCALARS_I = ["Nmin", "Nmax", "coupling_max_number_of_bonds", "shared_determinants", "remove_penalised_group"]
SCALARS_S = ["version", "ligand_typing", "reference", "pH"]


def gen_file(rng):
    """A random parameter file: (lines, names used)."""
    names = rng.sample(["COO", "HIS", "CYS", "Cl", "CL", "N+", "X1", "ARG", "a", "ROH"], rng.randint(2, 6))
    lines = []
    rows = []
    nrows = rng.randint(0, 6)
    keys = []
    for i in range(nrows):
        k = rng.choice(names) if rng.random() < 0.8 else rng.choice(keys or names)   # repeated rows happen
        keys.append(k)
        vals = [rng.choice(["I", "N", "-", "N", "1", "0.5"]) for _ in range(len(keys))]
        row = "interaction_matrix " + k + " " + " ".join(vals)
        if rng.random() < 0.15:
            row += rng.choice(["#tail", " # comment I N", "\t"])
        rows.append(row)
    other = []
    for _ in range(rng.randint(0, 8)):
        a, b = rng.choice(names), rng.choice(names)
        other.append(f"sidechain_cutoffs {a} {b} {rng.choice(['2.0', '1.85', '3', '2.65'])} {rng.choice(['3.0', '2.85', '4', '3.65'])}")
        if rng.random() < 0.3:      # the same pair again, reversed, with other values
            other.append(f"sidechain_cutoffs {b} {a} {rng.choice(['2.1', '1.5'])} {rng.choice(['3.1', '2.5'])}")
    for _ in range(rng.randint(0, 2)):
        other.append(f"sidechain_cutoffs default {rng.choice(['3.0', '2.5'])} {rng.choice(['4.0', '3.5'])}")
    for _ in range(rng.randint(0, 5)):
        k = rng.random()
        if k < 0.25:
            other.append(f"model_pkas {rng.choice(names)} {rng.choice(['3.80', '10.5', '-1', '+2.25'])}")
        elif k < 0.45:
            other.append(f"write_out_order {rng.choice(names)}")
        elif k < 0.6:
            other.append(f"backbone_CO_hydrogen_bond {rng.choice(names)} 0.85 2.00 {rng.choice(['3.0', '4.00'])}")
        elif k < 0.75:
            other.append(f"protein_group_mapping {rng.choice(names)}-CG {rng.choice(names)}")
        elif k < 0.9:
            other.append(f"{rng.choice(SCALARS_F)} {rng.choice(['12.5', '4', '0.25', '-13.0'])}")
        else:
            other.append(rng.choice(["", "# only a comment", "   ", "unknown_key 3.5", "version VersionA"]))
    if rng.random() < 0.12:         # malformed stream
        other.append(rng.choice(["model_pkas ASP", "write_out_order A B", "sidechain_cutoffs A B 1.0", "interaction_matrix Z I I I I I I I I",
                                 "charge COO -1 extra", "backbone_NH_hydrogen_bond COO", "Nmin 1 2"]))
    # rows keep their relative order (triangular format), everything else is shuffled in between
    rng.shuffle(other)
    pos = sorted(rng.sample(range(len(other) + len(rows)), len(rows))) if rows else []
    it_r, it_o = iter(rows), iter(other)
    for i in range(len(other) + len(rows)):
        lines.append(next(it_r) if i in pos else next(it_o))
    return lines, names + ["__absent__"]


def run(chk: common.Check):
    common.impl_setup()
    from propka.parameters import Parameters
    import propka.group as G
    rng = chk.rng
    if tables.TABLE_ERRORS:
        chk.obligations.append(("extract tables", False, str(tables.TABLE_ERRORS)))
        chk.broken_obligation = {"where": "tables.py", "log_tail": str(tables.TABLE_ERRORS)}
        proved = False
    else:
        proved = chk.prove()

    # ------------------------------------------------------------ correspondence: shipped + generated files
    cfg_lines = (common.REPO / "propka" / "propka.cfg").read_text().split("\n")
    shipped = fresh_params(cfg_lines)
    type_names = sorted({t for _, ts in tables.group_types() for t in ts})
    names0 = sorted(set(shipped.interaction_matrix.keys()) | set(type_names) | {"__absent__"})
    pre = ("From Coq Require Import String List ZArith QArith.\nFrom V Require Import Params ParamsQuery Cfg_gen.\n"
           "Import ListNotations.\nOpen Scope string_scope.\n")
    files = [("shipped", cfg_lines, names0)]
    # a matrix row name stated a second time with its original number of entries, followed by further rows
    for k_, restated in enumerate(("COO", "HIS")):
        files.append((f"gen-restated-row{k_}", ["interaction_matrix COO I", "interaction_matrix HIS N I", "interaction_matrix CYS N I N",
                                                  "interaction_matrix COO -" if restated == "COO" else "interaction_matrix HIS I -",
                                                  "interaction_matrix ARG I N - N", "sidechain_cutoffs default 3.0 4.0"], ["COO", "HIS", "CYS", "ARG"]))
    nfiles = 400 if chk.thorough else 80
    for i in range(nfiles):
        ls, names = gen_file(rng)
        files.append((f"gen{i}", ls, names))
    # a few permutations of the shipped file: non-matrix lines shuffled, matrix rows in place
    for i in range(3 if chk.thorough else 1):
        rows = [l for l in cfg_lines if l.startswith("interaction_matrix")]
        rest = [l for l in cfg_lines if not l.startswith("interaction_matrix")]
        rng.shuffle(rest)
        files.append((f"shipped-shuffled{i}", rest[:len(rest) // 2] + rows + rest[len(rest) // 2:], names0))
    exprs, meta = [], []
    outcomes = {"ok": 0}
    for tag, ls, names in files:
        try:
            p = fresh_params(ls)
            qs = queries_for(p, names)
            if tag.startswith("gen"):
                for f in SCALARS_F + SCALARS_I:
                    if any(l.split() and l.split()[0] == f for l in ls):
                        qs.append(f"QScQ {cs(f)} {q(getattr(p, f))}")
            else:
                for f in SCALARS_F + SCALARS_I:
                    qs.append(f"QScQ {cs(f)} {q(getattr(p, f))}")
                for f in SCALARS_S:
                    qs.append(f"QScS {cs(f)} {cs(str(getattr(p, f)))}")
            expect = "(Some [" + ";\n ".join(qs) + "])"
            outcomes["ok"] += 1
        except Exception as ex:
            qs = []
            expect = "None"
            outcomes[type(ex).__name__] = outcomes.get(type(ex).__name__, 0) + 1
        lines_lit = "[" + "; ".join(cs(l) for l in ls) + "]" if tag != "shipped" else "cfg_text"
        exprs.append(f"check_file param_kinds {lines_lit} {expect}")
        meta.append((tag, ls, qs))
        chk.count(len(qs) + 1, key=("file", tag if not tag.startswith("gen") else hash(tuple(ls)) % 10 ** 9))
    res = common.coq_eval("c18", pre, exprs, shard=30)
    dis = []
    for (tag, ls, qs), r in zip(meta, res):
        if not all(r):
            bad = [qs[i - 1] if i > 0 else "error-status" for i, ok in enumerate(r) if not ok][:5]
            dis.append({"file": tag, "lines": ls if tag.startswith("gen") else tag, "disagreeing_queries": bad})
    chk.cov["traces_validated_against_impl"] += len(files)
    chk.corr_stats["parse_line+lookups"] = {"files": len(files), "queries": sum(len(m[2]) for m in meta),
                                            "impl_outcomes": outcomes, "disagreements": len(dis)}
    chk.sample({"generated_file": files[1][1]})

    # ------------------------------------------------------------ correspondence: squared cut-offs, operation sequences
    CN = ["desolv_cutoff", "buried_cutoff", "coulomb_cutoff1", "coulomb_cutoff2"]
    COQN = ["Desolv", "Buried", "Coul1", "Coul2"]
    nseq = 600 if chk.thorough else 150
    sq_dis = []
    sexprs, smeta = [], []
    for _ in range(nseq):
        insts = [Parameters(), Parameters()]
        ops = [[], []]
        log = []
        for _ in range(rng.randint(1, 7)):
            i = rng.randrange(2)
            k = rng.randrange(4)
            v = rng.choice([4.0, 6.25, 10.0, 12.5, 2.0, 400.0, 17.3, 0.81])
            kind = rng.random()
            if kind < 0.3:
                setattr(insts[i], CN[k], v)
                ops[i].append(f"SetPlain {COQN[k]} {genval.fhex(v)}")
                log.append(("set", i, CN[k], v))
            elif kind < 0.5:
                insts[i].parse_line(f"{CN[k]} {v!r}")
                ops[i].append(f"SetPlain {COQN[k]} {genval.fhex(v)}")
                log.append(("parse_line", i, CN[k], v))
            elif kind < 0.7:
                setattr(insts[i], CN[k] + "_squared", v)
                ops[i].append(f"SetSquared {COQN[k]} {genval.fhex(v)}")
                log.append(("set_squared", i, CN[k], v))
            else:
                getattr(insts[i], CN[k] + "_squared")          # a read (may fill a cache in a broken implementation)
                log.append(("read_squared", i, CN[k]))
        for i in range(2):
            got = [getattr(insts[i], n) for n in CN] + [getattr(insts[i], n + "_squared") for n in CN]
            sexprs.append("(let c := crun c0 [" + "; ".join(ops[i]) + "] in map fout (map (cget c) all4 ++ map (sq_get c) all4))")
            smeta.append((log, i, got))
    spre = ("From Coq Require Import List ZArith PrimFloat.\nFrom V Require Import Num FloatIO Params.\nImport ListNotations.\n"
            "Open Scope float_scope.\nDefinition c0 : cutoffs float := {| desolv_cutoff := 20; buried_cutoff := 15; coulomb_cutoff1 := 4; coulomb_cutoff2 := 10 |}.\n"
            "Definition all4 := [Desolv; Buried; Coul1; Coul2].\n")
    sres = common.coq_eval("c18sq", spre, sexprs, shard=200)
    for (log, i, got), r in zip(smeta, sres):
        want = [genval.decode_fout(t) for t in r]
        if any(not math.isclose(a, b, rel_tol=4e-16, abs_tol=0.0) for a, b in zip(got, want)):
            sq_dis.append({"ops": log, "instance": i, "impl": got, "model": want})
    chk.count(len(sexprs), key=("squared-ops",))
    chk.cov["traces_validated_against_impl"] += len(sexprs)
    chk.corr_stats["squared_property"] = {"sequences": len(sexprs), "disagreements": len(sq_dis)}

    # ------------------------------------------------------------ search on the implementation
    found = []
    # (a) symmetry / default / squares on every file we parsed
    for tag, ls, names in files:
        try:
            p = fresh_params(ls)
        except Exception:
            continue
        for a, b in itertools.combinations_with_replacement(names, 2):
            if p.interaction_matrix.get_value(a, b) != p.interaction_matrix.get_value(b, a):
                found.append((f"asymmetric:interaction_matrix", f"get_value({a!r},{b!r}) != get_value({b!r},{a!r}) for a parameter file",
                              {"file": ls if tag.startswith("gen") else tag, "a": a, "b": b}))
            if p.sidechain_cutoffs.get_value(a, b) != p.sidechain_cutoffs.get_value(b, a):
                found.append((f"asymmetric:sidechain_cutoffs", f"cut-off look-up ({a!r},{b!r}) = {p.sidechain_cutoffs.get_value(a, b)} but "
                              f"({b!r},{a!r}) = {p.sidechain_cutoffs.get_value(b, a)}", {"file": ls if tag.startswith("gen") else tag, "a": a, "b": b}))
            named = any(len(w) == 5 and w[0] == "sidechain_cutoffs" and {w[1], w[2]} == {a, b} and (w[1], w[2]) in ((a, b), (b, a))
                        for w in (l[:l.find('#')].split() if '#' in l else l.split() for l in ls))
            if not named and p.sidechain_cutoffs.get_value(a, b) != p.sidechain_cutoffs.default:
                found.append((f"default-not-used", f"unspecified pair ({a!r},{b!r}) does not fall back to the default", {"file": ls, "a": a, "b": b}))
    # (a') look-ups are observations: asking for pairs while the file is still being read (after every line) must not change any later answer
    nobs = 0
    for tag, ls, names in files:
        try:
            fresh = fresh_params(ls)
            from propka.parameters import Parameters as _P
            inc = _P()
            for l in ls:
                inc.parse_line(l)
                for a, b in itertools.product(names[:6], repeat=2):
                    inc.sidechain_cutoffs.get_value(a, b)
                    inc.interaction_matrix.get_value(a, b)
        except Exception:
            continue
        nobs += 1
        for a, b in itertools.product(names, repeat=2):
            for tname in ("sidechain_cutoffs", "interaction_matrix"):
                v1, v2 = getattr(fresh, tname).get_value(a, b), getattr(inc, tname).get_value(a, b)
                if v1 != v2:
                    found.append((f"lookup-changes-later-answers:{tname}", f"{tname} look-up ({a!r},{b!r}) gives {v2} when pairs were looked up while the file was being read, "
                                  f"{v1} when the file is read first", {"file": ls if tag.startswith("gen") else tag, "a": a, "b": b}))
                    break
            else:
                continue
            break
    chk.count(nobs, key=("lookups-interleaved-with-parsing",))
    for d in sq_dis:
        found.append(("squared-not-square", f"after {d['ops']} instance {d['instance']} reads plain/squared {d['impl']}, "
                      f"a square of the plain cut-off gives {d['model']}", d))
    # (b) shipped file: completeness over the real classes
    class Dummy:
        pass
    import propka.atom
    created = {}
    for cname, ts in tables.group_types():
        if cname in ("TitratableLigandGroup", "NonTitratableLigandGroup"):
            continue
        a = propka.atom.Atom()
        a.res_name = "XXX"
        try:
            g = getattr(G, cname)(a)
            created[cname] = g.type
        except Exception as ex:
            created[cname] = f"!{type(ex).__name__}"
    lookup = sorted({t for t in created.values() if t not in ("BBN", "BBC", "ION")})
    for t1, t2 in itertools.product(lookup, repeat=2):
        v = shipped.interaction_matrix.get_value(t1, t2)
        if v not in ("I", "N", "-"):
            norow = [t for t in (t1, t2) if shipped.interaction_matrix.get_value(t, t) is None]
            found.append((f"matrix-incomplete:{'no-row-for-' + norow[0] if norow else t1 + '/' + t2}",
                          f"shipped cfg: no interaction type for group types ({t1!r}, {t2!r}): get_value gives {v!r}",
                          {"t1": t1, "t2": t2, "value": v}))
    chk.count(len(lookup) ** 2, key=("shipped-type-pairs",))
    for r, _ in shipped.model_pkas.items():
        if r not in shipped.write_out_order:
            found.append((f"model-pka-not-written:{r}", f"{r} has a model pKa but is not in write_out_order", {"type": r}))
    for a, b in [(shipped.coulomb_cutoff1, shipped.coulomb_cutoff2), (shipped.buried_cutoff, shipped.desolv_cutoff), (shipped.Nmin, shipped.Nmax)]:
        if not a < b:
            found.append(("cutoffs-not-ordered", f"inner cut-off {a} is not smaller than outer {b}", {"inner": a, "outer": b}))
    for k1, row in shipped.sidechain_cutoffs.dictionary.items():
        for k2, (a, b) in row.items():
            if not a < b:
                found.append(("cutoffs-not-ordered", f"sidechain_cutoffs {k1} {k2}: {a} !< {b}", {"pair": [k1, k2]}))
    # dedupe
    uniq = {}
    for sig, what, rep in found:
        uniq.setdefault(sig, (sig, what, rep))
    found = list(uniq.values())

    if dis or sq_dis:
        chk.broken("correspondence", "Params model ~ propka.parameters", {"files": dis[:4], "squared": sq_dis[:3]},
                   search_fn=lambda: found)
    elif not proved:
        chk.broken("proof", "props/C18.v", chk.broken_obligation, search_fn=lambda: found)
    else:
        for sig, what, rep in found:
            chk.finding(sig, what, rep)
    return chk.finish(
        level="proof",
        rule=("obligations = theorems of coq/props/C18.v: symmetry and default for every line list (induction over the file), squared "
              "cut-offs for every operation list, finite facts of the shipped file by vm_compute on the regenerated text. Correspondence: "
              "shipped file (all key/type pairs, every dictionary, list and scalar), shuffled shipped file, random files (repeated rows, "
              "reversed duplicate pairs, defaults, overrides, malformed lines); squared cut-offs on random operation sequences over two "
              "Parameters instances.  distinct = distinct files"
              " Added in rounds 5-6: look-ups interleaved with parsing, a matrix row stated twice."),
        assumptions=["model/Params.v is hand-written; tied by the correspondence of this run",
                     "numeric tokens are plain decimals (float() accepts more: exponents, inf, nan, underscores - not generated)",
                     "lookup_types excludes BBN/BBC (filtered before the look-up), ION (scored separately) and the Marvin-only classes"],
        trusted=["tools/vlib/tables.py (table extractor)", "model/Params.v ~ parameters.py by differential testing"])
