"""C16 — every contribution has the required sign and stays in model bounds.  Theorems: coq/props/C16.v over gen/EnergyGen.v
and gen/DetsGen.v (regenerated from energy.py / determinants.py / iterative.py on every run).
Tie: regeneration + bit-exact validation of the translated kernels and of the emitted determinant events against the real
functions (fake groups whose determinant lists log every append) + composition check of the desolvation slices against
radial_volume_desolvation on real groups.
Search: scan of every determinant of every conformation of real, mutated (Ser->Cys dyads, acid<->base neighbours), ion-decorated
and custom-parameter runs against the sign rules and the configured maxima."""
import itertools
import math
import os
import tempfile

from vlib import common, gen, genval, structures, py2coq as P

EPS = 1e-9
NEEDED = {
    "EnergyGen": ["calculate_scale_factor", "calculate_weight", "calculate_pair_weight", "hydrogen_bond_energy", "coulomb_energy", "check_buried",
                  "angle_distance_factors_atoms", "desolv_volume_increment", "desolv_volume_after_allowance", "desolv_energy", "reorg_value",
                  "reorg_increment", "check_coo_his_exception", "check_oco_his_exception", "check_cys_his_exception", "check_cys_cys_exception"],
    "DetsGen": ["add_coulomb_acid_pair", "add_coulomb_base_pair", "add_coulomb_ion_pair", "add_sidechain_determinants", "ion_determinant_value",
                "backbone_determinant_value", "add_iterative_acid_pair", "add_iterative_base_pair", "add_iterative_ion_pair"],
}
PARD = {"Nmin": 280.0, "Nmax": 560.0, "desolvationSurfaceScalingFactor": 0.25, "coulomb_cutoff1": 4.0, "coulomb_cutoff2": 10.0, "pH": 7.0,
        "desolvationPrefactor": -13.0, "desolvationAllowance": 0.0}
KIND = {"sidechain": 0.0, "backbone": 1.0, "coulomb": 2.0}


class Obj:
    def __init__(self, **kw):
        self.__dict__.update(kw)


class LogList(list):
    def __init__(self, log, owner, kind):
        super().__init__()
        self.log, self.owner, self.kind = log, owner, kind

    def append(self, d):
        self.log.append((self.owner, self.kind, d))
        super().append(d)


def fake_pair(cls_fields1, cls_fields2):
    log = []
    objs = []
    for i, f in enumerate((cls_fields1, cls_fields2)):
        o = Obj(**f)
        o.determinants = {k: LogList(log, float(i + 1), KIND[k]) for k in KIND}
        o.label = f"G{i + 1}"
        objs.append(o)
    return objs[0], objs[1], log


def events_of(log, o1, o2):
    out = []
    for owner, kind, d in log:
        if isinstance(d, list):
            partner, value = d
        else:
            partner, value = d.group, d.value
        out.append((owner, kind, 1.0 if partner is o1 else 2.0, float(value)))
    return out


def rparams(rng):
    d = dict(PARD)
    if rng.random() < 0.5:
        d.update(Nmin=float(rng.choice([100, 280, 300])), Nmax=float(rng.choice([400, 560, 900])),
                 desolvationSurfaceScalingFactor=rng.choice([0.0, 0.25, 0.5, 1.0]), coulomb_cutoff1=rng.choice([3.0, 4.0, 5.5]),
                 coulomb_cutoff2=rng.choice([7.0, 10.0, 12.5]), desolvationAllowance=rng.choice([0.0, 0.1]))
    return d


def pobj(d):
    return Obj(**d)


def rgrp(rng):
    return {"charge": float(rng.choice([-1, 1, -1, 1, 2, -2])), "model_pka": rng.choice([3.8, 4.5, 6.5, 9.0, 10.0, 10.5, 12.5]),
            "pka_value": rng.uniform(0, 14), "num_volume": float(rng.randint(0, 900)), "titratable": True}


def validate_generated(chk, rng, n):
    import propka.energy as E
    import propka.determinants as D
    import propka.iterative as I
    # ---- energy kernels
    ins = [{"parameters": rparams(rng), "num_volume": float(rng.randint(0, 900))} for _ in range(n)]
    genval.validate(chk, "EnergyGen", "calculate_weight", lambda e: E.calculate_weight(pobj(e["parameters"]), e["num_volume"]), ins)
    ins = [{"parameters": rparams(rng), "num_volume1": float(rng.randint(0, 900)), "num_volume2": float(rng.randint(0, 900))} for _ in range(n)]
    genval.validate(chk, "EnergyGen", "calculate_pair_weight",
                    lambda e: E.calculate_pair_weight(pobj(e["parameters"]), e["num_volume1"], e["num_volume2"]), ins)
    genval.validate(chk, "EnergyGen", "check_buried", lambda e: E.check_buried(e["num_volume1"], e["num_volume2"]),
                    [{"num_volume1": e["num_volume1"], "num_volume2": e["num_volume2"]} for e in ins]
                    + [{"num_volume1": float(a), "num_volume2": float(b)} for a in (399, 400, 401, 500) for b in (399, 400, 401, 499, 500, 501)])
    ins = [{"parameters": rparams(rng), "weight": rng.choice([0.0, 1.0, rng.random()])} for _ in range(n)]
    genval.validate(chk, "EnergyGen", "calculate_scale_factor", lambda e: E.calculate_scale_factor(pobj(e["parameters"]), e["weight"]), ins)
    ins = []
    for _ in range(n):
        c0 = rng.choice([2.0, 3.0, 1.65, 2.85])
        ins.append({"dist": rng.choice([c0, c0 + 1.0, rng.uniform(0.5, 6.0)]), "dpka_max": rng.choice([0.8, -0.8, 1.2, 0.85, -1.6]),
                    "cutoffs": (c0, c0 + rng.choice([1.0, 0.85, 2.0])), "f_angle": rng.choice([1.0, rng.uniform(-1, 1), 0.0])})
    genval.validate(chk, "EnergyGen", "hydrogen_bond_energy",
                    lambda e: E.hydrogen_bond_energy(e["dist"], e["dpka_max"], list(e["cutoffs"]), e["f_angle"]), ins)
    ins = [{"dist": rng.choice([4.0, 10.0, rng.uniform(0.1, 14.0)]), "weight": rng.choice([0.0, 1.0, rng.random()]), "parameters": rparams(rng)}
           for _ in range(n)]
    genval.validate(chk, "EnergyGen", "coulomb_energy", lambda e: E.coulomb_energy(e["dist"], e["weight"], pobj(e["parameters"])), ins)
    ins = [{"group1": rgrp(rng), "group2": rgrp(rng),
            "version": {"parameters": {"COO_HIS_exception": 1.6, "OCO_HIS_exception": 1.61, "CYS_HIS_exception": 1.62, "CYS_CYS_exception": 3.6}}}
           for _ in range(n // 2)]
    for f in ("check_coo_his_exception", "check_oco_his_exception", "check_cys_his_exception", "check_cys_cys_exception"):
        genval.validate(chk, "EnergyGen", f,
                        lambda e, f=f: tuple(getattr(E, f)(Obj(**e["group1"]), Obj(**e["group2"]), Obj(parameters=Obj(**e["version"]["parameters"])))), ins)

    # ---- determinant-creating functions: emitted events
    def real_pair(fn):
        def r(e):
            o1, o2, log = fake_pair(e["object1"], e["object2"])
            fn(o1, o2, e["value"])
            return events_of(log, o1, o2)
        return r
    ins = []
    for _ in range(n):
        g1, g2 = rgrp(rng), rgrp(rng)
        if rng.random() < 0.2:
            g2["model_pka"] = g1["model_pka"]
        ins.append({"object1": g1, "object2": g2, "value": rng.choice([0.0, rng.uniform(0, 2.1)])})
    for f in ("add_coulomb_acid_pair", "add_coulomb_base_pair", "add_coulomb_ion_pair"):
        genval.validate(chk, "DetsGen", f, real_pair(getattr(D, f)), ins)

    def real_side(e):
        o1, o2, log = fake_pair(e["group1"], e["group2"])
        D.add_sidechain_determinants(o1, o2, Obj(hydrogen_bond_interaction=lambda a, b: e["hbond_interaction"]))
        return events_of(log, o1, o2)
    genval.validate(chk, "DetsGen", "add_sidechain_determinants", real_side,
                    [{"group1": e["object1"], "group2": e["object2"], "hbond_interaction": e["value"]} for e in ins])

    def real_iter(fn, with_version):
        def r(e):
            f1 = dict(e["object1"], res_name="EXC" if e["object1"]["excluded"] else "ASP")
            f2 = dict(e["object2"], res_name="EXC" if e["object2"]["excluded"] else "LYS")
            o1, o2, log = fake_pair(f1, f2)
            pr, (hb, co), (a0, a1) = e["interaction"]
            inter = [pr, [hb, co], [a0, a1]]
            if with_version:
                fn(o1, o2, inter, Obj(parameters=Obj(exclude_sidechain_interactions=["EXC"])))
            else:
                fn(o1, o2, inter)
            return (events_of(log, o1, o2), tuple(float(x) for x in inter[2]))
        return r
    ins = []
    for _ in range(n):
        q1 = float(rng.choice([-1, 1]))
        ins.append({"object1": {"q": q1, "pka_old": rng.uniform(0, 14), "excluded": rng.random() < 0.2},
                    "object2": {"q": rng.choice([q1, -q1, -q1]), "pka_old": rng.uniform(0, 14), "excluded": rng.random() < 0.2},
                    "interaction": (0.0, (rng.choice([0.0, rng.uniform(0, 1.7)]), rng.choice([0.0, rng.uniform(0, 2.1)])),
                                    (rng.choice([0.0, rng.uniform(-2, 2)]), rng.choice([0.0, rng.uniform(-2, 2)])))})
    genval.validate(chk, "DetsGen", "add_iterative_acid_pair", real_iter(I.add_iterative_acid_pair, False), ins)
    genval.validate(chk, "DetsGen", "add_iterative_base_pair", real_iter(I.add_iterative_base_pair, False), ins)
    genval.validate(chk, "DetsGen", "add_iterative_ion_pair", real_iter(I.add_iterative_ion_pair, True), ins)


def desolvation_composition(chk, mol, limit):
    """recompute energy_volume / buried of real groups from the generated slices composed as the loop of radial_volume_desolvation;
    and the sliced ion / backbone determinant values from the recorded kernel results"""
    import propka.energy as E
    from propka.calculations import squared_distance
    modE = gen.MODULES["EnergyGen"]

    def ev(name, **env):
        return P.evaluate(modE.funcs[name].body, env, modE)
    dis = []
    n = 0
    for cname in mol.conformation_names:
        conf = mol.conformations[cname]
        par = conf.parameters
        pd = {k: float(getattr(par, k)) for k in PARD if k != "pH"}
        pd["pH"] = 7.0
        atoms = conf.get_non_hydrogen_atoms()
        for g in conf.get_titratable_groups()[:limit]:
            volume = 0.0
            nv = 0
            for a in atoms:
                if a.res_num == g.atom.res_num and a.chain_id == g.atom.chain_id:
                    continue
                sq = squared_distance(g, a)
                if sq < par.desolv_cutoff_squared:
                    if a.element == "C" and a.name not in ["CA", "C"]:
                        dvol = par.VanDerWaalsVolume["C4"]
                    else:
                        dvol = par.VanDerWaalsVolume.get(a.element, 1.0)
                    volume += ev("desolv_volume_increment", dvol=float(dvol), min_dist_4th=E.MIN_DISTANCE_4TH, sq_dist=sq)
                if sq < par.buried_cutoff_squared:
                    nv += 1
            w = ev("calculate_weight", parameters=pd, num_volume=float(nv))
            sc = ev("calculate_scale_factor", parameters=pd, weight=w)
            va = ev("desolv_volume_after_allowance", volume=volume, parameters=pd)
            en = ev("desolv_energy", group={"charge": float(g.charge), "model_pka": 0.0, "pka_value": 0.0, "num_volume": float(nv), "titratable": True},
                    parameters=pd, volume_after_allowance=va, scale_factor=sc)
            n += 1
            if genval.bits(en) != genval.bits(float(g.energy_volume)) or genval.bits(w) != genval.bits(float(g.buried)) or nv != g.num_volume:
                dis.append({"conformation": cname, "group": g.label, "impl": [g.energy_volume, g.buried, g.num_volume], "slices": [en, w, nv]})
    return n, dis


# ------------------------------------------------------------------------------------------------ the scan
EXC_PARAM = {frozenset(["COO", "HIS"]): "COO_HIS_exception", frozenset(["OCO", "HIS"]): "OCO_HIS_exception",
             frozenset(["CYS", "HIS"]): "CYS_HIS_exception", frozenset(["CYS"]): "CYS_CYS_exception"}


def real_group(d):
    return getattr(d.group, "group", d.group)


def scan(tag, mol, shared=False):
    """-> list of (signature, what, replay-dict).  `shared`: the run used shared_determinants 1 - the members of a covalently coupled system then
    carry each other's determinants by design, so for a system that mixes acids and bases (N+ / ASP of one residue) the sign statements, which the
    property makes for the shipped configuration, are not applicable to the copied determinants; systems of like-charged members are checked."""
    import propka.energy as E
    out = []
    for cname in list(mol.conformation_names) + (["AVR"] if len(mol.conformation_names) > 1 else []):
        conf = mol.conformations[cname]
        par = conf.parameters
        cmax = E.UNK_PKA_SCALING1 / (E.UNK_DIELECTRIC2 * par.coulomb_cutoff1)
        bbmax = max([abs(v[0]) for v in par.backbone_NH_hydrogen_bond.values()] + [abs(v[0]) for v in par.backbone_CO_hydrogen_bond.values()])
        tit = conf.get_titratable_groups()
        for ion in conf.groups:
            rn_ = ion.atom.res_name.strip()
            if ion.type == "ION" and rn_ in par.ions and ion.charge != par.ions[rn_]:
                out.append(("ion-formal-charge", f"{tag}/{cname} ion {ion.label.strip()} (residue name {rn_}) carries charge {ion.charge}, configured {par.ions[rn_]}: "
                            "its determinants are scaled by the wrong formal charge", {"ion": ion.label, "charge": ion.charge, "configured": par.ions[rn_]}))
        for g in tit:
            q = g.charge
            if shared and any(h.charge * q < 0 for h in g.covalently_coupled_groups):
                continue
            who = f"{tag}/{cname} {g.label.strip()} ({'acid' if q < 0 else 'base'}, {g.type})"
            if q * g.energy_volume > EPS:
                out.append(("desolvation-sign", f"{who}: desolvation {g.energy_volume:+.4f} " + ("lowers an acid's" if q < 0 else "raises a base's") + " pKa",
                            {"group": g.label, "energy_volume": g.energy_volume, "charge": q}))
            if not (-EPS <= g.buried <= 1 + EPS):
                out.append(("buried-range", f"{who}: buried fraction {g.buried}", {"group": g.label, "buried": g.buried}))
            if cname == "AVR":      # the bounds are stated within a conformation; of the average only desolvation sign and buried range are checked
                continue
            for d in g.determinants["backbone"]:
                if q * d.value < -EPS:
                    out.append(("backbone-sign", f"{who}: backbone H-bond {d.label.strip()} {d.value:+.4f} " + ("raises an acid's" if q < 0 else "lowers a base's") + " pKa",
                                {"group": g.label, "partner": d.label, "value": d.value}))
                if abs(d.value) > bbmax + EPS:
                    out.append(("backbone-bound", f"{who}: backbone H-bond {d.label.strip()} {d.value:+.4f} exceeds the configured maximum {bbmax}",
                                {"group": g.label, "partner": d.label, "value": d.value, "max": bbmax}))
            for d in g.determinants["coulomb"]:
                o = real_group(d)
                if o.type == "ION":
                    formal = par.ions.get(o.residue_type, o.charge)
                    lim = abs(formal) * cmax
                    # a positive ion lowers every pKa, a negative ion raises it
                    if d.value * formal > EPS:
                        out.append(("ion-sign", f"{who}: ion {d.label.strip()} (charge {formal:+}) gives {d.value:+.4f}",
                                    {"group": g.label, "ion": d.label, "value": d.value, "ion_charge": formal}))
                else:
                    lim = cmax
                    if q * o.charge < 0 and q * d.value < -EPS:
                        out.append(("coulomb-sign:opposite", f"{who}: Coulomb determinant from oppositely charged {d.label.strip()} is {d.value:+.4f} (destabilising)",
                                    {"group": g.label, "partner": d.label, "value": d.value}))
                    if q * o.charge > 0 and q * d.value > EPS:
                        out.append(("coulomb-sign:like", f"{who}: Coulomb determinant from like-charged {d.label.strip()} is {d.value:+.4f} (stabilising)",
                                    {"group": g.label, "partner": d.label, "value": d.value}))
                if abs(d.value) > lim + EPS:
                    out.append(("coulomb-bound", f"{who}: Coulomb determinant {d.label.strip()} {d.value:+.4f} exceeds {lim:.4f}",
                                {"group": g.label, "partner": d.label, "value": d.value, "max": lim}))
            for d in g.determinants["sidechain"]:
                o = real_group(d)
                lim = 2.0 * par.sidechain_interaction
                name = EXC_PARAM.get(frozenset([g.type, o.type]))
                if name is not None:
                    lim = max(lim, getattr(par, name))
                if abs(d.value) > lim + EPS:
                    out.append((f"sidechain-bound:{'-'.join(sorted({g.type, o.type}))}",
                                f"{who}: side-chain determinant with {d.label.strip()} ({o.type}) is {d.value:+.4f}; the bound for this pair type is {lim:.2f}"
                                + (f" ({name} = {getattr(par, name)})" if name else ""),
                                {"group": g.label, "partner": d.label, "value": d.value, "max": lim, "exception_parameter": name}))
        prot = [g for g in tit if g.atom.type == "atom" and not g.coupled_titrating_group]
        if cname == "AVR":
            continue
        for i, g1 in enumerate(prot):
            for g2 in prot[:i]:
                if g1.charge * g2.charge >= 0:
                    continue
                v12 = [d.value for d in g1.determinants["coulomb"] if real_group(d) is g2]
                v21 = [d.value for d in g2.determinants["coulomb"] if real_group(d) is g1]
                if len(v12) != len(v21) or abs(sum(v12) + sum(v21)) > EPS:
                    out.append(("acid-base-not-opposite", f"{tag}/{cname}: Coulomb determinants of {g1.label.strip()} / {g2.label.strip()} are {v12} vs {v21}",
                                {"group1": g1.label, "group2": g2.label, "v12": v12, "v21": v21}))
    return out


# ------------------------------------------------------------------------------------------------ input generators
def ser_to_cys_dyads(text):
    """every SER whose OG is within 4 A of a HIS ring nitrogen becomes CYS (OG -> SG): Cys-His dyads, some of them buried"""
    lines = text.splitlines()
    his = []
    for l in lines:
        if structures.is_atom(l) and l[17:20] == "HIS" and l[12:16].strip() in ("ND1", "NE2"):
            his.append(tuple(float(v) for v in structures.get_xyz(l)))
    hit = set()
    for l in lines:
        if structures.is_atom(l) and l[17:20] == "SER" and l[12:16].strip() == "OG":
            p = tuple(float(v) for v in structures.get_xyz(l))
            if any(math.dist(p, h) < 4.0 for h in his):
                hit.add((l[21], l[22:27]))
    if not hit:
        return None, 0
    out = []
    for l in lines:
        if structures.is_atom(l) and l[17:20] == "SER" and (l[21], l[22:27]) in hit:
            l = l[:17] + "CYS" + l[20:]
            if l[12:16] == " OG ":
                l = (l[:12] + " SG " + l[16:]).ljust(78)
                l = l[:76] + " S" + l[78:]
        out.append(l)
    return "\n".join(out) + "\n", len(hit)


def add_ions(text, rng, names, per=1, charges=None):
    """HETATM ions of the given residue names 2.5-6 A from atoms of charged side chains (no clash below 2 A); with `charges`
    (name -> formal charge) the records carry the formal-charge field of the PDB format in columns 79-80 (digit then sign: '2+', '1-')"""
    lines = [l for l in text.splitlines() if l[:3] != "END"]
    atoms = [tuple(float(v) for v in structures.get_xyz(l)) for l in lines if structures.is_atom(l)]
    anchors = [tuple(float(v) for v in structures.get_xyz(l)) for l in lines if structures.is_atom(l)
               and (l[17:20], l[12:16].strip()) in (("ASP", "CG"), ("GLU", "CD"), ("LYS", "NZ"), ("ARG", "CZ"), ("HIS", "NE2"), ("TYR", "OH"), ("CYS", "SG"))]
    out = list(lines)
    serial = 9000
    resn = 900
    for nm in names:
        for _ in range(per):
            for _try in range(60):
                a = rng.choice(anchors)
                r = rng.uniform(2.5, 6.0)
                u = [rng.gauss(0, 1) for _ in range(3)]
                n = math.sqrt(sum(x * x for x in u)) or 1.0
                p = tuple(round(a[i] + r * u[i] / n, 3) for i in range(3))
                if all(math.dist(p, b) >= 2.0 for b in atoms):
                    atoms.append(p)
                    serial += 1
                    resn += 1
                    el = {"1P": "X", "2P": "X", "1N": "X", "2N": "X", "IOD": "I", "FE2": "FE"}.get(nm, nm)
                    out.append(f"HETATM{serial:>5d} {nm:<4s} {nm:>3s} Z{resn:>4d}    {p[0]:8.3f}{p[1]:8.3f}{p[2]:8.3f}  1.00  0.00          {el:>2s}")
                    if charges and charges.get(nm):
                        q = int(charges[nm])
                        out[-1] += f"{abs(q)}{'+' if q > 0 else '-'}"
                    break
    return "\n".join(out) + "\nEND\n"


def ring_ligand(text, hetero_positions=(0,), ion=None, resname="PYR"):
    """a planar six-membered aromatic ring (nitrogen at the given ring positions, position 0 first) placed so that its first nitrogen accepts a
    straight hydrogen bond (H...N 1.9 A) from the most exposed backbone N-H of the structure; optionally an ion 4.5 A beyond the ring"""
    al = [l for l in text.splitlines() if l[:6] == "ATOM  "]
    P = lambda l: [float(v) for v in structures.get_xyz(l)]
    atoms = [P(l) for l in al]
    res = [r for r in structures.residues(text) if r["tag"] == "ATOM  "]
    L = text.splitlines()
    best = None
    for k in range(1, len(res)):
        if res[k]["chain"] != res[k - 1]["chain"] or res[k]["name"] == "PRO":
            continue
        cur = {L[j][12:16].strip(): P(L[j]) for j in res[k]["lines"]}
        prev = {L[j][12:16].strip(): P(L[j]) for j in res[k - 1]["lines"]}
        if "N" not in cur or "CA" not in cur or "C" not in prev:
            continue
        n = cur["N"]
        def unit(v):
            m = math.sqrt(sum(x * x for x in v)); return [x / m for x in v]
        u = unit([a + b for a, b in zip(unit([n[i] - prev["C"][i] for i in range(3)]), unit([n[i] - cur["CA"][i] for i in range(3)]))])
        centre = [n[i] + (1.01 + 1.9 + 1.39) * u[i] for i in range(3)]
        crowd = sum(1 for a in atoms if math.dist(a, centre) < 4.5)
        if best is None or crowd < best[0]:
            best = (crowd, n, u, centre, res[k])
    crowd, n, u, centre, r = best
    w = [1.0, 0.0, 0.0] if abs(u[0]) < 0.9 else [0.0, 1.0, 0.0]
    v = [u[1] * w[2] - u[2] * w[1], u[2] * w[0] - u[0] * w[2], u[0] * w[1] - u[1] * w[0]]
    m = math.sqrt(sum(x * x for x in v)); v = [x / m for x in v]
    out = []
    for k in range(6):
        ang = math.pi + k * math.pi / 3          # position 0 points back at the backbone nitrogen
        p = [centre[i] + 1.39 * (math.cos(ang) * u[i] + math.sin(ang) * v[i]) for i in range(3)]
        el = "N" if k in hetero_positions else "C"
        out.append(f"HETATM{9200 + k:>5d}  {el}{k + 1:<2d} {resname} L 501    {p[0]:8.3f}{p[1]:8.3f}{p[2]:8.3f}  1.00  0.00           {el}")
    if ion:
        p = [centre[i] + 4.5 * u[i] for i in range(3)]
        out.append(f"HETATM 9210 {ion:<4s} {ion:>3s} L 502    {p[0]:8.3f}{p[1]:8.3f}{p[2]:8.3f}  1.00  0.00          {ion:>2s}")
    body = "\n".join(l for l in text.splitlines() if l[:3] != "END")
    return body + "\n" + "\n".join(out) + "\nEND\n", f"{r['name']}{r['num'].strip()}{r['chain']}"


SWAP = {"ASP": ("LYS", {"CG": "CG", "OD1": "CD", "OD2": "NZ"}), "GLU": ("LYS", {"CG": "CG", "CD": "CD", "OE1": "CE", "OE2": "NZ"})}


def acids_to_bases(text, rng, frac):
    """turn a fraction of ASP/GLU into (truncated) LYS by renaming atoms: creates base-base neighbours where there were salt bridges,
    and acid-acid ones are already present; geometry is not idealised (it does not need to be for sign / bound rules)"""
    out = []
    chosen = {}
    for l in text.splitlines():
        if structures.is_atom(l) and l[:6] == "ATOM  " and l[17:20] in SWAP:
            key = (l[21], l[22:27])
            if key not in chosen:
                chosen[key] = rng.random() < frac
            if chosen[key]:
                new, ren = SWAP[l[17:20]]
                nm = l[12:16].strip()
                if nm in ren:
                    n2 = ren[nm]
                    l = (l[:12] + " " + n2.ljust(3) + l[16:17] + new + l[20:]).ljust(78)
                    l = l[:76] + (" N" if n2 == "NZ" else " C") + l[78:]
                elif nm in ("N", "CA", "C", "O", "CB", "H", "HA"):
                    l = l[:17] + new + l[20:]
                else:
                    continue
        out.append(l)
    return "\n".join(out) + "\n"


def custom_cfg(changes, extra_lines=()):
    """a copy of the shipped propka.cfg with some scalar entries replaced -> path (under /var/tmp, removed by the caller)"""
    src = (common.REPO / "propka" / "propka.cfg").read_text().splitlines()
    out = []
    for l in src:
        k = l.split()[0] if l.split() else ""
        if k in changes:
            l = f"{k} {changes[k]}"
        out.append(l)
    out += list(extra_lines)
    fd, path = tempfile.mkstemp(suffix=".cfg", dir="/var/tmp")
    os.write(fd, ("\n".join(out) + "\n").encode())
    os.close(fd)
    return path


def run(chk: common.Check):
    common.impl_setup()
    rng = chk.rng
    missing = [(m, f) for m, fs in NEEDED.items() for f in fs if f in gen.GEN_ERRORS or f not in gen.MODULES[m].funcs]
    proved = False
    if missing:
        why = gen.GEN_ERRORS.get(missing[0][1], "not generated")
        chk.obligations.append((f"translate {missing[0][1]}", False, why))
        chk.broken_obligation = {"where": "py2coq", "function": missing[0][1], "log_tail": why}
    else:
        proved = chk.prove()
        validate_generated(chk, rng, 400 if chk.thorough else 150)

    found = []
    cases = []
    late_cfgs = []
    names = ["1HPX.pdb", "3SGB.pdb", "1FTJ-Chain-A.pdb"] + (["4DFR.pdb", "3SGB-subset.pdb", "sample-issue-140.pdb", "conf-alt-AB.pdb"] if chk.thorough else [])
    for n in names:
        cases.append((n, structures.read(n), []))
    for n in ["3SGB.pdb", "1HPX.pdb"] + (["4DFR.pdb", "1FTJ-Chain-A.pdb"] if chk.thorough else []):
        t, k = ser_to_cys_dyads(structures.read(n))
        if t:
            cases.append((f"{n} Ser->Cys next to His x{k}", t, []))
    import propka.parameters
    ion_names = sorted(propka.parameters.Parameters().ions.keys()) or []
    if not ion_names:
        from propka.input import read_parameter_file
        from propka.lib import loadOptions
        ion_names = sorted(read_parameter_file(loadOptions(["x.pdb"]).parameters, propka.parameters.Parameters()).ions.keys())
    for n in ["1HPX.pdb"] + (["3SGB-subset.pdb", "4DFR.pdb"] if chk.thorough else []):
        cases.append((f"{n} + every ion type", add_ions(structures.read(n), rng, ion_names, per=2 if chk.thorough else 1), []))
    # the same with the formal-charge field of the PDB format filled in on every ion record (standard spelling: digit, then sign)
    from propka.input import read_parameter_file as _rpf
    from propka.lib import loadOptions as _lo
    ion_q = dict(_rpf(_lo(["x.pdb"]).parameters, propka.parameters.Parameters()).ions)
    for n in ["3SGB-subset.pdb"] + (["1HPX.pdb"] if chk.thorough else []):
        cases.append((f"{n} + every ion type, formal-charge field written", add_ions(structures.read(n), rng, ion_names, per=2 if chk.thorough else 1, charges=ion_q), []))
    # a ligand BASE (aromatic ring nitrogen, type NAR) accepting a straight hydrogen bond from a backbone amide N-H; the same with two coupled
    # ring nitrogens next to a calcium ion, also under shared_determinants 1 (covalently coupled groups share their determinants)
    for n in ["sample-issue-140.pdb"] + (["3SGB-subset.pdb"] if chk.thorough else []):
        t1, where = ring_ligand(structures.read(n))
        cases.append((f"{n} + pyridine accepting the backbone N-H of {where}", t1, []))
        t2, where = ring_ligand(structures.read(n), (0, 2), "CA")
        cases.append((f"{n} + pyrimidine (two coupled ring nitrogens) at the N-H of {where} + Ca", t2, []))
        shared_cfg = custom_cfg({"shared_determinants": "1"})
        late_cfgs.append(shared_cfg)
        cases.append((f"{n} + pyrimidine + Ca with shared_determinants 1", t2, ["-p", shared_cfg]))
    # an iron(II) ion (residue name FE2, charge 2) 3 A from the carboxylate of the buried ASP 102 of 3SGB
    t3 = structures.read("3SGB.pdb")
    od = next(([float(v) for v in structures.get_xyz(l)] for l in t3.splitlines() if structures.is_atom(l) and l[17:20] == "ASP" and l[21] == "E" and l[22:26].strip() == "102" and l[12:16].strip() == "OD1"), None)
    if od:
        al3 = [[float(v) for v in structures.get_xyz(l)] for l in structures.atom_lines(t3)]
        best = None
        for dx, dy, dz in itertools.product((-1.0, 0.0, 1.0), repeat=3):
            n_ = math.sqrt(dx * dx + dy * dy + dz * dz)
            if n_ == 0:
                continue
            p_ = [od[0] + 3.0 * dx / n_, od[1] + 3.0 * dy / n_, od[2] + 3.0 * dz / n_]
            clash = min(math.dist(p_, a_) for a_ in al3)
            if best is None or clash > best[0]:
                best = (clash, p_)
        p_ = best[1]
        fe = f"HETATM 9300 FE   FE2 Z 950    {p_[0]:8.3f}{p_[1]:8.3f}{p_[2]:8.3f}  1.00  0.00          FE"
        cases.append(("3SGB.pdb + FE2 ion 3 A from ASP 102 E", "\n".join(l for l in t3.splitlines() if l[:3] != "END") + "\n" + fe + "\nEND\n", []))
    # an ensemble: the same model twice (the average over conformations is reported too)
    body = "\n".join(l for l in structures.read("3SGB-subset.pdb").splitlines() if structures.is_atom(l) or l[:3] == "TER")
    cases.append(("3SGB-subset.pdb as two identical MODELs", f"MODEL        1\n{body}\nENDMDL\nMODEL        2\n{body}\nENDMDL\nEND\n", []))
    for n in ["3SGB-subset.pdb", "1HPX.pdb"] + (["1FTJ-Chain-A.pdb"] if chk.thorough else []):
        for _ in range(3 if chk.thorough else 1):
            cases.append((f"{n} acids->bases", acids_to_bases(structures.read(n), rng, 0.5), []))
    cfgs = []
    try:
        for ch in ({"desolvationAllowance": "0.10"}, {"desolvationAllowance": "0.25", "desolvationSurfaceScalingFactor": "0.5"},
                   {"coulomb_cutoff1": "3.0", "sidechain_interaction": "0.60"}, {"coulomb_diel": "4.0"}, {"coulomb_cutoff1": "7.0"}):
            path = custom_cfg(ch)
            cfgs.append(path)
            for n in ["3SGB-subset.pdb"] + (["1HPX.pdb"] if chk.thorough else []):
                cases.append((f"{n} with {ch}", structures.read(n), ["-p", path]))
        # a parameter file that excludes a residue type from side-chain interactions (list parameter, empty in the shipped file)
        path = custom_cfg({}, extra_lines=["exclude_sidechain_interactions HIS", "exclude_sidechain_interactions TYR"])
        cfgs.append(path)
        for n in ["3SGB.pdb"] + (["1HPX.pdb"] if chk.thorough else []):
            cases.append((f"{n} with exclude_sidechain_interactions HIS TYR", structures.read(n), ["-p", path]))
        # insertion-code twins of one residue type next to a common partner (labels coincide; determinants must stay per partner)
        tw = structures.map_atoms(structures.read("1HPX.pdb"), lambda l: structures.set_resnum(l, 29, "A") if (l[21] == "A" and l[22:26].strip() == "30" and l[17:20] == "ASP") else l)
        cases.append(("1HPX ASP A 30 relabelled 29A (twin of ASP A 29)", tw, []))
        ndes, desdis = 0, []
        for name, text, opts in cases:
            try:
                mol, _ = structures.run(text, opts)
            except Exception as ex:   # noqa: BLE001  (a crash is not a sign violation; count it)
                chk.count(1, key=("crash", name, type(ex).__name__))
                chk.cov.setdefault("crashes", 0)
                continue
            ndets = sum(len(g.determinants[k]) for c in mol.conformation_names for g in mol.conformations[c].groups for k in KIND)
            nion = sum(1 for c in mol.conformation_names for g in mol.conformations[c].groups if g.type == "ION")
            chk.count(1, key=("case", name, ndets))
            chk.cov["determinants_scanned"] = chk.cov.get("determinants_scanned", 0) + ndets
            chk.cov["ion_groups"] = chk.cov.get("ion_groups", 0) + nion
            for sig, what, rep in scan(name, mol, shared="shared_determinants 1" in name):
                rep = dict(rep, case=name, options=opts, pdb_text=text if len(text) < 300000 else None)
                found.append((sig, what, rep))
            if not missing and (ndes < (2000 if chk.thorough else 250)):
                k, d = desolvation_composition(chk, mol, 40 if chk.thorough else 12)
                ndes += k
                desdis += d
    finally:
        for p in cfgs + late_cfgs:
            os.unlink(p)
    chk.corr_stats["desolvation_slices_composed ~ radial_volume_desolvation"] = {"groups": ndes, "disagreements": len(desdis)}
    chk.cov["traces_validated_against_impl"] += ndes
    chk.sample({"cases": [c[0] for c in cases][:8]})
    uniq = {}
    for sig, what, rep in found:
        uniq.setdefault(sig, (sig, what, rep))
    found = list(uniq.values())
    gv = getattr(chk, "_genval_dis", [])
    if missing or not proved:
        chk.broken("proof", "props/C16.v" if not missing else f"translation of {missing[0][1]}", chk.broken_obligation, search_fn=lambda: found)
    elif gv or desdis:
        chk.broken("correspondence", "generated model ~ implementation", {"genval": gv[:3], "desolvation": desdis[:3]}, search_fn=lambda: found)
    else:
        for sig, what, rep in found:
            chk.finding(sig, what, rep)
    return chk.finish(
        level="proof",
        rule=("obligations = theorems of coq/props/C16.v (all real arguments). Tie: energy kernels, exception functions and every determinant-"
              "creating function regenerated each run and validated bit for bit (IR, and Coq PrimFloat where transcendental-free) against the real "
              "functions, emitted events compared with logged appends; desolvation slices composed and compared with energy_volume/buried of real "
              "groups. Search: every determinant of every conformation (not AVR) of reference structures, Ser->Cys dyads, all ion types, "
              "acid->base swaps, custom parameter files; distinct = (case, number of determinants)"
              " Added in rounds 4-6: ion records with the PDB formal-charge field, ensembles (average: buried range, desolvation sign), a ligand base accepting a backbone N-H bond, coupled ring nitrogens + Ca under shared_determinants 1, an ion's charge vs the table entry of its residue name, another solvent dielectric."),
        assumptions=["bounds are checked with the configured maxima of the parameter file in use; groups discarded by the covalent-coupling penalty "
                     "are outside the 'reported protein side chains' of the equal-and-opposite clause",
                     "COO-ARG / COO-COO exceptions sum two hydrogen bonds (<= 2 x maximum) - covered by the scan, their loops are not modelled"],
        trusted=["py2coq translator + slicing (validated each run)", "stdlib real-number axioms"])
