"""C15 — coupling analysis observes without disturbing.  Theorems: coq/props/C15.v (transfer / swap of model/Dets.v).
Tie: trace validation of runs whose coupling analysis performs swaps (bit-exact replay of the recorded operations, OSwap
being reproduced by the model, not logged).  Search: analysis switched off vs on (values, determinant multisets), symmetry
of the coupled relation, star <-> partner."""
import re

from vlib import common, structures, detstrace as DT

KINDS = DT.KINDS


def twin_labels(text, rng):
    """make two same-type titratable residues share number (insertion-code twins): their groups get EQUAL labels, so a third group
    can hold several determinants towards 'the same' partner label"""
    res = [r for r in structures.residues(text) if r["tag"] == "ATOM  " and r["name"] in ("LYS", "ASP", "GLU", "ARG")]
    by = {}
    for r in res:
        by.setdefault((r["name"], r["chain"]), []).append(r)
    cands = [v for v in by.values() if len(v) >= 2]
    if not cands:
        return None
    grp = rng.choice(cands)
    a, b = rng.sample(grp, 2)
    lines = text.splitlines()
    for i in b["lines"]:
        lines[i] = lines[i][:22] + a["num"] + "A" + lines[i][27:]
    return "\n".join(lines) + "\n", f"{b['name']}{b['num'].strip()}{b['chain']} relabelled {a['num'].strip()}A"


def twins_sharing_a_partner(text, rng, limit):
    """relabel so that one group holds determinants towards two DIFFERENT partners carrying the SAME label:
    pick a group with determinants to two partners of one residue type and make those partners insertion-code twins"""
    out = []
    mol, _ = structures.run(text)
    conf = mol.conformations[mol.conformation_names[0]]
    by_label = {g.label: g for g in conf.groups}
    seen = set()
    for g in conf.groups:
        if not g.titratable:
            continue
        partners = {}
        for k in ("coulomb", "sidechain"):
            for d in g.determinants[k]:
                p = by_label.get(d.label)
                if p is not None and p.titratable and p.atom.type == "atom" and p.label[:3] in ("LYS", "ARG", "ASP", "GLU", "HIS", "TYR"):
                    partners.setdefault(p.label[:3], {})[p.label] = p
        for rt, ps in partners.items():
            if len(ps) >= 2:
                a, b = list(ps.values())[:2]
                key = (a.label, b.label)
                if key in seen or a.atom.chain_id != b.atom.chain_id:
                    continue
                seen.add(key)
                lines = []
                for l in text.splitlines():
                    if structures.is_atom(l) and len(l) > 27 and l[21] == (b.atom.chain_id if b.atom.chain_id != "_" else " ") \
                            and l[22:26].strip() == str(b.atom.res_num) and l[17:20] == b.atom.res_name:
                        l = l[:22] + f"{a.atom.res_num:>4d}" + "A" + l[27:]
                    lines.append(l)
                out.append((f"{g.label.strip()} sees twins {a.label.strip()} / {b.label.strip()}->{a.atom.res_num}A", "\n".join(lines) + "\n"))
    rng.shuffle(out)
    return out[:limit]


def state_of(mol):
    out = {}
    for cname in mol.conformation_names:
        for i, g in enumerate(mol.conformations[cname].groups):
            out[(cname, i, g.label)] = (g.pka_value, {k: sorted((d.label, round(d.value, 12)) for d in g.determinants[k]) for k in KINDS})
    return out


def run(chk: common.Check):
    common.impl_setup()
    rng = chk.rng
    import propka.coupled_groups as C
    proved = chk.prove()
    found, dis = [], []
    cases = []
    for n in ["1HPX.pdb", "3SGB-subset.pdb"] + (["1FTJ-Chain-A.pdb", "4DFR.pdb"] if chk.thorough else []):
        cases.append((n, structures.read(n)))
    base = structures.read("1HPX.pdb")
    for _ in range(6 if chk.thorough else 3):
        r = twin_labels(base, rng)
        if r:
            cases.append(("1HPX " + r[1], r[0]))
    r = twin_labels(structures.read("3SGB-subset.pdb"), rng)
    if r:
        cases.append(("3SGB-subset " + r[1], r[0]))
    for nm in ["1HPX.pdb", "3SGB-subset.pdb"] + (["1FTJ-Chain-A.pdb"] if chk.thorough else []):
        for d, t in twins_sharing_a_partner(structures.read(nm), rng, 12 if chk.thorough else 5):
            cases.append((f"{nm} {d}", t))
    # logging options must not change anything (the verbose analysis path keeps swapped states)
    for nm in ("1HPX.pdb",) + (("1FTJ-Chain-A.pdb",) if chk.thorough else ()):
        t = structures.read(nm)
        ref = structures.results(t, [])
        for opt in (["--log-level", "DEBUG"], ["--log-level", "INFO"], ["--log-level", "ERROR"]):
            got = structures.results(t, opt)
            chk.count(1, key=("log-level", nm, opt[1]))
            if got != ref:
                found.append(("option-disturbs:log-level", f"{nm}: results with {opt} differ from the default run although -d was not requested: {structures.diff(ref, got)[:3]}",
                              {"pdb": nm, "options": opt, "differences": structures.diff(ref, got)[:5]}))
    from props import c16
    cfgs = []
    cases = [(n, t, []) for n, t in cases]
    for ch, extra in (({"min_swap_pka_shift": "5.0"}, ()), ({"max_free_energy_diff": "0.1"}, ()), ({}, ("exclude_sidechain_interactions TYR", "exclude_sidechain_interactions ASP")),
                      ({"max_intrinsic_pka_diff": "0.2"}, ())):
        path = c16.custom_cfg(ch, extra_lines=extra)
        cfgs.append(path)
        cases.append((f"1HPX.pdb with {ch or list(extra)}", structures.read("1HPX.pdb"), ["-p", path]))
    # every switch (0 / 1 setting) of the CURRENT parameter file, toggled one at a time: whatever a switch selects, the analysis only observes
    import re as _re
    for m_ in _re.finditer(r"(?m)^([A-Za-z_]\w*)[ \t]+([01])[ \t]*(?:#.*)?$", (common.REPO / "propka" / "propka.cfg").read_text()):
        ch = {m_.group(1): str(1 - int(m_.group(2)))}
        path = c16.custom_cfg(ch)
        cfgs.append(path)
        cases.append((f"1HPX.pdb with switch {ch}", structures.read("1HPX.pdb"), ["-p", path]))
    # the pKa window of the pair screen moved across existing pairs: one member inside, one outside [min_pka, max_pka]
    for nm, ch in [("3SGB.pdb", {"max_pka": "10.5"}), ("1HPX.pdb", {"min_pka": "4.5", "max_pka": "9.0"})] + \
                  ([("3SGB.pdb", {"max_pka": "10.8"}), ("1FTJ-Chain-A.pdb", {"max_pka": "10.5"}), ("1HPX.pdb", {"min_pka": "5.5"}), ("4DFR.pdb", {"max_pka": "10.4"})] if chk.thorough else []):
        path = c16.custom_cfg(ch)
        cfgs.append(path)
        cases.append((f"{nm} with {ch}", structures.read(nm), ["-p", path]))
    # a penalised group (side chain of a chain start, covalently coupled to its own N+) that is non-covalently coupled to a group elsewhere:
    # 1HPX with chain B starting at ASP 25
    hpx = structures.read("1HPX.pdb")
    cases.append(("1HPX.pdb with chain B cut to 25-99", "\n".join(l for l in hpx.splitlines() if not (l[:6] == "ATOM  " and l[21] == "B" and int(l[22:26]) < 25)) + "\n", []))
    # the dimer pulled apart a little: pairs that pass the interaction / pKa tests but fail on the swap-shift criterion
    from decimal import Decimal as _D
    for dx in (1.5, 2.0):
        moved = structures.map_atoms(structures.read("1HPX.pdb"), lambda l: structures.set_xyz(l, structures.get_xyz(l)[0] + _D(str(dx)), structures.get_xyz(l)[1], structures.get_xyz(l)[2]) if l[21] == "B" else l)
        cases.append((f"1HPX.pdb chain B displaced by {dx} A", moved, []))
    nswaps = 0
    for name, text, copts in cases:
        # ---- analysis off (no swap at all) vs on
        C.NCCG.do_prot_stat = False
        try:
            mol0, _ = structures.run(text, copts)
        finally:
            C.NCCG.do_prot_stat = True
        with DT.recording() as rec:
            mol1, _ = structures.run(text, copts)
            DT.finalize(rec)
        sw = sum(1 for o in rec.ops if o[0] == "OSwap")
        nswaps += sw
        chk.count(1, key=("case", name, sw))
        s0, s1 = state_of(mol0), state_of(mol1)
        if s0.keys() != s1.keys():
            found.append(("analysis-changes-groups", f"{name}: group set differs with/without coupling analysis", {"case": name}))
        else:
            for k in s0:
                if abs(s0[k][0] - s1[k][0]) > 1e-9 or s0[k][1] != s1[k][1]:
                    found.append(("analysis-disturbs", f"{name}: {k[2]} ({k[0]}) pKa/determinants {s1[k][0]:.4f} with the coupling analysis, {s0[k][0]:.4f} without "
                                  f"(swap not undone exactly)", {"case": name, "group": k[2], "conformation": k[0], "with": s1[k], "without": s0[k],
                                                                   "pdb_text": text if len(text) < 250000 else None}))
                    break
        # ---- relation symmetric; star iff partner
        for cname in list(mol1.conformation_names) + ["AVR"]:      # (the average is what the .pka file prints)
            conf = mol1.conformations[cname]
            for g in conf.groups:
                for h in g.non_covalently_coupled_groups:
                    if g not in h.non_covalently_coupled_groups:
                        found.append(("coupling-asymmetric", f"{name} ({cname}): {g.label} lists {h.label} as coupled but not vice versa", {"case": name, "conformation": cname}))
                ids = [id(h) for h in g.non_covalently_coupled_groups]
                if len(ids) != len(set(ids)):      # C15_partners_listed_once
                    found.append(("coupling-partner-listed-twice", f"{name} ({cname}): {g.label} lists a coupled partner more than once: "
                                  f"{[x.label for x in g.non_covalently_coupled_groups]}", {"case": name, "conformation": cname}))
                for rpg in (False, True):
                    s = g.get_determinant_string(rpg)
                    first = s.split("\n")[0] if s else ""
                    star = len(first) > 16 and first[16] == "*"
                    if s and star != (len(g.non_covalently_coupled_groups) > 0):
                        found.append(("star-mismatch", f"{name}: {g.label} star={star} (remove_penalised_group={rpg}) but coupled partners={[x.label for x in g.non_covalently_coupled_groups]}",
                                      {"case": name, "pdb_text": text if len(text) < 250000 else None}))
        # ---- trace replay (the swaps are executed by the model)
        replayed = chk.cov["traces_validated_against_impl"]
        if (sw and (chk.thorough or replayed < 3 or (replayed < 5 and "twins" in name))) or (chk.thorough and replayed < 12):
            model = DT.model_final(rec, tag="c15")
            d = DT.compare(rec, model)
            if d:
                dis.append({"case": name, "differences": d[:4]})
            chk.cov["traces_validated_against_impl"] += 1
    import os as _os
    for p_ in cfgs:
        if _os.path.exists(p_):
            _os.unlink(p_)
    chk.corr_stats["dets_trace_with_swaps"] = {"runs": len(cases), "swap_operations_replayed": nswaps, "disagreements": len(dis)}
    chk.sample({"case": cases[-1][0], "swaps": nswaps})
    uniq = {}
    for sig, what, rep in found:
        uniq.setdefault(sig, (sig, what, rep))
    found = list(uniq.values())
    if dis:
        chk.broken("correspondence", "Dets model (OSwap) ~ swap_interactions / transfer_determinant", {"runs": dis[:3]}, search_fn=lambda: found)
    elif not proved:
        chk.broken("proof", "props/C15.v", chk.broken_obligation, search_fn=lambda: found)
    else:
        for sig, what, rep in found:
            chk.finding(sig, what, rep)
    return chk.finish(
        level="proof",
        rule=("obligations = theorems of coq/props/C15.v (all determinant lists and labels; all states). Trace validation: runs with coupled "
              "groups incl. relabelled insertion-code twins (equal labels, several determinants towards one label); OSwap operations are "
              "reproduced by the model. Search: coupling analysis off vs on (pKa and determinant multisets), symmetry of the relation, "
              "star <-> partner per conformation. distinct = (case, number of swaps)"
              " Added in rounds 4-6: the pKa window of the pair screen moved across pairs, a penalised chain-start side chain coupled elsewhere, the star with and without remove_penalised_group, the averaged conformation, every 0/1 switch of the current parameter file toggled."),
        assumptions=["pKa equality is over R; the float sum after swap/unswap may differ in the last bit because list order changes (search tolerance 1e-9)",
                     "display mode (-d) keeps the swapped state by design and is outside the claim"],
        trusted=["tools/vlib/detstrace.py recorder", "model/Dets.v validated by replay", "stdlib real axioms"])
