"""C11 — bonds by the cell list = bonds by the pairwise rule.  Theorems: coq/props/C11.v (all atom lists, over R).
Tie: offsets/constants re-extracted every run (T), squared_distance regenerated (G), and a TRACE-LEVEL correspondence of
model/Bonds.v in binary64 with BondMaker.find_bonds_for_atoms_using_boxes: box size, cell contents, the sequence of examined
pairs, the bonded lists in order and the bridge flags must all be identical.
Search: independent O(n^2) criterion on generated placements (every neighbour direction x boundary distances) and on real
structures in several poses; bridged cysteines are not titrated."""
import inspect
import itertools
import math
import textwrap
import types

from vlib import common, gen, genval, tables, structures

SPECIAL = {("S", "S"): 2.5, ("F", "F"): 1.7}


def ref_bonded(e1, p1, e2, p2):
    """independent statement of the documented criterion"""
    d2 = sum((a - b) ** 2 for a, b in zip(p1, p2))
    nh = (e1 == "H") + (e2 == "H")
    if nh == 1:
        return d2 < 1.5 ** 2
    if nh == 0 and d2 < 2.0 ** 2:
        return True
    lim = SPECIAL.get((e1, e2))
    return lim is not None and d2 < lim * lim


def make_atoms(spec):
    import propka.atom
    atoms = []
    for el, (x, y, z) in spec:
        a = propka.atom.Atom()
        a.x, a.y, a.z, a.element, a.name = x, y, z, el, el
        atoms.append(a)
    return atoms


def instrumented_run(spec):
    """Run the real cell-list search with recording of box_size, boxes, examined pairs (no source hooks: the method source is
    re-executed with two recording lines inserted at anchored positions)."""
    import propka.bonds as B
    atoms = make_atoms(spec)
    idx = {id(a): i for i, a in enumerate(atoms)}
    bm = B.BondMaker()
    rec = {"pairs": []}
    src = textwrap.dedent(inspect.getsource(B.BondMaker.find_bonds_for_atoms_using_boxes)).split("\n")
    out, hit = [], 0
    for ln in src:
        ind = ln[:len(ln) - len(ln.lstrip())]
        if ln.lstrip().startswith("for (x, y, z), value in boxes.items()"):
            out.append(ind + "__verif_rec['boxes'] = [(k, [id(a) for a in v]) for k, v in boxes.items()]")
            hit += 1
        out.append(ln)
        if ln.lstrip().startswith("box_size ="):
            out.append(ind + "__verif_rec['box_size'] = box_size")
            hit += 1
    if hit != 2:
        raise RuntimeError("anchors of find_bonds_for_atoms_using_boxes not found (fail closed)")
    ns = dict(B.__dict__)
    ns["__verif_rec"] = rec
    exec(compile("\n".join(out), "<instrumented find_bonds_for_atoms_using_boxes>", "exec"), ns)
    bm.find_bonds_for_atoms_using_boxes = types.MethodType(ns["find_bonds_for_atoms_using_boxes"], bm)
    orig = bm._find_bonds_for_atoms

    def logged(a1, a2):
        rec["pairs"].append((idx[id(a1)], idx[id(a2)]))
        return orig(a1, a2)
    bm._find_bonds_for_atoms = logged
    bm.find_bonds_for_atoms_using_boxes(atoms)
    adj = [[idx[id(b)] for b in a.bonded_atoms] for a in atoms]
    bridge = [bool(a.cysteine_bridge) for a in atoms]
    boxes = [(list(k), [idx[i] for i in v]) for k, v in rec.get("boxes", [])]
    return {"box_size": rec.get("box_size"), "boxes": boxes, "pairs": rec["pairs"], "adj": adj, "bridge": bridge}


def plain_run(spec):
    import propka.bonds as B
    atoms = make_atoms(spec)
    idx = {id(a): i for i, a in enumerate(atoms)}
    B.BondMaker().find_bonds_for_atoms_using_boxes(atoms)
    return [[idx[id(b)] for b in a.bonded_atoms] for a in atoms], [bool(a.cysteine_bridge) for a in atoms]


def r3(v):
    return round(v, 3)


def gen_specs(rng, thorough):
    specs = []
    box = 2.51
    dirs = [d for d in itertools.product((-1, 0, 1), repeat=3) if d != (0, 0, 0)]
    dists = [1.49, 1.5, 1.51, 1.99, 2.0, 2.01, 2.49, 2.5, 2.501]
    # (a) a pair straddling a cell wall in every one of the 26 directions
    for d in dirs:
        n = math.sqrt(sum(c * c for c in d))
        for dist in (dists if thorough else rng.sample(dists, 4)):
            for els in (("S", "S"), ("C", "N"), ("H", "N"), ("F", "F"), ("C", "H")):
                k = rng.choice([-3, -1, 0, 1, 4])
                eps = rng.choice([0.001, 0.01, 0.3])
                a = tuple(r3(box * (k + (1 if c > 0 else 0)) - (eps if c > 0 else -eps if c < 0 else -1.0)) for c in d)
                b = tuple(r3(a[i] + dist * d[i] / n) for i in range(3))
                sp = [(els[0], a), (els[1], b)]
                if rng.random() < 0.5:
                    sp.reverse()
                sp.insert(rng.randrange(3), ("C", tuple(r3(a[i] + 30.0) for i in range(3))))
                specs.append(sp)
    # (b) clusters: random coordinates, negative / mixed signs, exact multiples of the box, dense
    for _ in range(60 if thorough else 15):
        n = rng.randint(2, 18)
        base = (rng.choice([-999.0, -7.5, 0.0, 2.51, 25.1, 9990.0]),) * 3
        sp = []
        for _ in range(n):
            el = rng.choice(["C", "C", "N", "O", "S", "S", "H", "F", "Cl", "Hg", "Zn", ""])
            p = tuple(r3(base[i] + rng.choice([rng.uniform(-3.2, 3.2), 0.0, 2.51, -2.51, 5.02, rng.uniform(-0.002, 0.002)])) for i in range(3))
            sp.append((el, p))
        specs.append(sp)
    # (d) hydrogens: H-H pairs closer than the X-H cut-off (never bonded), a hydrogen within X-H distance of two heavy atoms (bonded to both),
    #     in every atom order
    for base in ((0.2, 0.3, 0.1), (-5.0, 2.51, -2.51)):
        b = base
        hh = [("O", b), ("H", (r3(b[0] + 0.96), b[1], b[2])), ("H", (r3(b[0] + 0.96), r3(b[1] + 0.9), b[2])), ("H", (r3(b[0] + 5.0), b[1], b[2])), ("H", (r3(b[0] + 5.74), b[1], b[2]))]
        bridge_h = [("O", b), ("H", (r3(b[0] + 1.2), b[1], b[2])), ("O", (r3(b[0] + 2.4), b[1], b[2])), ("N", (r3(b[0] + 8.0), b[1], b[2])), ("H", (r3(b[0] + 8.9), r3(b[1] + 0.9), b[2])),
                    ("N", (r3(b[0] + 9.8), b[1], b[2]))]
        for sp in (hh, bridge_h):
            perms = list(itertools.permutations(sp)) if len(sp) <= 5 and thorough else [tuple(sp), tuple(reversed(sp))] + [tuple(rng.sample(sp, len(sp))) for _ in range(4)]
            for q in perms[: (120 if thorough else 6)]:
                specs.append(list(q))
    # (e) two different atoms almost or exactly on top of each other (the criterion has no lower distance limit), inside a cell and across a wall
    for sep in (0.0, 0.001, 0.1, 0.39, 0.4, 0.41):
        for els in (("C", "C"), ("S", "S"), ("N", "H"), ("O", "Zn")):
            for base in ((0.7, 0.8, 0.9), (r3(2.51 - sep / 2), -2.51, 5.02)):
                sp = [(els[0], base), (els[1], (r3(base[0] + sep), base[1], base[2])), ("C", (r3(base[0] + 1.4), r3(base[1] + 0.2), base[2]))]
                if rng.random() < 0.5:
                    sp.reverse()
                specs.append(sp)
    # (f) pairs of DIFFERENT elements between the generic limit and the largest special limit, in both atom orders (no special rule applies to them)
    for e1, e2 in (("S", "Se"), ("Se", "Se"), ("S", "O"), ("F", "Cl")):
        for dist in (1.9, 2.1, 2.3, 2.45):
            for base in ((0.4, 0.5, 0.6), (2.4, -2.6, 5.0)):
                a, b = (e1, base), (e2, (r3(base[0] + dist), base[1], base[2]))
                specs.append([a, b])
                specs.append([b, a])
    # (c) a disulfide slid along x through a cell boundary
    for t in ([i * 0.01 for i in range(0, 260, 7)] if thorough else [i * 0.05 for i in range(0, 52, 5)]):
        specs.append([("S", (r3(1.0 + t), 0.1, 0.2)), ("C", (r3(1.0 + t - 1.8), 0.1, 0.2)), ("S", (r3(1.0 + t + 2.04), 0.1, 0.2)), ("C", (r3(1.0 + t + 3.84), 0.1, 0.2))])
    return specs


def run(chk: common.Check):
    common.impl_setup()
    rng = chk.rng
    proved = False
    if tables.TABLE_ERRORS or "squared_distance" in gen.GEN_ERRORS:
        err = str(tables.TABLE_ERRORS or gen.GEN_ERRORS.get("squared_distance"))
        chk.obligations.append(("extract tables / translate squared_distance", False, err))
        chk.broken_obligation = {"where": "tables.py / py2coq", "log_tail": err}
    else:
        proved = chk.prove()

    from propka.calculations import squared_distance

    class P:
        def __init__(s, d):
            s.x, s.y, s.z = d["x"], d["y"], d["z"]
    pts = [{"atom1": {"x": rng.uniform(-50, 50), "y": rng.uniform(-50, 50), "z": rng.uniform(-50, 50)},
            "atom2": {"x": rng.uniform(-50, 50), "y": rng.uniform(-50, 50), "z": rng.uniform(-50, 50)}} for _ in range(200)]
    genval.validate(chk, "VecGen", "squared_distance", lambda e: squared_distance(P(e["atom1"]), P(e["atom2"])), pts)

    # ------------------------------------------------------------ trace-level correspondence
    specs = gen_specs(rng, chk.thorough)
    fx = genval.fhex
    exprs, meta = [], []
    sub = specs if chk.thorough else specs[::2]
    for sp in sub:
        try:
            tr = instrumented_run(sp)
        except RuntimeError as ex:
            chk.corr_stats["instrumentation"] = str(ex)
            tr = None
        atoms = "[" + "; ".join(f"{{| b_pos := mk_vec3 {fx(p[0])} {fx(p[1])} {fx(p[2])}; b_elem := {tables.cstr(el)}%string |}}" for el, p in sp) + "]"
        n = len(sp)
        exprs.append(
            f"(let atoms := {atoms} in let L := number 0%nat atoms in let bs := boxes (cell_of float_floor) L in "
            f"let ex := examined offsets bs in let st := find_all check_distance is_sulfur ex in "
            f"[ [match Prim2SF (box_size (F:=float)) with S754_finite _ m e => [Zpos m; e] | _ => [0%Z;0%Z] end] ; "
            f"map (fun cb => let '(x,y,z) := fst cb in ([x;y;z] ++ map (fun a => Z.of_nat (fst a)) (snd cb))%list) bs ; "
            f"map (fun p => [Z.of_nat (fst (fst p)); Z.of_nat (fst (snd p))]) ex ; "
            f"map (fun i => map Z.of_nat (adj st i)) (seq 0%nat {n}%nat) ; "
            f"[map (fun i => if bridge st i then 1%Z else 0%Z) (seq 0%nat {n}%nat)] ])")
        meta.append((sp, tr))
        chk.count(1, key=("trace", len(sp), tuple(sorted(e for e, _ in sp))))
    pre = ("From Coq Require Import String List ZArith PrimFloat FloatOps SpecFloat.\nFrom V Require Import Num FloatIO VecGen Bonds_gen Bonds.\n"
           "Import ListNotations.\nOpen Scope Z_scope.\nOpen Scope float_scope.\n")
    res = common.coq_eval("c11", pre, exprs, shard=25)
    dis = []
    for (sp, tr), r in zip(meta, res):
        if tr is None:
            dis.append({"spec": sp, "what": "instrumentation failed"})
            continue
        (mbox,), mboxes, mpairs, madj, (mbridge,) = r
        what = None
        m, e = mbox
        if tr["box_size"] is None or math.ldexp(m, e) != tr["box_size"]:
            what = ("box_size", tr["box_size"], math.ldexp(m, e))
        elif [(b[:3], b[3:]) for b in mboxes] != [(k, v) for k, v in tr["boxes"]]:
            what = ("boxes", tr["boxes"][:4], mboxes[:4])
        elif [tuple(p) for p in mpairs] != tr["pairs"]:
            what = ("examined pairs", tr["pairs"][:8], mpairs[:8])
        elif [list(a) for a in madj] != tr["adj"]:
            what = ("bonded lists", tr["adj"], madj)
        elif [bool(b) for b in mbridge] != tr["bridge"]:
            what = ("bridge flags", tr["bridge"], mbridge)
        if what:
            dis.append({"spec": sp, "first_difference": what})
    chk.cov["traces_validated_against_impl"] += len(sub)
    chk.corr_stats["cell_list_trace"] = {"cases": len(sub), "disagreements": len(dis),
                                         "atoms_histogram": {str(k): sum(1 for s in sub if len(s) == k) for k in sorted({len(s) for s in sub})}}
    chk.sample({"atoms": specs[0]})

    # ------------------------------------------------------------ float cell index: the two facts the theorem needs of it
    import numpy as np
    import propka.bonds as B
    bm = B.BondMaker()
    box = max(B.BOX_SIZE, bm.max_sq_distance ** 0.5 + 0.01)
    found = []
    if chk.thorough:
        ks = np.arange(-999999, 10000000, dtype=np.int64)
    else:
        ks = np.unique(np.concatenate([np.arange(-30000, 30001, dtype=np.int64),
                                       np.array(sorted(rng.sample(range(-999999, 9999999), 200000)), dtype=np.int64),
                                       (np.arange(-398, 3984)[:, None] * 2510 + np.arange(-3, 4)[None, :]).ravel()]))
        ks = ks[(ks >= -999999) & (ks <= 9999999)]
    cells = np.floor((ks / 1000.0) / box).astype(np.int64)
    mono = bool(np.all(np.diff(cells) >= 0))
    # adjacency: coordinates at most sqrt(max_sq) apart are at most one cell apart
    reach = int(round(math.sqrt(bm.max_sq_distance) * 1000))
    full = np.arange(int(ks.min()), int(ks.max()) + 1, dtype=np.int64) if chk.thorough else None
    if chk.thorough:
        adj_ok = bool(np.all(cells[reach:] <= cells[:-reach] + 1))
    else:
        c2 = np.floor(((ks + reach) / 1000.0) / box).astype(np.int64)
        adj_ok = bool(np.all(c2 <= cells + 1))
    chk.cov["float_cell_validation"] = {"coordinates_checked": int(len(ks)), "exhaustive": bool(chk.thorough), "monotone": mono,
                                        "adjacent_within_reach": adj_ok, "box_size": box, "reach_milli_angstrom": reach}
    chk.count(int(len(ks)), key=("float-cell", bool(chk.thorough)))
    if not (mono and adj_ok):
        k = int(ks[np.argmax(np.diff(cells) < 0)]) if not mono else int(ks[np.argmax(cells[reach:] > cells[:-reach] + 1)]) if chk.thorough else None
        found.append(("cell-index", f"float cell index floor(x/{box}) is not monotone/adjacent (box smaller than the largest bond criterion?)",
                      {"box_size": box, "reach": reach / 1000.0, "coordinate_milli_angstrom": k}))

    # ------------------------------------------------------------ search: independent O(n^2) criterion
    for sp in specs:
        adj, bridge = plain_run(sp)
        n = len(sp)
        ok_el = all(el in ("C", "N", "O", "S", "H", "F", "Cl", "Zn", "Se", "") for el, _ in sp)
        for i in range(n):
            if i in adj[i] or len(set(adj[i])) != len(adj[i]):
                found.append(("self-or-duplicate-bond", f"atom {i} bonded list {adj[i]}", {"atoms": sp}))
            for j in range(n):
                if (j in adj[i]) != (i in adj[j]):
                    found.append(("asymmetric-bond", f"atom {j} in bonded list of {i} but not vice versa", {"atoms": sp, "adj": adj}))
                if i < j and ok_el:
                    want = ref_bonded(sp[i][0], sp[i][1], sp[j][0], sp[j][1])
                    if (j in adj[i]) != want:
                        d = math.dist(sp[i][1], sp[j][1])
                        dcell = tuple(math.floor(sp[j][1][k] / 2.51) - math.floor(sp[i][1][k] / 2.51) for k in range(3))
                        found.append((f"{'missed' if want else 'spurious'}-bond:{sp[i][0]}-{sp[j][0]}:cell-offset={dcell}",
                                      f"atoms {sp[i]} and {sp[j]} at {d:.3f} A are {'not ' if want else ''}bonded by the cell list; the pairwise rule says {want}",
                                      {"atoms": sp, "i": i, "j": j, "distance": d}))
                    if want and sp[i][0] == "S" and sp[j][0] == "S" and not (bridge[i] and bridge[j]):
                        found.append(("disulfide-not-flagged", f"sulfurs {i},{j} at disulfide distance: bridge flags {bridge[i]},{bridge[j]}", {"atoms": sp}))
        chk.count(1, key=("search", n))

    flag_cases = []      # (what, key, is_cys, model_pka_set, bridge, list or None, real titratable, real use_in_calculations)

    def collect_flags(what, conf, lst):
        for g in conf.groups:
            a = g.atom
            flag_cases.append((f"{what}: {g.label}", (a.chain_id, a.res_num, a.icode), g.residue_type == "CYS", bool(g.model_pka_set), bool(a.cysteine_bridge), lst,
                               bool(g.titratable), bool(g.use_in_calculations())))
    # real structures in several poses: bonds (as index pairs) invariant; bridged cysteines are not titrated
    names = ["3SGB-subset.pdb"] + (["1HPX.pdb", "1FTJ-Chain-A.pdb"] if chk.thorough else [])
    rots = structures.rotations24()
    for name in names:
        text = structures.read(name)
        ref = None
        poses = [(None, (0, 0, 0)), (None, (0.001, 1.254, -2.509)), (rots[7], (100.0, -250.5, 3.333)), (rots[13], (-850.0, 0.0, 17.17)), (rots[22], (2.51, 5.02, -2.51))]
        for rot, sh in (poses if chk.thorough else poses[:3]):
            t2 = structures.move(text, rot, sh)
            mol, _ = structures.run(t2)
            conf = mol.conformations[mol.conformation_names[0]]
            heavy = [a for a in conf.atoms if a.element != "H"]
            key = {id(a): (a.chain_id, a.res_num, a.icode, a.name, a.res_name) for a in heavy}
            bonds = sorted((key[id(a)], key[id(b)]) for a in heavy for b in a.bonded_atoms if id(b) in key)
            if ref is None:
                ref = bonds
                collect_flags(name, conf, None)
                # O(n^2) on the real atoms
                miss = 0
                for a, b in itertools.combinations(heavy, 2):
                    want = ref_bonded(a.element, (a.x, a.y, a.z), b.element, (b.x, b.y, b.z))
                    if want and b not in a.bonded_atoms:
                        miss += 1
                        found.append(("missed-bond:real-structure", f"{name}: {key[id(a)]} - {key[id(b)]} within the criterion but not bonded", {"pdb": name}))
                        break
            elif bonds != ref:
                d = sorted(set(bonds) ^ set(ref))[:4]
                found.append(("bonds-depend-on-pose", f"{name}: heavy-atom bonds differ after a rigid motion {sh}: {d}", {"pdb": name, "shift": sh, "diff": d}))
            if ref is bonds and any(g.atom.cysteine_bridge for g in conf.groups):
                # "not titrated": neither in the folded nor in the unfolded charge curve (sum over the titratable groups only)
                par_ = mol.version.parameters
                for ph_ in (7.0, 10.0, 12.0):
                    qu_, qf_ = conf.calculate_charge(par_, ph=ph_)
                    wu_ = sum(g.charge / (1.0 + 10.0 ** (g.charge * (ph_ - g.model_pka))) for g in conf.groups if g.titratable)
                    wf_ = sum(g.charge / (1.0 + 10.0 ** (g.charge * (ph_ - g.pka_value))) for g in conf.groups if g.titratable)
                    if abs(qu_ - wu_) > 1e-6 or abs(qf_ - wf_) > 1e-6:
                        found.append(("bridged-cys-in-charge-curve", f"{name} pH {ph_}: (unfolded, folded) charge ({qu_:.4f}, {qf_:.4f}) but the titratable groups (bridged cysteines excluded) give "
                                      f"({wu_:.4f}, {wf_:.4f})", {"pdb": name, "ph": ph_}))
                        break
            for g in conf.groups:
                if g.atom.cysteine_bridge and (g.titratable or g.pka_value != 99.99):
                    found.append(("bridged-cys-titrated", f"{name}: {g.label} is in a disulfide bridge but titratable={g.titratable}, pKa={g.pka_value}", {"pdb": name}))
                if g.residue_type == "CYS" and not g.atom.cysteine_bridge and g.pka_value == 99.99:
                    found.append(("free-cys-9999", f"{name}: {g.label} reported 99.99 without a bridge", {"pdb": name}))
            chk.count(1, key=("pose", name, sh))

    # the same with the cysteines NAMED in --titrate_only: naming a bridged cysteine must not make it titrate
    for name in names:
        text = structures.read(name)
        mol, _ = structures.run(text)
        conf = mol.conformations[mol.conformation_names[0]]
        cys = [g for g in conf.groups if g.residue_type == "CYS"]
        others = [g for g in conf.groups if g.titratable and g.residue_type in ("ASP", "GLU", "HIS", "LYS", "TYR")]
        if not cys:
            continue
        sel = cys + rng.sample(others, min(4, len(others)))
        opt = ",".join(sorted({f"{g.atom.chain_id}:{g.atom.res_num}{g.atom.icode.strip()}" for g in sel}))
        mol2, _ = structures.run(text, ["-i", opt])
        conf2 = mol2.conformations[mol2.conformation_names[0]]
        chk.count(1, key=("titrate_only", name))
        import propka.lib as _L
        collect_flags(f"{name} -i {opt}", conf2, _L.parse_res_list(opt))
        for g in conf2.groups:
            if g.residue_type == "CYS" and g.atom.cysteine_bridge and (g.titratable or g.pka_value != 99.99):
                found.append(("bridged-cys-titrated:titrate_only", f"{name} --titrate_only {opt}: {g.label} is in a disulfide bridge but titratable={g.titratable}, pKa={g.pka_value}",
                              {"pdb": name, "options": ["-i", opt]}))
                break

    # ---- correspondence: the flag life-cycle model (Titrate.v: flag_init / OpSetup / OpRestrict) vs the flags of real groups
    fdis = []
    if flag_cases:
        from props.c14 import of_codes
        ck = lambda k: f"({of_codes(k[0])}, ({k[1]})%Z, {of_codes(k[2])})"
        b = lambda v: "true" if v else "false"
        lists = {}
        exprs = []
        for what, key, is_cys, mps, bridge, lst, t, u in flag_cases:
            lo = "None" if lst is None else "(Some [" + "; ".join(ck(k) for k in lst) + "])"
            exprs.append(f"(let g := snd (flag_run (flag_init {ck(key)} {b(is_cys)} {b(bridge)} tt) [OpSetup {b(mps)}; OpRestrict {lo}]) in "
                         f"[Z.b2z (g_titratable g); Z.b2z (use_in_calculations g)])")
        pre = "From Coq Require Import String List ZArith Bool.\nFrom V Require Import PyString Titrate.\nImport ListNotations.\n"
        res = common.coq_eval("c11f", pre, exprs, shard=300)
        for (what, key, is_cys, mps, bridge, lst, t, u), r in zip(flag_cases, res):
            if [bool(r[0]), bool(r[1])] != [t, u]:
                fdis.append({"group": what, "model_pka_set": mps, "bridge": bridge, "listed": None if lst is None else key in lst, "impl": [t, u], "model": [bool(r[0]), bool(r[1])]})
        chk.corr_stats["titration flags ~ flag life-cycle model"] = {"groups": len(flag_cases), "bridged": sum(1 for c in flag_cases if c[4]), "disagreements": len(fdis)}
        chk.cov["traces_validated_against_impl"] += len(flag_cases)
        for d in fdis[:2]:
            if d["bridge"] and d["impl"][0]:
                found.append(("bridged-cys-titrated", f"{d['group']} sits on a bridged atom but is titratable (model: never)", d))

    uniq = {}
    for sig, what, rep in found:
        uniq.setdefault(sig, (sig, what, rep))
    found = list(uniq.values())
    gv = getattr(chk, "_genval_dis", [])
    if fdis and not (dis or gv):
        chk.broken("correspondence", "flag life-cycle model (Titrate.v) ~ titratable / use_in_calculations of real groups", {"flags": fdis[:4]}, search_fn=lambda: found)
    elif dis or gv:
        chk.broken("correspondence", "Bonds model ~ BondMaker.find_bonds_for_atoms_using_boxes", {"trace": dis[:3], "translator": gv}, search_fn=lambda: found)
    elif not proved:
        chk.broken("proof", "props/C11.v", chk.broken_obligation, search_fn=lambda: found)
    else:
        for sig, what, rep in found:
            chk.finding(sig, what, rep)
    return chk.finish(
        level="proof",
        rule=("obligations = theorems of coq/props/C11.v (every atom list over R; neighbour table facts by vm_compute on the re-extracted literal). "
              "Trace correspondence: box size, cell contents, sequence of examined pairs, ordered bonded lists, bridge flags on generated sets "
              "(26 directions x boundary distances x element mixes, clusters with negative / multiple-of-box coordinates, sliding disulfide); "
              "float cell index validated monotone + adjacent on the coordinate grid (exhaustive in the thorough tier); "
              "search: independent O(n^2) rule on the same sets and on real structures in rigid poses; flag life-cycle model vs the titration flags "
              "of all groups of real runs, bridged cysteines named in --titrate_only. distinct = (size, element multiset)"
              " Added in rounds 4-6: atoms on top of each other, bridged cysteines named in --titrate_only, S / Se pairs in both atom orders, bridged cysteines in the charge curves, the flag life-cycle model vs all groups of real runs."),
        assumptions=["theorem over R with cell = floor(x/box); for the binary64 cell index the two needed facts (monotone, adjacent within reach) are "
                     "validated on the 0.001 A coordinate grid, not proved",
                     "element symbols among the periodic-table symbols known to propka (symmetry of the special-distance key by finite computation)",
                     "bridged cysteine => not titrated: theorem over the flag life-cycle model (Titrate.v) whose operations are shown to be ALL the "
                     "assignments to titratable / cysteine_bridge / exclude_cys_from_results of the current source (re-extracted inventory) and whose "
                     "results are compared with the flags of every group of real runs (with and without --titrate_only); that bond perception precedes "
                     "group creation (bridge flag set before Group.setup) is covered by that comparison, not proved"],
        trusted=["tools/vlib/tables.py", "py2coq", "hand model Bonds.v validated at trace level", "stdlib real axioms, Flocq Zfloor"])
