"""C14 — titrate_only restricts titration exactly to the listed residues.  Theorems: coq/props/C14.v over model/Titrate.v.
Tie: (a) parse_res_string / parse_res_list of the model vs propka.lib on generated strings (valid and malformed);
(b) flags predicted by the model's init_group / use_in_calculations from the no-option run vs the flags of the real run with the
option, for every group of every conformation.
Search: listed <-> reported, all-listed == no option, absent / repeated / permuted entries, insertion-code twins, multi-conformation
inputs, environment (desolvation, backbone determinants, non-iterative side-chain partners) of the listed groups."""
import argparse

from vlib import common, structures, tables

KINDS = ("sidechain", "backbone", "coulomb")


def of_codes(s):
    return "(of_codes [" + "; ".join(str(ord(c)) for c in s) + "]%Z)"


def gen_strings(rng, n):
    out = ["E:17", "E:17,E:18", "A:12B", ":5", " :5", "A:", "A", "A:1:2", "A:-3", "A:+3", "A: 7 ", "A:1_0", "A:1_", "A:_1", "A:12 ", "A:12_", "A:12:",
           "", ",", "A:1,", "A:1,,B:2", "AB:100", "A:1e3", "A:0012", "A:١", "A:12\t", "A:\t12", "A:12\x85", "A:1\xa02", "A:--1", "A:-", "A:+", "A:1A,B:2B",
           "A:x", "A:xA", "_:5", "A:5_", "A:5 X", "A:5X ", "a:5x", "A:１２"]
    al = "AB_ :,-+0123456789xZ\t"
    for _ in range(n):
        k = rng.random()
        if k < 0.5:
            items = []
            for _ in range(rng.randint(1, 4)):
                ch = rng.choice(["A", "B", "", "_", " ", "AB", "E"])
                num = str(rng.randint(-20, 9999)) if rng.random() < 0.8 else rng.choice(["", "1_000", "07", " 8", "9 ", "+4", "x", "1.0"])
                ic = rng.choice(["", "", "A", "B", "_", " ", "1", ":", "ab"])
                items.append(f"{ch}:{num}{ic}")
            out.append(",".join(items))
        else:
            out.append("".join(rng.choice(al) for _ in range(rng.randint(0, 9))))
    return [s for s in out if all(ord(c) < 256 for c in s)], [s for s in out if any(ord(c) >= 256 for c in s)]


def real_parse_list(s):
    from propka.lib import parse_res_list
    try:
        return [list(k) for k in parse_res_list(s)]
    except (argparse.ArgumentTypeError, ValueError):
        return None


def decode(res):
    """model output [[1]; codes chain; [n]; codes icode; ...] or [[0]]"""
    if res == [[0]]:
        return None
    assert res[0] == [1], res
    body = res[1:]
    out = []
    for i in range(0, len(body), 3):
        out.append(["".join(chr(c) for c in body[i]), body[i + 1][0], "".join(chr(c) for c in body[i + 2])])
    return out


def key_of(g):
    return (g.atom.chain_id, g.atom.res_num, g.atom.icode)


def fmt_key(k):
    return f"{k[0]}:{k[1]}{k[2].strip()}"


def coq_key(k):
    return f"({of_codes(k[0])}, ({k[1]})%Z, {of_codes(k[2])})"


def flags(mol):
    out = {}
    for c in mol.conformation_names:
        out[c] = [(g.label, key_of(g), bool(g.titratable), g.residue_type == "CYS", bool(g.exclude_cys_from_results), bool(g.use_in_calculations()))
                  for g in mol.conformations[c].groups]
    return out


def icode_twins(text, rng):
    """give one titratable residue the number of its predecessor plus insertion code 'A' (so 'c:n' and 'c:nA' are different residues)"""
    res = [r for r in structures.residues(text) if r["tag"] == "ATOM  "]
    cand = [i for i in range(1, len(res)) if res[i]["name"] in ("ASP", "GLU", "LYS", "HIS", "TYR", "ARG", "CYS") and res[i - 1]["chain"] == res[i]["chain"]
            and res[i]["icode"] == " " and res[i - 1]["icode"] == " "]
    if not cand:
        return None
    i = rng.choice(cand)
    lines = text.splitlines()
    for j in res[i]["lines"]:
        lines[j] = lines[j][:22] + res[i - 1]["num"] + "A" + lines[j][27:]
    ch = res[i]["chain"].strip() or "_"
    return "\n".join(lines) + "\n", (ch, int(res[i - 1]["num"]), "A"), (ch, int(res[i - 1]["num"]), " ")


def run(chk: common.Check):
    common.impl_setup()
    rng = chk.rng
    proved = chk.prove()
    found, dis = [], []

    # ---------------------------------------------------------------- (a) list syntax
    strs, wide = gen_strings(rng, 1500 if chk.thorough else 400)
    pre = "From Coq Require Import String Ascii List ZArith.\nFrom V Require Import PyString Titrate.\nImport ListNotations.\n"
    res = common.coq_eval("c14p", pre, [f"res_out (parse_res_list {of_codes(s)})" for s in strs], shard=200)
    nok = 0
    for s, r in zip(strs, res):
        want = real_parse_list(s)
        got = decode(r)
        nok += want is not None
        chk.count(1, key=("parse", s[:12], want is None))
        if want != got:
            dis.append({"string": s, "impl": want, "model": got})
    chk.corr_stats["parse_res_list ~ model"] = {"strings": len(strs), "accepted": nok, "rejected": len(strs) - nok, "non_8bit_skipped": len(wide), "disagreements": len(dis)}
    chk.cov["traces_validated_against_impl"] += len(strs)
    # search: documented syntax round trip on the implementation
    from propka.lib import parse_res_string
    for _ in range(300):
        k = (rng.choice(["A", "B", "_", "AB", "x"]), rng.randint(0, 99999), rng.choice([" ", "A", "B", "z", "X"]))
        try:
            got = parse_res_string(fmt_key(k))
        except ValueError as ex:
            got = repr(ex)
        if got != k:
            found.append(("syntax-round-trip", f"parse_res_string({fmt_key(k)!r}) = {got!r}, expected {k!r}", {"string": fmt_key(k), "got": repr(got)}))
            break

    # ---------------------------------------------------------------- (b) + search on runs
    cases = []
    names = ["3SGB-subset.pdb", "1HPX.pdb", "conf-alt-AB.pdb", "1FTJ-Chain-A.pdb"] + (["3SGB.pdb", "4DFR.pdb", "conf-model-missing-atoms.pdb", "conf-alt-BC.pdb"] if chk.thorough else ["conf-model-missing-atoms.pdb"])
    for n in names:
        cases.append((n, structures.read(n), None))
    for n in ["1HPX.pdb", "3SGB-subset.pdb"] + (["1FTJ-Chain-A.pdb", "4DFR.pdb"] if chk.thorough else []):
        for _ in range(2 if chk.thorough else 1):
            r = icode_twins(structures.read(n), rng)
            if r:
                cases.append((f"{n} twin {fmt_key(r[1])}", r[0], r))
    # negative residue numbers are legal in PDB files and in the list syntax
    t_neg = structures.read("3SGB-subset.pdb")
    first_num = min(int(l[22:26]) for l in structures.atom_lines(t_neg) if l[21] == "E")
    cases.append(("3SGB-subset chain E renumbered to negative numbers",
                  structures.map_atoms(t_neg, lambda l: structures.set_resnum(l, int(l[22:26]) - first_num - 120, l[26]) if l[21] == "E" else l), None))
    fexprs, fmeta = [], []
    for name, text, twin in cases:
        mol0, _ = structures.run(text)
        f0 = flags(mol0)
        rec0 = structures.records(mol0)
        allkeys = sorted({k for c in f0 for (_, k, *_r) in f0[c]})
        titkeys = sorted({k for c in f0 for (_, k, t, cy, _e, _u) in f0[c] if t or cy})
        lists = []
        if twin:
            lists += [("only the insertion-coded twin", [twin[1]]), ("only the un-coded twin", [twin[2]])]
        lists.append(("every residue", allkeys))
        sub = rng.sample(titkeys, max(1, len(titkeys) // 3))
        lists.append(("random third", sub))
        lists.append(("random third + absent + repeated", sub[::-1] + [("Q", 1, " "), (sub[0][0], 99999, " "), (sub[0][0], sub[0][1], "Z")] + sub[:2]))
        cys = [k for c in f0 for (_, k, t, cy, _e, _u) in f0[c] if cy and not t]
        if cys:
            lists.append(("bridged cysteines + one other", sorted(set(cys[:3])) + sub[:1]))
        if chk.thorough:
            lists.append(("single", [rng.choice(titkeys)]))
            lists.append(("random half", rng.sample(titkeys, max(1, len(titkeys) // 2))))
        prev = None
        for what, L in lists:
            opt = ",".join(fmt_key(k) for k in L)
            try:
                mol1, _ = structures.run(text, ["--titrate_only", opt])
            except (Exception, SystemExit) as ex:   # noqa: BLE001  (argparse rejects a list by SystemExit)
                found.append(("option-crash" if not isinstance(ex, SystemExit) else "well-formed-list-rejected",
                              f"{name} --titrate_only ({what}): {type(ex).__name__}: {ex} for the list {opt[:80]}", {"case": name, "list": opt}))
                continue
            f1 = flags(mol1)
            chk.count(1, key=("run", name, what, len(L)))
            Lset = set(L)
            # ---- (b) model prediction from the no-option flags
            for c in f0:
                gl = "[" + "; ".join(f"mk_grp {coq_key(k)} {str(t).lower()} {str(cy).lower()} {str(e).lower()} tt" for (_, k, t, cy, e, _u) in f0[c]) + "]"
                ll = "[" + "; ".join(coq_key(k) for k in L) + "]"
                fexprs.append(f"map (fun g => [Z.b2z (g_titratable g); Z.b2z (g_excl g); Z.b2z (use_in_calculations g)]) (map (init_group (Some {ll})) {gl})")
                fmeta.append((name, what, c, [(lab, [int(t), int(e), int(u)]) for (lab, _k, t, _cy, e, u) in f1.get(c, [])]))
            # ---- search: listed <-> titratable / reported
            for c in f0:
                if c not in f1 or len(f1[c]) != len(f0[c]):
                    found.append(("groups-differ", f"{name} ({what}): conformation {c} has different groups with the option", {"case": name, "list": opt}))
                    continue
                for (lab, k, t0, cy, _e0, u0), (_l1, _k1, t1, _cy1, _e1, u1) in zip(f0[c], f1[c]):
                    if t1 != (t0 and k in Lset):
                        found.append(("listed-not-titrated" if (k in Lset) else "unlisted-titrated",
                                      f"{name} ({what}) conformation {c}: {lab.strip()} key {k} is {'listed' if k in Lset else 'not listed'}, titratable without the option: {t0}, with: {t1}",
                                      {"case": name, "list": opt, "group": lab, "conformation": c, "pdb_text": text if len(text) < 200000 else None}))
                    if u1 != (u0 and k in Lset):
                        found.append(("listed-not-reported" if (k in Lset) else "unlisted-reported",
                                      f"{name} ({what}) conformation {c}: {lab.strip()} key {k} is {'listed' if k in Lset else 'not listed'}, reported without the option: {u0}, with: {u1}",
                                      {"case": name, "list": opt, "group": lab, "conformation": c, "pdb_text": text if len(text) < 200000 else None}))
            rec1 = structures.records(mol1)
            if what == "every residue":
                d = structures.diff(rec0, rec1)
                t0, t1 = structures.pka_text(mol0), structures.pka_text(mol1)
                if d or t0 != t1:
                    found.append(("all-listed-differs", f"{name}: listing all {len(L)} residues differs from no option: {d[:2] or 'pka file text'}",
                                  {"case": name, "differences": [list(map(str, x)) for x in d[:5]], "list": opt}))
            if what == "random third":
                prev = rec1
            if what == "random third + absent + repeated" and prev is not None:
                d = structures.diff(prev, rec1)
                if d:
                    found.append(("absent-or-repeated-entries-matter", f"{name}: adding absent/repeated entries and reversing the list changes results: {d[:2]}",
                                  {"case": name, "list": opt, "differences": [list(map(str, x)) for x in d[:5]]}))
            # ---- environment of the listed groups
            par = mol1.version.parameters
            for c in mol1.conformation_names:
                for g0, g1 in zip(mol0.conformations[c].groups, mol1.conformations[c].groups):
                    if not g1.titratable:
                        continue
                    if (g0.energy_volume, g0.num_volume, g0.buried, g0.energy_local) != (g1.energy_volume, g1.num_volume, g1.buried, g1.energy_local):
                        found.append(("environment:desolvation", f"{name} ({what}) {g1.label.strip()}: desolvation/burial differs from the no-option run "
                                      f"({g0.energy_volume},{g0.num_volume}) vs ({g1.energy_volume},{g1.num_volume})", {"case": name, "list": opt, "group": g1.label}))
                    b0 = [(d.label, d.value) for d in g0.determinants["backbone"]]
                    b1 = [(d.label, d.value) for d in g1.determinants["backbone"]]
                    if b0 != b1:
                        found.append(("environment:backbone", f"{name} ({what}) {g1.label.strip()}: backbone determinants differ from the no-option run", {"case": name, "list": opt, "group": g1.label}))
                    by = {h.label: h for h in mol0.conformations[c].groups}

                    def nonit(dets):
                        out = []
                        for d in dets:
                            h = by.get(d.label)
                            if h is not None and par.interaction_matrix.get_value(g0.type, h.type) == "N" and key_of(h) not in Lset:
                                out.append((d.label, d.value))
                        return sorted(out)
                    if nonit(g0.determinants["sidechain"]) != nonit(g1.determinants["sidechain"]):
                        found.append(("environment:hbond-partner", f"{name} ({what}) {g1.label.strip()}: non-iterative side-chain hydrogen bonds with unlisted residues "
                                      f"{nonit(g0.determinants['sidechain'])} (no option) vs {nonit(g1.determinants['sidechain'])}", {"case": name, "list": opt, "group": g1.label}))
    # ---- a listed residue keeps its UNLISTED partners of the iterative pair types (ASP/GLU-HIS, COO-COO, ...): single-residue lists
    for n in ["3SGB.pdb"] + (["1HPX.pdb", "1FTJ-Chain-A.pdb"] if chk.thorough else []):
        text = structures.read(n)
        mol0, _ = structures.run(text)
        c0 = mol0.conformations[mol0.conformation_names[0]]
        par = mol0.version.parameters
        by = {}
        for h in c0.groups:
            if h.type not in ("BBN", "BBC"):        # (backbone groups carry the label of their residue's side chain)
                by.setdefault(h.label, h)
        ipart = lambda g, ref: sorted({d.label for d in g.determinants["sidechain"] if by.get(d.label) is not None
                                       and par.interaction_matrix.get_value(ref.type, by[d.label].type) == "I"})
        holders = [g for g in c0.groups if g.titratable and g.atom.type == "atom" and ipart(g, g)]
        for g in (holders if chk.thorough else rng.sample(holders, min(6, len(holders)))):
            opt = fmt_key(key_of(g))
            mol1, _ = structures.run(text, ["--titrate_only", opt])
            g1 = next((h for h in mol1.conformations[mol1.conformation_names[0]].groups if h.label == g.label and h.type == g.type), None)
            chk.count(1, key=("single-residue list", n, opt))
            if g1 is None or ipart(g1, g) != ipart(g, g):
                found.append(("environment:iterative-partner", f"{n} --titrate_only {opt}: {g.label.strip()} has side-chain partners {ipart(g, g)} of the iterative pair types without the option, "
                              f"{ipart(g1, g) if g1 is not None else None} with it (unlisted residues still act as hydrogen-bond partners)", {"case": n, "list": opt, "group": g.label}))
    # ---- an EMPTY list (Python API; the command line cannot express it) titrates nothing - exactly like a list naming only absent residues
    import io as _io
    import propka.lib as _L
    import propka.run as _R
    from propka.input import read_molecule_file as _rmf, read_parameter_file as _rpf
    from propka.parameters import Parameters as _P
    for tlist in ([], [("Q", 9999, " ")]):
        o_ = _L.loadOptions(["x.pdb", "--quiet"])
        o_.titrate_only = list(tlist)
        p_ = _rpf(o_.parameters, _P())
        from propka.molecular_container import MolecularContainer as _MC
        m_ = _MC(p_, o_)
        m_ = _rmf("x.pdb", m_, stream=_io.StringIO(structures.read("3SGB-subset.pdb")))
        m_.calculate_pka()
        ntit = sum(1 for g in m_.conformations[m_.conformation_names[0]].groups if g.titratable)
        chk.count(1, key=("api-list", len(tlist)))
        if ntit:
            found.append(("unlisted-titrated:empty-list" if not tlist else "unlisted-titrated", f"3SGB-subset with titrate_only = {tlist!r} (API): {ntit} groups titrate, expected none",
                          {"titrate_only": tlist}))
    pre = "From Coq Require Import String Ascii List ZArith Bool.\nFrom V Require Import PyString Titrate.\nImport ListNotations.\n"
    res = common.coq_eval("c14f", pre, fexprs, shard=8)
    fdis = []
    ngr = 0
    for (name, what, c, real), r in zip(fmeta, res):
        ngr += len(real)
        if [x[1] for x in real] != r:
            bad = next((lab for (lab, v), m in zip(real, r) if v != m), "length")
            fdis.append({"case": name, "list": what, "conformation": c, "first_group": bad})
    chk.corr_stats["init_group/use_in_calculations ~ model"] = {"runs": len(fmeta), "groups": ngr, "disagreements": len(fdis)}
    chk.cov["traces_validated_against_impl"] += len(fmeta)
    chk.sample({"cases": [c[0] for c in cases]})
    # ------------------------------------------------------------ one invocation, several structures, one list naming residues of each
    import os, shutil, subprocess, sys, tempfile
    from vlib.purejob import strip_date
    hl = [l for l in structures.read("1HPX.pdb").splitlines() if l[:6] == "ATOM  " and int(l[22:26]) <= 30]
    xs = "\n".join(l for c in ("A", "B") for l in [x for x in hl if x[21] == c] + ["TER"]) + "\nEND\n"
    ys = structures.read("3SGB-subset.pdb")
    lst = "A:25,B:8,B:21,E:29,E:57,E:102,I:10,I:18,Z:999"
    dd = tempfile.mkdtemp(dir="/var/tmp")
    try:
        open(os.path.join(dd, "x.pdb"), "w").write(xs)
        open(os.path.join(dd, "y.pdb"), "w").write(ys)
        env = dict(os.environ, PYTHONPATH=str(common.REPO), PYTHONHASHSEED="0")

        def cli(args):
            for f in ("x.pka", "y.pka"):
                if os.path.exists(os.path.join(dd, f)):
                    os.unlink(os.path.join(dd, f))
            pr = subprocess.run([sys.executable, "-m", "propka", "--quiet", "-i", lst] + args, cwd=dd, env=env, capture_output=True, text=True, timeout=600)
            return {f: strip_date(open(os.path.join(dd, f)).read()) for f in ("x.pka", "y.pka") if os.path.exists(os.path.join(dd, f))}, pr
        solo = {}
        for f in ("x", "y"):
            o, pr = cli([f + ".pdb"])
            solo[f + ".pka"] = o.get(f + ".pka")
        for order in (["x.pdb", "y.pdb"], ["y.pdb", "x.pdb"]):
            o, pr = cli(["-f"] + order)
            chk.count(1, key=("cli-two-inputs", tuple(order)))
            for f in ("x.pka", "y.pka"):
                if o.get(f) != solo[f]:
                    found.append(("list-depends-on-other-inputs", f"`-i {lst} -f {' '.join(order)}`: {f} differs from the run with that input alone and the same list"
                                  + (f" (exit {pr.returncode}: {pr.stderr[-200:]})" if pr.returncode else ""), {"list": lst, "order": order, "file": f}))
                    break
    finally:
        shutil.rmtree(dd, ignore_errors=True)

    uniq = {}
    for sig, what, rep in found:
        uniq.setdefault(sig, (sig, what, rep))
    found = list(uniq.values())
    if dis or fdis:
        chk.broken("correspondence", "model/Titrate.v ~ propka.lib.parse_res_list / init_group / use_in_calculations", {"parse": dis[:4], "flags": fdis[:4]}, search_fn=lambda: found)
    elif not proved:
        chk.broken("proof", "props/C14.v", chk.broken_obligation, search_fn=lambda: found)
    else:
        for sig, what, rep in found:
            chk.finding(sig, what, rep)
    return chk.finish(
        level="proof",
        rule=("obligations = theorems of coq/props/C14.v (all group lists with arbitrary payload, all key lists; all chain texts / decimal numerals / "
              "insertion codes for the syntax). Tie: parse_res_list on valid + malformed strings; flags of every group of every conformation "
              "predicted by the model from the no-option run. Search: listed<->titratable/reported, all-listed == no option (records + .pka text), "
              "absent/repeated/permuted entries, insertion-code twins, multi-conformation inputs, environment of listed groups. distinct = (run, list kind)"
              " Added in rounds 5-6: several structures in one invocation with one list, single-residue lists for groups with partners of the iterative pair types, the empty list through the API."),
        assumptions=["strings are 8-bit in the model (non-Latin-1 inputs are skipped in the syntax correspondence and counted)",
                     "'still acts as hydrogen-bond partner and desolvating environment' is checked on the implementation (search), the model "
                     "states it as the payload being untouched"],
        trusted=["model/Titrate.v hand model (validated each run)", "lib/PyString.v int() model"])
