"""C06 — residue and chain labels identify residues but never influence the numbers.  Theorems: coq/props/C06.v over model/Labels.v.
Tie: the attribute reads the model is built on are re-extracted from the source (gen/Inventory_gen.v, checked inside Coq); Group.__eq__ of real
protein groups is compared with the model's group_eq on sampled pairs.
Search: order-preserving relabellings (monotone chain renaming, per-chain shifts incl. negative and +/-1000 on adjacent chain ids, file-order
renumbering, creation of insertion-code twins) must leave every number unchanged bit for bit."""
from vlib import common, structures

KINDS = ("sidechain", "backbone", "coulomb")


def numbers(mol):
    """per conformation: per group the numeric results, determinants as (partner position, value)"""
    out = {}
    for c in mol.conformation_names:
        gs = mol.conformations[c].groups
        pos = {}
        for i, g in enumerate(gs):
            pos.setdefault(g.label, []).append(i)
        rows = []
        for g in gs:
            dets = {}
            for k in KINDS:
                dets[k] = [(pos.get(d.label, [None])[0] if len(pos.get(d.label, [])) == 1 else -1, d.value) for d in g.determinants[k]]
            rows.append((g.type, g.residue_type, g.pka_value, g.model_pka, g.energy_volume, g.num_volume, g.energy_local, g.buried, bool(g.titratable), dets))
        out[c] = rows
    return out


def first_diff(a, b):
    if a.keys() != b.keys():
        return f"conformations {sorted(a)} vs {sorted(b)}"
    for c in a:
        if len(a[c]) != len(b[c]):
            return f"{c}: {len(a[c])} vs {len(b[c])} groups"
        for i, (x, y) in enumerate(zip(a[c], b[c])):
            if x != y:
                names = ("type", "residue_type", "pka", "model_pka", "energy_volume", "num_volume", "energy_local", "buried", "titratable", "determinants")
                k = next(j for j in range(len(x)) if x[j] != y[j])
                return f"{c} group #{i} ({x[1]}): {names[k]} {x[k] if k != 9 else '...'} vs {y[k] if k != 9 else '...'}"
    return None


def first_diff_tol(a, b, tol):
    """like first_diff, for relabellings that change the ORDER of identifiers (the order of floating-point summation may change with it):
    numbers within `tol`, counts and types exact, determinants as multisets per partner position"""
    if a.keys() != b.keys():
        return f"conformations {sorted(a)} vs {sorted(b)}"
    names = ("type", "residue_type", "pka", "model_pka", "energy_volume", "num_volume", "energy_local", "buried", "titratable", "determinants")
    for c in a:
        if len(a[c]) != len(b[c]):
            return f"{c}: {len(a[c])} vs {len(b[c])} groups"
        for i, (x, y) in enumerate(zip(a[c], b[c])):
            for j in range(9):
                ok = (abs(x[j] - y[j]) <= tol) if isinstance(x[j], float) and isinstance(y[j], float) else x[j] == y[j]
                if not ok:
                    return f"{c} group #{i} ({x[1]}): {names[j]} {x[j]} vs {y[j]}"
            for k in KINDS:
                dx, dy = sorted(x[9][k], key=lambda t: (t[0] if t[0] is not None else -2, t[1])), sorted(y[9][k], key=lambda t: (t[0] if t[0] is not None else -2, t[1]))
                if len(dx) != len(dy) or any(p[0] != q[0] or abs(p[1] - q[1]) > tol for p, q in zip(dx, dy)):
                    return f"{c} group #{i} ({x[1]}): {k} determinants {dx[:3]} vs {dy[:3]}"
    return None


def order_sensitive_pair():
    """two residues in two chains whose side-chain interaction is evaluated asymmetrically (both group types are 'angular dependent': only the
    hydrogen of the group visited second counts): a histidine N-H pointing at the amide oxygen of an asparagine.  Which one is visited first must
    follow the records, never the identifiers."""
    import math
    from props import c04
    al = [l for l in structures.read("1HPX.pdb").splitlines() if l[:6] == "ATOM  " and l[16] in " A"]
    his = [l for l in al if l[17:20] == "HIS" and l[21] == "A" and int(l[22:26]) == 69]
    asn = next([m for m in al if m[21] == l[21] and m[22:27] == l[22:27]] for l in al if l[17:20] == "ASN" and l[12:16].strip() == "OD1")
    at = {l[12:16].strip(): [float(v) for v in structures.get_xyz(l)] for l in his}
    c = [sum(at[k][i] for k in ("CG", "ND1", "CD2", "CE1", "NE2")) / 5 for i in range(3)]
    u = [at["NE2"][i] - c[i] for i in range(3)]
    n = math.sqrt(sum(x * x for x in u))
    u = [x / n for x in u]
    target = [at["NE2"][i] + 2.85 * u[i] for i in range(3)]
    an = {l[12:16].strip(): [float(v) for v in structures.get_xyz(l)] for l in asn}
    R = c04.align([an["OD1"][i] - an["CG"][i] for i in range(3)], [-x for x in u])       # CG->OD1 points back at the histidine
    out = [structures.set_chain(l, "A") for l in his] + ["TER   "]
    for l in asn:
        p_ = [float(v) for v in structures.get_xyz(l)]
        rel = [p_[i] - an["OD1"][i] for i in range(3)]
        q = [sum(R[i][j] * rel[j] for j in range(3)) + target[i] for i in range(3)]
        from decimal import Decimal
        out.append(structures.set_chain(structures.set_xyz(l, *(Decimal(str(round(v, 3))) for v in q)), "C"))
    return "\n".join(out + ["TER   ", "END"]) + "\n"


def relabel(text, chain_map=None, shift=None):
    def f(l):
        c = l[21]
        n = int(l[22:26]) + (shift or {}).get(c, 0)
        if not -999 <= n <= 9999:
            raise ValueError("residue number leaves the field")
        l = structures.set_resnum(l, n, l[26])
        return structures.set_chain(l, (chain_map or {}).get(c, c))
    out = []
    for l in text.splitlines():
        if structures.is_atom(l):
            l = f(l)
        elif l[:3] == "TER":
            l = "TER   "
        out.append(l)
    return "\n".join(out) + "\n"


def renumber_file_order(text):
    """every residue gets a number of its own (file order, per chain continuing), insertion codes dropped"""
    res = structures.residues(text)
    lines = text.splitlines()
    n = 0
    for r in res:
        n += 1
        for i in r["lines"]:
            lines[i] = lines[i][:22] + f"{n:>4d}" + " " + lines[i][27:]
    return "\n".join("TER   " if l[:3] == "TER" else l for l in lines) + "\n"


def has_twins(text):
    seen = {}
    for r in structures.residues(text):
        seen.setdefault((r["chain"], r["num"]), set()).add((r["icode"], r["name"]))
    return any(len(v) > 1 for v in seen.values())


def make_twins(text, rng):
    res = [r for r in structures.residues(text) if r["tag"] == "ATOM  "]
    cand = [i for i in range(1, len(res) - 1) if res[i]["chain"] == res[i - 1]["chain"] and res[i]["icode"] == " " and res[i - 1]["icode"] == " "]
    i = rng.choice(cand)
    lines = text.splitlines()
    for j in res[i]["lines"]:
        lines[j] = lines[j][:22] + res[i - 1]["num"] + "A" + lines[j][27:]
    return "\n".join(lines) + "\n", f"{res[i]['name']}{res[i]['num'].strip()}{res[i]['chain']} -> {res[i - 1]['num'].strip()}A"


def corr_group_eq(chk, mol, rng, n):
    conf = mol.conformations[mol.conformation_names[0]]
    gs = [g for g in conf.groups if g.atom.type == "atom"]
    pairs = [(rng.choice(gs), rng.choice(gs)) for _ in range(n)] + [(g, g) for g in gs[:20]]
    # groups sharing a label (backbone group vs side chain of one residue carry the same label text)
    by = {}
    for g in gs:
        by.setdefault(g.label, []).append(g)
    for v in by.values():
        if len(v) > 1:
            pairs.append((v[0], v[1]))
    oc = lambda s: "(of_codes [" + "; ".join(str(ord(c)) for c in s) + "]%Z)"
    rid = lambda a: f"{{| r_chain := {oc(a.chain_id)}; r_num := ({a.res_num})%Z; r_icode := {oc(a.icode)} |}}"
    # the label is built from residue_type AT CONSTRUCTION time (res_name or terminal), not from the later BBN/BBC override
    rt = lambda g: g.label[:3]
    exprs = [f"[Z.b2z (group_eq {oc(rt(a))} {rid(a.atom)} {oc(rt(b))} {rid(b.atom)})]" for a, b in pairs]
    pre = "From Coq Require Import String List ZArith.\nFrom V Require Import PyString Labels.\nImport ListNotations.\n"
    res = common.coq_eval("c06e", pre, exprs, shard=400)
    dis = []
    for (a, b), r in zip(pairs, res):
        if bool(r[0]) != bool(a == b):
            dis.append({"a": a.label, "b": b.label, "impl": bool(a == b), "model": bool(r[0])})
    chk.corr_stats["Group.__eq__ ~ group_eq"] = {"pairs": len(pairs), "disagreements": len(dis)}
    chk.cov["traces_validated_against_impl"] += len(pairs)
    return dis


def run(chk: common.Check):
    common.impl_setup()
    rng = chk.rng
    proved = chk.prove()
    found = []
    names = ["1HPX.pdb", "3SGB-subset.pdb", "conf-alt-AB.pdb + residues of 1HPX chain B", "HIS 69 of 1HPX donating to an ASN amide oxygen in another chain",
             "1HPX.pdb with the inhibitor written without chain identifier and numbered 25"] + (["3SGB.pdb", "1FTJ-Chain-A.pdb", "4DFR.pdb"] if chk.thorough else [])
    edis = []
    for ni, n in enumerate(names):
        if n.startswith("conf-alt-AB.pdb +"):
            # several conformations (alternate locations) AND two chains whose residue numbers do not overlap as deposited
            alt = [structures.set_chain(l, "A") for l in structures.read("conf-alt-AB.pdb").splitlines() if structures.is_atom(l)]
            frag = [l for l in structures.read("1HPX.pdb").splitlines() if l[:6] == "ATOM  " and l[21] == "B" and 20 <= int(l[22:26]) <= 34]
            ca, cf = structures.bbox("\n".join(alt)), structures.bbox("\n".join(frag))
            sh = tuple(round(ca[i][1] - cf[i][0] + (6.0 if i == 0 else 0.0), 3) for i in range(3))
            text = "\n".join(alt) + "\nTER   \n" + relabel(structures.move("\n".join(frag) + "\n", None, sh), None, {"B": 100}) + "TER   \nEND\n"
        elif n.startswith("HIS 69 of 1HPX"):
            text = order_sensitive_pair()
        elif n.startswith("1HPX.pdb with the inhibitor written without"):
            # a hetero group without chain identifier whose residue number also occurs in the chains before it (ASP 25 A / B are its neighbours)
            text = "\n".join((structures.set_chain(structures.set_resnum(l, 25, " "), " ") if (l[:6] == "HETATM" and l[17:20] == "KNI") else l)
                             for l in structures.read("1HPX.pdb").splitlines() if l[17:20] != "HOH") + "\n"
        else:
            text = "\n".join(l for l in structures.read(n).splitlines() if l[17:20] != "HOH") + "\n"
        mol0, _ = structures.run(text)
        if ni == 0:
            edis = corr_group_eq(chk, mol0, rng, 300)
        n0 = numbers(mol0)
        chains = sorted({l[21] for l in structures.atom_lines(text)}, key=lambda c: c.strip() or "_")   # a blank chain id is read as '_' 
        variants = []
        up = {c: (chr(ord(c) + 2) if c.strip() else c) for c in chains}    # monotone renaming (a blank identifier is read as '_' and stays)
        variants.append(("chains renamed " + str(up), lambda: relabel(text, up), False))
        low = dict(zip(chains, "abcdefgh"))
        variants.append(("chains renamed to lower case", lambda: relabel(text, low), False))
        nums = {c: [int(l[22:26]) for l in structures.atom_lines(text) if l[21] == c] for c in chains}
        neg = {c: -(min(v) + rng.choice([5, 37, 300])) for c, v in nums.items()}
        variants.append((f"shifted to negative numbers {neg}", lambda: relabel(text, None, neg), False))
        pos = {c: rng.choice([1, 100, 2000]) for c in chains}
        variants.append((f"shifted {pos}", lambda: relabel(text, None, pos), False))
        if len(chains) >= 2:
            a, b = chains[0], chains[1]
            adj = {a: "A", b: "B"}
            variants.append(("chains A/B, first +1000", lambda: relabel(relabel(text, adj), None, {"A": 1000}), False))
            variants.append(("chains A/B, second -1000", lambda: relabel(relabel(text, adj), None, {"B": -1000}) if min(nums[b]) - 1000 >= -999 else None, False))
            variants.append(("chains renamed to digits 1 / 2", lambda: relabel(text, {a: "1", b: "2"}), False))
            variants.append(("second chain +1", lambda: relabel(text, None, {b: 1}), False))
            if min(nums[a]) != min(nums[b]):
                variants.append(("second chain renumbered to start where the first starts", lambda: relabel(text, None, {b: min(nums[a]) - min(nums[b])}), False))
            variants.append(("chains X/Y, first +1000, second to negative", lambda: relabel(relabel(text, {a: "X", b: "Y"}), None, {"X": 1000, "Y": -(min(nums[b]) + 20)}), False))
        if len(chains) >= 2:
            a, b = chains[0], chains[1]
            # chain identifiers that differ only in case are different chains (order preserving: 'A' < 'a')
            if len(chains) == 2:     # (with more chains the renaming of two of them need not preserve the order of all)
                variants.append(("chains renamed to A / a (identifiers differing only in case)", lambda: relabel(text, {a: "A", b: "a"}), False))
                variants.append(("chains renamed to B / b", lambda: relabel(text, {a: "B", b: "b"}), False))
            # a file without TER records and without terminal oxygens: chain starts are decided by the file layout only, never by the numbers
            bare = "\n".join(l for l in text.splitlines() if l[:3] != "TER" and not (structures.is_atom(l) and l[12:16].strip() in ("OXT", "O''"))) + "\n"
            try:
                mol_b, _ = structures.run(bare)
                nb0 = numbers(mol_b)
                for what_b, shift_b in ((f"second chain +100", {b: 100}), (f"first chain -200", {a: -200}), ("first +1000, second +2000", {a: 1000, b: 2000})):
                    try:
                        tb = relabel(bare, None, shift_b).replace("TER   \n", "")
                    except ValueError:
                        continue
                    mol_s, _ = structures.run(tb)
                    chk.count(1, key=("bare-layout", n, what_b))
                    d = first_diff(nb0, numbers(mol_s))
                    if d:
                        found.append(("labels-influence-numbers:no-TER-layout", f"{n} without TER / OXT records, {what_b}: {d}",
                                      {"case": n, "relabelling": what_b, "first_difference": d, "pdb_text": tb if len(tb) < 250000 else None}))
            except Exception as ex:   # noqa: BLE001
                found.append(("crash-after-relabelling", f"{n} without TER / OXT: {type(ex).__name__}: {ex}", {"case": n}))
        # identifiers whose ORDER differs from the order of the records: numbers descending along each chain; the first chain renamed to a
        # letter after the others.  Only rounding-level changes are allowed (the order of a summation may follow the identifiers).
        if not has_twins(text):
            top = max(max(v) for v in nums.values()) + 1
            rev = "\n".join((structures.set_resnum(l, top - int(l[22:26]), l[26]) if structures.is_atom(l) else ("TER   " if l[:3] == "TER" else l)) for l in text.splitlines()) + "\n"
            ordered = [("numbers descending along every chain", rev)]
            if len(chains) >= 2 and all(c.strip() for c in chains):
                ordered.append((f"first chain renamed to 'z' (after the others)", relabel(text, {chains[0]: "z"})))
            for what_o, t_o in ordered:
                try:
                    mol_o, _ = structures.run(t_o)
                    chk.count(1, key=("order-changing", n, what_o))
                    d = first_diff_tol(n0, numbers(mol_o), 1e-9)
                    if d:
                        found.append(("labels-influence-numbers:order-of-identifiers", f"{n} {what_o}: {d}", {"case": n, "relabelling": what_o, "first_difference": d,
                                                                                                           "pdb_text": t_o if len(t_o) < 250000 else None}))
                except Exception as ex:   # noqa: BLE001
                    found.append(("crash-after-relabelling", f"{n} {what_o}: {type(ex).__name__}: {ex}", {"case": n, "relabelling": what_o}))
        tw = has_twins(text)
        variants.append(("renumbered in file order" + (" (structure has insertion-code twins)" if tw else ""), lambda: renumber_file_order(text), tw))
        for what, mk, twins in variants:
            try:
                t2 = mk()
            except ValueError:
                continue
            if t2 is None:
                continue
            try:
                mol1, _ = structures.run(t2)
            except Exception as ex:   # noqa: BLE001
                found.append(("crash-after-relabelling", f"{n} {what}: {type(ex).__name__}: {ex}", {"case": n, "relabelling": what}))
                continue
            chk.count(1, key=("relabel", n, what))
            d = first_diff(n0, numbers(mol1))
            if d:
                sig = "insertion-code-twins-conflated:renumbering" if twins else "labels-influence-numbers:" + what.split(" ")[0] + ("-negative" if "negative" in what else "") + ("-1000" if "1000" in what else "")
                found.append((sig, f"{n} {what}: {d}", {"case": n, "relabelling": what, "first_difference": d, "pdb_text": t2 if len(t2) < 250000 else None}))
        # beyond the lexicographic range of the sorting key (C06_sort_key_overlap_refuted) the atom order, hence the order of floating-point
        # summation, changes: the numbers must still agree to rounding
        if len(chains) >= 2:
            a, b = chains[0], chains[1]
            try:
                t4 = relabel(relabel(text, {a: "A", b: "B"}), None, {"A": 9000 - min(nums[a]) + 1, "B": -999 - min(nums[b])})
                mol4, _ = structures.run(t4)
                chk.count(1, key=("sort-overlap", n))
                g0 = {(g.type, g.atom.name, g.atom.res_name, i): g for i, g in enumerate(sorted(mol0.conformations[mol0.conformation_names[0]].groups, key=lambda g: (g.atom.chain_id, g.atom.res_num, g.atom.name, g.type)))}
                g4 = {(g.type, g.atom.name, g.atom.res_name, i): g for i, g in enumerate(sorted(mol4.conformations[mol4.conformation_names[0]].groups, key=lambda g: (g.atom.chain_id, g.atom.res_num, g.atom.name, g.type)))}
                if g0.keys() != g4.keys():
                    found.append(("labels-influence-numbers:sort-overlap-groups", f"{n}: group set changes when chain A is numbered from 9001 and chain B from -999", {"case": n}))
                else:
                    worst = max((abs(g0[k].pka_value - g4[k].pka_value), k) for k in g0)
                    if worst[0] > 1e-9:
                        found.append(("labels-influence-numbers:sort-overlap", f"{n}: chain A numbered from 9001, chain B from -999: pKa of {worst[1][:3]} changes by {worst[0]:.3g}",
                                      {"case": n, "pdb_text": t4 if len(t4) < 250000 else None}))
            except ValueError:
                pass
        # twins created on purpose: two residues sharing chain and number, differing in insertion code, are distinct residues
        if n.startswith("HIS 69 of 1HPX"):
            continue          # single-residue chains: no neighbouring residues to turn into twins
        t3, desc = make_twins(text, rng)
        mol3, _ = structures.run(t3)
        chk.count(1, key=("twins", n, desc))
        d = first_diff(n0, numbers(mol3))
        if d:
            found.append(("insertion-code-twins-conflated:created", f"{n} with {desc}: {d}", {"case": n, "relabelling": desc, "first_difference": d,
                                                                                             "pdb_text": t3 if len(t3) < 250000 else None}))
    # ---- labels quoted in OPTIONS are relabelled together with the structure: chain selection (incl. a chain renamed to the blank identifier) and a
    #      --titrate_only list naming insertion-code twins
    hp = "\n".join(l for l in structures.read("1HPX.pdb").splitlines() if l[17:20] != "HOH") + "\n"
    try:
        base_n = numbers(structures.run(hp, ["-c", "A", "-c", "B"])[0])
        for what_c, cmap, copts in (("chain B renamed to the blank identifier, selected with -c ' '", {"B": " "}, ["-c", "A", "-c", " "]),
                                    ("chains renamed to P / Q, selected with -c P -c Q", {"A": "P", "B": "Q"}, ["-c", "P", "-c", "Q"])):
            chk.count(1, key=("chain-option", what_c))
            d = first_diff(base_n, numbers(structures.run(relabel(hp, cmap), copts)[0]))
            if d:
                found.append(("labels-influence-numbers:chain-option", f"1HPX.pdb -c A -c B vs {what_c}: {d}", {"case": "1HPX.pdb", "relabelling": what_c, "options": copts}))
    except Exception as ex:   # noqa: BLE001
        found.append(("crash-after-relabelling", f"1HPX.pdb with chain options: {type(ex).__name__}: {ex}", {"case": "1HPX.pdb"}))
    sg = "\n".join(l for l in structures.read("3SGB-subset.pdb").splitlines() if l[17:20] != "HOH") + "\n"
    tw_res = {}
    for r in structures.residues(sg):
        if r["tag"] == "ATOM  ":
            tw_res.setdefault((r["chain"], r["num"]), []).append(r)
    tw_keys = [(r["chain"], r["num"].strip(), r["icode"].strip()) for v in tw_res.values() if len(v) > 1 for r in v]
    if tw_keys:
        lst = ",".join(f"{c}:{n}{i}" for c, n, i in tw_keys)
        mol_t, _ = structures.run(sg, ["-i", lst])
        # the same residues after renumbering in file order (every residue gets its own number)
        order = [(r["chain"], r["num"].strip(), r["icode"].strip()) for r in structures.residues(sg)]
        newnum = {k: i + 1 for i, k in enumerate(order)}
        lst2 = ",".join(f"{c}:{newnum[(c, n, i)]}" for c, n, i in tw_keys)
        mol_r, _ = structures.run(renumber_file_order(sg), ["-i", lst2])
        chk.count(1, key=("titrate-only-twins",))
        t1 = [g.type for g in mol_t.conformations[mol_t.conformation_names[0]].groups if g.titratable]
        t2 = [g.type for g in mol_r.conformations[mol_r.conformation_names[0]].groups if g.titratable]
        if t1 != t2:
            found.append(("labels-influence-numbers:titrate-only-twins", f"3SGB-subset --titrate_only {lst}: {len(t1)} groups titrate ({t1}); after renumbering in file order, with the list "
                          f"translated ({lst2}): {len(t2)} ({t2})", {"case": "3SGB-subset.pdb", "list": lst, "renumbered_list": lst2}))
    chk.sample({"structures": names})
    uniq = {}
    for sig, what, rep in found:
        uniq.setdefault(sig, (sig, what, rep))
    found = list(uniq.values())
    if edis:
        chk.broken("correspondence", "model/Labels.v group_eq ~ Group.__eq__", {"pairs": edis[:5]}, search_fn=lambda: found)
    elif not proved:
        chk.broken("proof", "props/C06.v (incl. the attribute-read inventory)", chk.broken_obligation, search_fn=lambda: found)
    else:
        for sig, what, rep in found:
            chk.finding(sig, what, rep)
    return chk.finish(
        level="proof",
        rule=("obligations = theorems of coq/props/C06.v (all relabellings preserving the compared keys, all structures; inventory of attribute reads "
              "by vm_compute over the re-extracted table). Tie: Group.__eq__ on sampled pairs vs group_eq. Search: monotone chain renaming, per-chain "
              "shifts (negative; +/-1000 with adjacent chain ids), file-order renumbering, created twins; every number compared bit for bit, "
              "determinant partners by position. distinct = (structure, relabelling)"
              " Added in rounds 4-6: digit chain identifiers, a two-chain alternate-location input renumbered to overlap, order-changing relabellings compared to rounding, an asymmetrically evaluated HIS->ASN pair in two chains, a hetero group without chain identifier, labels quoted in -c / --titrate_only."),
        assumptions=["labels are modelled as the tuple (residue type, number, chain); the formatted text '{:<3s}{:>4d}{:>2s}' is injective on PDB field ranges",
                     "the theorems cover the comparisons on residue identity; that nothing else reads the labels is the search's part"],
        trusted=["tools/vlib/tables.py attribute-read extractor", "model/Labels.v hand model"])
