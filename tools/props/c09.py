"""C09 — charge curves and pI.  Theorems: coq/props/C09.v (generated calculate_charge + hand models of the sums,
profile and bisection).  Tie: regeneration + translator validation; correspondence of model/Charge.v in the float
instance (10**x from a table recorded in the same run) with get_charge_profile / get_pi, bit for bit.
Search: independent evaluation of the property on synthetic group vectors and on the written .pka text."""
import itertools
import math
import re

from vlib import common, gen, genval, chargeenv as CE, structures


def qlit(x):
    import fractions
    fr = fractions.Fraction(str(x))
    return f"({fr.numerator} # {fr.denominator})"


def hh(q, pk, ph):
    x = q * (pk - ph)
    if x > 300:
        return q
    c = 10.0 ** x
    return q * c / (1 + c)


def root(f, lo, hi):
    for _ in range(200):
        mid = (lo + hi) / 2
        if f(mid) > 0:
            lo = mid
        else:
            hi = mid
    return (lo + hi) / 2


def gen_case(rng):
    kind = rng.random()
    n = rng.choice([0, 1, 2, 2, 3, 5, 8])
    gs = []
    for _ in range(n):
        q = rng.choice([-1, 1]) if kind > 0.15 else (-1 if kind < 0.07 else 1)
        if rng.random() < 0.2:
            q = q * rng.choice([2, 3, 0.5])        # ions / parameter files give formal charges of other magnitudes
        mp = rng.choice([3.8, 4.5, 6.5, 9.0, 10.0, 10.5, 12.5, 8.0, 3.2])
        pk = round(mp + rng.uniform(-4, 4), rng.choice([1, 2, 6]))
        gs.append((q, pk, mp, rng.random() > 0.12))
    grid = rng.choice([(0.0, 14.0, 1.0), (0.0, 14.0, 0.5), (2.0, 9.0, 0.25), (3.0, 3.0, 1.0), (0.0, 1.0, 0.125), (-2.0, 16.0, 3.0), (0.0, 14.0, 0.1), (1.1, 2.3, 0.3)])
    lo = rng.choice([0.0, 0.0, 2.0, -1.0, 5.5, -50.0, -200.0])
    hi = lo + rng.choice([14.0, 8.0, 3.0, 0.5] if lo > -50.0 else [100.0, 450.0])
    if lo <= -50.0:
        # (10 ** x overflows beyond x = 308 - Python raises OverflowError -, so the extreme windows are combined with unit charges only: with
        # |q| = 3 a pH of -200 already needs 10 ** 630; see DESIGN A.9)
        gs = [((1 if q > 0 else -1), pk, mp, t) for q, pk, mp, t in gs]
    # precisions down to 1e-12: still above the spacing of binary64 numbers in these windows (2.8e-14 at 250), so that the stated
    # precision can be met at all; below the spacing no binary64 answer can satisfy the property (see DESIGN A.9)
    prec = rng.choice([1e-4, 1e-4, 1e-2, 1e-6, 0.5, 1e-8, 1e-10, 1e-12, 2e-4, 0.003, 0.05, 0.3])
    return gs, grid, (lo, hi), prec


def run(chk: common.Check):
    common.impl_setup()
    rng = chk.rng
    import propka.group
    proved = False
    missing = [f for f in ("calculate_charge_folded", "calculate_charge_unfolded") if f in gen.GEN_ERRORS]
    if missing:
        chk.obligations.append(("translate Group.calculate_charge", False, gen.GEN_ERRORS[missing[0]]))
        chk.broken_obligation = {"where": "py2coq", "log_tail": gen.GEN_ERRORS[missing[0]]}
    else:
        proved = chk.prove()

    mol = CE.make_mol()
    conf = mol.conformations["AVR"]
    params = mol.version.parameters

    # ---------------------------------------------------------- translator validation (IR, bit for bit)
    ins = []
    for _ in range(400):
        ins.append({"self": {"charge": float(rng.choice([-1, 1, 2, -2])), "model_pka": rng.uniform(0, 14), "pka_value": rng.uniform(-3, 18),
                             "num_volume": 0.0, "titratable": True}, "ph": rng.choice([rng.uniform(0, 14), 7.0, 0.0, 14.0])})

    def real_charge(state):
        def f(e):
            g = CE.fake_group(e["self"]["charge"], e["self"]["pka_value"], e["self"]["model_pka"])
            return g.calculate_charge(params, ph=e["ph"], state=state)
        return f
    genval.validate(chk, "GroupGen", "calculate_charge_folded", real_charge("folded"), ins)
    genval.validate(chk, "GroupGen", "calculate_charge_unfolded", real_charge("unfolded"), ins)

    # ---------------------------------------------------------- correspondence: sums, profile, bisection (float model + tables)
    ncase = 120 if chk.thorough else 30
    cases = [gen_case(rng) for _ in range(ncase)]
    cases[0] = ([(-1, 4.0, 3.8, True), (1, 10.2, 10.5, True)], (0.0, 14.0, 1.0), (0.0, 14.0), 1e-4)
    cases[1] = ([], (0.0, 14.0, 1.0), (0.0, 14.0), 1e-4)
    cases[2] = ([(1, 12.0, 12.5, True), (-1, 3.9, 3.8, True)], (0.0, 14.0, 0.1), (0.0, 14.0), 1e-4)   # flat curve around the root
    # windows whose edge falls between the folded and the unfolded pI (only one curve changes sign inside)
    k = 3
    for gs0 in ([(-1, 5.0, 3.8, True), (1, 9.0, 10.5, True), (1, 6.0, 6.5, True)], [(-1, 2.0, 4.5, True), (1, 11.5, 10.5, True), (-1, 9.5, 9.0, True), (1, 12.0, 12.5, True)]):
        ff = lambda ph: sum(hh(q, pk, ph) for q, pk, mp, t in gs0)
        fu = lambda ph: sum(hh(q, mp, ph) for q, pk, mp, t in gs0)
        rf, ru = root(ff, 0.0, 14.0), root(fu, 0.0, 14.0)
        edge = round((rf + ru) / 2, 2)
        for win in ((0.0, edge), (edge, 14.0)):
            if k < len(cases):
                cases[k] = (gs0, (0.0, 14.0, 2.0), win, 1e-4)
                k += 1
    # precision far below / window far beyond the defaults (the number of halvings needed is log2(width / precision): 31 and 26 here)
    amph = [(-1, 4.0, 3.8, True), (1, 10.2, 10.5, True), (1, 6.9, 6.5, True)]
    cases[k] = (amph, (0.0, 14.0, 2.0), (0.0, 14.0), 1e-8)
    cases[k + 1] = (amph, (0.0, 14.0, 2.0), (-200.0, 250.0), 1e-5)
    cases[k + 2] = (amph, (0.0, 14.0, 2.0), (2.0, 12.0), 1e-10)
    # precisions that are not powers of ten
    for j, pr in enumerate((0.002, 0.0005, 0.03, 0.3)):
        cases[k + 3 + j] = (amph if j % 2 == 0 else [(-1, 5.0, 3.8, True), (1, 9.0, 10.5, True), (1, 6.0, 6.5, True)], (0.0, 14.0, 2.0), (0.0, 14.0), pr)
    exprs, meta = [], []
    found = []
    orig = propka.group.Group.calculate_charge
    for gs, grid, win, prec in cases:
        groups = [CE.fake_group(float(q), pk, mp, t) for q, pk, mp, t in gs]
        # the group's OWN model pKa counts (custom model pKa values differ from the table entry of the residue type): give the groups residue types
        # whose tabulated model pKa is something else
        for g, rt in zip(groups, itertools.cycle(["ASP", "OP", "", "LYS", "NAR", "TYR"])):
            g.residue_type = rt
        conf.groups = groups
        rec = CE.Recorder()

        def wrapped(self, parameters, ph=7.0, state="folded", _rec=rec):
            _rec.charge(self, ph)
            return orig(self, parameters, ph=ph, state=state)
        propka.group.Group.calculate_charge = wrapped
        try:
            prof = mol.get_charge_profile("AVR", grid=grid)
            pis = mol.get_pi("AVR", grid=win, precision=prec)
            err = None
        except Exception as ex:
            prof, pis, err = None, None, type(ex).__name__
        finally:
            propka.group.Group.calculate_charge = orig
        p10, l10 = rec.coq()
        gl = CE.coq_list([CE.coq_grp(g) for g in groups])
        fx = genval.fhex
        exprs.append(f"(let N := NumFlT {p10} [] in let gs := {gl} in "
                     f"match Grid.make_grid 5000 {qlit(grid[0])} {qlit(grid[1])} {qlit(grid[2])} with None => [] | Some gridq => "
                     f"let grid := map (fun q => let r := Qred q in flit (Qnum r) (Zpos (Qden r))) gridq in "
                     f"flat_map (fun r => let '(a, b, c) := r in [fout a; fout b; fout c]) (@charge_profile float N gs grid) end ++ "
                     f"(let '(pf, pu) := @get_pi float N gs {fx(win[0])} {fx(win[1])} {fx(prec)} 200 in "
                     f"[match pf with Some x => fout x | None => (9,9,9)%Z end; match pu with Some x => fout x | None => (9,9,9)%Z end]))")
        meta.append((gs, grid, win, prec, prof, pis, err))
        chk.count(1, key=("case", len(gs), sum(1 for g in gs if g[0] > 0), grid, win, prec))

        # ---- search: the property itself, evaluated independently
        if err:
            found.append((f"exception:{err}", f"get_charge_profile/get_pi raised {err} for groups {gs}", {"groups": gs, "grid": grid, "window": win}))
            continue
        tit = [g for g in gs if g[3]]
        for (ph, qu, qf) in prof:
            wu = sum(hh(q, mp, ph) for q, pk, mp, t in tit)
            wf = sum(hh(q, pk, ph) for q, pk, mp, t in tit)
            if not (math.isclose(qu, wu, rel_tol=1e-9, abs_tol=1e-9) and math.isclose(qf, wf, rel_tol=1e-9, abs_tol=1e-9)):
                sw = math.isclose(qu, wf, rel_tol=1e-9, abs_tol=1e-9) and math.isclose(qf, wu, rel_tol=1e-9, abs_tol=1e-9)
                found.append(("profile-columns-swapped" if sw else "profile-not-sum",
                              f"charge profile row at pH {ph}: (unfolded, folded) = ({qu}, {qf}), sums over titratable groups give ({wu}, {wf})",
                              {"groups": gs, "ph": ph, "impl": [qu, qf], "expected": [wu, wf]}))
                break
        for which, name, val in ((1, "folded", pis[0]), (2, "unfolded", pis[1])):
            f = (lambda ph: sum(hh(q, pk, ph) for q, pk, mp, t in tit)) if which == 1 else (lambda ph: sum(hh(q, mp, ph) for q, pk, mp, t in tit))
            if f(win[0]) > 0 and f(win[1]) <= 0 and f(win[1]) < 0:
                r = root(f, win[0], win[1])
                if val is None or not abs(val - r) <= prec * (1 + 1e-9) + 1e-12:
                    other = (lambda ph: sum(hh(q, mp, ph) for q, pk, mp, t in tit)) if which == 1 else (lambda ph: sum(hh(q, pk, ph) for q, pk, mp, t in tit))
                    sw = other(win[0]) > 0 > other(win[1]) and val is not None and abs(val - root(other, win[0], win[1])) <= prec * 1.01
                    found.append((f"pI-{'swapped' if sw else 'not-root'}:{name}",
                                  f"{name} pI = {val} but the {name} charge curve changes sign at {r} (window {win}, precision {prec}, groups {gs})",
                                  {"groups": gs, "window": win, "precision": prec, "impl_pI": list(pis), "root": r}))
    pre = ("From Coq Require Import List ZArith QArith PrimFloat.\nFrom V Require Import Num FloatIO GroupGen Charge Grid.\nImport ListNotations.\n"
           "Open Scope float_scope.\n")
    res = common.coq_eval("c09", pre, exprs, shard=10)
    dis = []
    for (gs, grid, win, prec, prof, pis, err), r in zip(meta, res):
        if err:
            continue
        want = []
        for row in prof:
            want += list(row)
        want += [pis[0], pis[1]]
        got = [None if tuple(t) == (9, 9, 9) else genval.decode_fout(t) for t in r]
        ok = len(got) == len(want) and all((a is None and b is None) or (a is not None and b is not None and genval.bits(a) == genval.bits(float(b)))
                                           for a, b in zip(got, want))
        if not ok:
            k = next((i for i, (a, b) in enumerate(zip(got, want)) if a is None or b is None or genval.bits(a) != genval.bits(float(b))), None)
            dis.append({"groups": gs, "grid": grid, "window": win, "precision": prec, "first_difference_index": k,
                        "impl": want[k] if k is not None and k < len(want) else f"len {len(want)}",
                        "model": got[k] if k is not None and k < len(got) else f"len {len(got)}"})
    chk.cov["traces_validated_against_impl"] += len(cases)
    chk.corr_stats["charge_profile+get_pi"] = {"cases": len(cases), "disagreements": len(dis),
                                               "group_count_histogram": {str(k): sum(1 for c in cases if len(c[0]) == k) for k in range(0, 9)}}
    chk.sample({"groups(q,pKa,model,titratable)": cases[2][0], "grid": cases[2][1], "window": cases[2][2], "precision": cases[2][3]})

    # ---------------------------------------------------------- per-group curve on the real method (search)
    for _ in range(3000 if chk.thorough else 600):
        q = float(rng.choice([-1, 1, -2, 2, 0.5, -0.5, 3]))
        pk = rng.uniform(-2, 16)
        g = CE.fake_group(q, pk, rng.uniform(0, 14))
        phs = sorted(rng.uniform(-1, 15) for _ in range(4))
        vals = [g.calculate_charge(params, ph=p, state="folded") for p in phs]
        half = g.calculate_charge(params, ph=pk, state="folded")
        lo_, hi_ = min(0.0, q), max(0.0, q)
        if not all(lo_ <= v <= hi_ for v in vals) or not math.isclose(half, q / 2, rel_tol=1e-12) \
                or not all(a >= b - 1e-15 for a, b in zip(vals, vals[1:])):
            found.append(("single-site-curve", f"group q={q} pKa={pk}: charges {vals} at pH {phs}, at pKa {half}",
                          {"q": q, "pka": pk, "phs": phs, "charges": vals, "at_pka": half}))
        chk.count(1, key=("single-site", q))

    # ---------------------------------------------------------- real structures: API vs written text
    for name in (["1HPX.pdb", "3SGB.pdb", "1FTJ-Chain-A.pdb", "4DFR.pdb"] if chk.thorough else ["3SGB-subset.pdb", "1HPX.pdb"]):
        mol2, _ = structures.run(structures.read(name))
        text = structures.pka_text(mol2)
        c2 = mol2.conformations["AVR"]
        tit = [g for g in c2.groups if g.titratable]
        rows = re.findall(r"^\s*(-?\d+\.\d\d)\s+(-?\d+\.\d\d)\s+(-?\d+\.\d\d)\s*$", text[text.index("Protein charge of folded"):], re.M)
        for ph, qu, qf in rows:
            ph, qu, qf = float(ph), float(qu), float(qf)
            wu = sum(hh(g.charge, g.model_pka, ph) for g in tit)
            wf = sum(hh(g.charge, g.pka_value, ph) for g in tit)
            if abs(qu - wu) > 0.006 or abs(qf - wf) > 0.006:
                found.append(("pka-text-charge-table", f"{name}: charge table row pH {ph}: unfolded {qu} folded {qf}, group records give {wu:.3f} {wf:.3f}",
                              {"pdb": name, "ph": ph}))
                break
        m = re.search(r"The pI is\s+(-?[\d.]+) \(folded\) and\s+(-?[\d.]+) \(unfolded\)", text)
        if m:
            for val, f, nm in ((float(m.group(1)), lambda ph: sum(hh(g.charge, g.pka_value, ph) for g in tit), "folded"),
                               (float(m.group(2)), lambda ph: sum(hh(g.charge, g.model_pka, ph) for g in tit), "unfolded")):
                if f(0.0) > 0 > f(14.0) and abs(val - root(f, 0.0, 14.0)) > 0.006:
                    found.append((f"pka-text-pI:{nm}", f"{name}: printed {nm} pI {val}, root of the {nm} curve {root(f, 0.0, 14.0):.4f}", {"pdb": name}))
        chk.count(len(rows), key=("pka-text", name))

    uniq = {}
    for sig, what, rep in found:
        uniq.setdefault(sig, (sig, what, rep))
    found = list(uniq.values())
    gv = getattr(chk, "_genval_dis", [])
    if gv or dis:
        chk.broken("correspondence", "Charge model / generated calculate_charge ~ implementation",
                   {"translator": gv, "model": dis[:5]}, search_fn=lambda: found)
    elif not proved:
        chk.broken("proof", "props/C09.v", chk.broken_obligation, search_fn=lambda: found)
    else:
        for sig, what, rep in found:
            chk.finding(sig, what, rep)
    return chk.finish(
        level="proof",
        rule=("obligations = theorems of coq/props/C09.v over R (all charges/pKa/pH, all group lists, all windows/precisions/fuel). "
              "Correspondence: synthetic group vectors (none, acids only, bases only, mixed, non-titratable) x grids x windows x precisions: "
              "profile rows and both pI bit for bit against the float instance; distinct = (group counts, grid, window, precision). "
              "Search: independent Henderson-Hasselbalch sums and 200-step bisection roots; printed charge table and pI of real structures"
              " Added in rounds 4-6: precisions down to 1e-12 and not powers of ten, windows up to 450 pH units, groups whose own model pKa differs from their residue type's table entry, formal charges of magnitude other than 1."),
        assumptions=["theorems over R; the float run uses the 10**x values of the same Python process (libm is an oracle)",
                     "total-charge curve must change sign inside the window for the pI claim (as the property says)"],
        trusted=["py2coq translator (validated each run)", "model/Charge.v hand model (validated each run)", "stdlib real-number axioms"])
