"""C02 — reported pKa = model pKa + listed contributions.  Theorems: coq/props/C02.v about model/Dets.v.
Tie: trace validation - the bookkeeping operations of real runs are recorded (vlib/detstrace.py) and replayed in the Coq model
(binary64): identical final states; the model also tells which groups end `dirty` and whether each average was divided by its
number of summands (the hypotheses under which the theorems give the property).
Search: independent re-summation of every group of every conformation and of the average from the API records; the written
.pka (determinant table, summary) against the API."""
import os
import re
import tempfile

from vlib import common, structures, detstrace as DT

KINDS = DT.KINDS


def cfg_variant(**kw):
    """a parameter file = shipped propka.cfg with scalar overrides; returns its path (under /var/tmp)"""
    text = (common.REPO / "propka" / "propka.cfg").read_text()
    for k, v in kw.items():
        text, n = re.subn(rf"(?m)^{k}\s+\S+", f"{k} {v}", text)
        if n == 0:
            text += f"\n{k} {v}\n"
    fd, path = tempfile.mkstemp(suffix=".cfg", dir="/var/tmp")
    os.write(fd, text.encode())
    os.close(fd)
    return path


def resum(g):
    return g.model_pka + g.energy_volume + g.energy_local + sum(d.value for k in KINDS for d in g.determinants[k])


def check_api(mol, tag, found, chk):
    """the property on the API records of every conformation and of the average"""
    nconf = len(mol.conformation_names)
    for cname in list(mol.conformation_names) + ["AVR"]:
        for g in mol.conformations[cname].groups:
            present = sum(1 for c in mol.conformation_names if mol.conformations[c].find_group(g)) if cname == "AVR" else nconf
            where = "conformation" if cname != "AVR" else ("AVR:group-in-all-conformations" if present == nconf else "AVR:group-missing-from-a-conformation")
            chk.count(1, key=("group", tag, cname, g.label))
            if g.atom.cysteine_bridge:
                if abs(g.pka_value - 99.99) > 1e-9:
                    found.append((f"bridged-not-9999:{'AVR' if cname == 'AVR' else 'conf'}", f"{tag} {cname} {g.label}: bridged cysteine reports {g.pka_value}", {"case": tag, "conformation": cname, "group": g.label}))
                continue
            want = resum(g)
            if abs(g.pka_value - want) > 1e-9:
                found.append((f"pka-not-sum:{where}",
                              f"{tag} {cname} {g.label}: pKa {g.pka_value:.6f} but model {g.model_pka} + desolvation {g.energy_volume:.6f} + {g.energy_local:.6f} "
                              f"+ listed determinants = {want:.6f}", {"case": tag, "conformation": cname, "group": g.label, "pka": g.pka_value, "sum": want}))


def check_text(mol, tag, found, chk):
    """determinant table and summary of the written .pka against the API (printed precision)"""
    text = structures.pka_text(mol)
    avr = mol.conformations["AVR"]
    rp = mol.version.parameters.remove_penalised_group
    sec = text[text.index("RESIDUE    pKa    BURIED"):text.index("SUMMARY OF THIS PREDICTION")]
    rows = {}
    order = []
    blocks = {}
    for ln in sec.splitlines():
        if len(ln) >= 49 + 54 and ln[49:57].strip().replace(".", "").replace("-", "").isdigit():
            lab = ln[:9]
            if re.fullmatch(r"-?\d+\.\d\d", ln[9:16].strip() or "x"):      # the first line of a block carries the pKa value
                blocks[lab] = blocks.get(lab, 0) + 1
            if lab not in rows:
                rows[lab] = {"first": ln, "cells": [[], [], []]}
                order.append(lab)
            for k in range(3):
                cell = ln[49 + 18 * k: 49 + 18 * (k + 1)]
                if cell[9:18] != "XXX   0 X":
                    rows[lab]["cells"][k].append((float(cell[:8]), cell[9:18]))
    summ = {}
    for m in re.finditer(r"^   (.{9}) +(-?\d+\.\d\d) +(-?\d+\.\d\d)", text[text.index("SUMMARY OF THIS PREDICTION"):], re.M):
        summ.setdefault(m.group(1).strip(), []).append((float(m.group(2)), float(m.group(3))))
    # one block per reported group, also when several groups carry the same label (two copies of a ligand in one chain)
    want_blocks = {}
    for g in avr.groups:
        if not (g.coupled_titrating_group and rp) and g.residue_type in mol.version.parameters.write_out_order:
            want_blocks[g.label] = want_blocks.get(g.label, 0) + 1
    for lab_, n_ in want_blocks.items():
        if blocks.get(lab_, 0) != n_:
            found.append(("pka-text-block-count", f"{tag}: {n_} reported group(s) labelled {lab_.strip()!r}, {blocks.get(lab_, 0)} block(s) in the determinant table", {"case": tag, "group": lab_}))
            break
    seen = set()
    for g in avr.groups:
        if g.coupled_titrating_group and rp:
            continue
        if g.residue_type not in mol.version.parameters.write_out_order or g.label in seen:
            continue
        seen.add(g.label)      # equal labels (insertion-code twins) share a row key: compare the first
        chk.count(1, key=("text", tag, g.label))
        r = rows.get(g.label)
        if r is None:
            found.append(("pka-text-row-missing", f"{tag}: no determinant row for {g.label}", {"case": tag, "group": g.label}))
            continue
        pk = float(r["first"][9:16])
        if abs(pk - g.pka_value) > 0.0051:
            found.append(("pka-text-value", f"{tag}: determinant table prints {pk} for {g.label}, API {g.pka_value:.4f}", {"case": tag, "group": g.label}))
        for k, kind in enumerate(KINDS):
            api = [(d.value, d.label) for d in g.determinants[kind]]
            got = r["cells"][k]
            same_group_rows = [x for x in avr.groups if x.label == g.label]
            if len(same_group_rows) > 1:
                continue
            if len(api) != len(got) or any(abs(a[0] - b[0]) > 0.0051 or a[1] != b[1] for a, b in zip(api, got)):
                found.append(("pka-text-determinant-rows", f"{tag}: printed {kind} determinants of {g.label} {got} differ from the group's {[(round(v, 2), l) for v, l in api]}",
                              {"case": tag, "group": g.label, "kind": kind}))
        s = summ.get(g.label.strip())
        if s and abs(s[0][0] - g.pka_value) > 0.0051:
            found.append(("pka-text-summary", f"{tag}: summary prints {s[0][0]} for {g.label}, API {g.pka_value:.4f}", {"case": tag, "group": g.label}))


def run(chk: common.Check):
    common.impl_setup()
    rng = chk.rng
    proved = chk.prove()
    found, dis = [], []
    cfgs = {"default": None}
    tmp = []
    for name, kw in (("shared", {"shared_determinants": 1}), ("shared-noremove", {"shared_determinants": 1, "remove_penalised_group": 0}),
                     ("noremove", {"remove_penalised_group": 0}), ("ccc", {"common_charge_centre": 1}),
                     ("shared-ccc", {"shared_determinants": 1, "common_charge_centre": 1})):
        cfgs[name] = cfg_variant(**kw)
        tmp.append(cfgs[name])
    cases = []
    small = ["conf-alt-AB.pdb", "conf-alt-AB-mutant.pdb", "conf-model-missing-atoms.pdb", "sample-issue-140.pdb"]
    for n in small:
        cases.append((n, structures.read(n), [], "default"))
    # display mode on a structure with a non-covalently coupled pair (ASP 25 A / ASP 25 B): the swapped state is kept and must be consistent
    cases.append(("1HPX.pdb", structures.read("1HPX.pdb"), ["-d"], "default"))
    # a chain whose groups are not contiguous in record order: the ligand of 1HPX written with chain id A after chain B
    cases.append(("1HPX.pdb ligand re-chained to A", "\n".join((l[:21] + "A" + l[22:]) if (l[:6] == "HETATM" and l[17:20] == "KNI") else l
                                                              for l in structures.read("1HPX.pdb").splitlines()) + "\n", [], "default"))
    # a hetero group on a chain identifier that no ATOM record uses
    cases.append(("1HPX.pdb ligand on its own chain L", "\n".join((l[:21] + "L" + l[22:]) if (l[:6] == "HETATM" and l[17:20] == "KNI") else l
                                                                 for l in structures.read("1HPX.pdb").splitlines()) + "\n", [], "default"))
    # an ensemble whose models discard DIFFERENT members of a covalently coupled system: 4DFR (alternate A, ligands MTX / CL), model 2 = the same
    # structure with chains A and B exchanged, 300 A away (in chain A the discarded pteridine nitrogen then differs between the models)
    m1_, m2_ = [], []
    for l in structures.read("4DFR.pdb").splitlines():
        if not structures.is_atom(l) or l[16] not in " A" or (l[:6] == "HETATM" and l[17:20].strip() not in ("MTX", "CL")):
            continue
        l = l[:16] + " " + l[17:]
        if l[17:20] == "MTX":
            l = l[:22] + " 161" + l[26:]
        m1_.append(l)
        m2_.append(structures.set_xyz(l[:21] + {"A": "B", "B": "A"}[l[21]] + l[22:], structures.get_xyz(l)[0] + 300, structures.get_xyz(l)[1], structures.get_xyz(l)[2]))
    m2_.sort(key=lambda l: l[21])
    cases.append(("4DFR as two models, chains exchanged in the second", structures.as_models(["\n".join(m1_) + "\n", "\n".join(m2_) + "\n"]), [], "default"))
    # two copies of one titratable ligand in ONE chain (their groups carry the same labels)
    kni = [l for l in structures.read("1HPX.pdb").splitlines() if l[:6] == "HETATM" and l[17:20] == "KNI"]
    dup = [structures.set_xyz(structures.set_resnum(l, 901, " "), structures.get_xyz(l)[0] + 60, structures.get_xyz(l)[1], structures.get_xyz(l)[2]) for l in kni]
    cases.append(("1HPX.pdb with a second copy of the inhibitor (B 901, 60 A away)", "\n".join([l for l in structures.read("1HPX.pdb").splitlines() if l[:3] != "END"] + dup) + "\nEND\n", [], "default"))
    big = ["3SGB-subset.pdb"] + (["1HPX.pdb", "1FTJ-Chain-A.pdb", "4DFR.pdb"] if chk.thorough else [])
    for n in big:
        t = structures.read(n)
        cases.append((n, t, [], "default"))
        cases.append((n, t, ["-d"], "default"))
        for c in ("shared", "shared-noremove", "noremove") + (("ccc", "shared-ccc") if chk.thorough else ()):
            cases.append((n, t, [], c))
    # fragments: many small runs with random option sets
    src = structures.read("1HPX.pdb")
    nres = len(structures.residues(src))
    for _ in range(12 if chk.thorough else 5):
        a = rng.randrange(0, nres - 40)
        fr = structures.fragment(src, a, a + rng.randint(15, 39))
        opts = rng.choice([[], ["-d"], ["-c", "A"], ["-i", "A:25,A:29,A:30"]])
        if opts[:1] == ["-c"] and not any(l[21] == opts[1] for l in structures.atom_lines(fr)):
            opts = []      # a selection that leaves no atom is rejected with ValueError by design (C12); not this property's subject
        cases.append((f"1HPX[{a}]", fr, opts, rng.choice(list(cfgs))))
    # alt-loc point mutants (acid in one conformation, amide in the other), both orders, and a repeated-model file
    fr = structures.fragment(src, 20, 45)
    for order in ("titratable", "mutant"):
        t, d = structures.altloc_point_mutant(fr, lambda r: True, first=order)
        if t:
            cases.append((f"1HPX[20:45] {d}", t, [], "default"))
    cases.append(("1HPX[20:45] x2 models", structures.as_models([fr, fr]), [], "default"))
    # two models of a larger fragment whose determinants differ (second model: a few side-chain atoms displaced)
    big_fr = structures.fragment(src, 18, 95)
    moved = []
    for l in big_fr.splitlines():
        if structures.is_atom(l) and l[12:16].strip() in ("OD1", "OD2", "NZ", "OE1", "NH1") and rng.random() < 0.7:
            x, y, z = structures.get_xyz(l)
            l = structures.set_xyz(l, float(x) + 0.4, float(y) - 0.3, float(z) + 0.2)
        moved.append(l)
    cases.append(("1HPX[18:95] 2 differing models", structures.as_models([big_fr, "\n".join(moved)]), [], "default"))
    try:
        for name, text, opts, cfgname in cases:
            tag = f"{name} {' '.join(opts)} cfg={cfgname}"
            o = list(opts) + (["-p", cfgs[cfgname]] if cfgs[cfgname] else [])
            with DT.recording() as rec:
                try:
                    mol, _ = structures.run(text, o)
                except Exception as ex:
                    found.append((f"exception:{type(ex).__name__}", f"{tag}: {type(ex).__name__}: {ex}", {"case": tag}))
                    continue
                DT.finalize(rec)
            check_api(mol, tag, found, chk)
            if cfgname == "default":
                check_text(mol, tag, found, chk)
            # replay in the model (only groups that carry determinants or energies, plus the averages, are rendered in full)
            if len(rec.ops) > 2500 and not chk.thorough:
                pass
            model = DT.model_final(rec, tag="c02")
            d = DT.compare(rec, model)
            snap = rec.snapshot()
            if d:
                dis.append({"case": tag, "differences": d[:4]})
            dirty = [snap[i]["label"] for i, m in enumerate(model) if m is not None and snap[i] is not None and not snap[i]["avr"] and m["dirty"]]
            # averages: divisor = number of summands?
            bad_div = []
            cur = {}
            for op in rec.ops:
                if op[0] == "OClone":
                    cur[op[1]] = 0
                elif op[0] == "OIadd" and op[1] in cur:
                    cur[op[1]] += 1
                elif op[0] == "ODiv" and op[1] in cur and float(cur[op[1]]) != op[2]:
                    bad_div.append((snap[op[1]]["label"], cur[op[1]], op[2]))
            st = chk.corr_stats.setdefault("dets_trace", {"runs": 0, "operations": 0, "disagreements": 0, "dirty_at_end": 0, "averages_with_wrong_divisor": 0, "op_kinds": {}})
            st["runs"] += 1
            st["operations"] += len(rec.ops)
            st["disagreements"] += len(d)
            st["dirty_at_end"] += len(dirty)
            st["averages_with_wrong_divisor"] += len(bad_div)
            for op in rec.ops:
                st["op_kinds"][op[0]] = st["op_kinds"].get(op[0], 0) + 1
            chk.cov["traces_validated_against_impl"] += 1
            if dirty:
                chk.notes.append(f"{tag}: groups not recomputed after their last change: {dirty[:4]}")
            if bad_div:
                chk.notes.append(f"{tag}: averages divided by a number different from their summands: {bad_div[:3]}")
            chk._hyp_fail = getattr(chk, "_hyp_fail", []) + ([(tag, "dirty", dirty[:4])] if dirty else []) + ([(tag, "divisor", bad_div[:3])] if bad_div else [])
    finally:
        for p in tmp:
            try:
                os.unlink(p)
            except OSError:
                pass
    chk.sample({"case": cases[4][0], "options": cases[4][2], "cfg": cases[4][3]})
    uniq = {}
    for sig, what, rep in found:
        uniq.setdefault(sig, (sig, what, rep))
    found = list(uniq.values())
    hyp = getattr(chk, "_hyp_fail", [])
    if dis:
        chk.broken("correspondence", "Dets model ~ recorded bookkeeping of real runs", {"runs": dis[:3]}, search_fn=lambda: found)
    elif not proved:
        chk.broken("proof", "props/C02.v", chk.broken_obligation, search_fn=lambda: found)
    elif hyp:
        chk.broken("hypothesis", "every group recomputed after its last change / averages divided by their number of summands", {"cases": hyp[:5]},
                   search_fn=lambda: found)
    else:
        for sig, what, rep in found:
            chk.finding(sig, what, rep)
    return chk.finish(
        level="proof",
        rule=("obligations = theorems of coq/props/C02.v (every operation sequence; every averaging sequence). Trace validation: real runs "
              "(small multi-conformation files, a protein, random fragments) x options (-d, -c, -i) x parameter files (shared determinants, "
              "no removal of penalised groups, common charge centre): recorded operations replayed bit for bit; model reports dirty groups and "
              "average divisors. Search: re-summation of every group (all conformations + AVR) and the written determinant table / summary. "
              "distinct = (case, conformation, group)"
              " Added in rounds 4-6: chains whose groups are not contiguous in record order, ligands on chains of their own, a 4DFR ensemble discarding different members of a coupled system."),
        assumptions=["theorems over R: the float total equals the real sum up to rounding (search tolerance 1e-9)",
                     "text rendering (format) is checked by the search, not modelled"],
        trusted=["tools/vlib/detstrace.py recorder (wraps propka methods at run time)", "model/Dets.v validated by bit-exact replay", "stdlib real axioms"])
