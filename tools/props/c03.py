"""C03 — results are a pure function of input content and options.  Theorems: coq/props/C03.v (write-before-read access sequences are
history independent; default-insert memos are invisible; over the inventory of process-global objects re-extracted from the source: the
complete list of their run-time mutations and the write-first discipline of the coupling singleton).
Tie: the inventory IS the tie (AST extraction each run, facts checked by vm_compute).
Search: the same job alone in a fresh process vs inside a sequence of interleaved jobs (different structures, parameter files, display
mode) in one process; fresh processes under different hash seeds; path vs stream; different working directories; several inputs in one
command-line invocation."""
import json
import os
import shutil
import subprocess
import sys
import tempfile

from vlib import common, structures
from props import c16

PY = sys.executable


def run_jobs(jobs, seed="0", cwd=None):
    """run the jobs sequentially in ONE fresh process; -> list of results"""
    fd, path = tempfile.mkstemp(suffix=".json", dir="/var/tmp")
    os.write(fd, json.dumps({"jobs": jobs}).encode())
    os.close(fd)
    env = dict(os.environ, PYTHONPATH=f"{common.VERIF / 'tools'}:{common.REPO}", PYTHONHASHSEED=str(seed))
    try:
        p = subprocess.run([PY, "-m", "vlib.purejob", path], capture_output=True, text=True, env=env, cwd=cwd or str(common.VERIF), timeout=1200)
    finally:
        os.unlink(path)
    if p.returncode != 0:
        raise RuntimeError(f"purejob failed: {p.stderr[-1500:]}")
    return json.loads(p.stdout[p.stdout.index("["):])


def same(a, b):
    if "error" in a or "error" in b:
        return a == b, "error"
    if a["records"] != b["records"]:
        d = structures.diff(a["records"], b["records"])
        return False, f"records differ: {d[:2]}"
    if a["pka_text"] != b["pka_text"]:
        la, lb = a["pka_text"].splitlines(), b["pka_text"].splitlines()
        k = next((i for i, (x, y) in enumerate(zip(la, lb)) if x != y), min(len(la), len(lb)))
        return False, f".pka text differs at line {k}: {la[k] if k < len(la) else ''!r} vs {lb[k] if k < len(lb) else ''!r}"
    return True, ""


def two_model_three_chain():
    t = structures.read("1FTJ-Chain-A.pdb")
    res = [r for r in structures.residues(t) if r["tag"] == "ATOM  "]
    lines = t.splitlines()
    frag = [lines[i] for r in res[34:60] for i in r["lines"]]
    parts = []
    for k, ch in enumerate("CAB"):    # chains deliberately not in alphabetical order
        mv = structures.move("\n".join(frag) + "\n", None, (0, 40 * k, 0)).splitlines()
        parts += [structures.set_chain(l, ch) for l in mv] + ["TER   "]
    one = "\n".join(parts) + "\n"
    return structures.as_models([one, structures.move(one, None, (0.1, 0, 0))])


def run(chk: common.Check):
    common.impl_setup()
    proved = chk.prove()
    found = []
    cfgs = []
    tmpdirs = []
    try:
        cfg_couple = c16.custom_cfg({"min_interaction_energy": "50.0"})
        cfg_cut = c16.custom_cfg({"desolv_cutoff": "15.0", "buried_cutoff": "10.0", "coulomb_cutoff2": "8.0"})
        cfgs += [cfg_couple, cfg_cut]
        cfg_meaning = {cfg_couple: {"min_interaction_energy": "50.0"}, cfg_cut: {"desolv_cutoff": "15.0", "buried_cutoff": "10.0", "coulomb_cutoff2": "8.0"}}
        hpx, sub = structures.read("1HPX.pdb"), structures.read("3SGB-subset.pdb")
        J = {"A": {"text": hpx, "opts": []}, "B": {"text": hpx, "opts": ["-p", cfg_couple]}, "C": {"text": hpx, "opts": ["-d"]},
             "D": {"text": hpx, "opts": ["-d", "-p", cfg_couple]}, "E": {"text": sub, "opts": ["-p", cfg_cut]}, "F": {"text": sub, "opts": []},
             "G": {"text": hpx, "opts": ["-p", cfg_cut]}}
        # structures that introduce the chain identifiers of a later job in another order: chain I alone; chain I written before chain E
        al = [l for l in sub.splitlines() if structures.is_atom(l)]
        only_i = "\n".join(l for l in al if l[21] == "I") + "\nTER\nEND\n"
        i_first = "\n".join([l for l in al if l[21] == "I"] + ["TER"] + [l for l in al if l[21] == "E"] + ["TER", "END"]) + "\n"
        J["K"] = {"text": only_i, "opts": []}
        J["L"] = {"text": i_first, "opts": []}
        if chk.thorough:
            J["H"] = {"text": structures.read("4DFR.pdb"), "opts": []}
            J["I"] = {"text": structures.read("1FTJ-Chain-A.pdb"), "opts": ["--titrate_only", "A:20,A:24"]}
        # ---- each job alone in a fresh process
        alone = {k: run_jobs([j])[0] for k, j in J.items()}
        for k, r in alone.items():
            if "error" in r:
                found.append(("job-fails", f"job {k} fails: {r['error']}", {"job": k}))
        # ---- interleaved sequences in one process
        seqs = ["ABABCDCD", "EFEGAG", "DCBA", "GAEF", "KFLF", "LKF"] + (["HAHBIHI", "FEDCBAGABCDEF"] if chk.thorough else [])
        for seq in seqs:
            res = run_jobs([J[k] for k in seq])
            for pos, (k, r) in enumerate(zip(seq, res)):
                chk.count(1, key=("sequence", seq, pos))
                ok, why = same(alone[k], r)
                if not ok:
                    prev = seq[:pos]
                    kind = "display-mode" if "-d" in J[k]["opts"] else ("parameter-file" if "-p" in J[k]["opts"] or any("-p" in J[x]["opts"] for x in prev) else "plain")
                    found.append((f"depends-on-earlier-runs:{kind}", f"job {k} {J[k]['opts']} as number {pos + 1} of the sequence {seq} in one process differs from the same job "
                                  f"in a fresh process: {why}", {"sequence": seq, "position": pos, "job_options": J[k]["opts"], "earlier": [J[x]["opts"] for x in prev],
                                   "parameter_files": {p: c for p, c in cfg_meaning.items()}, "structures": {"A-D,G": "tests/pdb/1HPX.pdb", "E,F": "tests/pdb/3SGB-subset.pdb"}}))
                    break
        # ---- hash seeds (multi-conformation, multi-chain inputs; display mode)
        multi = two_model_three_chain()
        ftj_d = {"text": structures.read("1FTJ-Chain-A.pdb"), "opts": ["-d"]}      # a coupled system of three groups in display mode
        for name, job in (("two models x three chains", {"text": multi, "opts": []}), ("1HPX -d", J["C"]), ("1FTJ-Chain-A -d", ftj_d)) + ((("4DFR", J["H"]),) if chk.thorough else ()):
            ref = None
            for seed in (["0", "1", "2", "3", "4", "5", "17", "random"] if chk.thorough else ["0", "1", "2", "3", "5"]):
                r = run_jobs([job], seed=seed)[0]
                chk.count(1, key=("hashseed", name, seed))
                if ref is None:
                    ref = r
                else:
                    ok, why = same(ref, r)
                    if not ok or ref.get("chains") != r.get("chains"):
                        found.append(("depends-on-hash-seed", f"{name}: PYTHONHASHSEED={seed} gives a different result than PYTHONHASHSEED=0: {why or (ref.get('chains'), r.get('chains'))}",
                                      {"case": name, "seed": seed, "pdb_text": job["text"] if len(job["text"]) < 200000 else None}))
                        break
        # ---- path vs stream, working directory
        d1 = tempfile.mkdtemp(dir="/var/tmp"); d2 = tempfile.mkdtemp(dir="/var/tmp"); tmpdirs += [d1, d2]
        pth = os.path.join(d1, "x.pdb")
        open(pth, "w").write(sub)
        variants = [("stream", {"text": sub, "opts": [], "name": "x.pdb"}, None), ("path", {"mode": "path", "path": pth, "opts": []}, None),
                    ("the same stream object used for a second run", {"mode": "stream-reused", "text": sub, "opts": [], "name": "x.pdb"}, None),
                    ("a stream the caller has already read to its end", {"mode": "stream-read-before", "text": sub, "opts": [], "name": "x.pdb"}, None),
                    ("path, other cwd", {"mode": "path", "path": pth, "opts": []}, d2), ("relative path", {"mode": "path", "path": "x.pdb", "opts": [], "cwd": d1}, None)]
        # a working directory that happens to contain parameter-file look-alikes (a propka.cfg with other model pKa values)
        d6 = tempfile.mkdtemp(dir="/var/tmp"); tmpdirs.append(d6)
        decoy = (common.REPO / "propka" / "propka.cfg").read_text().replace("model_pkas ASP", "model_pkas ASP 9.90 #", 1).replace("model_pkas LYS", "model_pkas LYS 5.50 #", 1)
        for fn in ("propka.cfg", "protein_bonds.json", "ions.list"):
            open(os.path.join(d6, fn), "w").write(decoy if fn.endswith(".cfg") else "{}")
        variants.append(("path, working directory containing another propka.cfg", {"mode": "path", "path": pth, "opts": []}, d6))
        variants.append(("stream, working directory containing another propka.cfg", {"text": sub, "opts": [], "name": "x.pdb"}, d6))
        ref = None
        for what, job, cwd in variants:
            r = run_jobs([job], cwd=cwd)[0]
            chk.count(1, key=("source", what))
            if ref is None:
                ref = r
            else:
                ok, why = same(ref, r)
                if not ok:
                    found.append(("depends-on-input-source", f"3SGB-subset given as {what} differs from the stream run: {why}", {"variant": what}))
        # ---- a structure whose run emits warnings, computed once WITHOUT its .pka text being produced, then computed and written: nothing of the
        #      first computation may show up in the text of the second
        warn = structures.read("1HPX-warn.pdb")
        r_plain = run_jobs([{"text": warn, "opts": [], "name": "w.pdb"}])[0]
        r_twice = run_jobs([{"mode": "stream-reused", "text": warn, "opts": [], "name": "w.pdb"}])[0]
        chk.count(2, key=("unwritten-run-before",))
        ok_w, why_w = same(r_plain, r_twice)
        if not ok_w:
            found.append(("depends-on-earlier-runs:unwritten-run", f"1HPX-warn computed twice in one process (the first time without producing the .pka text) differs from a single run: {why_w}",
                          {"structure": "tests/pdb/1HPX-warn.pdb"}))
        # ---- the same path spelling with different content, in one process (overwritten file; same relative name in another directory)
        d4 = tempfile.mkdtemp(dir="/var/tmp"); d5 = tempfile.mkdtemp(dir="/var/tmp"); tmpdirs += [d4, d5]
        small = structures.read("sample-issue-140.pdb")
        pth2 = os.path.join(d4, "protein.pdb")
        open(os.path.join(d5, "protein.pdb"), "w").write(small)
        open(pth2, "w").write(sub)
        first = run_jobs([{"mode": "path", "path": pth2, "opts": []}])[0]
        open(pth2, "w").write(small)
        seq = run_jobs([{"mode": "path", "path": pth2, "opts": []}])         # fresh process, new content: reference
        open(pth2, "w").write(sub)
        spec_jobs = [{"mode": "path", "path": pth2, "opts": []}]
        # one process: read content X under the path, then the harness cannot rewrite between jobs, so use two spellings that resolve differently:
        # relative name in directory d4 (content X) then the same relative name in directory d5 (content Y)
        both = run_jobs([{"mode": "path", "path": "protein.pdb", "opts": [], "cwd": d4}, {"mode": "path", "path": "protein.pdb", "opts": [], "cwd": d5}])
        chk.count(2, key=("same-name-other-directory",))
        ok1, why1 = same(first, both[0])
        ok2, why2 = same(seq[0], both[1])
        if not ok1 or not ok2:
            found.append(("depends-on-earlier-runs:same-path-spelling", "running 'protein.pdb' in one directory and then 'protein.pdb' (different content) in another directory, in one process, "
                          f"gives for the second a result different from a fresh process: {why2 or why1}", {"first": "3SGB-subset as protein.pdb", "second": "sample-issue-140 as protein.pdb"}))
        # ---- several inputs in one command-line invocation
        d3 = tempfile.mkdtemp(dir="/var/tmp"); tmpdirs.append(d3)
        open(os.path.join(d3, "a.pdb"), "w").write(sub)
        open(os.path.join(d3, "b.pdb"), "w").write(structures.read("sample-issue-140.pdb"))
        open(os.path.join(d3, "c.pdb"), "w").write(sub)          # the same content as a.pdb under another name
        env = dict(os.environ, PYTHONPATH=str(common.REPO), PYTHONHASHSEED="0")
        outs = {}
        runs = [("together", ["-f", "a.pdb", "b.pdb"]), ("a alone", ["a.pdb"]), ("b alone", ["b.pdb"]), ("reversed", ["-f", "b.pdb", "a.pdb"])]
        # the same with a titrate-only list naming residues of both inputs
        ti = ["-i", "E:29,E:57,A:1,A:3,I:10"]
        runs += [("a then c -i", ti + ["-f", "a.pdb", "c.pdb"]), ("c alone -i", ti + ["c.pdb"]),
                 ("together -i", ti + ["-f", "a.pdb", "b.pdb"]), ("a alone -i", ti + ["a.pdb"]), ("b alone -i", ti + ["b.pdb"]), ("reversed -i", ti + ["-f", "b.pdb", "a.pdb"])]
        for tag, args in runs:
            for f in ("a.pka", "b.pka", "c.pka"):
                if os.path.exists(os.path.join(d3, f)):
                    os.unlink(os.path.join(d3, f))
            p = subprocess.run([PY, "-m", "propka", "--quiet"] + args, cwd=d3, env=env, capture_output=True, text=True, timeout=600)
            chk.count(1, key=("cli", tag))
            if p.returncode != 0:
                found.append(("cli-fails", f"python -m propka {args}: exit {p.returncode}: {p.stderr[-300:]}", {"args": args}))
                continue
            from vlib.purejob import strip_date
            outs[tag] = {f: strip_date(open(os.path.join(d3, f)).read()) for f in ("a.pka", "b.pka", "c.pka") if os.path.exists(os.path.join(d3, f))}
        for sfx in ("", " -i"):
          if outs.get("together" + sfx) and outs.get("a alone" + sfx) and outs.get("b alone" + sfx):
            for f, solo in (("a.pka", "a alone" + sfx), ("b.pka", "b alone" + sfx)):
                for multi_tag in ("together" + sfx, "reversed" + sfx):
                    if outs.get(multi_tag, {}).get(f) != outs[solo].get(f):
                        found.append(("depends-on-number-of-inputs", f"{f} written by one invocation with two inputs ({multi_tag}) differs from the invocation with that input alone",
                                      {"file": f, "invocation": multi_tag}))
        if outs.get("a then c -i") and outs.get("c alone -i") and outs["a then c -i"].get("c.pka") != outs["c alone -i"].get("c.pka"):
            found.append(("depends-on-number-of-inputs:titrate-only", "c.pka written by `-i <list> -f a.pdb c.pdb` differs from `-i <list> c.pdb` (a.pdb and c.pdb have the same content)",
                          {"list": ti[1]}))
    finally:
        for p in cfgs:
            if os.path.exists(p):
                os.unlink(p)
        for d in tmpdirs:
            shutil.rmtree(d, ignore_errors=True)
    chk.sample({"jobs": {k: v["opts"] for k, v in J.items()}})
    uniq = {}
    for sig, what, rep in found:
        uniq.setdefault(sig, (sig, what, rep))
    found = list(uniq.values())
    if not proved:
        chk.broken("proof", "props/C03.v (incl. the inventory of process-global objects and their run-time mutations)", chk.broken_obligation, search_fn=lambda: found)
    else:
        for sig, what, rep in found:
            chk.finding(sig, what, rep)
    return chk.finish(
        level="proof",
        rule=("obligations = theorems of coq/props/C03.v (all access sequences / memo tables; the extracted inventory by vm_compute). Search: every job "
              "alone in a fresh process vs at every position of interleaved sequences (structures x parameter files x display mode) in one process; "
              "fresh processes with PYTHONHASHSEED 0,1,2,7 on multi-conformation multi-chain input and display mode; stream vs absolute / relative "
              "path vs other working directory; one CLI invocation with two inputs (both orders) vs one each. distinct = (sequence, position) etc."
              " Added in rounds 4-6: pre-read / reused streams, a working directory with parameter-file look-alikes, structures introducing chain identifiers in another order, a run computed but not written before a written one."),
        assumptions=["the inventory covers instances of propka classes held at module level or in class bodies and accesses through `self`; state kept "
                     "in closures, in mutable default arguments or in other modules' globals is covered by the search only",
                     "log output is not part of the compared results (a default-insert memo warns only the first time)"],
        trusted=["tools/vlib/tables.py AST extractor", "tools/vlib/purejob.py harness"])
