"""C04 — predictions do not depend on where the structure sits in space.  Theorems: coq/props/C04.v (over the regenerated
squared_distance, angle_distance_factors, rotate_vector_around_an_axis, Vector operations, and the bonds model of C11).
Tie: regeneration + bit-exact validation of the translated functions (IR and Coq float) on this run.
Search: (1) bond perception of real heavy-atom sets slid in 0.01 A steps along each axis with a disulfide aligned to the axis;
(2) full runs of posed structures: translations on the 0.001 A grid up to the limits of the coordinate field x the 24 axis-permuting
rotations, heavy-atom quantities with hetero groups, every pKa/determinant with supplied hydrogens (--keep-protons), and within the
rounding tolerance when the program builds the hydrogens, including poses with a planar side chain exactly in a coordinate plane."""
import math
from decimal import Decimal

from vlib import common, gen, genval, structures

PKA_TOL_BUILT = 0.02       # effect of rounding constructed hydrogens to 0.001 A (slopes <= ~2 pKa/A per determinant, a few determinants)
TOL_EXACT = 1e-7           # float noise of differently ordered / differently rounded coordinate differences
NEEDED = {"VecGen": ["squared_distance", "rotate_vector_around_an_axis", "Vector.cross", "Vector.dot", "Vector.__add__", "Vector.__sub__", "Vector.sq_length"],
          "EnergyGen": ["angle_distance_factors_atoms"]}


def protein_only(text):
    return "\n".join(l for l in text.splitlines() if l[:6] == "ATOM  " or l[:3] in ("TER", "END")) + "\n"


def with_hydrogens(text):
    """the structure plus the hydrogens the program constructs for it (rounded to 0.001 A by add_proton), as PDB text"""
    mol, _ = structures.run(text)
    c = mol.conformations[mol.conformation_names[0]]
    by = {}
    for h in c.atoms:
        if h.element == "H" and h.bonded_atoms:
            by.setdefault(h.bonded_atoms[0].numb, []).append(h)
    out = []
    for l in text.splitlines():
        out.append(l)
        if structures.is_atom(l):
            for h in by.get(int(l[6:11]), []):
                out.append(h.make_pdb_line())
    return "\n".join(out) + "\n"


def rodrigues_matrix(axis, ang):
    n = math.sqrt(sum(a * a for a in axis))
    x, y, z = (a / n for a in axis)
    c, s = math.cos(ang), math.sin(ang)
    C = 1 - c
    return [[c + x * x * C, x * y * C - z * s, x * z * C + y * s], [y * x * C + z * s, c + y * y * C, y * z * C - x * s], [z * x * C - y * s, z * y * C + x * s, c + z * z * C]]


def align(u, target):
    """rotation matrix taking unit direction of u to target (unit)"""
    n = math.sqrt(sum(a * a for a in u))
    u = [a / n for a in u]
    ax = [u[1] * target[2] - u[2] * target[1], u[2] * target[0] - u[0] * target[2], u[0] * target[1] - u[1] * target[0]]
    s = math.sqrt(sum(a * a for a in ax))
    c = sum(a * b for a, b in zip(u, target))
    if s < 1e-12:
        return [[1, 0, 0], [0, 1, 0], [0, 0, 1]] if c > 0 else [[-1, 0, 0], [0, -1, 0], [0, 0, 1]]
    return rodrigues_matrix(ax, math.atan2(s, c))


def pose_float(text, mat, snap=None):
    """general rigid re-orientation, rounded to the grid (this defines a NEW structure, used as base pose); `snap` = (set of
    (chain,resnum,name), axis index): those atoms get exactly the same coordinate along the axis"""
    pts = []
    for l in structures.atom_lines(text):
        x, y, z = (float(v) for v in structures.get_xyz(l))
        pts.append([sum(mat[i][j] * (x, y, z)[j] for j in range(3)) for i in range(3)])
    val = None
    if snap:
        keys, ax = snap
        sel = [p[ax] for l, p in zip(structures.atom_lines(text), pts) if (l[21], int(l[22:26]), l[12:16].strip()) in keys]
        val = round(sum(sel) / len(sel), 3)
    it = iter(pts)

    def f(l):
        p = next(it)
        if snap and (l[21], int(l[22:26]), l[12:16].strip()) in snap[0]:
            p[snap[1]] = val
        return structures.set_xyz(l, *(Decimal(str(round(v, 3))) for v in p))
    return structures.map_atoms(text, f)


def contact_probes(src, dists):
    """mini structures: one real donor residue (taken from `src`) and a glycine whose C=O lies on the line group centre -> polar atom,
    re-oriented so that this line is the x axis: interactions at the rim of their range, with the group CENTRES as far apart as the
    interaction allows, all of it along one coordinate axis"""
    donors = [("HIS", "NE2", ("CG", "ND1", "CD2", "CE1", "NE2")), ("HIS", "ND1", ("CG", "ND1", "CD2", "CE1", "NE2")),
              ("ARG", "NH1", ("CZ",)), ("LYS", "NZ", ("CE",)), ("TYR", "OH", ("CZ",)), ("TRP", "NE1", ("CD1", "CE2"))]
    al = structures.atom_lines(src)
    out = []
    for resname, polar, centre in donors:
        res = next(((l[21], l[22:27]) for l in al if l[17:20] == resname and l[12:16].strip() == polar and l[16] in " A"), None)
        if res is None:
            continue
        lines = [l for l in al if (l[21], l[22:27]) == res and l[16] in " A"]
        at = {l[12:16].strip(): [float(v) for v in structures.get_xyz(l)] for l in lines}
        if not all(k in at for k in centre + (polar,)):
            continue
        c = [sum(at[k][i] for k in centre) / len(centre) for i in range(3)]
        u = [at[polar][i] - c[i] for i in range(3)]
        n = math.sqrt(sum(a * a for a in u))
        u = [a / n for a in u]
        w = [1.0, 0.0, 0.0] if abs(u[0]) < 0.9 else [0.0, 1.0, 0.0]
        v = [u[1] * w[2] - u[2] * w[1], u[2] * w[0] - u[0] * w[2], u[0] * w[1] - u[1] * w[0]]
        n = math.sqrt(sum(a * a for a in v))
        v = [a / n for a in v]
        for d in dists:
            O = [at[polar][i] + d * u[i] for i in range(3)]
            C = [O[i] + 1.23 * u[i] for i in range(3)]
            CA = [C[i] + 1.52 * (0.5 * u[i] + 0.866 * v[i]) for i in range(3)]
            N = [CA[i] + 1.46 * (0.5 * u[i] - 0.866 * v[i]) for i in range(3)]
            gly = []
            for k, (nm, p) in enumerate((("N", N), ("CA", CA), ("C", C), ("O", O))):
                gly.append("ATOM  %5d  %-3s GLY B   5    %8.3f%8.3f%8.3f  1.00 10.00           %s" % (9000 + k, nm, p[0], p[1], p[2], nm[0]))
            text = "\n".join(lines + ["TER"] + gly + ["TER", "END"]) + "\n"
            out.append((f"{resname} {res[1].strip()}{res[0]} {polar}...O=C of a glycine at {d} A, contact line along x", pose_float(text, align(u, [1.0, 0.0, 0.0]))))
    return out


def heavy_record(mol):
    out = {}
    for cname in mol.conformation_names:
        conf = mol.conformations[cname]
        out[cname] = [(g.label, g.type, g.energy_volume, g.num_volume, g.buried, bool(g.atom.cysteine_bridge)) for g in conf.groups if g.type != ""]
        out[cname + ":bonds"] = sorted((a.numb, b.numb) for a in conf.atoms if a.element != "H" for b in a.bonded_atoms if b.element != "H" and a.numb < b.numb)
    return out


def cmp_heavy(a, b):
    for k in a:
        if k.endswith(":bonds"):
            if a[k] != b.get(k):
                d = sorted(set(a[k]) ^ set(b.get(k, [])))
                return f"bonds between heavy atoms differ: {d[:4]} (serial numbers)"
            continue
        if [x[:2] for x in a[k]] != [x[:2] for x in b.get(k, [])]:
            return "group lists differ"
        for x, y in zip(a[k], b[k]):
            if abs(x[2] - y[2]) > TOL_EXACT or x[3] != y[3] or abs(x[4] - y[4]) > TOL_EXACT or x[5] != y[5]:
                return f"{x[0].strip()}: desolvation/buried/bridge ({x[2]:.6f},{x[3]},{x[4]:.4f},{x[5]}) vs ({y[2]:.6f},{y[3]},{y[4]:.4f},{y[5]})"
    return None


def cmp_full(r0, r1, tol):
    d = structures.diff(r0, r1, tol)
    d = [x for x in d if x[2] not in ("coupled", "penalised_by") or tol < 1e-3]
    return d


def bond_slide(chk, found, text, what, steps):
    """bond perception only: real BondMaker on the heavy atoms of a pose, slid along each axis"""
    import propka.bonds as B
    import propka.atom
    lines = [l for l in structures.atom_lines(text)]

    def perceive(shift):
        atoms = []
        for l in lines:
            a = propka.atom.Atom(line=l)
            a.x, a.y, a.z = a.x + shift[0], a.y + shift[1], a.z + shift[2]
            atoms.append(a)
        B.BondMaker().find_bonds_for_atoms_using_boxes(atoms)
        return sorted((a.numb, b.numb) for a in atoms for b in a.bonded_atoms if a.numb < b.numb), [a.numb for a in atoms if a.cysteine_bridge]
    ref = perceive((0, 0, 0))
    n = 0
    for ax in range(3):
        for k in range(1, steps + 1):
            sh = [0.0, 0.0, 0.0]
            sh[ax] = round(k * 0.01, 2)
            got = perceive(sh)
            n += 1
            if got != ref:
                lost = sorted(set(ref[0]) - set(got[0]))
                new = sorted(set(got[0]) - set(ref[0]))
                found.append(("bonds-depend-on-translation", f"{what}: shifting by {sh} changes the perceived bonds: lost {lost[:3]}, new {new[:3]}; bridged atoms {ref[1][:6]} -> {got[1][:6]}",
                              {"case": what, "shift": sh, "lost": lost[:6], "new": new[:6], "pdb_text": text if len(text) < 250000 else None}))
                return n
    chk.count(n, key=("bond-slide", what))
    return n


def run(chk: common.Check):
    common.impl_setup()
    rng = chk.rng
    missing = [(m, f) for m, fs in NEEDED.items() for f in fs if f in gen.GEN_ERRORS or f not in gen.MODULES[m].funcs]
    proved = False
    if missing:
        why = gen.GEN_ERRORS.get(missing[0][1], "not generated")
        chk.obligations.append((f"translate {missing[0][1]}", False, why))
        chk.broken_obligation = {"where": "py2coq", "function": missing[0][1], "log_tail": why}
    else:
        proved = chk.prove()
        # translator validation of the kernels used here (the rotation / Vector methods are validated by C20's check as well)
        from propka.calculations import squared_distance
        from propka.energy import angle_distance_factors
        import propka.vector_algebra as VA
        vec = lambda: {"x": round(rng.uniform(-60, 60), 3), "y": round(rng.uniform(-60, 60), 3), "z": round(rng.uniform(-60, 60), 3)}
        O = lambda d: type("P", (), d)()
        ins = [{"atom1": vec(), "atom2": vec()} for _ in range(200)]
        genval.validate(chk, "VecGen", "squared_distance", lambda e: squared_distance(O(e["atom1"]), O(e["atom2"])), ins)
        ins = [{"atom1": vec(), "atom2": vec(), "atom3": vec()} for _ in range(200)]
        genval.validate(chk, "EnergyGen", "angle_distance_factors_atoms", lambda e: tuple(angle_distance_factors(O(e["atom1"]), O(e["atom2"]), O(e["atom3"]))), ins)
        ins = [{"theta": rng.choice([math.radians(120), math.radians(90), rng.uniform(-3, 3)]),
                "axis": rng.choice([vec(), {"x": 1.5, "y": 0.0, "z": 0.0}, {"x": 0.0, "y": 0.0, "z": -2.0}, {"x": 1.0, "y": 0.0, "z": 1.0}, {"x": 0.0, "y": 2.0, "z": 0.0}]), "vec": vec()} for _ in range(200)]

        def real_rot(e):
            r = VA.rotate_vector_around_an_axis(e["theta"], VA.Vector(e["axis"]["x"], e["axis"]["y"], e["axis"]["z"]), VA.Vector(e["vec"]["x"], e["vec"]["y"], e["vec"]["z"]))
            return {"x": r.x, "y": r.y, "z": r.z}
        genval.validate(chk, "VecGen", "rotate_vector_around_an_axis", real_rot, ins)

    # ---------------------------------------------------------------- correspondence: Group.set_center ~ model/Centre.v in binary64, bit for bit
    cdis = []
    if proved:
        import propka.atom
        import propka.group
        molc, _ = structures.run(structures.read("3SGB-subset.pdb"))
        heavy_c = [a for a in molc.conformations[molc.conformation_names[0]].atoms if a.element != "H"]
        lists = [rng.sample(heavy_c, rng.choice([1, 1, 2, 3, 5, 6, 9])) for _ in range(120 if chk.thorough else 40)] + [[]]
        fx = genval.fhex
        exprs, want = [], []
        for al in lists:
            g = propka.group.Group(propka.atom.Atom())
            try:
                g.set_center(al)
                want.append([g.x, g.y, g.z])
            except ValueError:
                want.append(None)
            pts = "; ".join(f"mk_vec3 {fx(a.x)} {fx(a.y)} {fx(a.z)}" for a in al)
            exprs.append(f"match @set_center float NumFl [{pts}] with Some c => [fout (vec3_x c); fout (vec3_y c); fout (vec3_z c)] | None => [] end")
        pre = "From Coq Require Import List ZArith PrimFloat.\nFrom V Require Import Num FloatIO VecGen Centre.\nImport ListNotations.\nOpen Scope float_scope.\n"
        res = common.coq_eval("c04c", pre, exprs, shard=100)
        for al, w, r in zip(lists, want, res):
            got = None if not r else [genval.decode_fout(t) for t in r]
            same = (got is None and w is None) or (got is not None and w is not None and all(genval.bits(a) == genval.bits(float(b)) for a, b in zip(got, w)))
            if not same:
                cdis.append({"atoms": [(a.x, a.y, a.z) for a in al], "impl": w, "model": got})
        chk.corr_stats["Group.set_center ~ model/Centre.v (binary64)"] = {"atom_lists": len(lists), "disagreements": len(cdis)}
        chk.cov["traces_validated_against_impl"] += len(lists)

    found = []
    rots = structures.rotations24()
    # ---------------------------------------------------------------- (1) bond perception under sliding, disulfide along an axis
    base = structures.read("3SGB-subset.pdb")
    ss = []
    sgs = [(l[21], int(l[22:26]), tuple(float(v) for v in structures.get_xyz(l))) for l in structures.atom_lines(base) if l[17:20] == "CYS" and l[12:16].strip() == "SG"]
    for i, a in enumerate(sgs):
        for b in sgs[:i]:
            if math.dist(a[2], b[2]) < 2.5:
                ss.append((a, b))
    nslide = 0
    for (a, b) in ss[: (2 if chk.thorough else 1)]:
        u = [b[2][i] - a[2][i] for i in range(3)]
        for tgt in ([1, 0, 0], [0, 1, 0], [0, 0, 1]) if chk.thorough else ([1, 0, 0],):
            posed = pose_float(base, align(u, tgt))
            nslide += bond_slide(chk, found, posed, f"3SGB-subset, S-S {a[0]}{a[1]}-{b[0]}{b[1]} along {tgt}", 300 if chk.thorough else 260)
    nslide += bond_slide(chk, found, base, "3SGB-subset as deposited", 300 if chk.thorough else 60)
    # an over-coordinated centre (metal with six partners, plus a crowded neighbour): the bond set must not depend on the order in which the
    # cell list happens to visit the pairs, i.e. on the pose
    import propka.atom
    import propka.bonds as B
    centre = [("Fe", (0.0, 0.0, 0.0))] + [("N", p) for p in ((1.95, 0.1, 0.0), (-1.9, 0.0, 0.15), (0.05, 1.98, 0.0), (0.0, -1.93, 0.1), (0.1, 0.0, 1.97), (0.0, 0.12, -1.9))] \
        + [("C", (2.9, 1.0, 0.3)), ("C", (-2.8, -0.9, 0.6)), ("O", (1.2, 1.3, 1.1))]

    def perceive_cluster(rot, sh, centre=centre):
        atoms = []
        for k, (el, pnt) in enumerate(centre):
            q = [sum(rot[i][j] * pnt[j] for j in range(3)) + sh[i] for i in range(3)]
            a = propka.atom.Atom()
            a.x, a.y, a.z, a.element, a.name, a.numb = round(q[0], 3), round(q[1], 3), round(q[2], 3), el, el, k
            a.bonded_atoms = []
            atoms.append(a)
        B.BondMaker().find_bonds_for_atoms_using_boxes(atoms)
        return sorted((a.numb, b.numb) for a in atoms for b in a.bonded_atoms if a.numb < b.numb)
    ref_c = perceive_cluster(rots[0], (0.0, 0.0, 0.0))
    for ri in range(24):
        for sh in ((0.0, 0.0, 0.0), (1.3, -0.7, 2.2), (-77.123, 40.5, 0.004)):
            got = perceive_cluster(rots[ri], sh)
            nslide += 1
            if got != ref_c:
                found.append(("bonds-depend-on-pose:over-coordinated-centre", f"six-coordinate centre, rotation #{ri} shift {sh}: bonds {sorted(set(got) ^ set(ref_c))[:4]} differ from the first pose "
                              f"({len(got)} vs {len(ref_c)} bonds)", {"atoms": centre, "rotation": rots[ri], "shift": sh}))
                break
        else:
            continue
        break
    # pairs at and next to the distance limits of the criterion (coordinates are multiples of 0.001 A, so such distances occur exactly):
    # one 0.001 A step inside / outside the limit the bond must exist / not exist in EVERY pose (the margin, 5e-4 relative, is 11 orders of
    # magnitude above the rounding of a coordinate difference); exactly AT the limit the squared float distance decides - see known findings
    lim = {("C", "O"): 2000, ("N", "H"): 1500, ("S", "S"): 2500}
    near, exact = [], []
    for (e1, e2), c in lim.items():
        for off in ((c - 1, 0, 0), (c, 20, 0), (c + 1, 0, 0), (c - 1, 20, 0), (int(0.6 * c), int(0.8 * c), 30), (int(0.6 * c) - 1, int(0.8 * c), 0)):
            near.append((e1, e2, off))
        for off in ((c, 0, 0), (int(0.6 * c), int(0.8 * c), 0)):
            exact.append((e1, e2, off))
    for fam, famname in ((near, "next-to"), (exact, "exactly-at")):
        cl = []
        for k, (e1, e2, off) in enumerate(fam):
            o = (12.0 * (k % 5), 12.0 * (k // 5), 0.0)
            cl += [(e1, o), (e2, tuple(round(o[i] + off[i] / 1000.0, 3) for i in range(3)))]
        ref_n = perceive_cluster(rots[0], (0.0, 0.0, 0.0), cl)
        want = sorted((2 * k, 2 * k + 1) for k, (e1, e2, off) in enumerate(fam) if sum(x * x for x in off) < lim[(e1, e2)] ** 2)
        if famname == "next-to" and ref_n != want:
            found.append(("bonds-next-to-cutoff", f"pairs one grid step inside / outside the distance limit: bonds {ref_n}, the criterion gives {want}", {"pairs": fam}))
        done = False
        for ri in (range(24) if chk.thorough else (0, 5, 9, 16, 22)):
            for sh in ((0.3, 0.3, 0.3), (12.345, -7.001, 0.003), (-77.123, 40.507, 0.004), (100.007, -2.3, 1.1)):
                got = perceive_cluster(rots[ri], sh, cl)
                nslide += 1
                if got != ref_n and not done:
                    done = True
                    k = sorted(set(got) ^ set(ref_n))[0][0] // 2
                    e1, e2, off = fam[k]
                    if famname == "exactly-at":
                        found.append(("bond-at-exact-cutoff-depends-on-translation", f"{e1} and {e2} exactly {lim[(e1, e2)] / 1000.0} A apart (offset {tuple(x / 1000.0 for x in off)} A): "
                                      f"bonded in one pose, not in another (rotation #{ri}, shift {sh}): the squared distance of the rounded coordinate differences falls on either side of the limit",
                                      {"elements": [e1, e2], "offset_milli_angstrom": off, "rotation": rots[ri], "shift": sh}))
                    else:
                        found.append(("bonds-depend-on-pose:next-to-cutoff", f"{e1} and {e2} at offset {tuple(x / 1000.0 for x in off)} A (limit {lim[(e1, e2)] / 1000.0} A): bonded in one pose, "
                                      f"not in another (rotation #{ri}, shift {sh})", {"elements": [e1, e2], "offset_milli_angstrom": off, "rotation": rots[ri], "shift": sh}))
    chk.cov["bond_perception_poses"] = nslide
    # the closest pair of two atom lists must not depend on the ORDER of the lists (the order of an atom's bond list, hence of a group's interaction
    # atoms, follows the cell-list traversal, i.e. the pose): candidates whose squared distances differ by 1e-6 .. 9e-4 A^2, both list orders
    import propka.calculations as _C
    class _P:
        def __init__(s_, x, y, z, tag):
            s_.x, s_.y, s_.z, s_.tag = x, y, z, tag
    for k_ in range(200 if chk.thorough else 60):
        h_ = _P(round(rng.uniform(-20, 20), 3), round(rng.uniform(-20, 20), 3), round(rng.uniform(-20, 20), 3), "H")
        d0 = rng.uniform(1.6, 3.4)
        cands = []
        for j_, extra in enumerate((0.0, rng.uniform(1e-6, 9e-4) / (2 * d0), rng.uniform(0.05, 0.6))):
            u_ = [rng.gauss(0, 1) for _ in range(3)]
            n_ = math.sqrt(sum(x * x for x in u_))
            cands.append(_P(*(h_.x + (d0 + extra) * u_[0] / n_, h_.y + (d0 + extra) * u_[1] / n_, h_.z + (d0 + extra) * u_[2] / n_), f"O{j_}"))
        exact = min(cands, key=lambda a_: (a_.x - h_.x) ** 2 + (a_.y - h_.y) ** 2 + (a_.z - h_.z) ** 2).tag
        picks = set()
        for order in (cands, cands[::-1], [cands[1], cands[0], cands[2]]):
            a1, dist_, a2 = _C.get_smallest_distance([h_], order)
            picks.add(a2.tag)
            a2b, _d, a1b = _C.get_smallest_distance(order, [h_])
            picks.add(a2b.tag)
        nslide += 1
        if picks != {exact}:
            found.append(("closest-pair-depends-on-list-order", f"get_smallest_distance: the candidates {[(c_.tag, round(math.dist((c_.x, c_.y, c_.z), (h_.x, h_.y, h_.z)), 6)) for c_ in cands]} "
                          f"give {sorted(picks)} depending on the order of the list; the closest is {exact}", {"candidates": [[c_.tag, c_.x, c_.y, c_.z] for c_ in cands], "reference_atom": [h_.x, h_.y, h_.z]}))
            break

    # ---------------------------------------------------------------- (2) full runs
    def study(name, text, opts, tol, poses, kind):
        try:
            mol0, _ = structures.run(text, opts)
        except Exception as ex:   # noqa: BLE001
            found.append(("crash", f"{name}: {type(ex).__name__}: {ex}", {"case": name}))
            return
        h0, r0 = heavy_record(mol0), structures.records(mol0)
        for (ri, sh) in poses:
            moved = structures.move(text, rots[ri] if ri is not None else None, sh)
            try:
                mol1, _ = structures.run(moved, opts)
            except Exception as ex:   # noqa: BLE001
                found.append((f"crash-when-moved", f"{name} rot#{ri} shift {sh}: {type(ex).__name__}: {ex}", {"case": name, "rotation": ri, "shift": sh, "options": opts}))
                continue
            chk.count(1, key=("pose", name, kind, ri, tuple(sh)))
            why = cmp_heavy(h0, heavy_record(mol1))
            if why:
                sig = f"heavy-atom-part:{kind}"
                # a terminal oxygen bonded to TWO carbons (distorted geometry: OXT within 2 A of CA): CtermGroup.setup_atoms takes `the_carbons[0]`,
                # i.e. whichever bond the cell list found first, which depends on the pose
                lab = why.split(":")[0]
                if lab.startswith("C-"):
                    for cname in mol1.conformation_names:
                        for g in mol1.conformations[cname].groups:
                            if g.label.strip() == lab.strip() and len([b for b in g.atom.bonded_atoms if b.element == "C"]) >= 2:
                                sig = "cterminus-centre-depends-on-bond-order"
                found.append((sig, f"{name} rot#{ri} shift {sh}: {why}",
                              {"case": name, "rotation": rots[ri] if ri is not None else None, "shift": sh, "options": opts, "pdb_text": text if len(text) < 250000 else None}))
            if tol is not None:
                d = cmp_full(r0, structures.records(mol1), tol)
                if d:
                    found.append((f"pka-or-determinants:{kind}", f"{name} rot#{ri} shift {sh} ({kind}): {len(d)} differences beyond {tol}, e.g. {d[0][1:]}",
                                  {"case": name, "rotation": rots[ri] if ri is not None else None, "shift": sh, "options": opts, "differences": [list(map(str, x)) for x in d[:5]],
                                   "pdb_text": text if len(text) < 250000 else None}))

    def poses(nrot, nshift, big=True):
        out = [(None, (0.001, -0.002, 0.003))]
        ris = rng.sample(range(1, 24), nrot)
        for ri in ris:
            out.append((ri, (0, 0, 0)))
        for _ in range(nshift):
            out.append((rng.choice([None] + ris), tuple(round(rng.uniform(-300, 300), 3) for _ in range(3))))
        if big:
            out.append((None, (9000.0, 9000.0, 9000.0)))
            out.append((rng.choice(ris), (-700.0, 8000.0, -650.5)))
        return out
    def origin_poses(text, n):
        """translations that put one atom exactly on the origin (an absolute coordinate value must not matter)"""
        al = structures.atom_lines(text)
        out = []
        for l in rng.sample(al, n):
            x, y, z = structures.get_xyz(l)
            out.append((None, (-float(x), -float(y), -float(z))))
        return out
    small = protein_only(structures.read("3SGB-subset.pdb"))
    study("3SGB-subset protein, hydrogens built", small, [], PKA_TOL_BUILT, poses(23 if chk.thorough else 8, 3) + origin_poses(small, 4 if chk.thorough else 2), "built-hydrogens")
    # a poorly resolved structure (side chains cut back to the group-defining atom): centres must still come from atoms, never from a default
    trunc, tdesc = structures.truncated_side_chains(small)
    study(f"3SGB-subset protein, truncated side chains ({', '.join(tdesc)}), hydrogens built", trunc, [], PKA_TOL_BUILT, poses(3 if chk.thorough else 1, 2, big=False), "built-hydrogens")
    # distorted planar groups: the guanidinium carbon of every ARG pushed 0.35 A out of the plane of its nitrogens (the hydrogens on NH1 / NH2 are
    # still built from the plane of the neighbour, in every pose)
    def pyramidalise(text_, amount=0.35):
        byres = {}
        for l in structures.atom_lines(text_):
            if l[17:20] == "ARG" and l[12:16].strip() in ("NE", "CZ", "NH1", "NH2"):
                byres.setdefault((l[21], l[22:27]), {})[l[12:16].strip()] = [float(v) for v in structures.get_xyz(l)]
        shift = {}
        for k_, at_ in byres.items():
            if len(at_) == 4:
                a_, b_ = [at_["NH1"][i] - at_["NE"][i] for i in range(3)], [at_["NH2"][i] - at_["NE"][i] for i in range(3)]
                nrm_ = [a_[1] * b_[2] - a_[2] * b_[1], a_[2] * b_[0] - a_[0] * b_[2], a_[0] * b_[1] - a_[1] * b_[0]]
                n_ = math.sqrt(sum(x * x for x in nrm_))
                shift[k_] = [round(at_["CZ"][i] + amount * nrm_[i] / n_, 3) for i in range(3)]
        return structures.map_atoms(text_, lambda l: structures.set_xyz(l, *(Decimal(str(v)) for v in shift[(l[21], l[22:27])]))
                                    if (l[17:20] == "ARG" and l[12:16].strip() == "CZ" and (l[21], l[22:27]) in shift) else l)
    study("3SGB-subset protein, ARG guanidinium carbons 0.35 A out of plane, hydrogens built", pyramidalise(small), [], PKA_TOL_BUILT,
          [(ri, (0, 0, 0)) for ri in (rng.sample(range(1, 24), 4) if not chk.thorough else range(1, 24, 2))], "built-hydrogens")
    # every coordinate axis of the deposited frame is mapped onto x, y and z once (rotations #8: x<-y.., #12: x<-z..): pair screens along one axis
    hpx_p = protein_only(structures.read("1HPX.pdb"))
    z_to_x = next(i for i, R in enumerate(rots) if R[0][2] != 0)     # new x = +-old z
    y_to_x = next(i for i, R in enumerate(rots) if R[0][1] != 0)     # new x = +-old y
    study("1HPX protein, hydrogens built", hpx_p, [], PKA_TOL_BUILT, [(z_to_x, (0, 0, 0)), (y_to_x, (0, 0, 0))] + ([(ri, (0, 0, 0)) for ri in (3, 17, 21)] if chk.thorough else []), "built-hydrogens")
    # contacts at the rim of their range laid along one coordinate axis (a pair screen on one coordinate of the group centres)
    probe_d = (2.6, 2.8, 3.0, 3.2, 3.6, 4.0) if chk.thorough else (2.8, 3.0, 3.8)
    for pname, ptext in contact_probes(hpx_p, probe_d):
        study(pname, ptext, [], PKA_TOL_BUILT, [(z_to_x, (0, 0, 0)), (y_to_x, (0, 0, 0))] + ([(ri, (3.0, -4.0, 5.0)) for ri in (5, 14)] if chk.thorough else []), "built-hydrogens")
    study("3SGB-subset protein, hydrogens supplied", with_hydrogens(small), ["--keep-protons"], TOL_EXACT, poses(23 if chk.thorough else 8, 3), "keep-protons")
    study("1HPX with ligand (heavy-atom part only)", structures.read("1HPX.pdb"), [], None, poses(4 if chk.thorough else 2, 1), "heavy")
    study("sample-issue-140 (heavy-atom part only)", structures.read("sample-issue-140.pdb"), [], None, [(ri, (12.345, -7.5, 3.2)) for ri in (range(24) if chk.thorough else (3, 7, 11, 15, 22))], "heavy")
    if chk.thorough:
        study("3SGB with hetero groups (heavy-atom part only)", structures.read("3SGB.pdb"), [], None, poses(3, 1), "heavy")
        p1 = protein_only(structures.read("1FTJ-Chain-A.pdb"))
        study("1FTJ-A protein, hydrogens built", p1, [], PKA_TOL_BUILT, poses(6, 2), "built-hydrogens")
        study("1FTJ-A protein, hydrogens supplied", with_hydrogens(p1), ["--keep-protons"], TOL_EXACT, poses(6, 2), "keep-protons")
    # planar side chains exactly in a coordinate plane (their plane normal has an exactly zero component)
    src = protein_only(structures.read("1HPX.pdb") if chk.thorough else structures.read("3SGB-subset.pdb"))
    args = [(l[21], int(l[22:26])) for l in structures.atom_lines(src) if l[17:20] == "ARG" and l[12:16].strip() == "CZ"]
    for (ch, num) in args[: (3 if chk.thorough else 1)]:
        at = {l[12:16].strip(): tuple(float(v) for v in structures.get_xyz(l)) for l in structures.atom_lines(src) if l[21] == ch and int(l[22:26]) == num}
        if not all(k in at for k in ("NE", "CZ", "NH1", "NH2")):
            continue
        v1 = [at["NE"][i] - at["CZ"][i] for i in range(3)]
        v2 = [at["NH1"][i] - at["CZ"][i] for i in range(3)]
        nrm = [v1[1] * v2[2] - v1[2] * v2[1], v1[2] * v2[0] - v1[0] * v2[2], v1[0] * v2[1] - v1[1] * v2[0]]
        keys = {(ch, num, k) for k in ("NE", "CZ", "NH1", "NH2")}
        posed = pose_float(src, align(nrm, [1, 0, 0]), snap=(keys, 0))
        study(f"{'1HPX' if chk.thorough else '3SGB-subset'} protein, ARG {num}{ch} guanidinium plane perpendicular to x", posed, [], PKA_TOL_BUILT,
              [(ri, (0, 0, 0)) for ri in (range(1, 24) if chk.thorough else rng.sample(range(1, 24), 9))], "built-hydrogens")
    chk.sample({"disulfides": len(ss), "bond_perception_poses": nslide})
    uniq = {}
    for sig, what, rep in found:
        uniq.setdefault(sig, (sig, what, rep))
    found = list(uniq.values())
    gv = getattr(chk, "_genval_dis", [])
    if missing or not proved:
        chk.broken("proof", "props/C04.v" if not missing else f"translation of {missing[0][1]}", chk.broken_obligation, search_fn=lambda: found)
    elif gv or cdis:
        chk.broken("correspondence", "generated model ~ implementation; model/Centre.v ~ Group.set_center", {"genval": gv[:3], "set_center": cdis[:3]}, search_fn=lambda: found)
    else:
        for sig, what, rep in found:
            chk.finding(sig, what, rep)
    return chk.finish(
        level="proof",
        rule=("obligations = theorems of coq/props/C04.v (all proper orthogonal matrices, all translations, all atom lists). Tie: regenerated "
              "kernels validated bit for bit; bonds model = C11's (validated by C11's trace correspondence); Group.set_center vs model/Centre.v in binary64. Search: bond perception under 0.01 A "
              "slides with a disulfide along each axis; full runs under grid translations (incl. +9000 A) x axis-permuting rotations: heavy-atom "
              "quantities (bonds, groups, desolvation, buried, bridges) incl. hetero groups, all pKa/determinants with supplied hydrogens "
              f"(tol {TOL_EXACT}) and with built hydrogens (tol {PKA_TOL_BUILT}), incl. a guanidinium plane exactly perpendicular to an axis. "
              "distinct = poses"
              " Added in rounds 4-6: translations putting an atom on the origin, contact probes along an axis, pairs one grid step inside / outside and exactly at the distance limits, truncated and out-of-plane side chains, closest-pair search under list permutations with near-ties, Group.set_center vs model/Centre.v."),
        assumptions=["over R the invariance is exact; in binary64 coordinate differences round differently after a translation, hence the 1e-7 tolerance "
                     "on continuous quantities (counts, bonds, group lists are compared exactly)",
                     f"built hydrogens are rounded to 0.001 A by add_proton in each frame: tolerance {PKA_TOL_BUILT} pKa units",
                     "the protonation procedures (trigonal / tetrahedral / add_proton) are compositions of the proved-equivariant operations; the "
                     "compositions themselves are not modelled, they are covered by the search"],
        trusted=["py2coq translator (validated each run)", "model/Bonds.v (C11 correspondence)", "stdlib real-number axioms"])
