"""C20 — rotate_vector_around_an_axis is the right-handed Rodrigues rotation.
Theorems: coq/props/C20.v about the *generated* definition (gen/VecGen.v).  Tie: regeneration from the source on
every run + validation of the translator (IR vs implementation, bit for bit; Coq float instance for the
transcendental-free vector functions).  Search: closed-form Rodrigues vs the implementation."""
import itertools
import math

from vlib import common, gen, genval


# asin/acos lose half the digits for axes within ~1e-8 rad of a coordinate axis (a rounding effect, not a
# property violation); handedness / wrong-axis errors are O(1)
TOL = 1e-6


def rodrigues(theta, axis, v):
    n = math.sqrt(sum(a * a for a in axis))
    k = [a / n for a in axis]
    c, s = math.cos(theta), math.sin(theta)
    kxv = [k[1] * v[2] - k[2] * v[1], k[2] * v[0] - k[0] * v[2], k[0] * v[1] - k[1] * v[0]]
    kv = sum(a * b for a, b in zip(k, v))
    return [v[i] * c + kxv[i] * s + k[i] * kv * (1 - c) for i in range(3)]


def pattern(axis):
    return "".join("0" if a == 0 else ("+" if a > 0 else "-") for a in axis)


def run(chk: common.Check):
    common.impl_setup()
    from propka import vector_algebra as va
    rng = chk.rng
    proved = False
    if "rotate_vector_around_an_axis" in gen.GEN_ERRORS:
        chk.obligations.append(("translate rotate_vector_around_an_axis", False, gen.GEN_ERRORS["rotate_vector_around_an_axis"]))
        chk.broken_obligation = {"where": "py2coq", "log_tail": gen.GEN_ERRORS["rotate_vector_around_an_axis"]}
    else:
        proved = chk.prove()

    # ---------------------------------------------------------------- triples
    vals = [0.0, -0.0, 1.0, -1.0, 0.5, -2.0, 1e-7, 3.25]
    thetas = [0.0, math.pi / 2, -math.pi / 2, 2 * math.pi / 3, -2 * math.pi / 3, math.pi, math.radians(109.5), 0.3, -1.234, 7.0]
    triples = []
    axes = [a for a in itertools.product([0.0, -0.0, 1.0, -1.0, 0.37, -2.5], repeat=3) if any(x != 0 for x in a)]
    vecs = [(1.0, 0.0, 0.0), (0.0, 1.0, 0.0), (0.0, 0.0, 1.0), (1.0, 2.0, 3.0), (-0.7, 0.1, 2.2)]
    for a in axes:
        for t in (thetas if chk.thorough else thetas[:7]):
            for v in (vecs if chk.thorough else [vecs[0], vecs[1], vecs[3]]):
                triples.append((t, a, v))
    for _ in range(20000 if chk.thorough else 3000):
        a = tuple(rng.choice([rng.uniform(-3, 3), rng.uniform(-3, 3), 0.0, rng.choice([1e-9, -1e-9, 1e-5])]) for _ in range(3))
        if all(x == 0 for x in a):
            continue
        scale = rng.choice([1.0, 1.0, 1e-6, 1e-8, 1e4])
        a = tuple(x * scale for x in a)
        v = tuple(rng.uniform(-5, 5) for _ in range(3))
        triples.append((rng.uniform(-7, 7), a, v))

    # vectors of every magnitude (the rotation is linear in the vector): zero, far below and far above the range where squares are representable
    n_scaled = 0
    for v0 in ((0.0, 0.0, 0.0), (1.0, 2.0, 3.0), (-0.7, 0.1, 2.2)):
        for sc in (1.0, 1e-170, 1e-300, 1e160, 1e300):
            for a in ((0.3, -1.2, 2.0), (0.0, 0.0, -1.0), (1.0, 1.0, 0.0)):
                triples.append((rng.choice(thetas[1:]), a, tuple(x * sc for x in v0)))
                n_scaled += 1

    # ---------------------------------------------------------------- translator validation (G tie)
    def vec(d):
        return va.Vector(d["x"], d["y"], d["z"])

    def vd(t):
        return {"x": t[0], "y": t[1], "z": t[2]}

    def out(v):
        return {"x": v.x, "y": v.y, "z": v.z}
    sub = triples[::max(1, len(triples) // (3000 if chk.thorough else 800))]
    genval.validate(chk, "VecGen", "rotate_vector_around_an_axis",
                    lambda e: out(va.rotate_vector_around_an_axis(e["theta"], vec(e["axis"]), vec(e["vec"]))),
                    [{"theta": t, "axis": vd(a), "vec": vd(v)} for t, a, v in sub])
    pairs = [{"self": vd(a), "other": vd(v)} for _, a, v in sub[:300]]
    genval.validate(chk, "VecGen", "Vector.cross", lambda e: out(vec(e["self"]).cross(vec(e["other"]))), pairs)
    genval.validate(chk, "VecGen", "Vector.dot", lambda e: vec(e["self"]).dot(vec(e["other"])), pairs)
    genval.validate(chk, "VecGen", "Vector.__sub__", lambda e: out(vec(e["self"]) - vec(e["other"])), pairs)
    genval.validate(chk, "VecGen", "Vector.__add__", lambda e: out(vec(e["self"]) + vec(e["other"])), pairs)
    genval.validate(chk, "VecGen", "Vector.length", lambda e: vec(e["self"]).length(), [{"self": p["self"]} for p in pairs])
    genval.validate(chk, "VecGen", "Vector.orthogonal", lambda e: out(vec(e["self"]).orthogonal()), [{"self": p["self"]} for p in pairs])
    genval.validate(chk, "VecGen", "Vector.rescale", lambda e: out(vec(e["self"]).rescale(e["new_length"])),
                    [{"self": p["self"], "new_length": 1.01} for p in pairs])
    genval.validate(chk, "VecGen", "rotate_atoms_around_z_axis",
                    lambda e: {k: getattr(va.rotate_atoms_around_z_axis(e["theta"]), k) for k in
                               [f"a{i}{j}" for i in range(1, 5) for j in range(1, 5)]}, [{"theta": t} for t in thetas])
    genval.validate(chk, "VecGen", "rotate_atoms_around_y_axis",
                    lambda e: {k: getattr(va.rotate_atoms_around_y_axis(e["theta"]), k) for k in
                               [f"a{i}{j}" for i in range(1, 5) for j in range(1, 5)]}, [{"theta": t} for t in thetas])

    def mm(e):
        m = va.Matrix4x4(**{k + "i": v for k, v in e["self"].items()})
        return out(m @ vec(e["v"]))
    mats = []
    for i in range(200):
        mats.append({"self": {f"a{r}{c}": rng.uniform(-2, 2) for r in range(1, 5) for c in range(1, 5)},
                     "v": vd(tuple(rng.uniform(-3, 3) for _ in range(3)))})
    genval.validate(chk, "VecGen", "Matrix4x4.__matmul__", mm, mats)

    # ---------------------------------------------------------------- search: closed form vs implementation
    found = {}
    worst = 0.0
    for t, a, v in triples:
        try:
            ax_obj, v_obj = va.Vector(*a), va.Vector(*v)
            got = va.rotate_vector_around_an_axis(t, ax_obj, v_obj)
            if (ax_obj.x, ax_obj.y, ax_obj.z) != tuple(a) or (v_obj.x, v_obj.y, v_obj.z) != tuple(v):
                sig = "arguments-modified"
                found.setdefault(sig, (sig, f"rotate({t!r}, axis={a}, v={v}) changed its arguments: axis is now {(ax_obj.x, ax_obj.y, ax_obj.z)}, vector {(v_obj.x, v_obj.y, v_obj.z)} "
                                            "(a second rotation about the same axis object would use the wrong axis)", {"theta": t, "axis": a, "vec": v}))
        except Exception as ex:   # noqa: BLE001
            sig = f"exception:{type(ex).__name__}"
            found.setdefault(sig, (sig, f"rotate({t!r}, axis={a}, v={v}) raises {type(ex).__name__}: {ex}", {"theta": t, "axis": a, "vec": v}))
            continue
        want = rodrigues(t, a, v)
        mx = max(abs(x) for x in v)
        nv = (mx * math.sqrt(sum((x / mx) ** 2 for x in v))) if mx > 0 else 1.0
        err = max(abs(g - w) for g, w in zip((got.x, got.y, got.z), want)) / nv
        chk.count(1, key=("axis", pattern(a), round(t, 3) in (0.0,)))
        if not (err <= TOL):
            sig = f"not-rodrigues:axis-pattern={pattern(a)}"
            if sig not in found:
                found[sig] = (sig, f"rotate({t!r}, axis={a}, v={v}) = {(got.x, got.y, got.z)}, right-handed rotation gives {tuple(want)}",
                              {"theta": t, "axis": a, "vec": v, "impl": [got.x, got.y, got.z], "rodrigues": want})
        else:
            worst = max(worst, err)
    chk.cov["max_relative_error_vs_closed_form"] = worst
    chk.sample({"theta": triples[5][0], "axis": triples[5][1], "vec": triples[5][2]})
    found = list(found.values())

    gv = getattr(chk, "_genval_dis", [])
    if gv:
        chk.broken("correspondence", "py2coq translation of vector_algebra ~ implementation", {"disagreements": gv},
                   search_fn=lambda: found)
    elif not proved:
        chk.broken("proof", "props/C20.v", chk.broken_obligation, search_fn=lambda: found)
    else:
        for sig, what, rep in found:
            chk.finding(sig, what, rep)
    return chk.finish(
        level="proof",
        rule=("obligations = theorems of coq/props/C20.v about the generated rotate_vector_around_an_axis over R (all angles, all "
              "non-zero axes, all vectors; branch by branch incl. zero components). Evaluations: implementation vs closed-form Rodrigues on "
              "all axes over {0,-0,+-1,0.37,-2.5}^3 x angles x vectors + random triples (tiny/large scales); distinct = axis sign/zero pattern; "
              "translator validated bit-exactly (IR) and in Coq PrimFloat for the transcendental-free functions"
              " Added in rounds 5-6: the zero vector and vectors of magnitude 1e-300 .. 1e300, arguments not modified by the call."),
        assumptions=["theorems are over the real numbers: IEEE rounding and libm error are outside them (the search compares at 1e-6 relative to |v|)",
                     "py2coq (tools/vlib/py2coq.py) reads the Python AST faithfully - validated by the bit-exact runs of this check"],
        trusted=["tools/vlib/py2coq.py translator", "stdlib real-number axioms listed above"])
