"""C08 — conformation average = mean over the conformations containing the group.  Theorems: coq/props/C08.v (averaging
sequence of model/Dets.v) + the conformation naming of model/PdbParse.v.
Tie: trace validation on multi-conformation inputs (clone / += / division replayed bit for bit; divisor = number of summands).
Search: independent mean of the per-conformation records vs AVR; every group reported; single conformation / repeated models
identity; topping-up never merges residue types; conformation names."""
from vlib import common, structures, detstrace as DT, parsecorr as PC

KINDS = DT.KINDS


def inputs(rng, thorough):
    out = []
    for n in ("conf-alt-AB.pdb", "conf-alt-AB-mutant.pdb", "conf-alt-BC.pdb", "conf-model-missing-atoms.pdb", "conf-model-mutant.pdb"):
        out.append((n, structures.read(n)))
    src = structures.read("1HPX.pdb")
    fr = structures.fragment(src, 18, 70)
    # alt-loc point mutants in either order, letters and digits as tags
    for order, tags in (("titratable", ("A", "B")), ("mutant", ("A", "B")), ("titratable", ("1", "2")), ("mutant", ("B", "C"))):
        k = [0]

        def pred(r, k=k, want=rng.randrange(3)):
            k[0] += 1
            return k[0] - 1 == want
        t, d = structures.altloc_point_mutant(fr, pred, first=order, tags=tags)
        if t:
            out.append((f"1HPX[18:70] {d} tags {tags}", t))
    # partial alternates: only the side chain of one residue has alternates
    lines = fr.splitlines()
    res = [r for r in structures.residues(fr) if r["name"] in ("LYS", "ASP", "GLU", "ARG")]
    if res:
        r = rng.choice(res)
        new = []
        for i, l in enumerate(lines):
            if i in r["lines"] and l[12:16].strip() not in ("N", "CA", "C", "O"):
                x, y, z = structures.get_xyz(l)
                new.append(l[:16] + "A" + l[17:])
                new.append(structures.set_xyz(l[:16] + "B" + l[17:], float(x) + 0.5, float(y) + 0.4, float(z) - 0.3))
            else:
                new.append(l)
        out.append((f"1HPX[18:70] partial alternates on {r['name']}{r['num'].strip()}", "\n".join(new) + "\n"))
    # models: identical copies, 3 models one of which lacks a side chain, model with a displaced side chain
    out.append(("1HPX[18:70] x3 identical models", structures.as_models([fr, fr, fr])))
    if res:
        r = rng.choice(res)
        short = "\n".join(l for i, l in enumerate(lines) if not (i in r["lines"] and l[12:16].strip() not in ("N", "CA", "C", "O", "CB")))
        out.append((f"1HPX[18:70] models 1,3 complete, model 2 lacks side chain of {r['name']}{r['num'].strip()}", structures.as_models([fr, short, fr])))
        out.append((f"1HPX[18:70] model 1 lacks side chain of {r['name']}{r['num'].strip()}, model 2 complete", structures.as_models([short, fr])))
    # two models with the SAME number of atoms that lack DIFFERENT atoms (each must be completed from the other)
    asp = next((r for r in structures.residues(fr) if r["name"] == "ASP"), None)
    glu = next((r for r in structures.residues(fr) if r["name"] == "GLU"), None)
    if asp and glu:
        m1 = "\n".join(l for i, l in enumerate(lines) if not (i in asp["lines"] and l[12:16].strip() in ("OD1", "OD2")))
        m2 = "\n".join(l for i, l in enumerate(lines) if not (i in glu["lines"] and l[12:16].strip() in ("OE1", "OE2")))
        out.append((f"1HPX[18:70] equal-size models: model 1 lacks ASP{asp['num'].strip()} oxygens, model 2 lacks GLU{glu['num'].strip()} oxygens", structures.as_models([m1, m2])))
    # three alternate locations of several side chains (desolvation atom counts differ between the conformations)
    lys = [r for r in structures.residues(fr) if r["name"] in ("LYS", "ARG", "GLU")][:3]
    new = []
    for i, l in enumerate(lines):
        if any(i in r["lines"] for r in lys) and l[12:16].strip() not in ("N", "CA", "C", "O"):
            x, y, z = (float(v) for v in structures.get_xyz(l))
            new.append(l[:16] + "A" + l[17:])
            new.append(structures.set_xyz(l[:16] + "B" + l[17:], x + 0.9, y + 0.7, z - 0.6))
            new.append(structures.set_xyz(l[:16] + "C" + l[17:], x - 1.1, y + 0.2, z + 0.8))
        else:
            new.append(l)
    out.append(("1HPX[18:70] three alternate locations on three side chains", "\n".join(new) + "\n"))
    # two copies of one ligand in ONE chain, with alternate locations elsewhere (ligand labels carry no residue number)
    t4 = structures.read("4DFR.pdb")
    keep = [l for l in t4.splitlines() if structures.is_atom(l) and l[17:20] != "HOH" and (l[21] == "A" or l[17:20] == "MTX")]
    keep = [(l[:21] + "A" + " 900" + l[26:]) if (l[17:20] == "MTX" and l[21] == "B") else l for l in keep]
    out.append(("4DFR chain A with both methotrexates as chain A (161 and 900)", "\n".join(keep) + "\nEND\n"))
    # three alternates at one position: A = amide, B = acid (complete), C = acid lacking one carboxyl oxygen (C must be completed from B, not from A)
    pm, pmd = structures.altloc_point_mutant(fr, lambda r: True, first="amide", tags=("A", "B"))
    if pm:
        third = []
        for l in pm.splitlines():
            third.append(l)
        extra = [l[:16] + "C" + l[17:] for l in pm.splitlines() if structures.is_atom(l) and l[16] == "B" and l[12:16].strip() not in ("OD2", "OE2")]
        idx = max(i for i, l in enumerate(third) if structures.is_atom(l) and l[16] == "B")
        out.append((f"1HPX[18:70] {pmd}, C=acid lacking one carboxyl oxygen", "\n".join(third[:idx + 1] + extra + third[idx + 1:]) + "\n"))
    # two models of a complex: as deposited, and with the second chain pulled 8 A away (interface groups are buried in one model, exposed in
    # the other: their heavy-atom counts lie on different sides of the limits of the buried-fraction ramp)
    sg = "\n".join(l for l in structures.read("3SGB-subset.pdb").splitlines() if structures.is_atom(l) or l[:3] == "TER") + "\n"
    from decimal import Decimal
    apart = structures.map_atoms(sg, lambda l: structures.set_xyz(l, structures.get_xyz(l)[0] + Decimal("8.0"), structures.get_xyz(l)[1], structures.get_xyz(l)[2]) if l[21] == "I" else l)
    out.append(("3SGB-subset: model 1 as deposited, model 2 with chain I pulled 8 A away", structures.as_models([sg, apart])))
    if thorough:
        out.append(("4DFR.pdb", structures.read("4DFR.pdb")))
    return out, fr


def mean(xs):
    return sum(xs) / len(xs)


def run(chk: common.Check):
    common.impl_setup()
    rng = chk.rng
    proved = chk.prove()
    found, dis, hyp = [], [], []
    cases, fr = inputs(rng, chk.thorough)
    for name, text in cases:
        with DT.recording() as rec:
            try:
                mol, _ = structures.run(text)
            except Exception as ex:
                found.append((f"exception:{type(ex).__name__}", f"{name}: {type(ex).__name__}: {ex}", {"case": name, "pdb_text": text[:4000]}))
                continue
            DT.finalize(rec)
        chk.count(1, key=("case", name))
        names = list(mol.conformation_names)
        avr = mol.conformations["AVR"]
        # ---- conformation names: '<model><tag>' with digits 1-9 -> A-I, blank -> A, sorted by 100*model + ord(tag)
        if names != sorted(names, key=lambda c: int(c[:-1]) * 100 + ord(c[-1])) or any(not c[-1].isalpha() and c[-1] != "0" for c in names if c[-1] in "123456789"):
            found.append(("conformation-names", f"{name}: conformation names {names}", {"case": name}))
        # ---- single-model files: one conformation per alternate-location tag, letters as they are, digits 1..9 as A..I
        text_lines = text.splitlines()
        if not any(l[:6] == "MODEL " for l in text_lines):
            tags = sorted({l[16] for l in text_lines if structures.is_atom(l) and len(l) > 16 and l[16] != " "})
            conv = lambda t_: chr(ord(t_) + 16) if t_ in "123456789" else t_
            blank = any(structures.is_atom(l) and len(l) > 16 and l[16] == " " for l in text_lines)      # untagged atoms form conformation A
            want_names = sorted({"1" + conv(t_) for t_ in tags} | ({"1A"} if blank or not tags else set()))
            if sorted(names) != want_names:
                found.append(("conformation-per-tag", f"{name}: alternate-location tags {tags} give conformations {names}, expected {want_names}", {"case": name, "tags": tags,
                                                                                                                                                 "pdb_text": text if len(text) < 30000 else None}))
        # ---- every group reported in some conformation is in AVR, once
        keyf = lambda g: (g.atom.residue_label, g.type)
        for c in names:
            for g in mol.conformations[c].get_groups_for_calculations():
                hits = [a for a in avr.groups if keyf(a) == keyf(g)]
                if len(hits) != 1:
                    found.append((f"group-{'not' if not hits else 'multiply'}-reported-in-average", f"{name}: {g.label} of conformation {c} appears {len(hits)} times in the average",
                                  {"case": name, "group": g.label, "conformation": c, "pdb_text": text if len(text) < 30000 else None}))
        # ---- AVR = mean over the conformations containing the group
        for a in avr.groups:
            present = [mol.conformations[c].find_group(a) for c in names]
            present = [p for p in present if p]
            if not present:
                found.append(("average-of-nothing", f"{name}: AVR group {a.label} exists in no conformation", {"case": name}))
                continue
            for f in ("pka_value", "energy_volume", "energy_local", "buried", "num_volume", "num_local"):
                want = mean([getattr(p, f) for p in present])
                if abs(getattr(a, f) - want) > 1e-9:
                    found.append((f"average-not-mean:{'partial' if len(present) < len(names) else 'all'}",
                                  f"{name}: AVR {a.label}.{f} = {getattr(a, f):.6f}, mean over the {len(present)} of {len(names)} conformations containing it = {want:.6f}",
                                  {"case": name, "group": a.label, "field": f, "pdb_text": text if len(text) < 30000 else None}))
                    break
            for k in KINDS:
                tot = {}
                for p in present:
                    for d in p.determinants[k]:
                        tot[d.label] = tot.get(d.label, 0.0) + d.value
                got = {}
                for d in a.determinants[k]:
                    got[d.label] = got.get(d.label, 0.0) + d.value
                if set(tot) != set(got) or any(abs(tot[l] / len(present) - got[l]) > 1e-9 for l in tot):
                    found.append(("average-determinants-not-mean", f"{name}: AVR {a.label} {k} determinants {got} vs mean {({l: v / len(present) for l, v in tot.items()})}",
                                  {"case": name, "group": a.label, "kind": k}))
            chk.count(1, key=("avr", name, a.label))
        # ---- single conformation: AVR is that conformation
        if len(names) == 1:
            c0 = mol.conformations[names[0]]
            for a in avr.groups:
                g = c0.find_group(a)
                if not g or g.pka_value != a.pka_value or [(d.label, d.value) for k in KINDS for d in g.determinants[k]] != [(d.label, d.value) for k in KINDS for d in a.determinants[k]]:
                    found.append(("single-conformation-not-identity", f"{name}: AVR {a.label} differs from the only conformation", {"case": name}))
        # ---- topping up completes every conformation: an atom present in some conformation is present in all, unless the residue types differ there
        allkeys = {}
        for c in names:
            for at in mol.conformations[c].atoms:
                if at.element != "H":
                    allkeys.setdefault((at.chain_id, at.res_num, at.icode, at.name), set()).add((c, at.res_name))
        for k, where in allkeys.items():
            if len({w[1] for w in where}) == 1 and len(where) != len(names):
                resn = {}
                for c in names:
                    for at in mol.conformations[c].atoms:
                        if (at.chain_id, at.res_num, at.icode) == k[:3]:
                            resn.setdefault(c, at.res_name)
                rn = next(iter(where))[1]
                same = {c for c in names if resn.get(c) == rn}       # conformations holding this residue with the same residue type
                if same - {w[0] for w in where}:
                    found.append(("conformation-not-completed", f"{name}: atom {k[3]} of {rn} {k[1]}{k[0]} is present in {sorted(w[0] for w in where)} only, although "
                                  f"{sorted(same)} hold that residue with that residue type", {"case": name, "atom": k, "pdb_text": text if len(text) < 30000 else None}))
                    break
        # ---- topping up never merges residue types
        for c in names:
            seen = {}
            for at in mol.conformations[c].atoms:
                if at.element == "H":
                    continue          # constructed hydrogens carry no insertion code
                k = (at.chain_id, at.res_num, at.icode)
                if seen.setdefault(k, at.res_name) != at.res_name:
                    found.append(("top-up-merges-residue-types", f"{name}: conformation {c} has atoms of {seen[k]} and {at.res_name} in residue {k}",
                                  {"case": name, "conformation": c, "residue": k, "pdb_text": text if len(text) < 30000 else None}))
                    break
        # ---- trace replay + hypothesis of the theorem (divisor = number of summands)
        model = DT.model_final(rec, tag="c08")
        d = DT.compare(rec, model)
        if d:
            dis.append({"case": name, "differences": d[:4]})
        cur = {}
        snap = rec.snapshot()
        for op in rec.ops:
            if op[0] == "OClone":
                cur[op[1]] = 0
            elif op[0] == "OIadd" and op[1] in cur:
                cur[op[1]] += 1
            elif op[0] == "ODiv" and op[1] in cur and float(cur[op[1]]) != op[2]:
                hyp.append((name, snap[op[1]]["label"], cur[op[1]], op[2]))
        chk.cov["traces_validated_against_impl"] += 1
    # repeated identical models change nothing
    one = structures.results(fr, [])
    three = structures.results(structures.as_models([fr, fr, fr]), [])
    a1 = [(g["label"], g["pka"], g["dets"]) for g in one["AVR"]]
    a3 = [(g["label"], g["pka"], g["dets"]) for g in three["AVR"]]
    chk.count(1, key=("repeat-models",))
    if len(a1) != len(a3) or any(x[0] != y[0] or abs(x[1] - y[1]) > 1e-9 for x, y in zip(a1, a3)):
        found.append(("repeated-models-change-average", "three identical models give an average different from the single structure", {"single": a1[:3], "tripled": a3[:3]}))
    # the same with model serial numbers as written by trajectory tools (step numbers: 10000, 20000, 30000; 8-column right-justified serials)
    for what_m, fmt_m in (("MODEL serials 10000 / 20000 / 30000", lambda k: f"MODEL    {10000 * k:>5d}"), ("MODEL serials in 8 columns", lambda k: f"MODEL {k:>8d}")):
        txt_m = structures.as_models([fr, fr, fr])
        for k_ in (1, 2, 3):
            txt_m = txt_m.replace(f"MODEL     {k_:>4d}", fmt_m(k_), 1)
        try:
            r_m = structures.results(txt_m, [])
            am = [(g["label"], g["pka"], g["dets"]) for g in r_m["AVR"]]
            nconf = len([c for c in r_m if c != "AVR"])
            chk.count(1, key=("repeat-models", what_m))
            if nconf != 3 or len(a1) != len(am) or any(x[0] != y[0] or abs(x[1] - y[1]) > 1e-9 for x, y in zip(a1, am)):
                found.append(("repeated-models-change-average:model-serials", f"three identical models with {what_m}: {nconf} conformations, average "
                              f"{'differs from' if nconf == 3 else 'of a merged structure instead of'} the single structure", {"layout": what_m}))
        except Exception as ex:   # noqa: BLE001
            found.append(("exception:model-serials", f"three identical models with {what_m}: {type(ex).__name__}: {ex}", {"layout": what_m}))
    # two-chain structure (TER between the chains, last chain without OXT) repeated as MODELs in the three layouts found in the wild
    hp = structures.read("1HPX.pdb")
    ca = [l for l in hp.splitlines() if l[:4] == "ATOM" and l[21] == "A"]
    cb = [l for l in hp.splitlines() if l[:4] == "ATOM" and l[21] == "B"]
    first_n = lambda ls, n: [l for l in ls if int(l[22:26]) <= int(ls[0][22:26]) + n - 1]
    a, b = first_n(ca, 12), [structures.set_resnum(l, int(l[22:26]) + 100, l[26]) for l in first_n(cb, 14) if l[12:16].strip() != "OXT"]
    single = "\n".join(a + ["TER   "] + b) + "\nEND\n"
    ref = structures.results(single, [])
    layouts = {"full": lambda i: [f"MODEL     {i:>4d}"] + a + ["TER   "] + b + ["TER   ", "ENDMDL"],
               "endmdl": lambda i: [f"MODEL     {i:>4d}"] + a + ["TER   "] + b + ["ENDMDL"],
               "bare": lambda i: [f"MODEL     {i:>4d}"] + a + ["TER   "] + b}
    for lay, f in layouts.items():
        for nmod in (2, 3):
            text = "\n".join(l for i in range(1, nmod + 1) for l in f(i)) + "\nEND\n"
            got = structures.results(text, [])
            chk.count(1, key=("model-layout", lay, nmod))
            bad = None
            for c in got:
                rg, rr = [(g["label"], g["type"]) for g in got[c]], [(g["label"], g["type"]) for g in ref["AVR" if c == "AVR" else "1A"]]
                if rg != rr:
                    bad = (c, sorted(set(rr) ^ set(rg))[:4])
                    break
            if bad is None:
                for x, y in zip(got["AVR"], ref["AVR"]):
                    if abs(x["pka"] - y["pka"]) > 1e-9:
                        bad = ("AVR", (x["label"], x["pka"], y["pka"]))
                        break
            if bad:
                found.append((f"repeated-models-change-results:{lay}", f"{nmod} identical models ({lay} layout) differ from the single structure: {bad}",
                              {"layout": lay, "models": nmod, "difference": bad, "pdb_text": text}))
    chk.corr_stats["averaging_trace"] = {"runs": len(cases), "disagreements": len(dis), "averages_with_wrong_divisor": len(hyp)}
    chk.sample({"case": cases[5][0]})
    uniq = {}
    for sig, what, rep in found:
        uniq.setdefault(sig, (sig, what, rep))
    found = list(uniq.values())
    if dis:
        chk.broken("correspondence", "Dets model (OClone/OIadd/ODiv) ~ average_of_conformations", {"runs": dis[:3]}, search_fn=lambda: found)
    elif not proved:
        chk.broken("proof", "props/C08.v", chk.broken_obligation, search_fn=lambda: found)
    elif hyp:
        chk.broken("hypothesis", "averages divided by their number of summands", {"cases": hyp[:5]}, search_fn=lambda: found)
    else:
        for sig, what, rep in found:
            chk.finding(sig, what, rep)
    return chk.finish(
        level="proof",
        rule=("obligations = theorems of coq/props/C08.v (every averaging sequence). Trace validation + search on the five conf-* files, alt-loc point "
              "mutants (either order, letter and digit tags), partial alternates, identical / incomplete / displaced models: independent means, "
              "every group reported once, single-conformation identity, repeated models, no merged residue types, conformation names. "
              "distinct = (case, averaged group)"
              " Added in rounds 4-6: conformation names per alternate-location tag incl. digits, two copies of a ligand in one chain, a complex with one chain pulled away in model 2, three alternates of one position."),
        assumptions=["means are over R (search tolerance 1e-9)", "groups are matched across conformations as the code does (atom residue label + group type)",
                     "topping-up and conformation naming are checked by the search (and the parser correspondence of C13/C07), not by a theorem of their own"],
        trusted=["tools/vlib/detstrace.py recorder", "model/Dets.v validated by replay", "stdlib real axioms"])
