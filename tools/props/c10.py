"""C10 — proton linkage, optimum/ranges, grid and window.  Theorems: coq/props/C10.v.
Tie: calculate_folding_energy regenerated each run (+ IR validation); correspondences (bit for bit) of the hand models
with lib.make_grid, get_folding_profile (float instance with recorded 10**x / log10 tables) and the printed window rows.
Search: finite differences of the written folding profile against 1.36 (Qf - Qu), end points, printed rows."""
import fractions
import io
import itertools
import math
import re

from vlib import common, gen, genval, chargeenv as CE, structures

Fr = fractions.Fraction
GRIDS = [(0.0, 14.0, 0.1), (0.0, 0.3, 0.1), (0.0, 14.0, 0.05), (0.0, 14.0, 1.0), (2.0, 9.0, 0.25), (0.0, 1.5, 0.1), (3.0, 3.0, 1.0),
         (0.0, 14.0, 0.7), (0.0, 14.0, 0.2), (-1.0, 2.0, 0.3), (1.1, 2.2, 0.1), (0.0, 14.0, 2.0), (5.0, 4.0, 1.0), (0.0, 1.0, 0.125),
         (0.05, 13.95, 0.35), (0.0, 0.7, 0.1), (0, 14, 1), (0, 3, 0.5), (6.9, 7.1, 0.01)]
WINDOWS = [(0.0, 14.0, 1.0), (0.0, 14.0, 2.0), (0.5, 14.0, 1.0), (3.0, 9.0, 0.2), (0.0, 14.0, 0.5), (2.0, 12.0, 2.5), (0.0, 14.0, 0.1),
           (1.0, 13.0, 3.0), (0.0, 14.0, 7.0), (4.0, 4.0, 1.0)]


def qlit(x):
    fr = Fr(str(x))
    return f"({fr.numerator} # {fr.denominator})"


def hh(q, pk, ph):
    x = q * (pk - ph)
    if x > 300:
        return q
    c = 10.0 ** x
    return q * c / (1 + c)


def gen_groups(rng):
    n = rng.choice([0, 1, 2, 3, 5, 7])
    gs = []
    for _ in range(n):
        q = float(rng.choice([-1, 1]))
        mp = rng.choice([3.8, 4.5, 6.5, 9.0, 10.0, 10.5, 12.5, 8.0, 3.2])
        pk = round(mp + rng.uniform(-4, 4), rng.choice([1, 2, 6]))
        coul = [round(rng.uniform(-1.5, 1.5), 2) for _ in range(rng.choice([0, 0, 1, 3]))]
        gs.append((q, pk, mp, rng.random() > 0.15, coul))
    return gs


def run(chk: common.Check):
    common.impl_setup()
    rng = chk.rng
    import propka.group
    from propka.lib import make_grid
    from propka.output import get_folding_profile_section
    names = ("calculate_folding_energy_neutral", "calculate_folding_energy_lowph", "calculate_charge_folded", "calculate_charge_unfolded")
    proved = False
    missing = [f for f in names if f in gen.GEN_ERRORS]
    if missing:
        chk.obligations.append(("translate Group.calculate_folding_energy", False, gen.GEN_ERRORS[missing[0]]))
        chk.broken_obligation = {"where": "py2coq", "log_tail": gen.GEN_ERRORS[missing[0]]}
    else:
        proved = chk.prove()
    mol = CE.make_mol()
    conf = mol.conformations["AVR"]
    params = mol.version.parameters
    found = []

    # ------------------------------------------------------ translator validation
    ins = []
    for _ in range(300):
        ins.append({"self": {"charge": float(rng.choice([-1, 1])), "model_pka": rng.uniform(0, 14), "pka_value": rng.uniform(-3, 18),
                             "num_volume": 0.0, "titratable": rng.random() > 0.1},
                    "parameters": {"Nmin": 280.0, "Nmax": 560.0, "desolvationSurfaceScalingFactor": 0.25, "coulomb_cutoff1": 4.0,
                                   "coulomb_cutoff2": 10.0, "pH": 7.0, "desolvationPrefactor": -13.0, "desolvationAllowance": 0.0},
                    "ph": rng.uniform(0, 14), "self_determinants_coulomb": [round(rng.uniform(-2, 2), 2) for _ in range(rng.randint(0, 4))]})

    def real_fold(ref):
        def f(e):
            s = e["self"]
            g = CE.fake_group(s["charge"], s["pka_value"], s["model_pka"], s["titratable"], e["self_determinants_coulomb"])
            return g.calculate_folding_energy(params, ph=e["ph"], reference=ref)
        return f
    genval.validate(chk, "GroupGen", "calculate_folding_energy_neutral", real_fold("neutral"), ins)
    genval.validate(chk, "GroupGen", "calculate_folding_energy_lowph", real_fold("low-pH"), ins)

    # ------------------------------------------------------ correspondence (a): the grid, exact
    grids = list(GRIDS)
    for _ in range(60 if chk.thorough else 15):
        st = rng.choice([0.1, 0.05, 0.2, 0.25, 0.3, 0.7, 1.0, 0.125, 0.01, 1.5])
        lo = round(rng.uniform(-2, 6), rng.choice([0, 1, 2]))
        hi = round(lo + st * rng.randint(0, 60) + rng.choice([0, 0, st / 2]), 4)
        grids.append((lo, hi, st))
    gexprs, gmeta = [], []
    for (lo, hi, st) in grids:
        got = list(make_grid(lo, hi, st))
        gexprs.append(f"match make_grid 5000 {qlit(lo)} {qlit(hi)} {qlit(st)} with Some l => map (fun q => let r := Qred q in "
                      f"fout (flit (Qnum r) (Zpos (Qden r)))) l | None => [(9,9,9)%Z] end")
        gmeta.append(((lo, hi, st), got))
        chk.count(1, key=("grid", lo, hi, st))
        # search: exact expectation
        n = math.floor((Fr(str(hi)) - Fr(str(lo))) / Fr(str(st))) + 1 if hi >= lo else 0
        want = [float(Fr(str(lo)) + i * Fr(str(st))) for i in range(max(n, 0))]
        if [float(x) for x in got] != want:
            miss_end = bool(want) and (not got or float(got[-1]) != want[-1])
            found.append(("grid-drops-end-point" if miss_end and len(got) == len(want) - 1 else "grid-not-lattice",
                          f"make_grid{(lo, hi, st)} yields {len(got)} points ending {got[-2:]}, the requested grid has {len(want)} points ending {want[-2:]}",
                          {"grid": [lo, hi, st], "impl_len": len(got), "impl_tail": [float(x) for x in got[-3:]], "expected_len": len(want), "expected_tail": want[-3:]}))
    pre = ("From Coq Require Import List ZArith QArith PrimFloat.\nFrom V Require Import Num FloatIO Grid.\nImport ListNotations.\n")
    gres = common.coq_eval("c10g", pre, gexprs, shard=20)
    gdis = []
    for ((lo, hi, st), got), r in zip(gmeta, gres):
        mod = [genval.decode_fout(t) for t in r] if not (r and tuple(r[0]) == (9, 9, 9)) else None
        if mod is None or [genval.bits(float(x)) for x in got] != [genval.bits(x) for x in mod]:
            gdis.append({"grid": [lo, hi, st], "impl_len": len(got), "model_len": None if mod is None else len(mod),
                         "impl_tail": [float(x) for x in got[-3:]], "model_tail": None if mod is None else mod[-3:]})
    chk.corr_stats["make_grid"] = {"cases": len(grids), "disagreements": len(gdis)}
    chk.cov["traces_validated_against_impl"] += len(grids)

    # ------------------------------------------------------ correspondence (b): profile, optimum, ranges (float model + tables)
    ncase = 80 if chk.thorough else 20
    pexprs, pmeta = [], []
    orig = propka.group.Group.calculate_folding_energy
    for ci in range(ncase):
        gs = gen_groups(rng)
        if ci == 0:
            gs = [(-1.0, 3.1, 3.8, True, [0.4, -0.2]), (1.0, 11.0, 10.5, True, [0.3]), (1.0, 6.0, 6.5, False, [])]
        grid = rng.choice([(0.0, 14.0, 1.0), (0.0, 14.0, 0.5), (2.0, 9.0, 0.25), (0.0, 3.0, 0.3), (0.0, 14.0, 2.0), (2.0, 6.0, 0.125),
                           (6.9, 7.1, 0.025), (0.0, 1.0, 0.0625)])
        if ci == 1:
            grid = (2.0, 6.0, 0.125)
        ref = rng.choice(["neutral", "low-pH"])
        # profiles with SEVERAL separate stretches below zero / below 80 % of the optimum (the ranges span all of them)
        if ci == 2:
            gs, grid, ref = [(1.0, 7.5, 6.5, True, []), (1.0, 6.442641, 4.5, True, [1.37, 1.0, -0.52]), (-1.0, 5.2, 8.0, True, [])], (0.0, 14.0, 0.5), "neutral"
        if ci == 3:
            gs, grid, ref = [(1.0, 12.861549, 10.5, True, []), (-1.0, 7.0, 3.8, True, [-0.09]), (-1.0, 5.1, 9.0, True, [-0.66, 1.25, 0.8]), (-1.0, 7.44, 6.5, False, []),
                             (-1.0, 11.2, 9.0, True, [])], (0.0, 14.0, 0.5), "neutral"
        if ci == 4:
            gs, grid, ref = [(1.0, 5.87, 8.0, True, [-0.85]), (1.0, 6.8, 4.5, True, [-0.64]), (1.0, 12.9, 9.0, False, [-0.74, 0.09, 0.39]), (-1.0, 4.0, 4.5, True, []),
                             (-1.0, 3.249636, 3.8, True, [-0.35, -1.16, 1.0])], (0.0, 14.0, 0.5), "low-pH"
        groups = [CE.fake_group(q, pk, mp, t, coul) for q, pk, mp, t, coul in gs]
        # the group's OWN model pKa counts (custom model pKa values): residue types whose table entry is something else
        for g_, rt_ in zip(groups, itertools.cycle(["ASP", "OP", "", "LYS", "NAR", "TYR"])):
            g_.residue_type = rt_
        conf.groups = groups
        rec = CE.Recorder()

        def wrapped(self, parameters, ph=None, reference=None, _rec=rec):
            _rec.folding(self, ph)
            return orig(self, parameters, ph=ph, reference=reference)
        propka.group.Group.calculate_folding_energy = wrapped
        try:
            prof, opt, r80, stab = mol.get_folding_profile("AVR", reference=ref, grid=grid)
        finally:
            propka.group.Group.calculate_folding_energy = orig
        p10, l10 = rec.coq()
        fx = genval.fhex
        gl = CE.coq_list([f"({CE.coq_grp(g)}, {CE.coq_list([fx(d.value) for d in g.determinants['coulomb']])})" for g in groups])
        fn = "folding_energy_neutral" if ref == "neutral" else "folding_energy_lowph"
        grid_pts = (f"(match Grid.make_grid 5000 {qlit(grid[0])} {qlit(grid[1])} {qlit(grid[2])} with Some l => "
                    f"map (fun q => let r := Qred q in flit (Qnum r) (Zpos (Qden r))) l | None => [] end)")
        o = lambda x: f"match {x} with Some v => fout v | None => (9,9,9)%Z end"
        pexprs.append(f"(let N := NumFlT {p10} {l10} in let P := mk_params 0 0 0 0 0 0 0 0 in let gs := {gl} in "
                      f"let prof := map (fun ph => (ph, @{fn} float N P gs ph)) {grid_pts} in "
                      f"flat_map (fun p => [fout (fst p); fout (snd p)]) prof ++ (let op := @optimum float N prof in [{o('fst op')}; fout (snd op)]) ++ "
                      f"(let r := @range_80pct float N prof in [{o('fst r')}; {o('snd r')}]) ++ "
                      f"(let r := @stability_range float N prof in [{o('fst r')}; {o('snd r')}]))")
        want = [v for p in prof for v in p] + [opt[0], opt[1], r80[0], r80[1], stab[0], stab[1]]
        pmeta.append((gs, grid, ref, want))
        chk.count(1, key=("profile", len(gs), grid, ref))
        # search: the profile is computed exactly at the requested grid points
        exp_grid = [float(Fr(str(grid[0])) + i * Fr(str(grid[2]))) for i in range(int((Fr(str(grid[1])) - Fr(str(grid[0]))) / Fr(str(grid[2]))) + 1)]
        if [float(p[0]) for p in prof] != exp_grid:
            k = next((i for i, (a, b) in enumerate(zip([float(p[0]) for p in prof], exp_grid)) if a != b), min(len(prof), len(exp_grid)))
            found.append(("profile-off-grid", f"folding profile for grid {grid} is computed at pH {[p[0] for p in prof][k:k + 2]} where the requested grid has {exp_grid[k:k + 2]}",
                          {"grid": grid, "index": k, "impl": [p[0] for p in prof][:12], "expected": exp_grid[:12]}))
        # search: proton linkage on these synthetic groups (fine grid): d(dG)/dpH = 1.36 (Qf - Qu) with the charges the API reports for them
        if gs and ci < 12:
            fine = (0.0, 14.0, 0.05)
            try:
                pf, _o, _r, _s = mol.get_folding_profile("AVR", reference=ref, grid=fine)
                cp = {round(r_[0], 6): (r_[1], r_[2]) for r_ in mol.get_charge_profile("AVR", grid=fine)}
            except Exception:   # noqa: BLE001
                pf, cp = [], {}
            ntit = sum(1 for g_ in gs if g_[3])
            for i_ in range(1, len(pf) - 1, 7):
                d_ = (pf[i_ + 1][1] - pf[i_ - 1][1]) / (pf[i_ + 1][0] - pf[i_ - 1][0])
                qu_, qf_ = cp.get(round(pf[i_][0], 6), (None, None))
                tol_ = 1.36 * max(1, ntit) * (math.log(10) ** 2) * fine[2] ** 2 / 6 * 0.2 + 1e-6
                if qu_ is not None and abs(d_ - 1.36 * (qf_ - qu_)) > tol_:
                    found.append(("linkage:synthetic-groups", f"groups {gs} ({ref}): d(dG)/dpH at pH {pf[i_][0]} is {d_:.5f}, 1.36 (Qf-Qu) = {1.36 * (qf_ - qu_):.5f} with the reported charges",
                                  {"groups": gs, "reference": ref, "ph": pf[i_][0]}))
                    break
        # search: optimum is the minimum; ranges
        if prof:
            mn = min(p[1] for p in prof)
            if mn < 1e6 and (opt[0] is None or opt[1] != mn or (opt[0], opt[1]) not in [tuple(p) for p in prof]):
                found.append(("optimum-not-minimum", f"reported optimum {opt} but the profile minimum is {mn}", {"groups": gs, "grid": grid, "reference": ref}))
            w80 = [p[0] for p in prof if p[1] < 0.8 * mn] if mn < 1e6 else []
            if (r80 != (None, None)) != bool(w80) or (w80 and (r80[0] != min(w80) or r80[1] != max(w80))):
                found.append(("range-80pct", f"80 % range {r80} but the points below 80 % of the optimum {mn} span {(min(w80), max(w80)) if w80 else None}",
                              {"groups": gs, "grid": grid, "reference": ref}))
            neg = [p[0] for p in prof if p[1] < 0]
            if (stab != (None, None)) != bool(neg) or (neg and (stab[0] != min(neg) or stab[1] != max(neg))):
                found.append(("stability-range", f"stability range {stab} but negative points span {(min(neg), max(neg)) if neg else None}",
                              {"groups": gs, "grid": grid, "reference": ref}))
    pre2 = ("From Coq Require Import List ZArith QArith PrimFloat.\nFrom V Require Import Num FloatIO GroupGen Charge Grid.\nImport ListNotations.\n"
            "Open Scope float_scope.\n")
    pres = common.coq_eval("c10p", pre2, pexprs, shard=8)
    pdis = []
    for (gs, grid, ref, want), r in zip(pmeta, pres):
        got = [None if tuple(t) == (9, 9, 9) else genval.decode_fout(t) for t in r]
        ok = len(got) == len(want) and all((a is None and b is None) or (a is not None and b is not None and genval.bits(a) == genval.bits(float(b)))
                                           for a, b in zip(got, want))
        if not ok:
            k = next((i for i, (a, b) in enumerate(zip(got, want)) if (a is None) != (b is None) or (a is not None and genval.bits(a) != genval.bits(float(b)))), None)
            pdis.append({"groups": gs, "grid": grid, "reference": ref, "first_difference_index": k,
                         "impl": None if k is None else want[k], "model": None if k is None else got[k]})
    chk.corr_stats["get_folding_profile"] = {"cases": ncase, "disagreements": len(pdis)}
    chk.cov["traces_validated_against_impl"] += ncase

    # ------------------------------------------------------ correspondence (c) + search: printed window rows, linkage in the text
    wexprs, wmeta = [], []
    combos = [((0.0, 14.0, 0.1), w) for w in WINDOWS[:6 if not chk.thorough else 10]] + \
             [((0.0, 14.0, 0.05), (3.0, 9.0, 0.2)), ((2.0, 10.0, 0.125), (2.0, 10.0, 0.5)), ((0.0, 14.0, 0.5), (0.0, 14.0, 1.0)),
              ((0.0, 14.0, 0.25), (0.5, 13.5, 0.75)),
              # windows that are NOT sub-lattices of the grid (only the common points are printed)
              ((0.0, 14.0, 0.4), (0.0, 14.0, 1.0)), ((0.5, 14.0, 0.5), (0.0, 14.0, 1.0)), ((0.0, 14.0, 0.25), (0.0, 14.0, 0.1)), ((0.0, 14.0, 0.5), (0.25, 14.0, 1.0))]
    text1 = structures.read("3SGB-subset.pdb" if not chk.thorough else "1HPX.pdb")
    # an ensemble whose conformations differ (the inhibitor chain displaced in the second model): the reported profile and the reported charges
    # must still be linked
    sub = structures.read("3SGB-subset.pdb")
    from decimal import Decimal as _D
    moved_i = structures.map_atoms(sub, lambda l: structures.set_xyz(l, structures.get_xyz(l)[0] + _D(40), structures.get_xyz(l)[1], structures.get_xyz(l)[2]) if l[21] == "I" else l)
    ensemble = structures.as_models([sub, moved_i])
    combos_texts = [(g, w, text1) for g, w in combos] + [((0.0, 14.0, 0.1), (0.0, 14.0, 1.0), ensemble), ((2.0, 9.0, 0.05), (2.0, 9.0, 0.5), ensemble)]
    # (sample-issue-140: the optimum and the start of the ranges lie at pH 0.0, the first grid point; 1HPX: stability range starting at 0.0)
    combos_texts += [((0.0, 14.0, 0.1), (0.0, 14.0, 1.0), structures.read("sample-issue-140.pdb")), ((0.0, 14.0, 0.5), (0.0, 14.0, 0.5), structures.read("1HPX.pdb"))]
    combos = [(g, w) for g, w, _ in combos_texts]
    for grid, win, text1 in combos_texts:
        opts = ["-g"] + [repr(v) for v in grid] + ["-w"] + [repr(v) for v in win]
        ref = rng.choice(["neutral", "low-pH"])
        m2, _ = structures.run(text1, opts)
        sect = get_folding_profile_section(m2, conformation="AVR", reference=ref, window=m2.options.window)
        rows = re.findall(r"^\s*(-?\d+\.\d\d)\s+(-?\d+\.\d\d)\s*$", sect, re.M)
        prof, opt, r80, stab = m2.get_folding_profile("AVR", reference=ref, grid=m2.options.grid)
        # search: the three summary lines of the section state exactly the optimum and ranges of the profile (a value of 0.0 is a value)
        for label, vals, pat in (("optimum", opt, r"optimum stability is\s*(-?\d+\.\d) for which the free energy is\s*(-?\d+\.\d)"),
                                 ("80 % range", r80, r"within 80 % of maximum at pH\s*(-?\d+\.\d) to\s*(-?\d+\.\d)"),
                                 ("stability range", stab, r"negative in the range\s*(-?\d+\.\d) -\s*(-?\d+\.\d)")):
            mt = re.search(pat, sect)
            want_txt = None if (vals[0] is None or vals[1] is None) else ("{0:.1f}".format(vals[0]), "{0:.1f}".format(vals[1]))
            got_txt = None if mt is None else (mt.group(1), mt.group(2))
            norm = lambda p_: None if p_ is None else tuple(x.replace("-0.0", "0.0") for x in p_)
            if norm(want_txt) != norm(got_txt):
                found.append(("profile-summary-lines", f"-g {grid} {ref}: the section prints {label} {got_txt}, the computed profile has {vals}", {"grid": grid, "reference": ref, "what": label}))
        # model: window_rows over the exact grid
        wexprs.append(f"match make_grid 5000 {qlit(grid[0])} {qlit(grid[1])} {qlit(grid[2])} with Some l => "
                      f"map (fun p => let r := Qred (fst p) in fout (flit (Qnum r) (Zpos (Qden r)))) "
                      f"(window_rows {qlit(win[0])} {qlit(win[1])} {qlit(win[2])} (map (fun x => (x, tt)) l)) | None => [(9,9,9)%Z] end")
        wmeta.append((grid, win, rows, prof))
        chk.count(1, key=("window", grid, win))
        # search (independent): expected rows = grid points on the window lattice
        fg = [Fr(str(grid[0])) + i * Fr(str(grid[2])) for i in range(int((Fr(str(grid[1])) - Fr(str(grid[0]))) / Fr(str(grid[2]))) + 1)]
        w0, w1, ws = (Fr(str(v)) for v in win)
        exp = [x for x in fg if w0 <= x <= w1 and ((x - w0) / ws).denominator == 1]
        exp_s = ["{0:.2f}".format(float(x)) for x in exp]
        if [r[0] for r in rows] != exp_s:
            found.append(("window-rows", f"-g {grid} -w {win}: {len(rows)} rows printed ({[r[0] for r in rows][:4]}...{[r[0] for r in rows][-2:]}), "
                          f"the window lattice has {len(exp_s)} ({exp_s[:4]}...{exp_s[-2:]})",
                          {"grid": grid, "window": win, "printed": [r[0] for r in rows], "expected": exp_s}))
        # search: proton linkage by central differences on the API profile (same charges as reported)
        tit = [g for g in m2.conformations["AVR"].groups if g.titratable]
        h = grid[2]
        for i in range(1, len(prof) - 1):
            ph = prof[i][0]
            d = (prof[i + 1][1] - prof[i - 1][1]) / (prof[i + 1][0] - prof[i - 1][0])
            qf = sum(hh(g.charge, g.pka_value, ph) for g in tit)
            qu = sum(hh(g.charge, g.model_pka, ph) for g in tit)
            # second-order error bound of the central difference: h^2/6 * max|f'''|, f''' bounded by 1.36*ln(10)^2*n/ (6 sqrt 3)...; use a generous bound
            tol = 1.36 * len(tit) * (math.log(10) ** 2) * h * h / 6 * 0.2 + 1e-6
            if abs(d - 1.36 * (qf - qu)) > tol:
                found.append(("linkage", f"-g {grid} {ref}: d(dG)/dpH at pH {ph} is {d:.5f}, 1.36 (Qf-Qu) = {1.36 * (qf - qu):.5f} (tolerance {tol:.2g})",
                              {"grid": grid, "reference": ref, "ph": ph}))
                break
    wres = common.coq_eval("c10w", pre, wexprs, shard=10)
    wdis = []
    for (grid, win, rows, prof), r in zip(wmeta, wres):
        mod = [genval.decode_fout(t) for t in r] if not (r and tuple(r[0]) == (9, 9, 9)) else None
        dg = {genval.bits(float(p[0])): p[1] for p in prof}
        exp_rows = None if mod is None else [("{0:.2f}".format(x), "{0:.2f}".format(dg.get(genval.bits(x), float('nan')))) for x in mod]
        if exp_rows is None or [(a, b) for a, b in rows] != exp_rows:
            wdis.append({"grid": grid, "window": win, "printed": rows[:5], "model": None if exp_rows is None else exp_rows[:5],
                         "printed_n": len(rows), "model_n": None if exp_rows is None else len(exp_rows)})
    chk.corr_stats["window_rows"] = {"cases": len(combos), "disagreements": len(wdis)}
    chk.cov["traces_validated_against_impl"] += len(combos)
    chk.sample({"grid": combos[1][0], "window": combos[1][1], "printed_rows": wmeta[1][2][:4]})

    uniq = {}
    for sig, what, rep in found:
        uniq.setdefault(sig, (sig, what, rep))
    found = list(uniq.values())
    gv = getattr(chk, "_genval_dis", [])
    if gv or gdis or pdis or wdis:
        chk.broken("correspondence", "Grid/Charge models and generated folding energy ~ implementation",
                   {"translator": gv, "make_grid": gdis[:4], "folding_profile": pdis[:3], "window_rows": wdis[:3]}, search_fn=lambda: found)
    elif not proved:
        chk.broken("proof", "props/C10.v", chk.broken_obligation, search_fn=lambda: found)
    else:
        for sig, what, rep in found:
            chk.finding(sig, what, rep)
    return chk.finish(
        level="proof",
        rule=("obligations = theorems of coq/props/C10.v (linkage over R via Coquelicot for both reference states and all group lists; optimum/"
              "ranges for all profiles; grid and window rows over Q for all min/max/step). Correspondence: make_grid on a lattice of decimal and "
              "binary steps (exact), get_folding_profile on synthetic group vectors (bit for bit, float model with recorded libm tables), printed "
              "window rows for -g/-w combinations on a real structure; distinct = distinct argument tuples. Search: exact expected grids/rows, "
              "central differences of the profile vs 1.36 (Qf-Qu)"
              " Added in rounds 5-6: profiles with several separate stretches below zero / 80 %, an oracle for the 80 % range, the three summary lines of the section vs the computed profile, proton linkage on synthetic groups."),
        assumptions=["formal charges are +-1 (C18_shipped_charges_are_unit)", "theorems over R / Q; rounding covered by the bit-exact correspondence",
                     "grid arguments are decimals as typed by the user (str(float) is exact for them)"],
        trusted=["py2coq translator (validated)", "hand models Charge.v / Grid.v (validated)", "Coquelicot, stdlib real axioms"])
