"""C05 — parts of a structure beyond interaction range do not influence each other.  Theorems: coq/props/C05.v.
Tie: kernels regenerated (+ validated); model/Locality.v evaluated in binary64 against get_smallest_distance (with the start value read
from the running module) and against radial_volume_desolvation (loop + generated slices composed) on real groups.
Search: A, B processed alone vs A+B in one file (both orders, separations from just beyond 25 A to the limits of the coordinate field,
spans > 1000 A), incl. a structure with its own copy, ligand copies sharing a chain identifier, and a cluster on which the iterative
scheme stops at its sweep limit."""
import math
import os
from decimal import Decimal

from vlib import common, gen, genval, structures

DATA = common.VERIF / "tools" / "data"
NEEDED = {"DetsGen": ["add_iterative_acid_pair", "add_iterative_base_pair", "add_iterative_ion_pair"], "EnergyGen": ["coulomb_energy", "hydrogen_bond_energy", "check_coulomb_pair", "desolv_volume_increment", "calculate_weight", "calculate_scale_factor",
                        "desolv_volume_after_allowance", "desolv_energy"], "VecGen": ["squared_distance"]}
fx = genval.fhex


def v3(p):
    return f"(VecGen.mk_vec3 {fx(p[0])} {fx(p[1])} {fx(p[2])})"


# ------------------------------------------------------------------------------------------------ correspondences
def corr_smallest(chk, rng, n):
    import propka.calculations as C
    init = "None" if C.MAX_DISTANCE == math.inf else f"(Some {fx(C.MAX_DISTANCE)})"
    P = lambda p: type("P", (), {"x": p[0], "y": p[1], "z": p[2]})()
    cases = []
    for _ in range(n):
        far = rng.choice([0.0, 0.0, 999.0, 1001.0, 2500.0, 9000.0])
        l1 = [tuple(round(rng.uniform(-8, 8), 3) for _ in range(3)) for _ in range(rng.randint(0, 4))]
        l2 = [tuple(round(rng.uniform(-8, 8) + (far if i == 0 else 0.0), 3) for i in range(3)) for _ in range(rng.randint(0, 4))]
        if rng.random() < 0.1 and l1:
            l2 = l2 + [l1[0]]
        cases.append((l1, l2))
    exprs = []
    for l1, l2 in cases:
        exprs.append(f"(let r := smallest {init} [{'; '.join(v3(p) for p in l1)}] [{'; '.join(v3(p) for p in l2)}] in "
                     f"[match fst r with Some d => fout d | None => (9,9,9)%Z end; match snd r with Some (i, j) => (5, Z.of_nat i, Z.of_nat j)%Z | None => (6,0,0)%Z end])")
    pre = ("From Coq Require Import ZArith List PrimFloat.\nFrom V Require Import Num FloatIO VecGen EnergyGen Locality.\nImport ListNotations.\nOpen Scope float_scope.\n")
    res = common.coq_eval("c05s", pre, exprs, shard=200)
    dis = []
    for (l1, l2), r in zip(cases, res):
        a1, a2 = [P(p) for p in l1], [P(p) for p in l2]
        ra, d, rb = C.get_smallest_distance(a1, a2)
        real = (None if d == math.inf else d, None if ra is None else (a1.index(ra), a2.index(rb)))
        md = None if tuple(r[0]) == (9, 9, 9) else genval.decode_fout(r[0])
        mp = None if r[1][0] == 6 else (r[1][1], r[1][2])
        if (md is None) != (real[0] is None) or (md is not None and genval.bits(md) != genval.bits(real[0])) or mp != real[1]:
            dis.append({"atoms1": l1, "atoms2": l2, "impl": [real[0], real[1]], "model": [md, mp]})
    chk.corr_stats["get_smallest_distance ~ model (start value " + ("inf" if init == "None" else str(C.MAX_DISTANCE)) + ")"] = {"cases": len(cases), "disagreements": len(dis)}
    chk.cov["traces_validated_against_impl"] += len(cases)
    return dis, init == "None"


def corr_desolvation(chk, mol, ngroups):
    """energy_volume / num_volume / buried of real groups vs the Coq float evaluation of desolv_loop + generated slices"""
    import propka.energy as E
    exprs, meta = [], []
    for cname in mol.conformation_names[:1]:
        conf = mol.conformations[cname]
        par = conf.parameters
        atoms = conf.get_non_hydrogen_atoms()
        P = (f"(mk_params {fx(par.Nmin)} {fx(par.Nmax)} {fx(par.desolvationSurfaceScalingFactor)} {fx(par.coulomb_cutoff1)} {fx(par.coulomb_cutoff2)} "
             f"{fx(7.0)} {fx(par.desolvationPrefactor)} {fx(par.desolvationAllowance)})")
        for g in conf.get_titratable_groups()[:ngroups]:
            lst = []
            for a in atoms:
                if a.res_num == g.atom.res_num and a.chain_id == g.atom.chain_id:
                    continue
                dvol = par.VanDerWaalsVolume["C4"] if (a.element == "C" and a.name not in ["CA", "C"]) else par.VanDerWaalsVolume.get(a.element, 1.0)
                lst.append(f"({v3((a.x, a.y, a.z))}, {fx(dvol)})")
            exprs.append(f"(let r := desolv_loop {v3((g.x, g.y, g.z))} {fx(par.desolv_cutoff_squared)} {fx(par.buried_cutoff_squared)} {fx(E.MIN_DISTANCE_4TH)} [{'; '.join(lst)}] in "
                         f"let nv := Z.of_nat (snd r) in let w := calculate_weight {P} (flit nv 1) in let sc := calculate_scale_factor {P} w in "
                         f"let va := desolv_volume_after_allowance (fst r) {P} in "
                         f"[fout (desolv_energy (mk_grp {fx(float(g.charge))} 0 0 0 true) {P} va sc); fout w; (7, nv, 0)%Z])")
            meta.append((g.label, float(g.energy_volume), float(g.buried), int(g.num_volume)))
    pre = ("From Coq Require Import ZArith List PrimFloat.\nFrom V Require Import Num FloatIO VecGen EnergyGen Locality.\nImport ListNotations.\nOpen Scope float_scope.\n")
    res = common.coq_eval("c05d", pre, exprs, shard=4)
    dis = []
    for (lab, ev, bur, nv), r in zip(meta, res):
        me, mw, mn = genval.decode_fout(r[0]), genval.decode_fout(r[1]), r[2][1]
        if genval.bits(me) != genval.bits(ev) or genval.bits(mw) != genval.bits(bur) or mn != nv:
            dis.append({"group": lab, "impl": [ev, bur, nv], "model": [me, mw, mn]})
    chk.corr_stats["radial_volume_desolvation ~ desolv_loop + generated slices (Coq binary64)"] = {"groups": len(meta), "disagreements": len(dis)}
    chk.cov["traces_validated_against_impl"] += len(meta)
    return dis


def corr_iterative(chk, cases):
    """the iterative scheme of real runs (objects, interactions, pka_iter after every sweep) vs model/Iterative.v in binary64"""
    import propka.iterative as I
    exprs, meta = [], []
    for name, text in cases:
        rec = {"objs": [], "calls": []}
        orig_init, orig_add = I.Iterative.__init__, I.add_determinants

        def init(self, group, _o=orig_init):
            _o(self, group)
            rec["objs"].append(self)

        def add(iterative_interactions, version, _o=orig_add):
            start = len(rec["objs"])
            snap = [(it[0][0], it[0][1], float(it[1][0]), float(it[1][1]), (float(it[2][0]), float(it[2][1]))) for it in iterative_interactions]
            _o(iterative_interactions, version)
            rec["calls"].append((snap, rec["objs"][start:], list(version.parameters.exclude_sidechain_interactions)))
        I.Iterative.__init__, I.add_determinants = init, add
        try:
            import propka.determinants as D
            saved = D.propka.iterative.add_determinants
            structures.run(text)
        finally:
            I.Iterative.__init__, I.add_determinants = orig_init, orig_add
        for ci, (snap, objs, excl) in enumerate(rec["calls"]):
            if not objs:
                continue

            def index_of(g):
                for k, o in enumerate(objs):
                    if o.group == g:
                        return k
                return None
            ol = "[" + "; ".join(f"mk_obj {fx(float(o.q))} {fx(o.pka_noniterative)} {fx(o.pka_noniterative)} {'true' if o.res_name in excl else 'false'}" for o in objs) + "]"
            il = "[" + "; ".join(f"mk_inter {index_of(a)}%nat {index_of(b)}%nat {fx(hb)} {fx(co)} ({fx(an[0])}, {fx(an[1])})" for a, b, hb, co, an in snap) + "]"
            exprs.append(f"map (map fout) (run_iterative {ol} {il})")
            meta.append((f"{name} call {ci}", [[float(x) for x in o.pka_iter] for o in objs], [o.label for o in objs]))
    pre = ("From Coq Require Import ZArith List PrimFloat.\nFrom V Require Import Num FloatIO DetsGen Iterative.\nImport ListNotations.\nOpen Scope float_scope.\n")
    res = common.coq_eval("c05i", pre, exprs, shard=2)
    dis = []
    nobj = nsweep = 0
    for (name, real, labels), r in zip(meta, res):
        model = [[genval.decode_fout(t) for t in row] for row in r]
        nobj += len(real)
        nsweep = max(nsweep, max((len(x) for x in real), default=1) - 1)
        if [[genval.bits(v) for v in row] for row in model] != [[genval.bits(v) for v in row] for row in real]:
            k = next((i for i, (a, b) in enumerate(zip(model, real)) if [genval.bits(v) for v in a] != [genval.bits(v) for v in b]), None)
            dis.append({"case": name, "object": labels[k] if k is not None else "count", "impl_pka_iter": real[k] if k is not None else len(real),
                        "model_pka_iter": model[k] if k is not None else len(model)})
    chk.corr_stats["iterative scheme (pka_iter of every object after every sweep) ~ model/Iterative.v (Coq binary64)"] = {
        "calls": len(meta), "objects": nobj, "max_sweeps": nsweep, "disagreements": len(dis)}
    chk.cov["traces_validated_against_impl"] += len(meta)
    return dis


# ------------------------------------------------------------------------------------------------ search
def relabel(text, chainmap, serial0):
    """chain ids renamed by chainmap (dict), serial numbers renumbered from serial0 (kept within 5 columns)"""
    out = []
    n = serial0
    for l in text.splitlines():
        if structures.is_atom(l):
            n += 1
            l = l[:6] + f"{n:>5d}" + l[11:21] + chainmap.get(l[21], l[21]) + l[22:]
            out.append(l)
        elif l[:3] == "TER":
            out.append("TER   ")
    return out


def separated(a_text, b_text, gap, axis):
    """B translated so that the gap between the bounding boxes along `axis` is `gap`; returns moved B text"""
    ba, bb = structures.bbox(a_text), structures.bbox(b_text)
    sh = [0.0, 0.0, 0.0]
    sh[axis] = round(ba[axis][1] - bb[axis][0] + gap, 3)
    return structures.move(b_text, None, tuple(sh)), sh


def by_label(rec):
    out = {}
    for c, gs in rec.items():
        for g in gs:
            out.setdefault((c, g["label"], g["type"]), []).append(g)
    return out


def compare_part(alone, combined, chains):
    """records of the groups of `chains` in the combined run vs the alone run (exact)"""
    diffs = []
    for c in alone:
        ga = [g for g in alone[c]]
        gc = [g for g in combined.get(c, []) if g["label"][-1] in chains]
        if len(ga) != len(gc):
            diffs.append((c, "number of groups", len(ga), len(gc)))
            continue
        for x, y in zip(ga, gc):
            for k in x:
                if not structures._eq(x[k], y.get(k), 0.0):
                    diffs.append((c, x["label"], k, x[k], y.get(k)))
    return diffs


def run(chk: common.Check):
    common.impl_setup()
    rng = chk.rng
    missing = [(m, f) for m, fs in NEEDED.items() for f in fs if f in gen.GEN_ERRORS or f not in gen.MODULES[m].funcs]
    proved, sdis, ddis, idis, inf_start = False, [], [], [], True
    if missing:
        why = gen.GEN_ERRORS.get(missing[0][1], "not generated")
        chk.obligations.append((f"translate {missing[0][1]}", False, why))
        chk.broken_obligation = {"where": "py2coq", "function": missing[0][1], "log_tail": why}
    else:
        proved = chk.prove()
        sdis, inf_start = corr_smallest(chk, rng, 400 if chk.thorough else 150)
        chk.obligations.append(("calculations.MAX_DISTANCE is float('inf') (hypothesis `None` of C05_smallest_distance_always_finds_a_pair)", inf_start, ""))
        mol, _ = structures.run(structures.read("3SGB-subset.pdb"))
        ddis = corr_desolvation(chk, mol, 10 if chk.thorough else 4)
        idis = corr_iterative(chk, [("1HPX", structures.read("1HPX.pdb")), ("carboxylate triangle", (DATA / "carboxylate_triangle.pdb").read_text() + "END\n"),
                                    ("3SGB-subset", structures.read("3SGB-subset.pdb"))]
                              + ([("4DFR", structures.read("4DFR.pdb")), ("1FTJ-Chain-A", structures.read("1FTJ-Chain-A.pdb"))] if chk.thorough else []))

    found = []
    S = lambda n: "\n".join(l for l in structures.read(n).splitlines() if structures.is_atom(l) or l[:3] == "TER") + "\n"
    tri = (DATA / "carboxylate_triangle.pdb").read_text()
    pairs = [("3SGB-subset", S("3SGB-subset.pdb"), {"E": "E", "I": "I"}, "sample-issue-140", S("sample-issue-140.pdb"), {"A": "P"}),
             ("1HPX", S("1HPX.pdb"), {"A": "A", "B": "B"}, "carboxylate triangle", tri, {"Q": "Q"}),
             ("3SGB-subset", S("3SGB-subset.pdb"), {"E": "E", "I": "I"}, "its own copy", S("3SGB-subset.pdb"), {"E": "F", "I": "J"})]
    if chk.thorough:
        pairs += [("1FTJ-A", S("1FTJ-Chain-A.pdb"), {"A": "A"}, "carboxylate triangle", tri, {"Q": "Q"}),
                  ("3SGB", S("3SGB.pdb"), {"E": "E", "I": "I"}, "carboxylate triangle", tri, {"Q": "Q"}),
                  ("1HPX", S("1HPX.pdb"), {"A": "A", "B": "B"}, "3SGB-subset", S("3SGB-subset.pdb"), {"E": "E", "I": "I"})]
    # 4DFR: the two DHFR/MTX complexes as separate parts, both ligands written with chain id L (residue numbers differ)
    t4 = structures.read("4DFR.pdb")
    partA = "\n".join(l for l in t4.splitlines() if structures.is_atom(l) and l[21] == "A" and l[16] in " A" and l[17:20] != "HOH") + "\n"
    partB = "\n".join(l for l in t4.splitlines() if structures.is_atom(l) and l[21] == "B" and l[16] in " A" and l[17:20] != "HOH") + "\n"

    def lig_L(t):
        return "\n".join((l[:21] + "L" + l[22:]) if l[:6] == "HETATM" else l for l in t.splitlines()) + "\n"
    pairs.append(("4DFR complex A (ligand chain L)", lig_L(partA), {}, "4DFR complex B (ligand chain L)", lig_L(partB), {}))

    # two parts with alternate locations: alternate-location labels (hence conformations) are global to the file
    pairs.append(("conf-alt-AB", S("conf-alt-AB.pdb"), {" ": "A", "A": "A"}, "conf-alt-BC", S("conf-alt-BC.pdb"), {" ": "B", "A": "B"}))
    # a far part whose own iterative solution needs several sweeps, next to the sweep-limit cluster
    pairs.append(("4DFR complex A", partA, {"A": "A"}, "carboxylate triangle", tri, {"Q": "Q"}))
    # coupled systems (N+ 7 I / ASP 7 I) in both parts, with their common charge centre switched on in the parameter file
    from props.c02 import cfg_variant
    ccc_cfg = cfg_variant(common_charge_centre=1)
    chain_i = "\n".join(l for l in S("3SGB.pdb").splitlines() if structures.is_atom(l) and l[21] == "I" and l[:6] == "ATOM  ") + "\n"
    pairs.append(("3SGB chain I", chain_i, {"I": "I"}, "its own copy", chain_i, {"I": "J"}, {"opts": ["-p", ccc_cfg], "tag": " (common_charge_centre 1)"}))
    # the first part ends without its terminal oxygen and the parts are separated by a bare, unpadded TER record
    no_oxt = "\n".join(l for l in chain_i.splitlines() if l[12:16].strip() != "OXT") + "\n"
    pairs.append(("3SGB chain I without OXT", no_oxt, {"I": "I"}, "3SGB chain I", chain_i, {"I": "J"}, {"sep": "TER", "tag": " (bare TER between the parts)"}))
    # parts written one after the other with NO record between them: the first part ends with its hetero group (after its own TER), the other
    # one with a terminal oxygen; the chain starts are still defined (C01)
    pairs.append(("1HPX", S("1HPX.pdb"), {"A": "A", "B": "B"}, "3SGB chain I", chain_i, {"I": "I"}, {"sep": None, "tag": " (no record between the parts)"}))
    # two complete entries written one after the other: an END record (after the TER) between the parts
    pairs.append(("1HPX", S("1HPX.pdb"), {"A": "A", "B": "B"}, "3SGB chain I", chain_i, {"I": "I"}, {"sep": "TER   \nEND", "tag": " (END record between the parts)"}))
    # a part that sits on the coordinate origin (1HPX as deposited) and a far part with side chains cut back to their group-defining atoms
    trunc, tdesc = structures.truncated_side_chains(S("3SGB-subset.pdb"))
    pairs.append(("1HPX", S("1HPX.pdb"), {"A": "A", "B": "B"}, "3SGB-subset with truncated side chains", trunc, {"E": "E", "I": "I"}))
    gaps = [25.5, 60.0, 1200.0] + ([26.0, 300.0, 5000.0] if chk.thorough else [])
    for na, ta, ma, nb, tb, mb, *extra in pairs:
        extra = extra[0] if extra else {}
        opts, sep = extra.get("opts", []), extra.get("sep", "TER   ")
        nb = nb + extra.get("tag", "")
        la = "\n".join(relabel(ta, ma, 0)) + "\n"
        lb0 = "\n".join(relabel(tb, mb, 20000)) + "\n"
        chains_a = set(l[21] for l in structures.atom_lines(la))
        chains_b = set(l[21] for l in structures.atom_lines(lb0))
        shared = (chains_a & chains_b) - {"L"}
        if shared:
            continue
        try:
            ra = structures.records(structures.run(la + "END\n", opts)[0])
        except Exception as ex:   # noqa: BLE001
            found.append(("crash-alone", f"{na}: {type(ex).__name__}: {ex}", {"case": na}))
            continue
        for gap in (gaps if ("4DFR" not in na and "truncated" not in nb and "between the parts" not in nb) else gaps[1:2]):   # one gap for the (slower) 4DFR pairs
            axis = rng.randrange(3)
            lb, sh = separated(la, lb0, gap, axis)
            try:
                rb = structures.records(structures.run(lb + "END\n", opts)[0])
            except Exception as ex:   # noqa: BLE001
                found.append(("crash-alone", f"{nb} moved by {sh}: {type(ex).__name__}: {ex}", {"case": nb, "shift": sh}))
                continue
            seps = f"\n{sep}\n" if sep is not None else "\n"
            for order, text in (("A then B", la.rstrip("\n") + seps + lb + "END\n"), ("B then A", lb.rstrip("\n") + seps + la + "END\n")):
                what = f"{na} + {nb}, gap {gap} A along axis {axis}, {order}"
                rep = {"case": what, "gap": gap, "axis": axis, "order": order, "options": [o if not o.startswith("/var/tmp") else "propka.cfg with common_charge_centre 1" for o in opts], "pdb_text": text if len(text) < 400000 else None}
                try:
                    rc = structures.records(structures.run(text, opts)[0])
                except Exception as ex:   # noqa: BLE001
                    found.append((f"crash-combined:{type(ex).__name__}", f"{what}: {type(ex).__name__}: {ex} (each part alone is processed)", rep))
                    continue
                chk.count(1, key=("combined", na, nb, gap, order))
                if "4DFR" in na and "4DFR" in nb:
                    # parts share the ligand chain id: compare protein chains by chain id and ligands by residue membership through order
                    da = [d for d in compare_part({c: [g for g in gs if g["label"][-1] == "A"] for c, gs in ra.items()}, rc, {"A"})]
                    db = [d for d in compare_part({c: [g for g in gs if g["label"][-1] == "B"] for c, gs in rb.items()}, rc, {"B"})]
                else:
                    da = compare_part(ra, rc, chains_a)
                    db = compare_part(rb, rc, chains_b)
                for part, d in ((na, da), (nb, db)):
                    if d:
                        found.append(("far-part-changes-results" + (":alternate-locations-are-file-global" if "conf-alt" in na else ":shared-ligand-chain" if ("4DFR" in na and "4DFR" in nb) else (":sweep-limit-cluster" if "triangle" in nb else "")),
                                      f"{what}: {len(d)} results of {part} differ from processing it alone, e.g. {d[0][1:]}",
                                      dict(rep, differences=[list(map(str, x)) for x in d[:6]])))
                        break
    os.unlink(ccc_cfg)
    chk.sample({"pairs": [(p[0], p[3]) for p in pairs], "gaps": gaps})
    uniq = {}
    for sig, what, rep in found:
        uniq.setdefault(sig, (sig, what, rep))
    found = list(uniq.values())
    gv = getattr(chk, "_genval_dis", [])
    if missing or not proved or not inf_start:
        name = "props/C05.v" if (not missing and inf_start) else (f"translation of {missing[0][1]}" if missing else "hypothesis MAX_DISTANCE = inf of C05_smallest_distance_always_finds_a_pair")
        chk.broken("proof", name, getattr(chk, "broken_obligation", None) or {"MAX_DISTANCE": "finite"}, search_fn=lambda: found)
    elif sdis or ddis or idis or gv:
        chk.broken("correspondence", "model/Locality.v ~ get_smallest_distance / radial_volume_desolvation; model/Iterative.v ~ iterative.add_determinants",
                   {"smallest": sdis[:3], "desolvation": ddis[:3], "iterative": idis[:3], "genval": gv[:2]}, search_fn=lambda: found)
    else:
        for sig, what, rep in found:
            chk.finding(sig, what, rep)
    return chk.finish(
        level="proof",
        rule=("obligations = theorems of coq/props/C05.v + the hypothesis that the start value of get_smallest_distance is infinite (read from the "
              "module). Tie: Locality.v evaluated in binary64 vs get_smallest_distance (far pairs included) and vs energy_volume / buried / num_volume "
              "of real groups. Search: alone vs combined, both orders, gaps 25.5 A .. 5000 A (spans > 1000 A), exact comparison of every group "
              "record; pairs incl. own copy, ligand copies sharing chain id L, sweep-limit cluster. distinct = (pair, gap, order)"
              " Added in rounds 4-6: common_charge_centre 1 with coupled systems in both parts, bare TER / no record / END record between the parts, a part on the origin next to truncated side chains."),
        assumptions=["C05_cluster_independent_of_other_cluster assumes that a converged cluster, swept again, stays converged with the same results and that "
                     "sweeps act cluster-wise; both are exercised by the search (sweep-limit cluster forces 10 sweeps on everything), not proved",
                     "which group pairs are visited at all (set_determinants, set_backbone_determinants loops) is covered by the search"],
        trusted=["py2coq translator (validated)", "model/Locality.v hand model (validated each run)", "stdlib real-number axioms"])
