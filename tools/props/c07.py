"""C07 — unused content has no effect.  Theorems: coq/props/C07.v (parser model + attribute-reader inventory).
Tie: parser correspondence, inventory regenerated each run.  Search: edited vs original inputs through the full pipeline under
{default, --protonate-all, --keep-protons}; protonate-all vs default; round trip of the program's own hydrogens."""
from vlib import common, structures, parsecorr as PC, tables

MODES = {"default": [], "protonate-all": ["--protonate-all"], "keep-protons": ["--keep-protons"]}


def pkas(rec):
    """(label, pka, model) per conformation - what 'any reported value' means for protonate-all"""
    return {c: [(g["label"], g["pka"], g["model_pka"], g["vol"], g["loc"], g["buried"], g["dets"]) for g in gs] for c, gs in rec.items()}


def with_own_hydrogens(text, opts=()):
    """original lines with the hydrogens the program built inserted after their parent atom"""
    mol, _ = structures.run(text, list(opts))
    conf = mol.conformations[mol.conformation_names[0]]
    hs = {}
    for a in conf.atoms:
        if a.element != "H":
            kids = [b for b in a.bonded_atoms if b.element == "H"]
            if kids:
                hs[(a.chain_id, a.res_num, a.icode if a.icode else " ", a.name)] = kids
    out = []
    nh = 0
    for l in text.splitlines():
        out.append(l)
        if structures.is_atom(l) and len(l) >= 54:
            key = (l[21].strip() or "_", int(l[22:26]), l[26], l[12:16].strip())
            for h in hs.get(key, []):
                nm = h.name if len(h.name) >= 4 else " " + h.name.ljust(3)
                out.append(structures.set_xyz(l[:12] + nm[:4] + l[16:], h.x, h.y, h.z))
                nh += 1
    return "\n".join(out) + "\n", nh


def edits(rng, text):
    """(description, edited text) pairs that must not change any result"""
    lines = text.splitlines()
    atom_idx = [i for i, l in enumerate(lines) if structures.is_atom(l) and len(l) >= 54]
    out = []
    # junk records
    junk = list(lines)
    for _ in range(12):
        i = rng.randrange(len(junk))
        src = junk[rng.choice(atom_idx) % len(junk)]
        junk.insert(i, rng.choice(["REMARK 465 junk", "ANISOU" + src[6:], "CONECT    1    2", "SIGATM" + src[6:], "HETNAM     XXX JUNK", "",
                                   "SEQRES   1 A   10  ALA ALA", "MASTER", "atom  " + src[6:], "ENDMDL", "END", "END   "]))
    # ... and one END record early in the file (concatenated files carry END records between their parts)
    junk.insert(atom_idx[len(atom_idx) // 3], "END")
    out.append(("junk records (REMARK, ANISOU, CONECT, MASTER, END, ... anywhere)", "\n".join(junk) + "\n"))
    # waters / ignorable residues: HETATM and ATOM tagged, also at the very start and right after TER
    wat = list(lines)
    w = lambda tag, rn, k: f"{tag}{9000 + k:>5d}  O   {rn} W{900 + k:>4d}    {10.0 + k:8.3f}{5.0:8.3f}{-3.0:8.3f}  1.00 20.00"
    ters = [i for i, l in enumerate(wat) if l.startswith("TER")]
    pos = sorted(set([atom_idx[0]] + [t + 1 for t in ters] + [rng.choice(atom_idx) for _ in range(4)]), reverse=True)
    for k, p in enumerate(pos):
        src = wat[min(p, len(wat) - 1)]
        ch = src[21] if structures.is_atom(src) and len(src) > 21 else "A"
        for tag in ("ATOM  ", "HETATM"):        # both spellings at every chosen position (chain starts included)
            line = w(tag, rng.choice(["HOH", "SO4", "H2O", "PEG"]), 2 * k + (tag == "ATOM  "))
            line = line[:21] + ch + line[22:]
            wat.insert(p, line)
    out.append(("ignorable residues inserted (incl. ATOM-tagged, at chain starts)", "\n".join(wat) + "\n"))
    # ignorable residues carrying chain identifiers of their own (W, blank), written between two residues of one protein chain
    wat2 = list(lines)
    starts = [i for i in atom_idx if lines[i][12:16].strip() == "N" and lines[i][:6] == "ATOM  " and i > atom_idx[0]]
    for k, p in enumerate(sorted(rng.sample(starts, min(5, len(starts))), reverse=True)):
        for tag, ch in (("HETATM", "W"), ("ATOM  ", " "), ("HETATM", "Z")):
            line = w(tag, rng.choice(["HOH", "SO4"]), 3 * k + len(ch.strip()) + (tag == "ATOM  "))
            wat2.insert(p, line[:21] + ch + line[22:])
    out.append(("ignorable residues with chain identifiers of their own between the residues of a chain", "\n".join(wat2) + "\n"))
    # connectivity annotations (SSBOND / LINK / CISPEP) naming residues of the structure: bonds come from the coordinates only
    cys = [l for l in lines if structures.is_atom(l) and l[17:20] == "CYS" and l[12:16].strip() == "SG"]
    ann = list(lines)
    far = None
    for a_ in cys:
        for b_ in cys:
            pa, pb = [float(v) for v in structures.get_xyz(a_)], [float(v) for v in structures.get_xyz(b_)]
            if sum((x - y) ** 2 for x, y in zip(pa, pb)) > 36.0:
                far = (a_, b_)
                break
        if far:
            break
    any2 = [l for l in lines if structures.is_atom(l) and l[12:16].strip() == "CA"][:2]
    recs = []
    if far:
        recs.append("SSBOND   1 CYS %s %4s%s   CYS %s %4s%s" % (far[0][21], far[0][22:26], far[0][26], far[1][21], far[1][22:26], far[1][26]))
    if len(any2) == 2:
        recs.append("LINK         CA  %s %s%4s                 CA  %s %s%4s" % (any2[0][17:20], any2[0][21], any2[0][22:26], any2[1][17:20], any2[1][21], any2[1][22:26]))
        recs.append("CISPEP   1 %s %s %4s   %s %s %4s          0         0.00" % (any2[0][17:20], any2[0][21], any2[0][22:26], any2[1][17:20], any2[1][21], any2[1][22:26]))
    out.append(("SSBOND / LINK / CISPEP records naming residues of the structure (the named cysteines are 6 A or more apart)", "\n".join(recs + ann) + "\n"))
    # column noise: serial (decimal + hybrid-36, also duplicates), occupancy, B-factor, element, charge
    noise = list(lines)
    k = 0
    for i in atom_idx:
        l = noise[i].ljust(80)
        k += 1
        ser = rng.choice([f"{(k * 7) % 99999:>5d}", "A%04d" % (k % 10000), "    7", f"{len(atom_idx) - k:>5d}"])
        noise[i] = l[:6] + ser + l[11:54] + rng.choice(["  0.50", "  1.00", "      ", "  0.00"]) + rng.choice([" 99.99", "  0.00", "      "]) \
            + "          " + rng.choice([" X", "ZN", "  ", " H"]) + rng.choice(["1+", "  ", "2-"])
    out.append(("serial / occupancy / B-factor / element / charge columns rewritten", "\n".join(noise) + "\n"))
    return out


def run(chk: common.Check):
    common.impl_setup()
    rng = chk.rng
    if tables.TABLE_ERRORS:
        chk.obligations.append(("extract inventory", False, str(tables.TABLE_ERRORS)))
        chk.broken_obligation = {"where": "tables.py", "log_tail": str(tables.TABLE_ERRORS)}
        proved = False
    else:
        proved = chk.prove()

    # ---------------------------------------------------------------- parser correspondence (editors relevant to C07)
    cases = []
    base_small = [structures.read(n) for n in ("conf-alt-AB.pdb", "conf-model-mutant.pdb", "sample-issue-140.pdb", "1HPX-warn.pdb")]
    frag = structures.fragment(structures.read("1HPX.pdb"), 0, 14)
    base_small.append(frag)
    for t in base_small:
        for d, e in edits(rng, t):
            cases.append((e, PC.IGNORE, False, None))
            cases.append((e, PC.IGNORE, True, None))
    for _ in range(60 if chk.thorough else 20):
        t = rng.choice(base_small)
        for _ in range(rng.randint(1, 2)):
            t, d = PC.mutate(rng, t)
        cases.append((t, PC.IGNORE, rng.random() < 0.4, None))
    tmpl = "ATOM      1 %s ALA A   1      11.000  12.000  13.000  1.00  0.00\n"
    names4 = [" N  ", " CA ", " H  ", " HA ", "1HB ", "2HG1", "HG11", "HG23", "HH12", "HE21", " HG ", "HG  ", "CL  ", "CL12", "FE  ", "BR1 ", "1H  ", " D  ",
              "H   ", "HO5'", " OXT", "NA  ", " NA ", "ZN  ", "1234", "12  ", "    ", " H1 ", "HD11", " HD1", "H11 "]
    for nm in names4:
        for keep in (False, True):
            cases.append((tmpl % nm + (tmpl % " CA ").replace("    1 ", "    2 ", 1), PC.IGNORE, keep, None))
    dis = PC.run_cases(chk, cases, tag="c07")
    for c in cases:
        chk.count(1, key=("parse", hash(c[0]) % 10 ** 9, c[2]))

    # ---------------------------------------------------------------- search: full pipeline
    found = []
    names = ["3SGB-subset.pdb", "1HPX.pdb"] + (["1FTJ-Chain-A.pdb", "4DFR.pdb", "3SGB.pdb"] if chk.thorough else [])
    hwf_exprs, hwf_meta = [], []
    for name in names:
        text = structures.read(name)
        base = {m: structures.results(text, o) for m, o in MODES.items()}
        # protonate-all must not change any pKa (nor any other reported number)
        if pkas(base["protonate-all"]) != pkas(base["default"]):
            found.append(("protonate-all-changes-results", f"{name}: --protonate-all changes reported values: {structures.diff(base['default'], base['protonate-all'])[:3]}",
                          {"pdb": name, "differences": structures.diff(base["default"], base["protonate-all"])[:6]}))
        chk.count(1, key=("protonate-all", name))
        for desc, edited in edits(rng, text):
            for m, o in MODES.items():
                try:
                    r = structures.results(edited, o)
                except Exception as ex:
                    r = {"exception": type(ex).__name__}
                chk.count(1, key=("edit", name, desc, m))
                if r != base[m]:
                    d = structures.diff(base[m], r)[:4] if "exception" not in r else r
                    found.append((f"edit-changes-results:{desc.split(' ')[0]}", f"{name} [{m}]: {desc} changed the results: {d}",
                                  {"pdb": name, "mode": m, "edit": desc, "differences": d}))
        # hydrogens in the input are stripped (default, protonate-all); with keep-protons the program's own hydrogens reproduce the results
        prot = "\n".join(l for l in text.splitlines() if not (l[:6] == "HETATM" and l[17:20] not in PC.IGNORE)) + "\n"   # amino-acid part
        base_p = {m: structures.results(prot, o) for m, o in MODES.items()}
        hyd, nh = with_own_hydrogens(prot)
        chk.notes.append(f"{name}: {nh} program-built hydrogens re-inserted")
        hyd_all, nh_all = with_own_hydrogens(prot, ["--protonate-all"])       # every hydrogen, incl. 4-character names (HG11, HH12, ...)
        chk.notes.append(f"{name}: {nh_all} hydrogens of a --protonate-all run re-inserted")
        for m in ("default", "protonate-all"):
            r = structures.results(hyd_all, MODES[m])
            chk.count(1, key=("hydrogens-stripped", name, m))
            if r != base_p[m]:
                found.append(("input-hydrogens-change-results", f"{name} [{m}]: hydrogens present in the input changed the results: {structures.diff(base_p[m], r)[:3]}",
                              {"pdb": name, "mode": m, "differences": structures.diff(base_p[m], r)[:6]}))
        r = structures.results(hyd, MODES["keep-protons"], sort_dets=True)
        ref = structures.results(prot, [], sort_dets=True)
        chk.count(1, key=("keep-protons-round-trip", name))
        d = structures.diff(ref, r, tol=1e-9)
        d = [x for x in d if x[2] not in ("nvol",)] if False else d
        if d:
            found.append(("keep-protons-round-trip", f"{name}: feeding the program's own hydrogens back with --keep-protons changes results: {d[:3]}",
                          {"pdb": name, "differences": d[:6]}))
        # is the hydrogen theorem applicable to this input?  (hwf evaluated by the model)
        if len(hyd) < 400000:
            small = structures.fragment(hyd, 0, 25)
            hwf_exprs.append(f"[if hwf {PC.coq_opts(PC.IGNORE, False, None)} st0 {PC.coq_lines(small)} then 1 else 0; "
                             f"Z.of_nat (length (filter (is_h_record {PC.coq_opts(PC.IGNORE, False, None)}) {PC.coq_lines(small)}))]")
            hwf_meta.append(name)
    if hwf_exprs:
        pre = PC.PRE.replace("From V Require Import PyString PdbParse.", "From V Require Import PyString PdbParse InertProofs.")
        res = common.coq_eval("c07hwf", pre, hwf_exprs, shard=2)
        chk.cov["hydrogen_theorem_applicability"] = [{"input": n + " (first 26 residues, own hydrogens)", "hwf": bool(r[0]), "hydrogen_records": r[1]}
                                                     for n, r in zip(hwf_meta, res)]
    chk.sample({"edit": "serial / occupancy / B-factor / element / charge columns rewritten", "structure": names[0], "modes": list(MODES)})

    uniq = {}
    for sig, what, rep in found:
        uniq.setdefault(sig, (sig, what, rep))
    found = list(uniq.values())
    if dis:
        chk.broken("correspondence", "PdbParse model ~ get_atom_lines_from_pdb", {"disagreements": dis[:4]}, search_fn=lambda: found)
    elif not proved:
        chk.broken("proof", "props/C07.v", chk.broken_obligation, search_fn=lambda: found)
    else:
        for sig, what, rep in found:
            chk.finding(sig, what, rep)
    return chk.finish(
        level="proof",
        rule=("obligations = theorems of coq/props/C07.v (parser model: all files, all states; inventory of every read of numb/occ/beta in "
              "propka/*.py). Correspondence: parser on edited small inputs and mutations. Search: junk records, ignorable residues (HETATM/ATOM "
              "tagged, at chain starts), rewritten serial/occupancy/B/element/charge columns, re-inserted hydrogens, under default / "
              "--protonate-all / --keep-protons; protonate-all vs default; keep-protons round trip. distinct = (structure, edit, mode)"
              " Added in rounds 5-6: END records inside the file, ignorable residues with chain identifiers of their own between residues, SSBOND / LINK / CISPEP records."),
        assumptions=["serial fields stay valid hybrid-36 (otherwise ValueError, as the theorem states)",
                     "hydrogen records arrive in a harmless parser state (hwf; evaluated by the model on the inputs used)",
                     "protonate-all and the keep-protons round trip are decided by the end-to-end search only (partial)"],
        trusted=["model/PdbParse.v hand model (validated each run)", "tools/vlib/tables.py inventory extractor"])
