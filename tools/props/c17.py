"""C17 — added hydrogens are chemically placed and complete.  Theorems: coq/props/C17.v (over the regenerated Vector.orthogonal,
Vector.rescale, Vector arithmetic and rotate_vector_around_an_axis).
Tie: regeneration + bit-exact validation of those functions against propka.vector_algebra.
Search: audit of every hydrogen the program adds (one heavy parent, tabulated length, siblings >= 0.5 A apart, not sitting on another heavy
atom, full complement for complete residues, no 'failed protonation' warning for them) on real structures in many orientations, incl. poses
in which a bond of a protonated atom lies exactly along +-x, +-y, +-z, with and without --protonate-all; and the hydrogen set mapped back
to the first pose must agree within coordinate rounding."""
import math
from decimal import Decimal

from vlib import common, gen, genval, structures
from props import c04

NEEDED = {"VecGen": ["Vector.orthogonal", "Vector.rescale", "rotate_vector_around_an_axis", "Vector.__add__", "Vector.__sub__", "Vector.__neg__", "Vector.cross"]}
FULL = {"ARG": 5, "ASN": 2, "GLN": 2, "TRP": 1}
LEN_TOL = 0.0025        # rounding of three coordinates to 0.001 A (+ float noise)
POS_TOL = 0.0035        # two independently rounded frames


def pose_with_bond_along(text, key_a, key_b, direction):
    """rigid re-orientation + snap so that atoms a->b lie EXACTLY along `direction` (+-unit axis): equal in the other two coordinates"""
    pa = pb = None
    for l in structures.atom_lines(text):
        k = (l[21], int(l[22:26]), l[12:16].strip())
        if k == key_a:
            pa = tuple(float(v) for v in structures.get_xyz(l))
        if k == key_b:
            pb = tuple(float(v) for v in structures.get_xyz(l))
    if pa is None or pb is None:
        return None
    u = [pb[i] - pa[i] for i in range(3)]
    mat = c04.align(u, direction)
    ax = [i for i in range(3) if direction[i] == 0]
    posed = c04.pose_float(text, mat)
    # snap: b gets a's coordinates on the two perpendicular axes
    la = next(l for l in structures.atom_lines(posed) if (l[21], int(l[22:26]), l[12:16].strip()) == key_a)
    xa = structures.get_xyz(la)

    def f(l):
        if (l[21], int(l[22:26]), l[12:16].strip()) == key_b:
            p = list(structures.get_xyz(l))
            for i in ax:
                p[i] = xa[i]
            return structures.set_xyz(l, *p)
        return l
    return structures.map_atoms(posed, f)


# the tabulated X-H bond lengths (Angstrom) - an independent copy: hydrogens are measured against THESE, and the program's own table is compared with them
REF_BOND_LENGTHS = {"C": 1.09, "N": 1.01, "O": 0.96, "F": 0.92, "Cl": 1.27, "Br": 1.41, "I": 1.61, "S": 1.35}


def audit(tag, mol, warns, found, rep, complete_res):
    bl = REF_BOND_LENGTHS
    nh = 0
    irregular = set()     # residues whose donors do not have their regular number of bonded heavy atoms (distorted geometry: outside the claim)
    for cname in mol.conformation_names:
        conf = mol.conformations[cname]
        heavy = [a for a in conf.atoms if a.element != "H"]
        for h in conf.atoms:
            if h.element != "H":
                continue
            nh += 1
            hp = [b for b in h.bonded_atoms if b.element != "H"]
            who = f"{tag}/{cname} {h.name} of {h.res_name}{h.res_num}{h.chain_id}"
            if len(hp) != 1 or len(h.bonded_atoms) != 1:
                found.append(("hydrogen-parents", f"{who}: bonded to {[b.name for b in h.bonded_atoms]}", rep))
                continue
            p = hp[0]
            d = math.dist((h.x, h.y, h.z), (p.x, p.y, p.z))
            want = bl.get(p.element, 1.0)
            if abs(d - want) > LEN_TOL:
                found.append((f"hydrogen-bond-length:{p.element}", f"{who}: {d:.4f} A from {p.name}, tabulated {want}", rep))
            for s in p.bonded_atoms:
                if s is not h and s.element == "H" and math.dist((h.x, h.y, h.z), (s.x, s.y, s.z)) < 0.5:
                    found.append(("hydrogens-coincide", f"{who}: {math.dist((h.x, h.y, h.z), (s.x, s.y, s.z)):.3f} A from its sibling {s.name} on {p.name}", rep))
            for a in p.bonded_atoms:
                if a.element != "H" and math.dist((h.x, h.y, h.z), (a.x, a.y, a.z)) < 0.75:
                    found.append(("hydrogen-on-neighbour", f"{who}: {math.dist((h.x, h.y, h.z), (a.x, a.y, a.z)):.3f} A from {a.name}, the neighbour of its parent {p.name}", rep))
        # complements of complete residues
        by = {}
        for a in heavy:
            by.setdefault((a.chain_id, a.res_num, a.icode, a.res_name), []).append(a)
        for key, atoms in by.items():
            if key[:3] not in complete_res or atoms[0].type != "atom":
                continue
            rn = key[3]
            cnt = lambda names: sum(1 for a in atoms if a.name in names for b in a.bonded_atoms if b.element == "H")
            prot = lambda names: all(a.is_protonated for a in atoms if a.name in names)
            checks = []
            if rn == "ARG":
                checks.append((("NE", "NH1", "NH2"), 5))
            if rn == "HIS":
                checks.append((("ND1", "NE2"), 2))
            if rn == "ASN":
                checks.append((("ND2",), 2))
            if rn == "GLN":
                checks.append((("NE2",), 2))
            if rn == "TRP":
                checks.append((("NE1",), 1))
            if rn == "LYS":          # built under --protonate-all only (`prot` below is false otherwise): the ammonium group carries three hydrogens
                checks.append((("NZ",), 3))
            if rn != "PRO" and not any(a.terminal == "N+" for a in atoms):
                checks.append((("N",), 1))
            REG = {"N": 2, "NE": 2, "NH1": 1, "NH2": 1, "ND1": 2, "NE2": 2 if rn == "HIS" else 1, "ND2": 1, "NE1": 2, "NZ": 1}
            def regular(names):
                for a in atoms:
                    if a.name in names:
                        nbh = sum(1 for b in a.bonded_atoms if b.element != "H")
                        if nbh != REG.get(a.name, nbh):
                            return False
                return True
            if not regular(("N", "NE", "NH1", "NH2", "ND1", "NE2", "ND2", "NE1", "NZ")):
                irregular.add((key[0], key[1]))
                continue
            for names, want in checks:
                if prot(names) and cnt(names) != want:
                    found.append((f"incomplete-complement:{rn}:{'/'.join(names)}", f"{tag}/{cname} {rn}{key[1]}{key[0]}: {cnt(names)} hydrogens on {names}, expected {want}", rep))
    for w in warns:
        msg = w.getMessage() if hasattr(w, "getMessage") else str(w)
        if "Missing atoms or failed protonation" in msg:
            lab = msg.split("for ")[-1].split(" (")[0]
            try:
                key = (lab[-1], int(lab[3:7]))
            except ValueError:
                continue
            if any(k[0] == key[0] and k[1] == key[1] for k in complete_res) and key not in irregular:
                found.append(("failed-protonation-warning", f"{tag}: {msg.strip()} (residue is complete and has both chain neighbours)", rep))
    return nh


def corr_electrons(chk, mols):
    """number of hydrogens added and steric number of every protonated protein atom vs model/Electrons.v"""
    kinds = {}
    for tag, mol in mols:
        for cname in mol.conformation_names:
            for a in mol.conformations[cname].atoms:
                if a.type != "atom" or a.element == "H" or not a.is_protonated:
                    continue
                nh = sum(1 for b in a.bonded_atoms if b.element == "H")
                nb = len(a.bonded_atoms) - nh
                k = (a.element, a.res_name, a.name, a.terminal or "", nb)
                v = (nh, a.steric_number)
                if k in kinds and kinds[k][0] != v:
                    kinds[("dup", len(kinds)) + k] = (v, f"{tag}/{cname} {a}")
                else:
                    kinds.setdefault(k, (v, f"{tag}/{cname} {a}"))
    keys = list(kinds)
    oc = lambda s: "(of_codes [" + "; ".join(str(ord(c)) for c in s) + "]%Z)"
    exprs = []
    for k in keys:
        el, res, name, term, nb = k[-5:]
        exprs.append(f"[protons_to_add {oc(el)} {oc(res)} {oc(name)} {oc(term)} {nb}; steric_number {oc(el)} {oc(res)} {oc(name)} {oc(term)} {nb}]")
    pre = "From Coq Require Import String List ZArith.\nFrom V Require Import PyString Protonate_gen Electrons.\nImport ListNotations.\nOpen Scope Z_scope.\n"
    res = common.coq_eval("c17e", pre, exprs, shard=300)
    dis = []
    for k, r in zip(keys, res):
        (nh, st), where = kinds[k]
        want_h = max(r[0], 0) if r[1] in (3, 4) else 0      # hydrogens are only built for steric numbers 3 and 4, never a negative number
        if (nh, st) != (want_h, r[1]) and not (r[1] not in (3, 4) and st == r[1]):
            dis.append({"atom": where, "kind": [str(x) for x in k[-5:]], "impl": [nh, st], "model": r})
    chk.corr_stats["hydrogen count / steric number of protonated protein atoms ~ model/Electrons.v"] = {"distinct_atom_kinds": len(keys), "disagreements": len(dis)}
    chk.cov["traces_validated_against_impl"] += len(keys)
    return dis


def complete_residues(text):
    """(chain, num, icode) of ATOM residues with the full heavy-atom count whose chain neighbours (previous C, next N) are present"""
    from propka.lib import EXPECTED_ATOM_NUMBERS
    res = [r for r in structures.residues(text) if r["tag"] == "ATOM  "]
    lines = text.splitlines()
    out = set()
    for i, r in enumerate(res):
        names = [lines[j][12:16].strip() for j in r["lines"] if lines[j][76:78].strip() != "H" and not lines[j][12:16].strip().startswith("H")]
        if r["name"] not in EXPECTED_ATOM_NUMBERS or len(set(names)) != EXPECTED_ATOM_NUMBERS[r["name"]] or len(names) != len(set(names)):
            continue
        if i == 0 or i == len(res) - 1 or res[i - 1]["chain"] != r["chain"] or res[i + 1]["chain"] != r["chain"]:
            continue
        pj = [lines[j] for j in res[i - 1]["lines"] if lines[j][12:16].strip() == "C"]
        nj = [lines[j] for j in r["lines"] if lines[j][12:16].strip() == "N"]
        if not pj or not nj:
            continue
        if math.dist([float(v) for v in structures.get_xyz(pj[0])], [float(v) for v in structures.get_xyz(nj[0])]) > 1.6:
            continue
        out.add((r["chain"].strip() or "_", int(r["num"]), r["icode"]))
    return out


def hydrogens_in_frame(mol, inv):
    """{(chain, resnum, parent name): sorted positions mapped back with inv(p)}"""
    out = {}
    c = mol.conformations[mol.conformation_names[0]]
    for h in c.atoms:
        if h.element == "H" and h.bonded_atoms:
            p = h.bonded_atoms[0]
            if p.type != "atom":
                continue          # hetero groups: terminal rotatable hydrogens are frame dependent by design (C04)
            out.setdefault((p.chain_id, p.res_num, p.icode, p.name), []).append(inv((h.x, h.y, h.z)))
    return {k: sorted(v) for k, v in out.items()}


def run(chk: common.Check):
    common.impl_setup()
    rng = chk.rng
    missing = [(m, f) for m, fs in NEEDED.items() for f in fs if f in gen.GEN_ERRORS or f not in gen.MODULES[m].funcs]
    proved = False
    if missing:
        why = gen.GEN_ERRORS.get(missing[0][1], "not generated")
        chk.obligations.append((f"translate {missing[0][1]}", False, why))
        chk.broken_obligation = {"where": "py2coq", "function": missing[0][1], "log_tail": why}
    else:
        proved = chk.prove()
        import propka.vector_algebra as VA
        vec = lambda: rng.choice([{"x": round(rng.uniform(-3, 3), 3), "y": round(rng.uniform(-3, 3), 3), "z": round(rng.uniform(-3, 3), 3)},
                                  {"x": 0.0, "y": 0.0, "z": rng.choice([1.5, -1.47])}, {"x": rng.choice([1.2, -1.3]), "y": 0.0, "z": 0.0}, {"x": 0.0, "y": -1.1, "z": 0.0},
                                  {"x": 1.0, "y": 1.0, "z": 1.0}, {"x": 0.5, "y": -0.5, "z": 0.5}])
        V = lambda d: VA.Vector(d["x"], d["y"], d["z"])
        o = lambda r: {"x": r.x, "y": r.y, "z": r.z}
        genval.validate(chk, "VecGen", "Vector.orthogonal", lambda e: o(V(e["self"]).orthogonal()), [{"self": vec()} for _ in range(150)])
        genval.validate(chk, "VecGen", "Vector.rescale", lambda e: o(V(e["self"]).rescale(e["new_length"])),
                        [{"self": vec(), "new_length": rng.choice([1.0, 1.01, 0.96, 1.09, 1.35])} for _ in range(150)])
        genval.validate(chk, "VecGen", "rotate_vector_around_an_axis",
                        lambda e: o(VA.rotate_vector_around_an_axis(e["theta"], V(e["axis"]), V(e["vec"]))),
                        [{"theta": rng.choice([math.radians(120.0), math.radians(109.5), math.radians(90)]), "axis": vec(), "vec": vec()} for _ in range(200)])

    found = []
    rots = structures.rotations24()
    nh_total = 0

    emols = []

    def study(name, text, opts, nposes, axis_bonds=()):
        nonlocal nh_total
        comp = complete_residues(text)
        poses = [("as deposited", text, lambda p: p)]
        for ri in rng.sample(range(1, 24), nposes):
            R = rots[ri]
            inv = lambda p, R=R: tuple(sum(R[j][i] * p[j] for j in range(3)) for i in range(3))   # R^T p
            poses.append((f"rotation #{ri}", structures.move(text, R, (0, 0, 0)), inv))
        ref = None
        for what, t, inv in poses:
            rep = {"case": name, "pose": what, "options": opts, "pdb_text": t if len(t) < 250000 else None}
            try:
                mol, warns = structures.run(t, opts)
            except Exception as ex:   # noqa: BLE001
                found.append(("crash", f"{name} {what}: {type(ex).__name__}: {ex}", rep))
                continue
            chk.count(1, key=("pose", name, what, tuple(opts)))
            if what == "as deposited":
                emols.append((name, mol))
            nh_total += audit(f"{name} {what}", mol, warns, found, rep, comp)
            hs = hydrogens_in_frame(mol, inv)
            if ref is None:
                ref = hs
            else:
                for k in ref:
                    if (k[0], k[1], k[2]) not in comp:
                        continue      # a donor whose residue lacks a chain neighbour can be a free rotor (one bonded atom): frame dependent by design
                    a, b = ref[k], hs.get(k, [])
                    if len(a) != len(b):
                        found.append(("hydrogen-set-depends-on-orientation:count", f"{name} {what}: {len(b)} hydrogens on {k[3]} of {k[1]}{k[0]}, {len(a)} as deposited", rep))
                        break
                    # compare as sets (order of construction may differ): greedy matching
                    bb = list(b)
                    bad = False
                    for p in a:
                        j = min(range(len(bb)), key=lambda i: math.dist(p, bb[i])) if bb else None
                        if j is None or math.dist(p, bb[j]) > POS_TOL:
                            bad = True
                            break
                        bb.pop(j)
                    if bad and opts == [] and k[3] in ("N", "NE", "NH1", "NH2", "ND1", "NE2", "ND2", "NE1"):
                        found.append(("hydrogen-set-depends-on-orientation", f"{name} {what}: hydrogens on {k[3]} of {k[1]}{k[0]} at {b} (mapped back) vs {a}", rep))
                        break
        # a bond of a protonated atom exactly along each axis direction
        for (ka, kb) in axis_bonds:
            for direction in ([0, 0, 1], [0, 0, -1], [1, 0, 0], [0, -1, 0]) if not chk.thorough else ([0, 0, 1], [0, 0, -1], [1, 0, 0], [-1, 0, 0], [0, 1, 0], [0, -1, 0]):
                t = pose_with_bond_along(text, ka, kb, direction)
                if t is None:
                    continue
                rep = {"case": name, "pose": f"bond {ka}->{kb} along {direction}", "options": opts, "pdb_text": t if len(t) < 250000 else None}
                try:
                    mol, warns = structures.run(t, opts)
                except Exception as ex:   # noqa: BLE001
                    found.append(("crash", f"{name} bond {ka}->{kb} along {direction}: {type(ex).__name__}: {ex}", rep))
                    continue
                chk.count(1, key=("axis-bond", name, ka, tuple(direction), tuple(opts)))
                nh_total += audit(f"{name} bond {ka[2]}->{kb[2]} of {ka[1]}{ka[0]} along {direction}", mol, warns, found, rep, complete_residues(t))

    def one_neighbour_bonds(text, hetero, limit):
        """bonds X-Y where X has exactly one heavy neighbour and is an amine / hydroxyl / thiol type atom"""
        mol, _ = structures.run(text, ["--protonate-all"])
        c = mol.conformations[mol.conformation_names[0]]
        out = []
        for a in c.atoms:
            if a.element in ("N", "O", "S") and (a.type == "hetatm") == hetero:
                hv = [b for b in a.bonded_atoms if b.element != "H"]
                hs = [b for b in a.bonded_atoms if b.element == "H"]
                if len(hv) == 1 and hs:
                    out.append(((a.chain_id if a.chain_id != "_" else " ", a.res_num, a.name), (hv[0].chain_id if hv[0].chain_id != "_" else " ", hv[0].res_num, hv[0].name)))
        rng.shuffle(out)
        return out[:limit]

    t1 = structures.read("3SGB-subset.pdb")
    study("3SGB-subset", t1, [], 6 if chk.thorough else 3)
    study("3SGB-subset --protonate-all", t1, ["--protonate-all"], 2 if chk.thorough else 1, axis_bonds=one_neighbour_bonds(t1, False, 3 if chk.thorough else 2))
    # a planar side chain exactly in a coordinate plane, then ALL axis-permuting rotations (its plane normal visits +-x, +-y, +-z)
    prot = c04.protein_only(t1)
    for (ch, num) in [(l[21], int(l[22:26])) for l in structures.atom_lines(prot) if l[17:20] == "ARG" and l[12:16].strip() == "CZ"][: (2 if chk.thorough else 1)]:
        at = {l[12:16].strip(): tuple(float(v) for v in structures.get_xyz(l)) for l in structures.atom_lines(prot) if l[21] == ch and int(l[22:26]) == num}
        if all(k in at for k in ("NE", "CZ", "NH1", "NH2")):
            v1 = [at["NE"][i] - at["CZ"][i] for i in range(3)]
            v2 = [at["NH1"][i] - at["CZ"][i] for i in range(3)]
            nrm = [v1[1] * v2[2] - v1[2] * v2[1], v1[2] * v2[0] - v1[0] * v2[2], v1[0] * v2[1] - v1[1] * v2[0]]
            keys = {(ch, num, k) for k in ("NE", "CZ", "NH1", "NH2")}
            study(f"3SGB-subset protein, ARG {num}{ch} plane perpendicular to x", c04.pose_float(prot, c04.align(nrm, [1, 0, 0]), snap=(keys, 0)), [], 23)
    # hetero atoms of elements without an entry in the X-H bond-length table (the standard value 1.0 A applies)
    bb = structures.bbox(structures.read("sample-issue-140.pdb"))
    ox, oy, oz = bb[0][1] + 12.0, bb[1][1] + 12.0, bb[2][1] + 12.0
    lig = []
    for k, (el, nm, dv) in enumerate((("SE", "SE", (1.4, 1.1, 0.8)), ("P", "P1", (1.3, 1.0, 0.85)), ("SI", "SI", (1.35, 1.05, 0.8)))):
        c = (ox + 9.0 * k, oy, oz)
        lig.append(f"HETATM{9100 + 2 * k:>5d}  C1  MX{k} L{301 + k:>4d}    {c[0]:8.3f}{c[1]:8.3f}{c[2]:8.3f}  1.00  0.00           C")
        lig.append(f"HETATM{9101 + 2 * k:>5d} {nm:<4s} MX{k} L{301 + k:>4d}    {c[0] + dv[0]:8.3f}{c[1] + dv[1]:8.3f}{c[2] + dv[2]:8.3f}  1.00  0.00          {el:>2s}")
    # ... and of hybridisations without a construction of their own: propyne (sp carbons, C#C 1.18 A) and hydrogen cyanide
    c = (ox, oy + 9.0, oz)
    for k, (nm, el, dx) in enumerate((("C1", "C", 0.0), ("C2", "C", 1.46), ("C3", "C", 2.64))):
        lig.append(f"HETATM{9120 + k:>5d}  {nm:<3s} PYN L 311    {c[0] + dx:8.3f}{c[1]:8.3f}{c[2]:8.3f}  1.00  0.00           {el}")
    for k, (nm, el, dx) in enumerate((("C1", "C", 0.0), ("N1", "N", 1.16))):
        lig.append(f"HETATM{9130 + k:>5d}  {nm:<3s} HCN L 312    {c[0] + 9.0 + dx * 0.6:8.3f}{c[1] + dx * 0.8:8.3f}{c[2]:8.3f}  1.00  0.00           {el}")
    t_lig = "\n".join(l for l in structures.read("sample-issue-140.pdb").splitlines() if l[:3] != "END") + "\n" + "\n".join(lig) + "\nEND\n"
    study("sample-issue-140 + ligands with Se / P / Si, propyne, HCN", t_lig, [], 1)
    study("3SGB-subset protein, the program's own hydrogens fed back with --keep-protons", c04.with_hydrogens(prot), ["--keep-protons"], 0)
    # a free cysteine (S-H is built under --protonate-all only): 1HPX chain A residues 60-75
    cysw = "\n".join(l for l in structures.read("1HPX.pdb").splitlines() if l[:6] == "ATOM  " and l[21] == "A" and 60 <= int(l[22:26]) <= 75) + "\nEND\n"
    study("1HPX A 60-75 --protonate-all (free cysteine 67)", cysw, ["--protonate-all"], 0)
    import propka.group as _G
    if dict(_G.PROTONATOR.bond_lengths) != REF_BOND_LENGTHS:
        diffs = {k: (_G.PROTONATOR.bond_lengths.get(k), REF_BOND_LENGTHS.get(k)) for k in set(_G.PROTONATOR.bond_lengths) | set(REF_BOND_LENGTHS)
                 if _G.PROTONATOR.bond_lengths.get(k) != REF_BOND_LENGTHS.get(k)}
        found.append(("bond-length-table", f"the program's X-H bond-length table differs from the tabulated values: {diffs} (program, tabulated)", {"differences": {k: list(v) for k, v in diffs.items()}}))
    # hydrogens built next to a metal (HIS 46 NE2 - ZN in 1FTJ): still bonded to their one parent only, also under --protonate-all
    study("1FTJ-Chain-A --protonate-all (zinc-bound histidine)", structures.read("1FTJ-Chain-A.pdb"), ["--protonate-all"], 0)
    t2 = structures.read("1HPX.pdb")
    study("1HPX (ligand KNI)", t2, [], 2 if chk.thorough else 1, axis_bonds=one_neighbour_bonds(t2, True, 3 if chk.thorough else 1))
    if chk.thorough:
        t3 = structures.read("1FTJ-Chain-A.pdb")
        study("1FTJ-Chain-A (ligand GLU)", t3, [], 2, axis_bonds=one_neighbour_bonds(t3, True, 2))
        study("4DFR", structures.read("4DFR.pdb"), [], 1)
    edis = corr_electrons(chk, emols) if (proved or not missing) else []
    chk.cov["hydrogens_audited"] = nh_total
    chk.sample({"hydrogens_audited": nh_total})
    uniq = {}
    for sig, what, rep in found:
        uniq.setdefault(sig, (sig, what, rep))
    found = list(uniq.values())
    gv = getattr(chk, "_genval_dis", [])
    if missing or not proved:
        chk.broken("proof", "props/C17.v" if not missing else f"translation of {missing[0][1]}", chk.broken_obligation, search_fn=lambda: found)
    elif gv or edis:
        chk.broken("correspondence", "generated model ~ propka.vector_algebra; model/Electrons.v ~ protonate.py electron bookkeeping", {"genval": gv[:3], "electrons": edis[:5]}, search_fn=lambda: found)
    else:
        for sig, what, rep in found:
            chk.finding(sig, what, rep)
    return chk.finish(
        level="proof",
        rule=("obligations = theorems of coq/props/C17.v (all non-zero bond vectors, all unit directions, all angles). Tie: Vector.orthogonal / rescale / "
              "rotation regenerated and validated bit for bit incl. axis-parallel vectors. Search: audit of every added hydrogen (single heavy parent, "
              f"tabulated length +-{LEN_TOL}, siblings >= 0.5 A, >= 0.75 A from the parent's neighbours, complements of complete residues, no failed-"
              "protonation warning) in deposited and rotated poses and with a one-neighbour bond exactly along +-x/+-y/+-z, default and "
              f"--protonate-all; protein N-H hydrogens mapped back agree within {POS_TOL} A. distinct = poses"
              " Added in rounds 4-6: sp-hybridised ligand atoms, a zinc-bound histidine under --protonate-all, the program's own hydrogens fed back with --keep-protons, a free cysteine under --protonate-all against an independent copy of the X-H table."),
        assumptions=["which atoms get how many hydrogens (valence / steric-number bookkeeping, pi-electron tables) is not modelled: the audit checks the outcome",
                     "hetero-group terminal hydrogens are frame dependent by design (C04) and are excluded from the orientation comparison"],
        trusted=["py2coq translator (validated each run)", "stdlib real-number axioms"])
