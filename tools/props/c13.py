"""C13 — chain selection = deletion of the other chains.  Theorem: coq/props/C13.v about model/PdbParse.v.
Tie: parser correspondence (vlib/parsecorr.py).  Search: `-c X` on the file vs no option on the file without the other
chains' ATOM/HETATM records, full pipeline, every non-empty chain subset."""
import itertools

from vlib import common, structures, parsecorr as PC


def delete_other_chains(text, chains):
    out = []
    for l in text.splitlines(keepends=True):
        if l[:6] in ("ATOM  ", "HETATM") and len(l) > 21 and l[21] not in chains:
            continue
        out.append(l)
    return "".join(out)


def synthetic(rng):
    """small multi-chain inputs built from fragments of the test structures"""
    out = []
    hpx = structures.read("1HPX.pdb")
    a = [l for l in hpx.splitlines() if structures.is_atom(l) and l[21] == "A" and l[:4] == "ATOM"]
    b = [l for l in hpx.splitlines() if structures.is_atom(l) and l[21] == "B" and l[:4] == "ATOM"]
    lig = [l for l in hpx.splitlines() if l[:6] == "HETATM" and l[17:20] != "HOH"][:46]

    def res_window(lines, first, n):
        nums = []
        for l in lines:
            if l[22:27] not in nums:
                nums.append(l[22:27])
        keep = nums[first:first + n]
        return [l for l in lines if l[22:27] in keep]
    fa = res_window(a, 20, 12)     # contains ASP 25 .. ASP 30
    fb = res_window(b, 20, 12)
    fa2 = res_window(a, 57, 10)
    # 1: proper file with TER
    out.append(("two chains with TER", "\n".join(fa + ["TER"] + fb + ["TER"]) + "\nEND\n"))
    # 2: no TER between the chains, different first residue numbers
    out.append(("no TER between chains", "\n".join(fa + fa2_as(fa2, "B")) + "\nEND\n"))
    # 3: second chain restarts at the number where the first one ends (A 21-32, B 32-..)
    last = int(fa[-1][22:26])
    first_b = int(fb[0][22:26])
    shifted = [structures.set_resnum(l, int(l[22:26]) - first_b + last, l[26]) for l in fb]
    out.append(("chain B starts at chain A's last number, TER present", "\n".join(fa + ["TER   "] + shifted) + "\nEND\n"))
    out.append(("chain B starts at chain A's last number, no TER", "\n".join(fa + shifted) + "\nEND\n"))
    # 4: blank chain id mixed with named chains, hetero group with its own chain id
    blank = [structures.set_chain(l, " ") for l in fb]
    out.append(("blank + named chain + ligand chain L", "\n".join(fa + ["TER"] + blank + ["TER"] + [structures.set_chain(l, "L") for l in lig]) + "\nEND\n"))
    seg = lambda l, s_: l.ljust(80)[:72] + s_.ljust(4) + l.ljust(80)[76:]
    out.append(("blank + named chain, segment identifiers in columns 73-76 (blank chain: segid B1, chain A: segid XA)",
                "\n".join([seg(l, "XA") for l in fa] + ["TER"] + [seg(l, "B1") for l in blank] + ["TER"]) + "\nEND\n"))
    # 4b: chain identifiers differing only in case are different chains; several models (MODEL records are not chain records)
    out.append(("chains A and a (identifiers differing only in case)", "\n".join(fa + ["TER"] + [structures.set_chain(l, "a") for l in fb] + ["TER"]) + "\nEND\n"))
    out.append(("two models of two chains", structures.as_models(["\n".join(fa + ["TER"] + fb + ["TER"]) + "\n"] * 2)))
    # 4c: each chain's own copy of a ligand, same residue name and number, written one directly after the other
    ligb = structures.move("\n".join(lig) + "\n", None, (0.0, 0.0, 40.0)).splitlines()
    out.append(("two chains, each with its copy of the ligand (same residue name and number, consecutive records)",
                "\n".join(fa + ["TER"] + fb + ["TER"] + [structures.set_chain(l, "A") for l in lig] + [structures.set_chain(l, "B") for l in ligb]) + "\nEND\n"))
    # 5: ligand of chain B written before chain B's protein atoms
    out.append(("ligand records before the chain", "\n".join(fa + ["TER"] + [structures.set_chain(l, "B") for l in lig] + fb) + "\nEND\n"))
    # 6: three chains, interleaved waters of other chains
    wat = [l for l in hpx.splitlines() if l[:6] == "HETATM" and l[17:20] == "HOH"][:6]
    fc = [structures.set_chain(l, "C") for l in fa2]
    out.append(("three chains + waters", "\n".join(fa + wat[:2] + ["TER"] + fb + wat[2:4] + ["TER"] + fc + wat[4:]) + "\nEND\n"))
    return out


def fa2_as(lines, c):
    return [structures.set_chain(l, c) for l in lines]


def run(chk: common.Check):
    common.impl_setup()
    rng = chk.rng
    proved = chk.prove()

    # ------------------------------------------------------------ parser correspondence
    cases = []
    small = ["conf-alt-AB.pdb", "conf-alt-AB-mutant.pdb", "conf-alt-BC.pdb", "conf-model-missing-atoms.pdb", "conf-model-mutant.pdb",
             "sample-issue-140.pdb", "1HPX-warn.pdb"]
    for n in small:
        t = structures.read(n)
        cases.append((t, PC.IGNORE, False, None))
        cases.append((t, PC.IGNORE, True, ["A"]))
    syn = synthetic(rng)
    for name, t in syn:
        cases.append((t, PC.IGNORE, False, None))
        for cs in (["A"], ["B"], [" "], ["A", "B"], ["L"], ["B", "C"]):
            cases.append((t, PC.IGNORE, False, cs))
    nmut = 150 if chk.thorough else 40
    for i in range(nmut):
        base = rng.choice([s[1] for s in syn] + [structures.read(n) for n in small])
        t = base
        descs = []
        for _ in range(rng.randint(1, 3)):
            t, d = PC.mutate(rng, t)
            descs.append(d)
        cases.append((t, PC.IGNORE, rng.random() < 0.3, rng.choice([None, None, ["A"], [" "], ["A", "B"], ["B"], ["_"], ["L", "A"]])))
    if chk.thorough:
        for n in ("1HPX.pdb", "3SGB.pdb"):
            cases.append((structures.read(n), PC.IGNORE, False, None))
            cases.append((structures.read(n), PC.IGNORE, False, ["B", "I"]))
    dis = PC.run_cases(chk, cases, tag="c13")
    for c in cases:
        chk.count(1, key=("parse", hash(c[0]) % 10 ** 9, tuple(c[3] or ())))
    chk.sample({"parser_case_lines": cases[14][0].splitlines()[:3], "chains": cases[15][3]})

    # ------------------------------------------------------------ search: end-to-end -c vs deletion
    found = []
    nperm = [0]
    inputs = list(syn)
    if chk.thorough:
        inputs += [(n, structures.read(n)) for n in ("1HPX.pdb", "3SGB.pdb", "4DFR.pdb")]
    else:
        inputs += [("3SGB-subset.pdb", structures.read("3SGB-subset.pdb"))]
    for name, text in inputs:
        ids = sorted({l[21] for l in structures.atom_lines(text)})
        subsets = [list(s) for k in range(1, len(ids) + 1) for s in itertools.combinations(ids, k)]
        if len(subsets) > 7 and not chk.thorough:
            subsets = subsets[:3] + rng.sample(subsets[3:], 4)
        for cs in subsets:
            opt = []
            for c in cs:
                opt += ["-c", c]
            ra = rb = None
            try:
                ra = structures.results(text, opt)
            except Exception as ex:
                ra = ("exception", type(ex).__name__, str(ex)[:80])
            try:
                rb = structures.results(delete_other_chains(text, cs), [])
            except Exception as ex:
                rb = ("exception", type(ex).__name__, str(ex)[:80])
            chk.count(1, key=("e2e", name, tuple(cs)))
            same = (ra == rb) if isinstance(ra, dict) and isinstance(rb, dict) else (isinstance(ra, tuple) and isinstance(rb, tuple) and ra[:2] == rb[:2])
            if not same:
                d = structures.diff(ra, rb)[:4] if isinstance(ra, dict) and isinstance(rb, dict) else [ra if isinstance(ra, tuple) else "ok", rb if isinstance(rb, tuple) else "ok"]
                sig = "chain-selection-differs:" + ("blank" if " " in cs else "named") + (":exception" if not (isinstance(ra, dict) and isinstance(rb, dict)) else "")
                found.append((sig, f"{name}: -c {cs} differs from running on the file without the other chains: {d}",
                              {"input": name, "chains": cs, "pdb_text": text if len(text) < 20000 else None, "differences": d}))
            # order and repetition of the identifiers in the option are irrelevant (C13_selection_depends_on_membership_only)
            if len(cs) >= 2 and isinstance(ra, dict) and (chk.thorough or nperm[0] < 6):
                nperm[0] += 1
                for variant, vcs in (("reversed", cs[::-1]), ("repeated", cs + [cs[0]])):
                    vopt = []
                    for c in vcs:
                        vopt += ["-c", c]
                    try:
                        rv = structures.results(text, vopt)
                    except Exception as ex:
                        rv = ("exception", type(ex).__name__, str(ex)[:80])
                    chk.count(1, key=("e2e-order", name, tuple(vcs)))
                    if rv != ra:
                        d = structures.diff(ra, rv)[:4] if isinstance(rv, dict) else [rv]
                        found.append(("chain-selection-differs:order-or-repetition",
                                      f"{name}: -c {vcs} ({variant}) differs from -c {cs}: {d}",
                                      {"input": name, "chains": vcs, "pdb_text": text if len(text) < 20000 else None, "differences": d}))
    # ------------------------------------------------------------ several structures in ONE invocation with a selection
    import os, shutil, subprocess, sys, tempfile
    from vlib.purejob import strip_date
    hl = [l for l in structures.read("1HPX.pdb").splitlines() if l[:6] == "ATOM  " and int(l[22:26]) <= 30]
    hp = "\n".join(l for c in ("A", "B") for l in [x for x in hl if x[21] == c] + ["TER"]) + "\nEND\n"
    sg = structures.read("3SGB-subset.pdb")
    sel = ["A", "E"]
    d1, d2 = tempfile.mkdtemp(dir="/var/tmp"), tempfile.mkdtemp(dir="/var/tmp")
    try:
        for d, f in ((d1, lambda t: t), (d2, lambda t: delete_other_chains(t, sel))):
            open(os.path.join(d, "x.pdb"), "w").write(f(hp))
            open(os.path.join(d, "y.pdb"), "w").write(f(sg))
        env = dict(os.environ, PYTHONPATH=str(common.REPO), PYTHONHASHSEED="0")
        copt = ["-c", "A", "-c", "E"]

        def cli(d, args):
            for f in ("x.pka", "y.pka"):
                if os.path.exists(os.path.join(d, f)):
                    os.unlink(os.path.join(d, f))
            p = subprocess.run([sys.executable, "-m", "propka", "--quiet"] + args, cwd=d, env=env, capture_output=True, text=True, timeout=600)
            return {f: strip_date(open(os.path.join(d, f)).read()) for f in ("x.pka", "y.pka") if os.path.exists(os.path.join(d, f))}, p
        ref = {}
        for f in ("x", "y"):
            o, p = cli(d2, [f + ".pdb"])
            ref[f + ".pka"] = o.get(f + ".pka")
        for order in (["x.pdb", "y.pdb"], ["y.pdb", "x.pdb"]):
            o, p = cli(d1, copt + ["-f"] + order)
            chk.count(1, key=("cli-two-inputs", tuple(order)))
            for f in ("x.pka", "y.pka"):
                if o.get(f) != ref[f]:
                    found.append(("chain-selection-differs:several-inputs", f"`-c A -c E -f {' '.join(order)}`: {f} differs from the run on the file without the other chains"
                                  + (f" (exit {p.returncode}: {p.stderr[-200:]})" if p.returncode else ""), {"args": copt + ["-f"] + order, "file": f}))
                    break
    finally:
        shutil.rmtree(d1, ignore_errors=True)
        shutil.rmtree(d2, ignore_errors=True)

    uniq = {}
    for sig, what, rep in found:
        uniq.setdefault(sig, (sig, what, rep))
    found = list(uniq.values())

    if dis:
        chk.broken("correspondence", "PdbParse model ~ get_atom_lines_from_pdb", {"disagreements": dis[:4]}, search_fn=lambda: found)
    elif not proved:
        chk.broken("proof", "props/C13.v", chk.broken_obligation, search_fn=lambda: found)
    else:
        for sig, what, rep in found:
            chk.finding(sig, what, rep)
    return chk.finish(
        level="proof",
        rule=("obligations = theorems of coq/props/C13.v (all line lists, all parser states, all non-empty selections). Parser correspondence: "
              "small test PDBs, synthetic multi-chain fragments (no TER, restart at the same number, blank ids, ligand chains, ligand before chain), "
              "structured mutations and a malformed stream, with and without -c; distinct = (text, chain selection). Search: full pipeline with "
              "-c vs the file with the other chains' records deleted, all (quick: sampled) non-empty chain subsets"
              " Added in rounds 5-6: several structures in one invocation with -c, segment identifiers on records with a blank chain. Added later: the same selection with its identifiers reversed / one repeated must give the same results."),
        assumptions=["ATOM/HETATM records have at least 22 columns (otherwise the two runs fail with different exception classes)",
                     "downstream of the parser the options enter only through titrate_only/keep_protons/protonate_all/display_coupled_residues "
                     "(validated end to end by the search, not proved)"],
        trusted=["model/PdbParse.v hand model (validated each run)", "lib/PyString.v model of str/int/float acceptance"])
