"""C01 — every ionizable group is predicted exactly once with the right model pKa.  Theorems: coq/props/C01.v
(terminus tagging of model/PdbParse.v abstracted to a token machine; group census of model/Census.v over the shipped cfg).
Tie: (a) line-level parser correspondence on chain-start layouts; (b) per-atom census correspondence (class, residue type, model pKa,
titratable flag of every protein atom of real runs vs the model evaluated on the cfg text re-read from /repo).
Search: an independent reading of the PDB text gives the expected sites; compared with the groups of every conformation and with
the summary section (multisets), plus configured model pKa / charge of every hetero group."""
import collections
import fractions
import math
import re

from vlib import common, structures, parsecorr as PC, tables

Fr = fractions.Fraction
FOUNDERS = {("ASP", "CG"): ("ASP", 3.80), ("GLU", "CD"): ("GLU", 4.50), ("HIS", "CG"): ("HIS", 6.50), ("CYS", "SG"): ("CYS", 9.00),
            ("TYR", "OH"): ("TYR", 10.00), ("LYS", "NZ"): ("LYS", 10.50), ("ARG", "CZ"): ("ARG", 12.50)}
NTERM, CTERM = 8.00, 3.20
SITE_TYPES = {"ASP", "GLU", "HIS", "CYS", "TYR", "LYS", "ARG", "N+", "C-"}
DNA = ("DA ", "DC ", "DG ", "DT ")
DATA = common.VERIF / "tools" / "data"


# ------------------------------------------------------------------------------------------------ independent reading
def expected_sites(text, ignore, chains=None):
    """{model: Counter of (type, chain, resnum, model_pka)} for the protein sites of a file without alternate locations.
    Chain start = first ATOM residue of a model, after a TER record, after a residue carrying OXT / O''."""
    out = {}
    model = 1
    waiting = True
    done_res = None          # residue that carried the terminal oxygen
    first = None             # residue id of the current chain start
    sites = out.setdefault(model, collections.Counter())
    sg = {}
    for line in text.splitlines():
        rec = line[:6]
        if rec == "MODEL ":
            model = int(line[6:])
            sites = out.setdefault(model, collections.Counter())
            waiting, first = True, None
            continue
        if line[:6].strip() == "TER":
            waiting, first = True, None
            continue
        if rec not in ("ATOM  ", "HETATM"):
            continue
        if line[17:20] in ignore or (chains and line[21] not in chains):
            continue
        if rec != "ATOM  ":
            continue
        rid = line[21:27]
        name = line[12:16].strip()
        resn = line[17:20].strip().ljust(3)
        chain = line[21].strip() or "_"
        num = int(line[22:26])
        if waiting and rid != done_res:
            first, waiting, done_res = rid, False, None
        if resn in DNA:       # nucleotides are treated as hetero groups
            if name in ("OXT", "O''"):
                waiting, first, done_res = True, None, rid
            continue
        elem = re.sub(r"^\d+|\d+$", "", line[12:14].strip())
        if len(name) == 4:
            elem = elem[:1]
        if elem == "H":
            if name in ("OXT", "O''"):
                waiting, first, done_res = True, None, rid
            continue
        if name in ("OXT", "O''"):
            sites[("C-", chain, num, CTERM)] += 1
            waiting, first, done_res = True, None, rid
        elif name == "N" and first == rid:
            sites[("N+", chain, num, NTERM)] += 1
        elif (resn, name) in FOUNDERS:
            t, pk = FOUNDERS[(resn, name)]
            sites[(t, chain, num, pk)] += 1
            if t == "CYS":
                sg.setdefault(model, []).append(((t, chain, num, pk), tuple(float(line[a:b]) for a, b in ((30, 38), (38, 46), (46, 54)))))
    bridged = {m: set() for m in out}
    for m, lst in sg.items():
        for i, (k1, p1) in enumerate(lst):
            for k2, p2 in lst[:i]:
                if math.dist(p1, p2) < 2.5:
                    bridged[m].update((k1, k2))
    return out, bridged


def altloc_variant(text, tag):
    """the single-conformation structure that alternate location `tag` stands for: untagged records, the records carrying `tag`, and - for atoms
    (chain, number, insertion code, residue name, atom name) that have no record with `tag` - their first tagged record, unless the residue has a
    version of its own under `tag` with another residue name (alternate-location point mutant: those residues are not completed from each other)"""
    recs = [l for l in text.splitlines()]
    tagged_names = {}
    for l in recs:
        if structures.is_atom(l) and l[16] == tag:
            tagged_names.setdefault((l[21], l[22:27]), set()).add(l[17:20])
    seen, out = set(), []
    for l in recs:
        if not structures.is_atom(l):
            out.append(l)
            continue
        key = (l[21], l[22:27], l[17:20], l[12:16])
        own = tagged_names.get((l[21], l[22:27]))
        if l[16] == tag or l[16] == " ":
            ok = True
        else:
            ok = not (own and l[17:20] not in own) and not any(structures.is_atom(m) and m[16] == tag and (m[21], m[22:27], m[17:20], m[12:16]) == key for m in recs)
        if ok and key not in seen:
            seen.add(key)
            out.append(l[:16] + " " + l[17:])
    return "\n".join(out) + "\n"


def observed_sites(conf):
    c = collections.Counter()
    flags = {}
    for g in conf.groups:
        if g.atom.type == "atom" and g.residue_type in SITE_TYPES:
            k = (g.residue_type, g.atom.chain_id, g.atom.res_num, round(float(g.model_pka), 6))
            c[k] += 1
            flags[k] = g
    return c, flags


SUMMARY_ROW = re.compile(r"^   (.{9}) +(-?\d+\.\d\d) +(-?\d+\.\d\d)")


def summary_rows(pka_text):
    rows = []
    sec = pka_text.split("SUMMARY OF THIS PREDICTION")[1] if "SUMMARY OF THIS PREDICTION" in pka_text else ""
    for l in sec.splitlines():
        if l.startswith("---") and rows:
            break
        m = SUMMARY_ROW.match(l)
        if m:
            rows.append((m.group(1), float(m.group(2)), float(m.group(3))))
    return rows


def label_of(t, chain, num):
    return f"{t:<3s}{num:>4d}{chain:>2s}"


# ------------------------------------------------------------------------------------------------ input layouts
def chains_of(text):
    """list of (chain id, [atom lines]) in file order (ATOM records only, HETATM collected separately)"""
    out, het = [], []
    for l in text.splitlines():
        if l[:6] == "ATOM  ":
            if not out or out[-1][0] != l[21]:
                out.append((l[21], []))
            out[-1][1].append(l)
        elif l[:6] == "HETATM":
            het.append(l)
    return out, het


def layouts(name, text, rng, thorough):
    """(description, text) variants of one structure: TER / OXT / numbering / insertion-code / hetero-group layouts"""
    ch, het = chains_of(text)
    het = [l for l in het if l[17:20] not in ("HOH",)]
    out = [(f"{name} as is", text)]
    if len(ch) >= 2:
        a, b = ch[0][1], ch[1][1]
        rest = [l for c in ch[2:] for l in c[1]]
        join = lambda parts: "\n".join(l for p in parts for l in p) + "\nEND\n"
        out.append((f"{name} bare TER", join([a, ["TER"], b, ["TER"], rest, het])))
        a_plain = [l for l in a if l[12:16].strip() not in ("OXT", "O''")]
        out.append((f"{name} bare TER, chain A without terminal oxygen", join([a_plain, ["TER"], b, ["TER"], rest, het])))
        out.append((f"{name} padded TER, chain A without terminal oxygen", join([a_plain, ["TER   "], b, rest, het])))
        out.append((f"{name} TER with text", join([a, ["TER    9999      ALA A 999"], b, rest, het])))
        a_oxt = any(l[12:16].strip() in ("OXT", "O''") for l in a)
        out.append((f"{name} no TER between chains (chain A {'has' if a_oxt else 'has no'} OXT)", join([a, b, rest, het])))
        if het:
            out.append((f"{name} hetero block before second chain", join([a, ["TER   "], het, b, ["TER   "], rest])))
            out.append((f"{name} hetero block first", join([het, a, ["TER   "], b, rest])))
        if a_oxt:
            # OXT written before O (not the last record of its residue) and no TER: the rest of the terminal residue must not start a chain,
            # the next chain must
            i_oxt = max(i for i, l in enumerate(a) if l[12:16].strip() in ("OXT", "O''"))
            i_o = max(i for i, l in enumerate(a) if l[12:16] == " O  ")
            if i_o < i_oxt:
                a3 = list(a)
                a3.insert(i_o, a3.pop(i_oxt))
                out.append((f"{name} OXT before O in the last residue of chain A, no TER", join([a3, b, rest, het])))
        if not a_oxt:
            # give chain A a terminal oxygen (rename its last O) and drop the TER: chain B still starts a chain
            last_o = max(i for i, l in enumerate(a) if l[12:16] == " O  ")
            a2 = list(a)
            a2[last_o] = a2[last_o][:12] + " OXT" + a2[last_o][16:]
            out.append((f"{name} OXT on chain A, no TER", join([a2, b, rest, het])))
    # insertion-coded chain start: the first k residues share one number (1H, 1G, ... , 1)
    res = [r for r in structures.residues(text) if r["tag"] == "ATOM  "]
    lines = text.splitlines()
    k = rng.choice([2, 3, 4])
    if len(res) > k + 1 and len({r["chain"] for r in res[:k + 1]}) == 1:
        l2 = list(lines)
        num = res[k]["num"]
        for j, r in enumerate(res[:k]):
            for i in r["lines"]:
                l2[i] = l2[i][:22] + num + "HGFEDCBA"[j] + l2[i][27:]
        out.append((f"{name} insertion-coded chain start x{k}", "\n".join(l2) + "\n"))
    # negative numbering of the first chain
    first_chain = res[0]["chain"] if res else None
    sh = -(int(res[0]["num"]) + rng.choice([3, 40]))
    def f(l):
        if structures.is_atom(l) and l[21] == first_chain and l[:6] == "ATOM  ":
            return structures.set_resnum(l, int(l[22:26]) + sh, l[26])
        return l
    out.append((f"{name} first chain renumbered by {sh}", structures.map_atoms(text, f)))
    # incomplete residues: drop founding atoms of some residues, and non-founding atoms of others
    gone = set()
    def g(l):
        key = (l[17:20], l[12:16].strip())
        if l[:6] == "ATOM  " and key in FOUNDERS and rng.random() < 0.15:
            gone.add((l[21], l[22:27]))
            return None
        if l[:6] == "ATOM  " and l[12:16].strip() in ("CB", "OD1", "NE", "CE1") and rng.random() < 0.1:
            return None
        return l
    out.append((f"{name} incomplete residues", structures.map_atoms(text, g)))
    if thorough:
        # second copy as a further chain far away, without TER, same numbering
        moved = structures.move("\n".join(ch[0][1]) + "\n", None, (150, 0, 0)) if ch else ""
        moved = "\n".join(structures.set_chain(l, "Q") for l in moved.splitlines())
        out.append((f"{name} + translated copy of first chain as chain Q after TER", "\n".join(l for l in lines if l[:3] != "END") + "\nTER\n" + moved + "\nEND\n"))
    return out


def nucleotide_text():
    base = (DATA / "nucleotides.pdb").read_text().splitlines()
    out = list(base)
    # DG / DT: same atoms renamed and translated (geometry is irrelevant for the configured model pKa)
    for src, dst, num, dx in (("DA", "DG", 3, 40.0), ("DC", "DT", 4, 40.0)):
        for l in base:
            if l[17:20].strip() == src:
                l2 = l[:17] + f"{dst:>3s}" + l[20:22] + f"{num:>4d}" + l[26:]
                out.append(structures.set_xyz(l2, float(l[30:38]) + dx, float(l[38:46]) + 30.0, float(l[46:54])))
    return "\n".join(out) + "\n"


# ------------------------------------------------------------------------------------------------ census correspondence
def census_corr(chk, mols):
    """every protein atom: model census vs the group the implementation attached"""
    seen = {}
    for tag, mol in mols:
        for cname in mol.conformation_names:
            conf = mol.conformations[cname]
            # (atom.group is not reliable: Group.__init__ re-points it, so after averaging it is the clone held by the AVR container)
            by_atom = {id(g.atom): g for g in conf.groups}
            for a in conf.atoms:
                if a.type != "atom" or a.element == "H":
                    continue
                g = by_atom.get(id(a))
                key = (a.res_name, a.name, a.terminal or "", a.count_bonded_elements("O") if a.name == "C" else 0, bool(a.cysteine_bridge))
                real = None if g is None else (type(g).__name__[:-5], g.residue_type, (Fr(repr(float(g.model_pka))) if g.model_pka_set else None), bool(g.titratable))
                if key in seen and seen[key][0] != real:
                    seen[("dup", len(seen)) + key] = (real, f"{tag}/{cname} {a}")
                else:
                    seen.setdefault(key, (real, f"{tag}/{cname} {a}"))
    keys = list(seen)
    oc = lambda s: "(of_codes [" + "; ".join(str(ord(c)) for c in s) + "]%Z)"
    exprs = []
    for k in keys:
        kk = k[-5:]
        exprs.append(f'site_out (census shipped {{| c_type := "atom"; c_res_name := {oc(kk[0])}; c_name := {oc(kk[1])}; c_terminal := {oc(kk[2])}; '
                     f'c_bonded_O := {kk[3]}%nat; c_bridge := {str(kk[4]).lower()} |}})')
    pre = ("From Coq Require Import String Ascii List ZArith.\nFrom V Require Import PyString Params Cfg_gen ShippedCfg Census.\nImport ListNotations.\nOpen Scope string_scope.\n")
    res = common.coq_eval("c01c", pre, exprs, shard=150)
    dis = []
    for k, r in zip(keys, res):
        real, where = seen[k]
        if r == [[0]]:
            model = None
        else:
            s = lambda codes: "".join(chr(c) for c in codes)
            pk = None if not r[3] else (Fr(r[3][0], r[3][1]) if len(r[3]) == 2 else "bad")
            model = (s(r[1]), s(r[2]), pk, bool(r[4][0]))
        # the titratable flag of the implementation may later be cleared by --titrate_only (not used here)
        if model != real:
            dis.append({"atom": where, "key": [str(x) for x in k[-5:]], "impl": str(real), "model": str(model)})
    chk.corr_stats["census (class, residue type, model pKa, titratable) ~ model"] = {"distinct_atom_kinds": len(keys), "disagreements": len(dis)}
    chk.cov["traces_validated_against_impl"] += len(keys)
    return dis


# ------------------------------------------------------------------------------------------------
def check_case(chk, name, text, opts, found, ignore, par):
    chains = None
    if "-c" in opts:
        chains = [opts[i + 1] for i, o in enumerate(opts) if o == "-c"]
    try:
        mol, _ = structures.run(text, opts)
    except Exception as ex:   # noqa: BLE001
        found.append(("crash", f"{name}: {type(ex).__name__}: {ex}", {"case": name, "options": opts, "pdb_text": text if len(text) < 200000 else None}))
        return None
    exp, bridged = expected_sites(text, ignore, chains)
    alt_tags = sorted({l[16] for l in structures.atom_lines(text) if l[16] != " "})
    per_tag = {}
    if alt_tags and not any(l[:6] == "MODEL " for l in text.splitlines()):
        for t_ in alt_tags:
            per_tag["1" + t_] = expected_sites(altloc_variant(text, t_), ignore, chains)
    rep = lambda extra: dict(extra, case=name, options=opts, pdb_text=text if len(text) < 200000 else None)
    for cname in mol.conformation_names:
        m = int(cname[:-1])
        conf = mol.conformations[cname]
        obs, groups = observed_sites(conf)
        if cname in per_tag:
            exp, bridged = per_tag[cname]
        want = exp.get(m, collections.Counter())
        chk.count(1, key=("census", name, cname, sum(want.values())))
        if obs != want:
            missing = list((want - obs).elements())
            extra = list((obs - want).elements())
            for k in missing[:3]:
                wrong = [e for e in extra if e[:3] == k[:3]]
                if wrong:
                    found.append((f"wrong-model-pka:{k[0]}", f"{name} conformation {cname}: {label_of(*k[:3])} has model pKa {wrong[0][3]}, tabulated {k[3]}", rep({"site": k})))
                else:
                    found.append((f"site-missing:{k[0]}", f"{name} conformation {cname}: {label_of(*k[:3])} is in the structure but not among the groups "
                                  f"({len(missing)} missing, {len(extra)} unexpected)", rep({"site": k, "missing": missing[:6], "unexpected": extra[:6]})))
            for k in extra[:3]:
                if not any(x[:3] == k[:3] for x in missing):
                    found.append((f"site-unexpected:{k[0]}", f"{name} conformation {cname}: {label_of(*k[:3])} reported {obs[k]}x, expected {want.get(k, 0)}x "
                                  f"(not a site of the structure, or duplicated)", rep({"site": k, "missing": missing[:6], "unexpected": extra[:6]})))
        for k, g in groups.items():
            if k in want:
                shouldt = k not in bridged.get(m, set())
                if bool(g.titratable) != shouldt and "--titrate_only" not in opts:
                    found.append(("titratable-flag", f"{name} {cname}: {g.label} titratable={g.titratable}, disulfide-bridged={not shouldt}", rep({"site": k})))
                if not shouldt and abs(g.pka_value - 99.99) > 1e-9:
                    found.append(("bridged-cys-pka", f"{name} {cname}: bridged {g.label} has pKa {g.pka_value}, expected 99.99", rep({"site": k})))
        # hetero groups and ions: configured values
        for g in conf.groups:
            if g.atom.type != "hetatm":
                continue
            if g.model_pka_set:
                ck = f"{g.atom.res_name.strip()}-{g.atom.name.strip()}"
                wantpk = par.custom_model_pkas.get(ck, par.model_pkas.get(g.residue_type))
                if wantpk is None or abs(g.model_pka - wantpk) > 1e-12:
                    found.append((f"hetero-model-pka:{g.residue_type}", f"{name} {cname}: {g.label} ({g.type}, residue type {g.residue_type}, key {ck}) has model pKa "
                                  f"{g.model_pka}, configured {wantpk}", rep({"group": g.label})))
            wantq = par.ions.get(g.residue_type, par.charge.get(g.type, 0))
            if g.charge != wantq:
                found.append((f"hetero-charge:{g.type}", f"{name} {cname}: {g.label} ({g.type}) has charge {g.charge}, configured {wantq}", rep({"group": g.label})))
    # ---- titratable hetero groups: each one of the conformation is in the averaged container and has its own summary row
    if len(mol.conformation_names) == 1:
        conf = mol.conformations[mol.conformation_names[0]]
        # (groups penalised by covalent coupling inside a ligand are dropped from the summary by design: one group per coupled system)
        het = [g for g in conf.groups if g.atom.type == "hetatm" and g.titratable and not g.coupled_titrating_group]
        if het:
            avr_labels = collections.Counter(g.label for g in mol.conformations["AVR"].groups if g.atom.type == "hetatm" and g.titratable and not g.coupled_titrating_group)
            want_labels = collections.Counter(g.label for g in het)
            srows = collections.Counter(lab for lab, _pk, _mp in summary_rows(structures.pka_text(mol)))
            for lab, n_ in want_labels.items():
                if avr_labels.get(lab, 0) != n_ or srows.get(lab, 0) != n_:
                    found.append(("hetero-group-missing-from-report", f"{name}: {n_} titratable hetero group(s) labelled {lab.strip()!r} in the conformation, {avr_labels.get(lab, 0)} in the "
                                  f"averaged results, {srows.get(lab, 0)} summary row(s)", rep({"label": lab})))
                    break
    # ---- several alternate locations: every site of any conformation has exactly one summary row (the summary lists the average)
    if per_tag and len(mol.conformation_names) > 1:
        union = collections.Counter()
        for cname, (e_, _b) in per_tag.items():
            for k in e_.get(1, collections.Counter()):
                union[(label_of(*k[:3]), k[3])] = 1
        rows = collections.Counter((lab, mp) for lab, _pk, mp in summary_rows(structures.pka_text(mol)) if lab[:3].strip() in SITE_TYPES and re.match(r"^.{3} *-?\d+ .$", lab))
        for lab, mp in list((union - rows).elements())[:3]:
            found.append(("summary-missing:alternate-location", f"{name}: {lab.strip()} (model pKa {mp}) exists in some conformation but has no summary row", rep({"group": lab})))
        for lab, mp in list((rows - union).elements())[:3]:
            found.append(("summary-unexpected:alternate-location", f"{name}: summary row {lab.strip()} (model pKa {mp}) appears {rows[(lab, mp)]}x, expected {union.get((lab, mp), 0)}x", rep({"group": lab})))
    # ---- summary (first conformation's model for single-model files; AVR lists the average)
    if len(mol.conformation_names) == 1:
        cname = mol.conformation_names[0]
        m = int(cname[:-1])
        rows = collections.Counter((lab, mp) for lab, _pk, mp in summary_rows(structures.pka_text(mol)) if lab[:3].strip() in SITE_TYPES and re.match(r"^.{3} *-?\d+ .$", lab))
        want = collections.Counter((label_of(*k[:3]), k[3]) for k in exp.get(m, collections.Counter()).elements())
        if rows != want:
            conf = mol.conformations[cname]
            for lab, mp in list((want - rows).elements())[:4]:
                g = next((x for x in conf.groups if x.label == lab and x.residue_type in SITE_TYPES), None)
                ctg = g.coupled_titrating_group if g is not None else None
                if ctg is not None and ctg.residue_type == "N+" and (ctg.atom.chain_id, ctg.atom.res_num, ctg.atom.icode) == (g.atom.chain_id, g.atom.res_num, g.atom.icode):
                    found.append(("summary-missing:discarded-by-coupling-with-own-N+",
                                  f"{name}: {lab.strip()} (N-terminal residue side chain) is left out of the summary: discarded due to covalent coupling with {ctg.label.strip()}",
                                  rep({"group": lab, "coupled_with": ctg.label})))
                elif ctg is not None:
                    found.append(("summary-missing:discarded-by-coupling", f"{name}: {lab.strip()} is left out of the summary: discarded due to coupling with {ctg.label.strip()}",
                                  rep({"group": lab, "coupled_with": ctg.label})))
                else:
                    found.append(("summary-missing", f"{name}: {lab.strip()} (model pKa {mp}) is a site of the structure but has no summary row", rep({"group": lab})))
            for lab, mp in list((rows - want).elements())[:4]:
                found.append(("summary-unexpected", f"{name}: summary row {lab.strip()} (model pKa {mp}) appears {rows[(lab, mp)]}x, expected {want.get((lab, mp), 0)}x", rep({"group": lab})))
    return mol


def run(chk: common.Check):
    common.impl_setup()
    rng = chk.rng
    proved = chk.prove()
    found, pdis = [], []
    import propka.parameters
    from propka.input import read_parameter_file
    from propka.lib import loadOptions
    par = read_parameter_file(loadOptions(["x.pdb", "--quiet"]).parameters, propka.parameters.Parameters())
    ignore = list(par.ignore_residues)

    names = ["1HPX.pdb", "3SGB.pdb", "sample-issue-140.pdb"] + (["1FTJ-Chain-A.pdb", "3SGB-subset.pdb", "1HPX-warn.pdb"] if chk.thorough else [])
    cases = []
    for n in names:
        for d, t in layouts(n, structures.read(n), rng, chk.thorough):
            cases.append((d, t, []))
    nuc = nucleotide_text()
    cases.append(("sample-issue-140 + nucleotides DA DC DG DT", "\n".join(l for l in structures.read("sample-issue-140.pdb").splitlines() if l[:3] != "END") + "\nTER\n" + nuc + "END\n", []))
    from props import c16
    ion_names = sorted(par.ions.keys())
    cases.append(("1HPX + every ion type", c16.add_ions(structures.read("1HPX.pdb"), rng, ion_names), []))
    # option settings
    cases.append(("1HPX -c A", structures.read("1HPX.pdb"), ["-c", "A"]))
    cases.append(("3SGB -c I", structures.read("3SGB.pdb"), ["-c", "I"]))
    blank = "\n".join((l[:21] + " " + l[22:]) if (structures.is_atom(l) and l[21] == "A") else l for l in structures.read("1HPX.pdb").splitlines()) + "\n"
    cases.append(("1HPX chain A blank, no selection", blank, []))
    cases.append(("1HPX chain A blank, -c ' '", blank, ["-c", " "]))
    cases.append(("1HPX chain A blank, -c B", blank, ["-c", "B"]))
    # --titrate_only naming EVERY residue: the census and the summary are those of the run without the option (bridged cysteines included)
    sub = structures.read("3SGB-subset.pdb")
    every = ",".join(sorted({f"{l[21]}:{l[22:26].strip()}{l[26].strip()}" for l in structures.atom_lines(sub)}))
    cases.append(("3SGB-subset -i <every residue>", sub, ["-i", every]))
    # alternate locations: on the backbone N of both chain starts and on a lysine side chain; an alternate-location point mutant whose
    # ionizable version is NOT the first alternate
    hl = [l for l in structures.read("1HPX.pdb").splitlines() if l[:6] == "ATOM  " and int(l[22:26]) <= 25]
    frag2 = "\n".join(l for c in ("A", "B") for l in [x for x in hl if x[21] == c] + ["TER"]) + "\nEND\n"
    alt = []
    for l in frag2.splitlines():
        if structures.is_atom(l) and ((int(l[22:26]) == 1 and l[12:16].strip() == "N") or (l[17:20] == "LYS" and l[12:16].strip() in ("CE", "NZ") and int(l[22:26]) == 14)):
            x, y, z = (float(v) for v in structures.get_xyz(l))
            alt.append(l[:16] + "A" + l[17:])
            alt.append(structures.set_xyz(l[:16] + "B" + l[17:], x + 0.3, y - 0.2, z + 0.25))
        else:
            alt.append(l)
    cases.append(("1HPX[1:25] x2 chains, alternate locations on both chain-start N and on LYS 14", "\n".join(alt) + "\n", []))
    pm, pmd = structures.altloc_point_mutant(frag2, lambda r: r["name"] == "GLU", first="amide")
    if pm:
        cases.append((f"1HPX[1:25] x2 chains, {pmd}", pm, []))
    cases.append(("3SGB-subset two models", structures.as_models([structures.read("3SGB-subset.pdb")] * 2), []))
    # two copies of one ligand in ONE chain (same residue name and atom names, different residue numbers)
    t4 = structures.read("4DFR.pdb")
    one = [l for l in t4.splitlines() if structures.is_atom(l) and l[16] in " A" and l[17:20] != "HOH" and (l[21] == "A" or l[17:20] == "MTX")]
    one = [(l[:16] + " " + l[17:21] + "A" + " 900" + l[26:]) if (l[17:20] == "MTX" and l[21] == "B") else (l[:16] + " " + l[17:]) for l in one]
    cases.append(("4DFR chain A with both methotrexates as chain A (161 and 900)", "\n".join(one) + "\nEND\n", []))
    mols = []
    pcases = []
    for d, t, opts in cases:
        mol = check_case(chk, d, t, opts, found, ignore, par)
        if mol is not None and len(mols) < (40 if chk.thorough else 14):
            mols.append((d, mol))
        if len(pcases) < (60 if chk.thorough else 12) and (chk.thorough or len(t) < 200000):
            pcases.append((t, ignore, False, [opts[1]] if opts[:1] == ["-c"] else []))
    # (a) parser correspondence on exactly these layouts (tags N+/C- are part of the compared output)
    pdis = PC.run_cases(chk, pcases, tag="c01p")
    # (b) census correspondence
    cdis = census_corr(chk, mols)
    chk.sample({"cases": [c[0] for c in cases][:10]})
    uniq = {}
    for sig, what, rep in found:
        uniq.setdefault(sig, (sig, what, rep))
    found = list(uniq.values())
    if pdis or cdis:
        chk.broken("correspondence", "model/PdbParse.v ~ get_atom_lines_from_pdb / model/Census.v ~ is_protein_group + Group.setup",
                   {"parser": pdis[:3], "census": cdis[:5]}, search_fn=lambda: found)
    elif not proved:
        chk.broken("proof", "props/C01.v", chk.broken_obligation, search_fn=lambda: found)
    else:
        for sig, what, rep in found:
            chk.finding(sig, what, rep)
    return chk.finish(
        level="proof",
        rule=("obligations = theorems of coq/props/C01.v (every line list / option setting for the tagging; every atom description for the census over "
              "the shipped cfg). Tie: parser correspondence on the generated layouts; per-atom census correspondence over all protein atoms of the "
              "runs. Search: expected sites from an independent reading of the text vs groups of every conformation and vs summary rows, on TER / OXT / "
              "hetero-block / insertion-code / negative-number / incomplete-residue / nucleotide / ion / chain-selection / multi-model layouts. "
              "distinct = (case, conformation, number of expected sites)"
              " Added in rounds 4-6: per-alternate census for alternate locations, summary rows of alternate-location point mutants, --titrate_only naming every residue, hetero-group rows of the report."),
        assumptions=["the census oracle handles files without alternate locations (alt-loc conformations are covered by C08's checks)",
                     "ligand atom typing (which hetero atoms found a group) is not modelled; hetero groups are checked for the configured model pKa and charge of the type they got"],
        trusted=["model/PdbParse.v, model/Census.v hand models (validated each run)", "tools/vlib/tables.py cfg text extraction", "lib/PyString.v"])
