"""C19 — hybrid-36 decode.  Theorems: coq/props/C19.v about model/Hy36.v:decode.
Tie: correspondence of that executable model with propka.hybrid36.decode on the same strings.
Search: independent reference encoder / well-formedness spec against the implementation."""
import itertools
import multiprocessing as mp
import string

from vlib import common

DIG = string.digits
UP = string.ascii_uppercase
LOW = string.ascii_lowercase
ALPHA = DIG + UP + LOW + " _+.-"


# ---- independent reference (cci.lbl.gov hybrid-36, with propka's documented leading '-') -------
def ref_encode(width, n):
    if n < 0:
        s = "-" + str(-n)
        assert len(s) <= width
        return s.rjust(width)
    if n < 10 ** width:
        return str(n).rjust(width)
    n -= 10 ** width
    for digs in (DIG + UP, DIG + LOW):
        if n < 26 * 36 ** (width - 1):
            n += 10 * 36 ** (width - 1)
            out = ""
            for _ in range(width):
                out = digs[n % 36] + out
                n //= 36
            return out
        n -= 26 * 36 ** (width - 1)
    raise ValueError("out of range")


def ref_range(width):
    return (-(10 ** (width - 1) - 1) if width > 1 else 0, 10 ** width + 52 * 36 ** (width - 1) - 1)


WS = set(chr(c) for c in list(range(9, 14)) + list(range(28, 33)) + [133, 160])


def ref_value(s):
    """Independent spec: value of a well-formed field or None (malformed)."""
    i, j = 0, len(s)
    while i < j and s[i] in WS:
        i += 1
    while j > i and s[j - 1] in WS:
        j -= 1
    t = s[i:j]
    sign = 1
    if t.startswith("-"):
        sign, t = -1, t[1:]
    if not t:
        return None
    if all(c in DIG for c in t):
        return sign * int(t)
    for first, digs in ((UP, DIG + UP), (LOW, DIG + LOW)):
        if t[0] in first and all(c in digs for c in t[1:]):
            w = len(t)
            v = 0
            for c in t:
                v = v * 36 + digs.index(c)
            return sign * (v - 10 * 36 ** (w - 1) + 10 ** w + (26 * 36 ** (w - 1) if first is LOW else 0))
    return None


def impl_decode(s):
    from propka import hybrid36
    try:
        return ("ok", hybrid36.decode(s))
    except ValueError:
        return ("ValueError", None)
    except Exception as ex:  # any other failure is not the documented rejection
        return (type(ex).__name__, None)


def shape(s):
    out = ""
    for c in s:
        out += "9" if c in DIG else "A" if c in UP else "a" if c in LOW else "_" if c == "_" else "s" if c in WS else "-" if c == "-" else "?"
    return out


def classify(s):
    """Does the implementation violate the property on s?  Returns (signature, what) or None."""
    want = ref_value(s)
    got = impl_decode(s)
    if want is None:
        if got[0] != "ValueError":
            return (f"malformed-not-rejected:{shape(s.strip())[:8]}",
                    f"decode({s!r}) gives {got} but the field is malformed (must raise ValueError)")
    else:
        if got != ("ok", want):
            return (f"wrong-value:{shape(s.strip())[:8]}", f"decode({s!r}) gives {got}, expected {want}")
    return None


def _sweep(args):
    """exhaustive round trip over [lo, hi) of one width, in a worker"""
    import sys
    sys.path.insert(0, str(common.REPO))
    from propka import hybrid36
    width, lo, hi = args
    bad = []
    prev = None
    for n in range(lo, hi):
        s = ref_encode(width, n)
        try:
            v = hybrid36.decode(s)
        except Exception as ex:
            v = repr(ex)
        if v != n or (prev is not None and not (isinstance(v, int) and prev < v)):
            bad.append((width, n, s, v))
            if len(bad) > 5:
                break
        prev = v if isinstance(v, int) else prev
    return (hi - lo, bad)


def run(chk: common.Check):
    common.impl_setup()
    rng = chk.rng
    proved = chk.prove()

    # ------------------------------------------------------------------ correspondence model <-> code
    corpus = ["99999", "A0000", "0", "A", "  ZZZZY", "ZZZZZ", "a0000", "zzzzz", "-A0000", "-zzzzy", "PROPKA", "A001Z",
              "B0000", "99X99", "X9-99", "XYZa", "", "-", "!NotOk", "1_0", "1__0", "_1", "1_", "-1_0", "١", "1١"[:1],
              " 12 ", "\t12\n", "\x1c12\x1f", "\x8512\xa0", "- 1", "--1", "+1", "1.0", "1e3", "0x10", "A 000", "-", " - ",
              "00012", "-00012", "A_000", "a_000", "Aa", "aA", "9A", "9a", "\xb2", "1\xb2", "\xb9\xb2"]
    corpus = [s for s in corpus if all(ord(c) < 256 for c in s)]
    cases = list(corpus)
    cases += [chr(c) for c in range(256)]
    cases += [a + b for a in "1Aa-_ " for b in (chr(c) for c in range(256))]
    n_rand = 20000 if chk.thorough else 3000
    for _ in range(n_rand):
        k = rng.random()
        if k < 0.35:      # valid encodings, padded
            w = rng.randint(1, 6)
            lo, hi = ref_range(w)
            n = rng.choice([lo, hi, 10 ** w - 1, 10 ** w, 10 ** w + 26 * 36 ** (w - 1) - 1, 10 ** w + 26 * 36 ** (w - 1),
                            rng.randint(lo, hi), rng.randint(lo, hi)])
            s = ref_encode(w, n).strip()
            s = " " * rng.randint(0, 2) + s + " " * rng.randint(0, 2)
        elif k < 0.7:     # near-valid: one mutation of a valid encoding
            w = rng.randint(1, 5)
            lo, hi = ref_range(w)
            s = list(ref_encode(w, rng.randint(lo, hi)))
            i = rng.randrange(len(s))
            op = rng.random()
            ch = rng.choice(ALPHA + "\t\n\xa0\x85\x1c!@/:[`{")
            if op < 0.5:
                s[i] = ch
            elif op < 0.8:
                s.insert(i, ch)
            else:
                del s[i]
            s = "".join(s)
        else:             # arbitrary over the alphabet / bytes
            L = rng.randint(0, 6)
            pool = ALPHA if rng.random() < 0.8 else [chr(c) for c in range(256)]
            s = "".join(rng.choice(pool) for _ in range(L))
        cases.append(s)
    cases = list(dict.fromkeys(cases))
    pre = ("From Coq Require Import List ZArith Ascii.\nFrom V Require Import PyStr Hy36.\nImport ListNotations.\n"
           "Open Scope Z_scope.\n"
           "Definition r2o (r : result) : option Z := match r with Ok z => Some z | ValueError => None end.\n"
           "Definition D (l : list Z) : option Z := r2o (decode (map chr l)).\n")
    model = common.coq_eval("c19", pre, [f"D {common.coq_str(s)}" for s in cases], shard=1500)
    dis = []
    kinds = {"ok": 0, "ValueError": 0, "other": 0}
    for s, m in zip(cases, model):
        got = impl_decode(s)
        kinds[got[0] if got[0] in kinds else "other"] += 1
        mres = ("ok", m[1]) if m[0] == "S" else ("ValueError", None)
        chk.count(1, key=("corr", shape(s), got[0]))
        if got != mres:
            dis.append((s, got, mres))
    chk.cov["traces_validated_against_impl"] += len(cases)
    chk.corr_stats["decode"] = {"cases": len(cases), "disagreements": len(dis), "impl_outcomes": kinds,
                                "length_histogram": {str(k): sum(1 for s in cases if len(s) == k) for k in range(0, 12)}}
    chk.sample({"string": cases[len(corpus) + 700], "impl": impl_decode(cases[len(corpus) + 700])})

    # ------------------------------------------------------------------ search on the implementation
    found = []

    def note(s):
        c = classify(s)
        if c:
            found.append((c[0], c[1], {"input": s, "input_codepoints": [ord(x) for x in s],
                                       "impl": impl_decode(s), "spec": ref_value(s)}))
        return c

    for s, got, mres in dis:
        note(s)
    # exhaustive: all strings over the alphabet up to width 3 (quick) / 4 (thorough) against the spec
    maxw = 4 if chk.thorough else 3
    n_ex = 0
    for w in range(0, maxw + 1):
        for tup in itertools.product(ALPHA, repeat=w):
            s = "".join(tup)
            n_ex += 1
            want = ref_value(s)
            got = impl_decode(s)
            if (want is None and got[0] != "ValueError") or (want is not None and got != ("ok", want)):
                note(s)
    chk.count(n_ex, key=("exhaustive-alphabet", maxw))
    # sampled malformed/valid strings of width 4-5 (+ padding)
    n_s = 400000 if chk.thorough else 60000
    for _ in range(n_s):
        w = rng.randint(4, 7)
        s = "".join(rng.choice(ALPHA) for _ in range(w))
        want = ref_value(s)
        got = impl_decode(s)
        if (want is None and got[0] != "ValueError") or (want is not None and got != ("ok", want)):
            note(s)
    chk.count(n_s, key=("sampled-width4-7",))
    # round trip + monotonicity: exhaustive for widths 1-3 (quick), 1-5 (thorough)
    jobs = []
    for w in range(1, 6):
        lo, hi = ref_range(w)
        if w <= 3 or chk.thorough:
            step = max(1, (hi + 1 - lo) // (common.NCPU * 4))
            a = lo
            while a <= hi:
                jobs.append((w, a, min(hi + 1, a + step + 1)))   # overlap by one for monotonicity across chunks
                a += step
        else:
            for _ in range(64):
                a = rng.randint(lo, hi - 2000)
                jobs.append((w, a, a + 2000))
            jobs.append((w, lo, lo + 3000))
            jobs.append((w, hi - 3000, hi + 1))
            for b in (10 ** w, 10 ** w + 26 * 36 ** (w - 1)):
                jobs.append((w, b - 1500, b + 1500))
    with mp.Pool(common.NCPU) as pool:
        total = 0
        for cnt, bad in pool.imap_unordered(_sweep, jobs, chunksize=1):
            total += cnt
            for (w, n, s, v) in bad:
                found.append((f"round-trip:{shape(s.strip())[:8]}", f"decode({s!r}) = {v}, expected {n} (width {w})",
                              {"input": s, "expected": n, "impl": v}))
    chk.count(total, key=("round-trip", "exhaustive" if chk.thorough else "w1-3+samples"))
    chk.cov["exhaustive_widths"] = [1, 2, 3, 4, 5] if chk.thorough else [1, 2, 3]

    # serial numbers never influence predictions: renumber serials (incl. hybrid-36 letters) of a real structure
    from vlib import structures
    n_ser = 0
    # (1HPX: a structure with a titratable hetero group, whose HETATM records then carry five-character serials)
    for pdbname, window in (("1FTJ-Chain-A.pdb", None), ("1HPX.pdb", None), ("4DFR.pdb", None)) if chk.thorough else (("3SGB-subset.pdb", None), ("1HPX.pdb", None)):
        text = structures.read(pdbname)
        base = structures.results(text)
        for mode in (("reverse", "hy36", "same", "plus20000") if pdbname != "1HPX.pdb" or chk.thorough else ("hy36", "plus20000")):
            lines = []
            atoms = [l for l in text.splitlines() if l[:6] in ("ATOM  ", "HETATM")]
            k = 0
            for l in text.splitlines():
                if l[:6] in ("ATOM  ", "HETATM"):
                    k += 1
                    if mode == "reverse":
                        ser = str(len(atoms) - k + 1).rjust(5)
                    elif mode == "hy36":
                        ser = ref_encode(5, 99990 + 37 * k)
                    elif mode == "plus20000":
                        ser = str(20000 + k).rjust(5)
                    else:
                        ser = "    7"
                    l = l[:6] + ser + l[11:]
                lines.append(l)
            got = structures.results("\n".join(lines) + "\n")
            n_ser += 1
            if got != base:
                found.append((f"serial-influences:{mode}", f"renumbering atom serials ({mode}) changed the results of {pdbname}",
                              {"pdb": pdbname, "mode": mode, "diff": structures.diff(base, got)[:5]}))
    chk.count(n_ser, key=("serial-renumbering",))

    # ------------------------------------------------------------------ classify
    if dis:
        chk.broken("correspondence", "Hy36.decode ~ propka.hybrid36.decode",
                   {"disagreements": [{"input": s, "impl": g, "model": m} for s, g, m in dis[:10]]},
                   search_fn=lambda: found)
    elif not proved:
        chk.broken("proof", "props/C19.v", chk.broken_obligation, search_fn=lambda: found)
    else:
        for sig, what, rep in found:
            chk.finding(sig, what, rep)
    return chk.finish(
        level="proof",
        rule=("obligations = theorems of coq/props/C19.v (all widths, all paddings, all 8-bit strings). Correspondence cases: "
              "unit-test corpus, all 1-char and 6x256 2-char strings, random valid/near-valid/arbitrary strings; "
              "distinct = (string shape, outcome). Search: all strings over [0-9A-Za-z _+.-] up to width "
              f"{maxw}, random width 4-7, round trip+monotonicity exhaustively for the listed widths, serial renumbering"
              " Added in round 5: five-character serials on the HETATM records of a titratable ligand."),
        assumptions=["the model is hand-written; it is tied to hybrid36.decode by the correspondence run of this check",
                     "strings are over code points 0..255 (a PDB file read as text); str.strip()/int() of CPython are modelled in lib/PyStr.v"],
        trusted=["tools/props/c19.py (harness), lib/PyStr.v model of str.strip / int()"])
