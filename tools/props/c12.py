"""C12 — incomplete structures degrade gracefully.  Theorems: coq/props/C12.v (totality of the error-explicit set-up model).
Tie: model/Setup.v vs the real setup_atoms of COO / HIS / AMD / C-terminus / ARG / TRP groups on fabricated atoms for every shape of the
neighbour lists (outcome incl. exception type, centre atoms, interaction atoms), and read_dispatch vs read_molecule_file.
Search: removal of atom subsets from real structures and residue-window fragments (systematic singles and pairs per residue, side-chain
power sets, whole residues, termini, ligand atoms; also with --protonate-all): no exception, and every site whose defining atom remains
is still among the groups and in the summary; rejected inputs raise ValueError and nothing else."""
import io
import itertools
import math
import traceback

from vlib import common, structures
from props import c01


# ------------------------------------------------------------------------------------------------ correspondence
class Fab:
    """fabricated atoms with numeric ids"""

    def __init__(self):
        import propka.atom
        self.A = propka.atom.Atom
        self.atoms = []

    def new(self, element, name=None):
        a = self.A()
        a.element, a.name = element, name or element
        a.x, a.y, a.z = float(len(self.atoms)), 0.5 * len(self.atoms), 0.0
        a.res_name, a.res_num, a.chain_id, a.type = "XXX", 1, "A", "atom"
        a.bonded_atoms = []
        a.vid = len(self.atoms)
        self.atoms.append(a)
        return a

    def bond(self, a, b, symmetric=True):
        a.bonded_atoms.append(b)
        if symmetric:
            b.bonded_atoms.append(a)


def run_real(cls, self_atom, pending_h=None, ring=None):
    """call the real setup_atoms with the protonator / ring finder replaced by stubs; -> outcome tuple"""
    import propka.group as G
    import propka.ligand
    g = cls(self_atom)
    g.parameters = None
    rec = {"centre": None, "inter": False}
    orig_center, orig_inter = g.set_center, g.set_interaction_atoms

    def set_center(atoms):
        rec["centre"] = [a.vid for a in atoms]
        return orig_center(atoms)

    def set_inter(a, b):
        rec["inter"] = True
        return orig_inter(a, b)
    g.set_center, g.set_interaction_atoms = set_center, set_inter

    class Stub:
        def protonate_atom(self, atom):
            for h in (pending_h or {}).pop(atom.vid, []):
                atom.bonded_atoms.append(h)
    saved = (G.PROTONATOR, propka.ligand.is_ring_member)
    G.PROTONATOR = Stub()
    if ring is not None:
        propka.ligand.is_ring_member = lambda atom: list(ring)
    try:
        g.setup_atoms()
        out = ("ok", rec["centre"], ([a.vid for a in g.interaction_atoms_for_acids], [a.vid for a in g.interaction_atoms_for_bases]) if rec["inter"] else None)
    except (IndexError, ValueError, ZeroDivisionError, AttributeError, KeyError, TypeError) as ex:
        out = ("err", type(ex).__name__)
    finally:
        G.PROTONATOR, propka.ligand.is_ring_member = saved
    return out


def nl(xs):
    return "[" + "; ".join(f"{x}%nat" for x in xs) + "]"


def setup_cases():
    """(description, coq expression, thunk running the implementation)"""
    import propka.group as G
    cases = []
    for k in range(0, 4):                                   # COO: 0..3 oxygens
        def mk(k=k):
            f = Fab(); c = f.new("C", "CG"); f.bond(c, f.new("C", "CB"))
            ox = [f.new("O", f"OD{i}") for i in range(k)]
            for o in ox:
                f.bond(c, o)
            return run_real(G.COOGroup, c)
        cases.append((f"COO {k} oxygens", f"coo_setup 0 {nl(range(2, 2 + k))}", mk))
    for shape in itertools.product([0, 1, 2], repeat=2):     # HIS: ring of n carbons + m nitrogens with 0..1 H
        for hcount in (0, 1):
            nC, nN = shape
            def mk(nC=nC, nN=nN, hcount=hcount):
                f = Fab(); s = f.new("C", "CG"); ring = [s] if (nC + nN) else []
                pend = {}
                for i in range(nC):
                    ring.append(f.new("C", f"C{i}"))
                for i in range(nN):
                    n = f.new("N", f"N{i}"); ring.append(n)
                for n in [r for r in ring if r.element == "N"]:
                    pend[n.vid] = [f.new("H", "H") for _ in range(hcount)]
                return run_real(G.HISGroup, s, pend, ring)
            ids = ([0] if (nC + nN) else []) + list(range(1, 1 + nC + nN))
            items, nxt = [], 1 + nC + nN
            for j, i in enumerate(ids):
                isn = (i > nC) if (nC + nN) else False
                hs = []
                if isn:
                    hs = list(range(nxt, nxt + hcount)); nxt += hcount
                items.append(f"(({i}%nat, {'true' if isn else 'false'}), {nl(hs)})")
            cases.append((f"HIS ring {nC}C {nN}N {hcount}H", f"his_setup 0 [{'; '.join(items)}]", mk))
    for nO, nN, nH in itertools.product([0, 1, 2], [0, 1, 2], [0, 2]):   # AMD
        def mk(nO=nO, nN=nN, nH=nH):
            f = Fab(); c = f.new("C", "CG")
            for i in range(nO):
                f.bond(c, f.new("O", "OD1"))
            ns = []
            for i in range(nN):
                n = f.new("N", "ND2"); f.bond(c, n); ns.append(n)
            pend = {n.vid: [f.new("H", "H") for _ in range(nH)] for n in ns[:1]}
            return run_real(G.AMDGroup, c, pend)
        ox = list(range(1, 1 + nO)); ns = list(range(1 + nO, 1 + nO + nN)); h0 = list(range(1 + nO + nN, 1 + nO + nN + nH))
        nitems = [f"({n}%nat, {nl(h0 if j == 0 else [])})" for j, n in enumerate(ns)]
        cases.append((f"AMD {nO}O {nN}N {nH}H", f"amd_setup 0 {nl(ox)} [{'; '.join(nitems)}]", mk))
    for nC, nOther, sym in itertools.product([0, 1, 2], [0, 1, 2], [True, False]):   # C-terminus
        def mk(nC=nC, nOther=nOther, sym=sym):
            f = Fab(); o = f.new("O", "OXT")
            for i in range(nC):
                c = f.new("C", "C"); f.bond(o, c, symmetric=sym)
                for j in range(nOther):
                    f.bond(c, f.new("O", "O"))
            return run_real(G.CtermGroup, o)
        items, nxt = [], 1
        for i in range(nC):
            c = nxt; nxt += 1
            others = list(range(nxt, nxt + nOther)); nxt += nOther
            items.append(f"({c}%nat, {nl(([0] if sym else []) + others)})")
        cases.append((f"C- {nC} carbons, {nOther} other oxygens, bonds {'symmetric' if sym else 'one-way'}", f"cterm_setup 0 [{'; '.join(items)}]", mk))
    for nN, nH in itertools.product([0, 1, 3], [0, 2]):      # ARG
        def mk(nN=nN, nH=nH):
            f = Fab(); c = f.new("C", "CZ"); ns = []
            for i in range(nN):
                n = f.new("N", f"NH{i}"); f.bond(c, n); ns.append(n)
            pend = {n.vid: [f.new("H", "H") for _ in range(nH)] for n in ns}
            return run_real(G.ARGGroup, c, pend)
        items, nxt = [], 1 + nN
        for i in range(nN):
            items.append(f"({1 + i}%nat, {nl(range(nxt, nxt + nH))})"); nxt += nH
        cases.append((f"ARG {nN}N {nH}H each", f"arg_setup 0 [{'; '.join(items)}]", mk))
    for nH in (0, 1):                                        # TRP
        def mk(nH=nH):
            f = Fab(); n = f.new("N", "NE1")
            return run_real(G.TRPGroup, n, {0: [f.new("H", "HE1") for _ in range(nH)]})
        cases.append((f"TRP {nH}H", f"trp_setup 0 {nl(range(1, 1 + nH))}", mk))
    return cases


def decode_setup(r):
    if r[0][0] == 0:
        return ("err", {1: "IndexError", 2: "ValueError", 3: "ZeroDivisionError"}[r[0][1]])
    return ("ok", r[1], (r[3], r[4]) if r[2] == [1] else None)


def corr_setup(chk):
    cases = setup_cases()
    rend = ("(fun r => match r with Ok s => [[1%Z]; map Z.of_nat (centre s)] ++ (match inter s with Some (a, b) => [[1%Z]; map Z.of_nat a; map Z.of_nat b] | None => [[0%Z]; []; []] end) "
            "| Err IndexError => [[0%Z; 1%Z]] | Err ValueError => [[0%Z; 2%Z]] | Err ZeroDivisionError => [[0%Z; 3%Z]] end)")
    pre = "From Coq Require Import List ZArith.\nFrom V Require Import Setup.\nImport ListNotations.\n"
    res = common.coq_eval("c12s", pre, [f"{rend} ({e})" for _, e, _ in cases], shard=200)
    dis = []
    for (d, e, mk), r in zip(cases, res):
        real = mk()
        model = decode_setup(r)
        if real[0] == "ok":
            real = ("ok", real[1], None if real[2] is None else (list(real[2][0]), list(real[2][1])))
        if model[0] == "ok":
            model = ("ok", model[1], None if model[2] is None else (list(model[2][0]), list(model[2][1])))
        if real != model:
            dis.append({"case": d, "impl": str(real), "model": str(model)})
    chk.corr_stats["setup_atoms ~ model/Setup.v"] = {"shapes": len(cases), "disagreements": len(dis)}
    chk.cov["traces_validated_against_impl"] += len(cases)
    return dis


def corr_dispatch(chk, found):
    import propka.run
    pdb = structures.read("sample-issue-140.pdb")
    cases = [("x.pdb", pdb), ("x.PDB", pdb), ("x.Pdb", pdb), ("x.pdb", ""), ("x.pdb", "REMARK only\nEND\n"), ("x.ent", pdb), ("x", pdb), ("x.pdb.gz", pdb), ("x.pdbx", pdb),
             ("x.mol2", pdb), (".pdb", pdb), ("x.pdb", "HETATM" + " " * 74 + "\n" if False else "HEADER\n")]
    oc = lambda s: "(of_codes [" + "; ".join(str(ord(c)) for c in s) + "]%Z)"
    from pathlib import Path
    exprs, meta = [], []
    for name, text in cases:
        try:
            propka.run.single(name, optargs=["--quiet"], stream=io.StringIO(text), write_pka=False)
            real = "accept"
        except ValueError:
            real = "ValueError"
        except Exception as ex:   # noqa: BLE001
            real = type(ex).__name__
        nconf = 1 if any(l[:6] in ("ATOM  ", "HETATM") and l[17:20] != "HOH" for l in text.splitlines()) else 0
        exprs.append(f"[match read_dispatch {oc(Path(name).suffix)} {nconf}%nat with Accept => 1%Z | RejectValueError => 0%Z end]")
        meta.append((name, len(text), real))
    pre = "From Coq Require Import List ZArith String.\nFrom V Require Import PyString Setup.\nImport ListNotations.\n"
    res = common.coq_eval("c12d", pre, exprs, shard=100)
    dis = []
    for (name, n, real), r in zip(meta, res):
        model = "accept" if r[0] == 1 else "ValueError"
        if real != model:
            dis.append({"name": name, "text_len": n, "impl": real, "model": model})
            if real not in ("accept", "ValueError"):
                found.append((f"rejected-input-raises:{real}", f"input named {name!r} ({n} characters) raises {real} instead of ValueError", {"name": name}))
    chk.corr_stats["read_molecule_file ~ read_dispatch"] = {"cases": len(meta), "disagreements": len(dis)}
    return dis


# ------------------------------------------------------------------------------------------------ search
def remove_atoms(text, victims):
    """victims: set of line indices to drop"""
    return "\n".join(l for i, l in enumerate(text.splitlines()) if i not in victims) + "\n"


def try_run(chk, found, what, text, opts, ignore, check_sites=True):
    try:
        mol, _ = structures.run(text, opts)
    except ValueError as ex:
        if not any(structures.is_atom(l) for l in text.splitlines()):
            return
        tb = traceback.extract_tb(ex.__traceback__)[-1]
        found.append((f"unhandled:ValueError@{tb.name}", f"{what}: ValueError: {ex} ({tb.filename.split('/')[-1]}:{tb.lineno} in {tb.name})",
                      {"case": what, "options": opts, "pdb_text": text if len(text) < 150000 else None}))
        return
    except Exception as ex:   # noqa: BLE001
        tb = traceback.extract_tb(ex.__traceback__)[-1]
        found.append((f"unhandled:{type(ex).__name__}@{tb.name}", f"{what}: {type(ex).__name__}: {ex} ({tb.filename.split('/')[-1]}:{tb.lineno} in {tb.name})",
                      {"case": what, "options": opts, "pdb_text": text if len(text) < 150000 else None}))
        return
    if not check_sites or len(mol.conformation_names) != 1:
        return
    exp, _ = c01.expected_sites(text, ignore)
    cname = mol.conformation_names[0]
    obs, _ = c01.observed_sites(mol.conformations[cname])
    missing = list((exp.get(int(cname[:-1]), {}) - obs).elements()) if exp.get(int(cname[:-1])) else []
    if not missing and exp.get(int(cname[:-1])):
        # "reported" means: titratable (unless disulfide-bridged) and listed in the summary
        _, flags = c01.observed_sites(mol.conformations[cname])
        _, bridged = c01.expected_sites(text, ignore)
        rows = {lab for lab, _pk, _mp in c01.summary_rows(structures.pka_text(mol))}
        for k, g in flags.items():
            if k in exp[int(cname[:-1])] and k not in bridged.get(int(cname[:-1]), set()):
                if not g.titratable:
                    found.append((f"site-not-titrated-after-removal:{k[0]}", f"{what}: {c01.label_of(*k[:3])} keeps its defining atom but is no longer titratable (not reported)",
                                  {"case": what, "options": opts, "site": k, "pdb_text": text if len(text) < 150000 else None}))
                    break
                if g.label not in rows and not g.coupled_titrating_group:
                    found.append((f"site-not-in-summary-after-removal:{k[0]}", f"{what}: {c01.label_of(*k[:3])} keeps its defining atom but has no summary row",
                                  {"case": what, "options": opts, "site": k, "pdb_text": text if len(text) < 150000 else None}))
                    break
    if missing:
        k = missing[0]
        found.append((f"site-dropped-after-removal:{k[0]}", f"{what}: {c01.label_of(*k[:3])} keeps its defining atom but is no longer among the groups",
                      {"case": what, "options": opts, "site": k, "pdb_text": text if len(text) < 150000 else None}))


def run(chk: common.Check):
    common.impl_setup()
    rng = chk.rng
    proved = chk.prove()
    found = []
    sdis = corr_setup(chk)
    ddis = corr_dispatch(chk, found)
    import propka.parameters
    from propka.input import read_parameter_file
    from propka.lib import loadOptions
    par = read_parameter_file(loadOptions(["x.pdb", "--quiet"]).parameters, propka.parameters.Parameters())
    ignore = list(par.ignore_residues)

    base = structures.read("1HPX.pdb")
    res = [r for r in structures.residues(base) if r["tag"] == "ATOM  "]
    # one window per residue type (target in the middle)
    seen, windows = set(), []
    order = list(range(3, len(res) - 3))
    rng.shuffle(order)
    for i in order:
        if res[i]["name"] not in seen:
            seen.add(res[i]["name"])
            windows.append((i, structures.fragment(base, i - 3, i + 3)))
    budget = 9000 if chk.thorough else 2600
    nrun = 0
    for i, frag in windows:
        tname = res[i]["name"] + res[i]["num"].strip() + res[i]["chain"]
        lines = frag.splitlines()
        tgt = [j for j, l in enumerate(lines) if structures.is_atom(l) and l[22:27] == res[i]["num"] + res[i]["icode"] and l[21] == res[i]["chain"]]
        subsets = [(j,) for j in tgt] + list(itertools.combinations(tgt, 2))
        side = [j for j in tgt if lines[j][12:16].strip() not in ("N", "CA", "C", "O", "CB")]
        if len(side) <= 7:
            subsets += [s for k in range(3, len(side) + 1) for s in itertools.combinations(side, k)]
        # all singles and pairs first, larger side-chain subsets in random order
        small = [x for x in subsets if len(x) <= 2]
        large = [x for x in subsets if len(x) > 2]
        rng.shuffle(large)
        subsets = small + large
        per = max(8, budget // max(1, len(windows)))
        for s in subsets[:per]:
            what = f"1HPX window around {tname} without {[lines[j][12:16].strip() for j in s]}"
            opts = ["--protonate-all"] if rng.random() < 0.12 else []
            try_run(chk, found, what + (" (--protonate-all)" if opts else ""), remove_atoms(frag, set(s)), opts, ignore)
            nrun += 1
            chk.count(1, key=("window", tname, s, bool(opts)))
    # the residues at the ends of every chain (not reachable as the middle of a window): each backbone / terminal atom removed singly and in
    # pairs, in the whole structure (the chain ends interact with acids elsewhere through the backbone terms)
    for n in ["3SGB-subset.pdb"] + (["1HPX.pdb"] if chk.thorough else []):
        t = structures.read(n)
        L = t.splitlines()
        rs = [r for r in structures.residues(t) if r["tag"] == "ATOM  "]
        ends = [r for k, r in enumerate(rs) if k == 0 or k == len(rs) - 1 or rs[k - 1]["chain"] != r["chain"] or rs[k + 1]["chain"] != r["chain"]]
        for r in ends:
            bb = [j for j in r["lines"] if L[j][12:16].strip() in ("N", "CA", "C", "O", "OXT")]
            for sset in [(j,) for j in bb] + ([c for c in itertools.combinations(bb, 2)] if chk.thorough else [(bb[0], bb[-1])] if len(bb) > 1 else []):
                what = f"{n} chain end {r['name']}{r['num'].strip()}{r['chain']} without {[L[j][12:16].strip() for j in sset]}"
                try_run(chk, found, what, remove_atoms(t, set(sset)), [], ignore)
                chk.count(1, key=("chain-end", n, r["num"], sset))
    # a ligand in its binding pocket (methotrexate of 4DFR chain A with the residues within 6 A): every single ligand atom removed in turn
    t4 = [l for l in structures.read("4DFR.pdb").splitlines() if structures.is_atom(l) and l[21] == "A" and l[16] in " A" and l[17:20] != "HOH"]
    ligl = [l for l in t4 if l[17:20] == "MTX"]
    lpos = [[float(v) for v in structures.get_xyz(l)] for l in ligl]
    near = {l[22:27] for l in t4 if l[:6] == "ATOM  " and any(math.dist([float(v) for v in structures.get_xyz(l)], p) < 6.0 for p in lpos)}
    pocket = [l for l in t4 if (l[:6] == "ATOM  " and l[22:27] in near) or l[17:20] == "MTX"]
    ptext = "\n".join(pocket) + "\nEND\n"
    PL = ptext.splitlines()
    lig_idx = [j for j, l in enumerate(PL) if l[17:20] == "MTX"]
    for j in (lig_idx if chk.thorough else lig_idx[::2] + lig_idx[1::6]):
        try_run(chk, found, f"4DFR methotrexate pocket without ligand atom {PL[j][12:16].strip()}", remove_atoms(ptext, {j}), [], ignore, check_sites=False)
        chk.count(1, key=("ligand-atom", PL[j][12:16].strip()))
    # random multi-atom removal on whole structures, whole residues, termini, ligand atoms
    for n in ["3SGB-subset.pdb", "1HPX.pdb"] + (["1FTJ-Chain-A.pdb", "3SGB.pdb", "4DFR.pdb"] if chk.thorough else []):
        t = structures.read(n)
        L = t.splitlines()
        atoms = [j for j, l in enumerate(L) if structures.is_atom(l)]
        for frac in ([0.02, 0.2, 0.5] if not chk.thorough else [0.01, 0.05, 0.2, 0.5, 0.8]):
            s = set(j for j in atoms if rng.random() < frac)
            try_run(chk, found, f"{n} with {len(s)} random atoms removed ({frac})", remove_atoms(t, s), [], ignore, check_sites=not any(L[j][16] != " " for j in atoms))
            chk.count(1, key=("random", n, frac))
        rs = structures.residues(t)
        s = set(j for r in rs if rng.random() < 0.3 for j in r["lines"])
        try_run(chk, found, f"{n} with 30% of the residues removed", remove_atoms(t, s), [], ignore, check_sites=not any(L[j][16] != " " for j in atoms))
        het = [j for j in atoms if L[j][:6] == "HETATM" and L[j][17:20] != "HOH"]
        if het:
            for _ in range(3 if chk.thorough else 1):
                s = set(j for j in het if rng.random() < 0.4)
                try_run(chk, found, f"{n} with {len(s)} ligand atoms removed", remove_atoms(t, s), [], ignore, check_sites=False)
        bb = set(j for j in atoms if L[j][12:16].strip() in ("N", "C", "O", "OXT") and rng.random() < 0.3)
        try_run(chk, found, f"{n} with {len(bb)} backbone/terminal atoms removed", remove_atoms(t, bb), [], ignore, check_sites=not any(L[j][16] != " " for j in atoms))
    chk.sample({"windows": [res[i]["name"] for i, _ in windows], "window_runs": nrun})
    uniq = {}
    for sig, what, rep in found:
        uniq.setdefault(sig, (sig, what, rep))
    found = list(uniq.values())
    if sdis or ddis:
        chk.broken("correspondence", "model/Setup.v ~ setup_atoms / read_molecule_file", {"setup": sdis[:5], "dispatch": ddis[:5]}, search_fn=lambda: found)
    elif not proved:
        chk.broken("proof", "props/C12.v", chk.broken_obligation, search_fn=lambda: found)
    else:
        for sig, what, rep in found:
            chk.finding(sig, what, rep)
    return chk.finish(
        level="proof",
        rule=("obligations = theorems of coq/props/C12.v (every shape of the neighbour lists). Tie: real setup_atoms on fabricated atoms for every "
              "modelled shape (outcome, centre atoms, interaction atoms); read_molecule_file on names/contents. Search: per residue type of 1HPX a "
              "7-residue window with every single atom, pairs, and side-chain subsets removed (sampled within budget), random removal of atoms / "
              "residues / backbone atoms / ligand atoms on whole structures, a share with --protonate-all; sites with surviving defining atom must "
              "remain. distinct = removal patterns"
              " Added in round 5: every backbone / terminal atom of the chain ends removed in the whole structure."),
        assumptions=["C-terminus totality needs symmetric bonds (C11_bonds_symmetric); the one-way case is part of the correspondence",
                     "the rest of the pipeline (protonation geometry, determinant loops, coupling) is covered by the removal search only"],
        trusted=["model/Setup.v hand model (validated each run)", "stub protonator / ring finder of the correspondence harness"])
