#!/usr/bin/env python3
"""tools/seed_prompts.py <round> <outdir>: write one prompt per property for a fresh sub-agent that is to produce seeded changes.
The prompt contains ONLY the text of the property (from properties.jsonl), the location of the agent's own scratch worktree and the list of
mechanisms already known for that property (names + what they need to manifest, from seeded/*/meta.json) - nothing else from /verif."""
import json
import pathlib
import sys

ROOT = pathlib.Path(__file__).resolve().parent.parent


def main():
    rnd, outdir = sys.argv[1], pathlib.Path(sys.argv[2])
    outdir.mkdir(parents=True, exist_ok=True)
    known = {}
    for d in sorted((ROOT / "seeded").iterdir()):
        m = json.loads((d / "meta.json").read_text())
        nm = m["name"]
        if nm[:3] in ("r4-", "r5-", "r6-", "r7-"):
            nm = nm[3:]
        known.setdefault(m["property"], []).append(f"- {nm.replace('-', ' ')} (manifests with: {m.get('needs_to_manifest', '')})")
    for line in (ROOT / "properties.jsonl").read_text().splitlines():
        p = json.loads(line)
        pid = p["id"]
        wt = f"/var/tmp/wt{rnd}-{pid}"
        out = f"{outdir}/out-{pid}"
        mech = "; ".join(f"{m['name']} ({m['where']})" for m in p["anchors"].get("mechanism", []))
        text = f"""You are helping test a verification framework by producing realistic *seeded defects* for an open-source Python project (PROPKA 3, a pKa predictor).

Work ONLY inside your own scratch git worktree at {wt} (a checkout of the project) and write your outputs ONLY to {out}/. Do NOT read or touch /repo, /verif, /tmp/seed or any other seed directory; do not use the network. Python: /venv/bin/python (the project's dependencies are installed there). Run the project's tests with:
    cd {wt} && PYTHONPATH={wt} /venv/bin/python -m pytest -q -p no:cacheprovider tests

THE PROPERTY UNDER TEST
Property {pid}: {p['title']}

Statement: {p['statement']}

Quantified over: {p['quantifier']['text']}

Why the existing tests cannot settle it: {p['why_tests_cant']}

Code the property is anchored in: {', '.join(p['anchors']['files'])}
Mechanisms: {mech}

TASK
Produce TWO independent, realistic code changes (different mechanisms, ideally different functions or files) such that each one
 (1) is the kind of change a maintainer might plausibly make (refactor, micro-optimisation, "tidy-up", new small feature, half-finished fix) - not an obviously malicious edit, no special-casing of particular inputs;
 (2) still passes the ENTIRE existing test suite (49 tests) unchanged;
 (3) breaks the stated property on some input / option / parameter-file / call-sequence that the test suite does not exercise;
 (4) is DIFFERENT in mechanism AND in triggering condition from these already-known changes for this property (do not repeat or closely vary them):
{chr(10).join(known.get(pid, ['- (none)']))}
Look for parts of the anchored code (and of code it cooperates with) that the known changes have NOT touched; prefer subtle changes whose trigger is rare among ordinary inputs.

For each change N in {{1,2}} write:
 - {out}/patchN.diff : output of `git -C {wt} diff` for that change ALONE (must apply to a clean checkout with `git apply`);
 - {out}/demoN.py : a self-contained script `demoN.py <path-to-source-tree>` that inserts the tree at sys.path[0], exits 0 on the unchanged tree and exits 1 (printing what failed) on the tree with patchN applied; it builds its inputs itself (it may read files under <tree>/tests/pdb, write temporary files, spawn /venv/bin/python);
 - a section in {out}/notes.md: what was changed and why it looks innocent, which part of the property breaks, what an input needs in order to manifest it (one paragraph starting with the words "What an input needs"), and the exact commands you ran with their results (tests passing with the patch; demo exit codes with and without the patch).
Verify everything yourself before finishing (apply each patch alone on a clean tree; `git checkout -- .` between experiments; leave the worktree clean). Keep demos fast (< 90 s). If after a serious search you can only find ONE change that satisfies all conditions, deliver one and say so. Report briefly what you produced (for each change: a short kebab-case name, one line on the trigger).
"""
        (outdir / f"{pid}.prompt.txt").write_text(text)
        (outdir / f"out-{pid}").mkdir(exist_ok=True)
    print("prompts written to", outdir)


if __name__ == "__main__":
    main()
