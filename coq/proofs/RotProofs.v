(* C20: the generated rotate_vector_around_an_axis (gen/VecGen.v, instance NumR) equals the right-handed
   Rodrigues rotation about axis/|axis| for every non-zero axis. *)
From Coq Require Import Reals Lra Nsatz Psatz Bool.
From V Require Import Num VecGen.
Open Scope R_scope.

Notation V3 := (vec3 R).
Notation mk := (@mk_vec3 R).
Notation vx := (@vec3_x R).
Notation vy := (@vec3_y R).
Notation vz := (@vec3_z R).

Definition rotz (t : R) (v : V3) : V3 :=
  mk (cos t * vx v - sin t * vy v) (sin t * vx v + cos t * vy v) (vz v).
Definition roty (t : R) (v : V3) : V3 :=
  mk (cos t * vx v + sin t * vz v) (vy v) (- sin t * vx v + cos t * vz v).
Definition cross (a b : V3) : V3 := mk (vy a * vz b - vz a * vy b) (vz a * vx b - vx a * vz b) (vx a * vy b - vy a * vx b).
Definition dot (a b : V3) : R := vx a * vx b + vy a * vy b + vz a * vz b.
Definition scal (k : R) (a : V3) : V3 := mk (k * vx a) (k * vy a) (k * vz a).
Definition add (a b : V3) : V3 := mk (vx a + vx b) (vy a + vy b) (vz a + vz b).
Definition norm (a : V3) : R := sqrt (dot a a).
Definition unit_of (a : V3) : V3 := scal (/ norm a) a.
(* right-handed rotation of v by angle t about the unit vector k *)
Definition rodrigues (t : R) (k v : V3) : V3 :=
  add (add (scal (cos t) v) (scal (sin t) (cross k v))) (scal (dot k v * (1 - cos t)) k).

(* ---- the generated elementary rotations are rotz / roty ---- *)
Lemma lit0 : IZR 0 / IZR 1 = 0. Proof. lra. Qed.
Lemma lit1 : IZR 1 / IZR 1 = 1. Proof. lra. Qed.
Lemma lit2 : IZR 2 / IZR 1 = 2. Proof. lra. Qed.

Lemma mm_rotz t v : Matrix4x4___matmul__ (rotate_atoms_around_z_axis t) v = rotz t v.
Proof.
  destruct v as [x y z]. unfold Matrix4x4___matmul__, rotate_atoms_around_z_axis, rotz. num_unfold.
  cbn [mat44_a11 mat44_a12 mat44_a13 mat44_a14 mat44_a21 mat44_a22 mat44_a23 mat44_a24 mat44_a31 mat44_a32 mat44_a33 mat44_a34
       vec3_x vec3_y vec3_z].
  f_equal; lra.
Qed.
Lemma mm_roty t v : Matrix4x4___matmul__ (rotate_atoms_around_y_axis t) v = roty t v.
Proof.
  destruct v as [x y z]. unfold Matrix4x4___matmul__, rotate_atoms_around_y_axis, roty. num_unfold.
  cbn [mat44_a11 mat44_a12 mat44_a13 mat44_a14 mat44_a21 mat44_a22 mat44_a23 mat44_a24 mat44_a31 mat44_a32 mat44_a33 mat44_a34
       vec3_x vec3_y vec3_z].
  f_equal; lra.
Qed.

(* ---- algebra of the conjugation ---- *)
Lemma conj_is_rodrigues : forall t b g v,
  rotz (-g) (roty (-b) (rotz t (roty b (rotz g v)))) =
  rodrigues t (rotz (-g) (roty (-b) (mk 0 0 1))) v.
Proof.
  intros. unfold rodrigues, rotz, roty, add, scal, cross, dot; simpl.
  rewrite !cos_neg, !sin_neg.
  pose proof (sin2_cos2 b) as Hb. pose proof (sin2_cos2 g) as Hg. unfold Rsqr in *.
  set (cb := cos b) in *. set (sb := sin b) in *. set (cg := cos g) in *. set (sg := sin g) in *.
  set (ct := cos t). set (st := sin t).
  f_equal; nsatz.
Qed.

Lemma rotz_0 v : rotz 0 v = v.
Proof. destruct v; unfold rotz; simpl. rewrite cos_0, sin_0. f_equal; ring. Qed.
Lemma roty_0 v : roty 0 v = v.
Proof. destruct v; unfold roty; simpl. rewrite cos_0, sin_0. f_equal; ring. Qed.
Lemma rotz_inv g v : rotz (-g) (rotz g v) = v.
Proof. destruct v; unfold rotz; simpl. rewrite cos_neg, sin_neg. pose proof (sin2_cos2 g) as H; unfold Rsqr in H. f_equal; nsatz. Qed.
Lemma roty_inv g v : roty (-g) (roty g v) = v.
Proof. destruct v; unfold roty; simpl. rewrite cos_neg, sin_neg. pose proof (sin2_cos2 g) as H; unfold Rsqr in H. f_equal; nsatz. Qed.

Definition sgn x := x / Rabs x.
Lemma sgn_sq x : x <> 0 -> sgn x * sgn x = 1.
Proof. intros. unfold sgn. unfold Rabs. destruct (Rcase_abs x); field; lra. Qed.
Lemma sgn_abs x : x <> 0 -> sgn x * Rabs x = x.
Proof. intros. unfold sgn. field. apply Rabs_no_R0; auto. Qed.
Lemma pm1 s : s * s = 1 -> s = 1 \/ s = -1.
Proof. intros H. assert (H0 : (s-1)*(s+1)=0) by nsatz. apply Rmult_integral in H0. destruct H0; [left|right]; lra. Qed.
Lemma cos_sgn_mul s a : s * s = 1 -> cos (- s * a) = cos a.
Proof. intros H. destruct (pm1 s H) as [->| ->].
  - replace (-(1) * a) with (- a) by ring. apply cos_neg.
  - replace (- -1 * a) with a by ring. reflexivity. Qed.
Lemma sin_sgn_mul s a : s * s = 1 -> sin (- s * a) = - s * sin a.
Proof. intros H. destruct (pm1 s H) as [->| ->].
  - replace (-(1) * a) with (- a) by ring. rewrite sin_neg. ring.
  - replace (- -1 * a) with a by ring. ring. Qed.

Lemma align_z x y z : y <> 0 -> x <> 0 ->
  let r := sqrt (x*x + y*y) in
  let gamma := - x / Rabs x * asin (y / r) in
  rotz gamma (mk x y z) = mk (sgn x * r) 0 z.
Proof.
  intros Hy Hx r gamma.
  assert (Hr2 : 0 < x*x + y*y) by nra.
  assert (Hr : 0 < r) by (apply sqrt_lt_R0; exact Hr2).
  assert (Hrr : r * r = x*x + y*y) by (apply sqrt_sqrt; lra).
  assert (Hb : -1 <= y / r <= 1).
  { assert (Hyr : y*y <= r*r) by nra.
    assert (Hlo : - r <= y) by nra. assert (Hhi : y <= r) by nra.
    split; apply Rmult_le_reg_r with r; try lra; unfold Rdiv; rewrite Rmult_assoc, Rinv_l by lra; lra. }
  unfold gamma. replace (- x / Rabs x) with (- sgn x) by (unfold sgn; field; apply Rabs_no_R0; auto).
  unfold rotz; simpl.
  rewrite cos_sgn_mul, sin_sgn_mul by (apply sgn_sq; auto).
  rewrite sin_asin by exact Hb. rewrite cos_asin by exact Hb.
  assert (Haa : Rabs x * Rabs x = x * x) by (unfold Rabs; destruct (Rcase_abs x); ring).
  assert (Hs : sqrt (1 - (y / r)²) = Rabs x / r).
  { replace (1 - (y/r)²) with ((Rabs x / r)²).
    - apply sqrt_Rsqr. apply Rmult_le_pos; [apply Rabs_pos| left; apply Rinv_0_lt_compat; lra].
    - unfold Rsqr. apply Rmult_eq_reg_r with (r * r); [|nra].
      replace (Rabs x / r * (Rabs x / r) * (r * r)) with (Rabs x * Rabs x) by (field; lra).
      replace ((1 - y / r * (y / r)) * (r * r)) with (r * r - y * y) by (field; lra).
      rewrite Haa, Hrr. ring. }
  rewrite Hs.
  pose proof (sgn_abs x Hx) as Hsa. pose proof (sgn_sq x Hx) as Hss.
  set (s := sgn x) in *. set (a := Rabs x) in *.
  assert (Hri : r <> 0) by lra. clear Hs Hb. clearbody s a. clear gamma. clearbody r.
  f_equal.
  - apply Rmult_eq_reg_r with r; [|exact Hri].
    replace ((a / r * x - - s * (y / r) * y) * r) with (a * x + s * y * y) by (field; exact Hri).
    nsatz.
  - apply Rmult_eq_reg_r with r; [|exact Hri].
    replace ((- s * (y / r) * x + a / r * y) * r) with (y * (a - s * x)) by (field; exact Hri).
    nsatz.
Qed.

Lemma align_y x z : x <> 0 ->
  let L := sqrt (x*x + z*z) in
  let beta := - x / Rabs x * acos (z / L) in
  roty beta (mk x 0 z) = mk 0 0 L.
Proof.
  intros Hx L beta.
  assert (HL2 : 0 < x*x + z*z) by nra.
  assert (HL : 0 < L) by (apply sqrt_lt_R0; exact HL2).
  assert (HLL : L * L = x*x + z*z) by (apply sqrt_sqrt; lra).
  assert (Hb : -1 <= z / L <= 1).
  { assert (Hlo : - L <= z) by nra. assert (Hhi : z <= L) by nra.
    split; apply Rmult_le_reg_r with L; try lra; unfold Rdiv; rewrite Rmult_assoc, Rinv_l by lra; lra. }
  unfold beta. replace (- x / Rabs x) with (- sgn x) by (unfold sgn; field; apply Rabs_no_R0; auto).
  unfold roty; simpl.
  rewrite cos_sgn_mul, sin_sgn_mul by (apply sgn_sq; auto).
  rewrite cos_acos by exact Hb. rewrite sin_acos by exact Hb.
  assert (Haa : Rabs x * Rabs x = x * x) by (unfold Rabs; destruct (Rcase_abs x); ring).
  assert (Hs : sqrt (1 - (z / L)²) = Rabs x / L).
  { replace (1 - (z/L)²) with ((Rabs x / L)²).
    - apply sqrt_Rsqr. apply Rmult_le_pos; [apply Rabs_pos| left; apply Rinv_0_lt_compat; lra].
    - unfold Rsqr. apply Rmult_eq_reg_r with (L * L); [|nra].
      replace (Rabs x / L * (Rabs x / L) * (L * L)) with (Rabs x * Rabs x) by (field; lra).
      replace ((1 - z / L * (z / L)) * (L * L)) with (L * L - z * z) by (field; lra).
      rewrite Haa, HLL. ring. }
  rewrite Hs.
  pose proof (sgn_abs x Hx) as Hsa. pose proof (sgn_sq x Hx) as Hss.
  set (s := sgn x) in *. set (a := Rabs x) in *.
  assert (Hri : L <> 0) by lra. clear Hs Hb. clearbody s a. clear beta. clearbody L.
  f_equal.
  - apply Rmult_eq_reg_r with L; [|exact Hri].
    replace ((z / L * x + - s * (a / L) * z) * L) with (z * (x - s * a)) by (field; exact Hri). nsatz.
  - apply Rmult_eq_reg_r with L; [|exact Hri].
    replace ((- (- s * (a / L)) * x + z / L * z) * L) with (s * a * x + z * z) by (field; exact Hri). nsatz.
Qed.

Lemma rotz_pi2 x y z : rotz (PI / 2) (mk x y z) = mk (- y) x z.
Proof. unfold rotz; simpl. rewrite cos_PI2, sin_PI2. f_equal; ring. Qed.
Lemma roty_pi x y z : roty PI (mk x y z) = mk (- x) y (- z).
Proof. unfold roty; simpl. rewrite cos_PI, sin_PI. f_equal; ring. Qed.

(* if Ry(b) Rz(g) carries the axis to (0,0,L), L > 0, the conjugation is Rodrigues about axis/|axis| *)
Lemma by_alignment t g b axis v L : 0 < L ->
  roty b (rotz g axis) = mk 0 0 L ->
  rotz (- g) (roty (- b) (rotz t (roty b (rotz g v)))) = rodrigues t (unit_of axis) v.
Proof.
  intros HL Hal. rewrite conj_is_rodrigues. f_equal.
  assert (Hax : axis = rotz (- g) (roty (- b) (mk 0 0 L))) by (rewrite <- Hal, roty_inv, rotz_inv; reflexivity).
  assert (Hn : norm axis = L).
  { rewrite Hax. unfold norm, dot, rotz, roty; simpl. rewrite !cos_neg, !sin_neg.
    replace (_ + _ + _) with (L * L * ((cos g * cos g + sin g * sin g) * (sin b * sin b) + cos b * cos b)) by ring.
    pose proof (sin2_cos2 g) as Hg. pose proof (sin2_cos2 b) as Hb. unfold Rsqr in *.
    replace (cos g * cos g + sin g * sin g) with 1 by lra. replace (1 * (sin b * sin b) + cos b * cos b) with 1 by lra.
    rewrite Rmult_1_r. apply sqrt_square. lra. }
  unfold unit_of. rewrite Hn. clear Hn. rewrite Hax. clear Hax Hal.
  unfold scal, rotz, roty; simpl. f_equal; field; lra.
Qed.

Lemma neg0 : - 0 = 0. Proof. ring. Qed.
Lemma by_alignment_g0 t b axis v L : 0 < L -> roty b axis = mk 0 0 L ->
  rotz (- 0) (roty (- b) (rotz t (roty b v))) = rodrigues t (unit_of axis) v.
Proof.
  intros HL H. pose proof (by_alignment t 0 b axis v L HL) as H1. rewrite !rotz_0 in H1. apply H1. exact H.
Qed.
Lemma by_alignment_00 t axis v L : 0 < L -> axis = mk 0 0 L ->
  rotz (- 0) (roty (- 0) (rotz t v)) = rodrigues t (unit_of axis) v.
Proof.
  intros HL H. pose proof (by_alignment_g0 t 0 axis v L HL) as H1. rewrite !roty_0 in H1. apply H1. exact H.
Qed.

Lemma Reqb_refl x : Reqb x x = true. Proof. apply Reqb_true. reflexivity. Qed.

(* ---- main theorem about the generated code ---- *)
Ltac reduce_gen :=
  cbv beta iota zeta; cbn [vec3_x vec3_y vec3_z negb];
  rewrite ?mm_rotz, ?mm_roty; cbn [vec3_x vec3_y vec3_z].

Theorem rotate_is_rodrigues t axis v :
  (vx axis <> 0 \/ vy axis <> 0 \/ vz axis <> 0) ->
  rotate_vector_around_an_axis t axis v = rodrigues t (unit_of axis) v.
Proof.
  destruct axis as [x y z]. cbn [vec3_x vec3_y vec3_z]. intros Hax.
  unfold rotate_vector_around_an_axis. num_unfold. rewrite ?lit0, ?lit2. cbn [vec3_x vec3_y vec3_z].
  destruct (Reqb y 0) eqn:Ey.
  - (* y = 0 *)
    apply Reqb_true in Ey. subst y. reduce_gen.
    destruct (Reqb x 0) eqn:Ex.
    + (* x = y = 0 *)
      apply Reqb_true in Ex. subst x. reduce_gen.
      assert (Hz : z <> 0) by (destruct Hax as [H|[H|H]]; [congruence|congruence|exact H]).
      destruct (Rltb z 0) eqn:Ez.
      * (* anti-parallel to z: the extra half turn about y *)
        apply Rltb_true in Ez. reduce_gen.
        apply by_alignment_g0 with (L := - z); [lra|]. rewrite roty_pi. f_equal; ring.
      * apply Rltb_false in Ez. reduce_gen.
        assert (Hzp : 0 < z) by lra.
        apply by_alignment_00 with (L := z); [exact Hzp|reflexivity].
    + (* y = 0, x <> 0 *)
      apply Reqb_false in Ex. reduce_gen.
      apply by_alignment_g0 with (L := sqrt (x * x + z * z)).
      * apply sqrt_lt_R0. nra.
      * pose proof (align_y x z Ex) as Hay. cbv zeta in Hay. exact Hay.
  - apply Reqb_false in Ey. reduce_gen.
    destruct (Reqb x 0) eqn:Ex.
    + (* x = 0, y <> 0 *)
      apply Reqb_true in Ex. subst x. reduce_gen. rewrite !rotz_pi2. reduce_gen.
      assert (Hy1 : - y <> 0) by lra.
      replace (Reqb (- y) 0) with false by (symmetry; apply Reqb_false; exact Hy1).
      reduce_gen.
      apply by_alignment with (L := sqrt (- y * - y + z * z)).
      * apply sqrt_lt_R0. nra.
      * rewrite rotz_pi2. pose proof (align_y (- y) z Hy1) as Hay. cbv zeta in Hay. exact Hay.
    + (* x <> 0, y <> 0 *)
      apply Reqb_false in Ex. reduce_gen.
      pose proof (align_z x y z Ey Ex) as Haz. cbv zeta in Haz. rewrite Haz. reduce_gen.
      set (r := sqrt (x * x + y * y)) in *.
      assert (Hr : 0 < r) by (apply sqrt_lt_R0; nra).
      assert (Hx1 : sgn x * r <> 0).
      { pose proof (sgn_sq x Ex) as H. intros H0.
        assert (H1 : sgn x = 0) by (apply Rmult_integral in H0; destruct H0; [auto|lra]). rewrite H1 in H. lra. }
      replace (Reqb (sgn x * r) 0) with false by (symmetry; apply Reqb_false; exact Hx1).
      reduce_gen.
      apply by_alignment with (L := sqrt (sgn x * r * (sgn x * r) + z * z)).
      * apply sqrt_lt_R0. nra.
      * rewrite Haz. pose proof (align_y (sgn x * r) z Hx1) as Hay. cbv zeta in Hay. exact Hay.
Qed.

(* ---- consequences named in the property ---- *)
Lemma unit_norm a : (vx a <> 0 \/ vy a <> 0 \/ vz a <> 0) -> dot (unit_of a) (unit_of a) = 1.
Proof.
  destruct a as [x y z]; cbn [vec3_x vec3_y vec3_z]; intros H.
  assert (Hp : 0 < x*x + y*y + z*z) by (destruct H as [H|[H|H]]; nra).
  unfold unit_of, norm, dot, scal; cbn [vec3_x vec3_y vec3_z].
  set (n := sqrt (x*x+y*y+z*z)). assert (Hn : 0 < n) by (apply sqrt_lt_R0; exact Hp).
  assert (Hnn : n * n = x*x+y*y+z*z) by (apply sqrt_sqrt; lra).
  replace (/ n * x * (/ n * x) + / n * y * (/ n * y) + / n * z * (/ n * z)) with ((x*x+y*y+z*z) / (n*n)) by (field; lra).
  rewrite Hnn. field. lra.
Qed.

(* Rodrigues about a unit vector preserves length and the axial component, and turns the perpendicular part by t *)
Lemma rodrigues_axial t k v : dot k k = 1 -> dot k (rodrigues t k v) = dot k v.
Proof.
  destruct k as [a b c], v as [x y z]. unfold rodrigues, add, scal, cross, dot; cbn [vec3_x vec3_y vec3_z]. intros H.
  set (ct := cos t). set (st := sin t). clearbody ct st. nsatz.
Qed.
Lemma rodrigues_norm t k v : dot k k = 1 -> dot (rodrigues t k v) (rodrigues t k v) = dot v v.
Proof.
  destruct k as [a b c], v as [x y z]. unfold rodrigues, add, scal, cross, dot; cbn [vec3_x vec3_y vec3_z]. intros H.
  pose proof (sin2_cos2 t) as Ht. unfold Rsqr in Ht. set (ct := cos t) in *. set (st := sin t) in *. clearbody ct st. nsatz.
Qed.
(* for v perpendicular to k: <v, Rv> = |v|^2 cos t  and  k . (v x Rv) = |v|^2 sin t, i.e. v turns by exactly t, right-handed *)
Lemma rodrigues_turn t k v : dot k k = 1 -> dot k v = 0 ->
  dot v (rodrigues t k v) = dot v v * cos t /\ dot k (cross v (rodrigues t k v)) = dot v v * sin t.
Proof.
  destruct k as [a b c], v as [x y z]. unfold rodrigues, add, scal, cross, dot; cbn [vec3_x vec3_y vec3_z]. intros H H0.
  set (ct := cos t). set (st := sin t). clearbody ct st. split; nsatz.
Qed.

Theorem rotate_preserves_length t axis v : (vx axis <> 0 \/ vy axis <> 0 \/ vz axis <> 0) ->
  dot (rotate_vector_around_an_axis t axis v) (rotate_vector_around_an_axis t axis v) = dot v v.
Proof. intros H. rewrite rotate_is_rodrigues by exact H. apply rodrigues_norm. apply unit_norm. exact H. Qed.
Theorem rotate_preserves_axial t axis v : (vx axis <> 0 \/ vy axis <> 0 \/ vz axis <> 0) ->
  dot (unit_of axis) (rotate_vector_around_an_axis t axis v) = dot (unit_of axis) v.
Proof. intros H. rewrite rotate_is_rodrigues by exact H. apply rodrigues_axial. apply unit_norm. exact H. Qed.
Theorem rotate_turns_perpendicular t axis v : (vx axis <> 0 \/ vy axis <> 0 \/ vz axis <> 0) ->
  dot (unit_of axis) v = 0 ->
  dot v (rotate_vector_around_an_axis t axis v) = dot v v * cos t /\
  dot (unit_of axis) (cross v (rotate_vector_around_an_axis t axis v)) = dot v v * sin t.
Proof. intros H H0. rewrite rotate_is_rodrigues by exact H. apply rodrigues_turn; [apply unit_norm; exact H | exact H0]. Qed.

(* non-vacuity and the right-handedness convention: a quarter turn about +z and about -z *)
Example quarter_turns :
  rodrigues (PI / 2) (mk 0 0 1) (mk 1 0 0) = mk 0 1 0 /\ rodrigues (PI / 2) (mk 0 0 (-1)) (mk 1 0 0) = mk 0 (-1) 0.
Proof. split; unfold rodrigues, add, scal, cross, dot; simpl; rewrite cos_PI2, sin_PI2; f_equal; ring. Qed.

(* ---- group laws: zero turn, composition about the same axis, inverse, full turn ---- *)
Lemma rodrigues_0 k v : rodrigues 0 k v = v.
Proof.
  destruct k as [a b c], v as [x y z]. unfold rodrigues, add, scal, cross, dot; cbn [vec3_x vec3_y vec3_z].
  rewrite cos_0, sin_0. f_equal; ring.
Qed.
Lemma rodrigues_compose s t k v : dot k k = 1 -> rodrigues s k (rodrigues t k v) = rodrigues (s + t) k v.
Proof.
  destruct k as [a b c], v as [x y z]. unfold rodrigues, add, scal, cross, dot; cbn [vec3_x vec3_y vec3_z]. intros H.
  rewrite cos_plus, sin_plus.
  set (cs := cos s). set (ss := sin s). set (ct := cos t). set (st := sin t). clearbody cs ss ct st.
  f_equal; nsatz.
Qed.
Theorem rotate_zero axis v : (vx axis <> 0 \/ vy axis <> 0 \/ vz axis <> 0) -> rotate_vector_around_an_axis 0 axis v = v.
Proof. intros H. rewrite rotate_is_rodrigues by exact H. apply rodrigues_0. Qed.
Theorem rotate_compose s t axis v : (vx axis <> 0 \/ vy axis <> 0 \/ vz axis <> 0) ->
  rotate_vector_around_an_axis s axis (rotate_vector_around_an_axis t axis v) = rotate_vector_around_an_axis (s + t) axis v.
Proof. intros H. rewrite !rotate_is_rodrigues by exact H. apply rodrigues_compose. apply unit_norm. exact H. Qed.
Theorem rotate_inverse t axis v : (vx axis <> 0 \/ vy axis <> 0 \/ vz axis <> 0) ->
  rotate_vector_around_an_axis (- t) axis (rotate_vector_around_an_axis t axis v) = v.
Proof. intros H. rewrite rotate_compose by exact H. replace (- t + t) with 0 by ring. apply rotate_zero. exact H. Qed.
Theorem rotate_full_turn axis v : (vx axis <> 0 \/ vy axis <> 0 \/ vz axis <> 0) ->
  rotate_vector_around_an_axis (2 * PI) axis v = v.
Proof.
  intros H. rewrite rotate_is_rodrigues by exact H.
  destruct (unit_of axis) as [a b c], v as [x y z]. unfold rodrigues, add, scal, cross, dot; cbn [vec3_x vec3_y vec3_z].
  rewrite cos_2PI, sin_2PI. f_equal; ring.
Qed.
(* reversing the axis reverses the sense of rotation *)
Lemma rodrigues_neg_axis t k v : rodrigues t (scal (-1) k) v = rodrigues (- t) k v.
Proof.
  destruct k as [a b c], v as [x y z]. unfold rodrigues, add, scal, cross, dot; cbn [vec3_x vec3_y vec3_z].
  rewrite cos_neg, sin_neg. f_equal; ring.
Qed.
