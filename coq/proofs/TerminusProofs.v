(* C01 (parser part): which records get the N+ / C- tag.  The tagging logic of model/PdbParse.v:step is abstracted to a small
   machine over tokens (refinement lemma), and the machine is characterised for every token sequence. *)
From Coq Require Import String Ascii List Bool ZArith Lia.
From V Require Import PyString PdbParse ParseProofs.
Import ListNotations.
Open Scope string_scope.

Inductive token := KModel | KTer | KOther | KAtom (is_atom : bool) (name rid : string).
Definition tst := (option string * option string)%type.   (* nterm_residue (None = 'next_residue'), old_residue *)
Definition is_oxt_name (nm : string) : bool := String.eqb nm "OXT" || String.eqb nm "O''".

Definition astep (s : tst) (k : token) : tst * terminal :=
  match k with
  | KModel | KTer => ((None, snd s), TNone)
  | KOther => (s, TNone)
  | KAtom ia nm rid =>
    let s1 := match fst s with
              | None => if ia && opt_neqb (snd s) rid then (Some rid, None) else s
              | Some _ => s end in
    let t1 := if ia && String.eqb nm "N" && opt_eqb (fst s1) rid then TNplus else TNone in
    let ox := ia && is_oxt_name nm in
    (if ox then (None, Some rid) else s1, if ox then TCminus else t1)
  end.
Fixpoint arun (s : tst) (ks : list token) : list terminal :=
  match ks with [] => [] | k :: r => snd (astep s k) :: arun (fst (astep s k)) r end.
Fixpoint afinal (s : tst) (ks : list token) : tst := match ks with [] => s | k :: r => afinal (fst (astep s k)) r end.

(* ------------------------------------------------------------------ refinement: step implements astep *)
Definition selected (o : opts) (l : string) : bool :=
  match chains o with [] => true | cs => match idx 21 l with Ok c => mem_chr c cs | Err _ => false end end.
Definition tok (o : opts) (l : string) : token :=
  let tag := slice 0 6 l in
  if String.eqb tag "MODEL " then KModel
  else if is_ter tag then KTer
  else if negb (is_atom_tag tag) then KOther
  else if mem_str (slice 17 20 l) (ignore_residues o) then KOther
  else if negb (selected o l) then KOther
  else KAtom (String.eqb tag "ATOM  ") (strip (slice 12 16 l)) (slice 21 27 l).
Definition tstate (s : st) : tst := (nt s, oldres s).

Lemma atom_tag_not_ter tag : is_atom_tag tag = true -> is_ter tag = false /\ String.eqb tag "MODEL " = false.
Proof. unfold is_atom_tag. intros H. apply orb_true_iff in H as [H|H]; apply String.eqb_eq in H; rewrite H; split; reflexivity. Qed.
Lemma ter_not_atom tag : is_ter tag = true -> is_atom_tag tag = false.
Proof. intros H. destruct (is_atom_tag tag) eqn:E; [|reflexivity]. destruct (atom_tag_not_ter _ E) as [H1 _]. congruence. Qed.

Theorem step_refines o s l s' outs : step o s l = Ok (s', outs) ->
  tstate s' = fst (astep (tstate s) (tok o l)) /\
  Forall (fun x => o_term x = snd (astep (tstate s) (tok o l))) outs /\ (length outs <= 1)%nat.
Proof.
  unfold step, tok. destruct (String.eqb (slice 0 6 l) "MODEL ") eqn:Em.
  - apply String.eqb_eq in Em. rewrite Em. destruct (py_int (slice_from 6 l)) as [m|e]; cbn [bind]; [|discriminate].
    cbn. intros H. injection H as <- <-. cbn. auto.
  - cbn [bind]. destruct (is_ter (slice 0 6 l)) eqn:Et.
    + rewrite (ter_not_atom _ Et). cbn [negb]. intros H. injection H as <- <-. cbn. auto.
    + destruct (negb (is_atom_tag (slice 0 6 l))) eqn:Ea.
      * intros H. injection H as <- <-. cbn. destruct s; auto.
      * destruct (idx 16 l) as [alt|e]; cbn [bind]; [|discriminate].
        destruct (mem_str (slice 17 20 l) (ignore_residues o)) eqn:Ei.
        { intros H. injection H as <- <-. cbn. destruct s; auto. }
        unfold selected.
        destruct (chains o) as [|c0 cs] eqn:Ec; cbn [bind negb].
        -- (* no chain option *)
           set (ia := String.eqb (slice 0 6 l) "ATOM  ").
           set (rid := slice 21 27 l). set (nm := strip (slice 12 16 l)).
           destruct (mk_atom l) as [a|e]; cbn [bind]; [|destruct s as [m [x|] q]; cbn; destruct (ia && opt_neqb q rid); cbn; destruct (ia && _); discriminate].
           destruct s as [m n q]. unfold tstate. cbn [nt oldres model fst snd astep].
           destruct n as [x|]; cbn [nt oldres model].
           ++ unfold is_oxt_name. fold nm. destruct (ia && (String.eqb nm "OXT" || String.eqb nm "O''")) eqn:Eo; cbn [nt oldres model];
              destruct (String.eqb (a_element a) "H" && negb (keep_protons o)); intros H; injection H as <- <-; cbn; auto.
           ++ destruct (ia && opt_neqb q rid) eqn:El; cbn [nt oldres model fst snd];
              unfold is_oxt_name; fold nm; destruct (ia && (String.eqb nm "OXT" || String.eqb nm "O''")) eqn:Eo; cbn [nt oldres model];
              destruct (String.eqb (a_element a) "H" && negb (keep_protons o)); intros H; injection H as <- <-; cbn; auto.
        -- destruct (idx 21 l) as [c|e]; cbn [bind]; [|discriminate].
           destruct (mem_chr c (c0 :: cs)) eqn:Es; cbn [negb].
           2:{ intros H. injection H as <- <-. cbn. destruct s; auto. }
           set (ia := String.eqb (slice 0 6 l) "ATOM  ").
           set (rid := slice 21 27 l). set (nm := strip (slice 12 16 l)).
           destruct (mk_atom l) as [a|e]; cbn [bind]; [|destruct s as [m [x|] q]; cbn; destruct (ia && opt_neqb q rid); cbn; destruct (ia && _); discriminate].
           destruct s as [m n q]. unfold tstate. cbn [nt oldres model fst snd astep].
           destruct n as [x|]; cbn [nt oldres model].
           ++ unfold is_oxt_name. fold nm. destruct (ia && (String.eqb nm "OXT" || String.eqb nm "O''")) eqn:Eo; cbn [nt oldres model];
              destruct (String.eqb (a_element a) "H" && negb (keep_protons o)); intros H; injection H as <- <-; cbn; auto.
           ++ destruct (ia && opt_neqb q rid) eqn:El; cbn [nt oldres model fst snd];
              unfold is_oxt_name; fold nm; destruct (ia && (String.eqb nm "OXT" || String.eqb nm "O''")) eqn:Eo; cbn [nt oldres model];
              destruct (String.eqb (a_element a) "H" && negb (keep_protons o)); intros H; injection H as <- <-; cbn; auto.
Qed.

(* lifting to whole files: the terminal tags of the yielded atoms are among the tags the token machine assigns *)
Theorem run_refines o : forall ls s outs, run o s ls = Ok outs ->
  forall x, In x outs -> In (o_term x) (arun (tstate s) (map (tok o) ls)).
Proof.
  induction ls as [|l r IH]; intros s outs H x Hx; cbn [run] in H.
  - injection H as <-. destruct Hx.
  - destruct (step o s l) as [[s1 o1]|e] eqn:Es; cbn [bind fst snd] in H; [|discriminate].
    destruct (run o s1 r) as [o2|e] eqn:Er; cbn [bind] in H; [|discriminate]. injection H as <-.
    destruct (step_refines _ _ _ _ _ Es) as (Hs & Hf & _). cbn [map arun].
    apply in_app_iff in Hx as [Hx|Hx].
    + left. rewrite Forall_forall in Hf. symmetry. apply Hf. exact Hx.
    + right. rewrite <- Hs. eapply IH; eassumption.
Qed.

(* ------------------------------------------------------------------ the token machine, for every state and token sequence *)
(* C-: exactly the ATOM records named OXT or O'' *)
Theorem cminus_iff s k : snd (astep s k) = TCminus <-> exists nm rid, k = KAtom true nm rid /\ is_oxt_name nm = true.
Proof.
  split.
  - destruct k as [| | |ia nm rid]; cbn; try discriminate. destruct (ia && is_oxt_name nm) eqn:E.
    + intros _. apply andb_true_iff in E as [-> E]. eauto.
    + destruct (ia && String.eqb nm "N" && _); discriminate.
  - intros (nm & rid & -> & H). cbn. rewrite H. reflexivity.
Qed.
(* N+: only ATOM records named N, and only for the latched residue *)
Theorem nplus_sound s k : snd (astep s k) = TNplus -> exists rid, k = KAtom true "N" rid /\ fst (fst (astep s k)) = Some rid.
Proof.
  destruct k as [| | |ia nm rid]; cbn; try discriminate. destruct (ia && is_oxt_name nm) eqn:E; [discriminate|].
  destruct (ia && String.eqb nm "N" && _) eqn:E2; [|discriminate]. intros _.
  apply andb_true_iff in E2 as [E2 E3]. apply andb_true_iff in E2 as [-> E2]. apply String.eqb_eq in E2. subst nm.
  exists rid. split; [reflexivity|]. unfold opt_eqb in E3.
  destruct (match fst s with None => _ | Some _ => s end) as [[x|] q]; [|discriminate]. apply String.eqb_eq in E3. subst x. reflexivity.
Qed.

(* boundaries: MODEL, TER and terminal-oxygen records *)
Definition is_boundary (k : token) : bool :=
  match k with KModel | KTer => true | KOther => false | KAtom ia nm _ => ia && is_oxt_name nm end.
Theorem boundary_resets s k : is_boundary k = true -> fst (fst (astep s k)) = None.
Proof. destruct k as [| | |ia nm rid]; cbn; try discriminate; try reflexivity. intros ->. reflexivity. Qed.

(* the tag an in-segment token gets once residue r is latched *)
Definition tag_latched (r : string) (k : token) : terminal :=
  match k with KAtom true nm rid => if String.eqb nm "N" && String.eqb rid r then TNplus else TNone | _ => TNone end.
Lemma latched_step r q k : is_boundary k = false -> astep (Some r, q) k = ((Some r, q), tag_latched r k).
Proof.
  destruct k as [| | |ia nm rid]; cbn; try discriminate; try reflexivity. intros ->.
  destruct ia; cbn; [|reflexivity]. rewrite (String.eqb_sym r rid). reflexivity.
Qed.
Theorem latched_segment r q : forall ks, forallb (fun k => negb (is_boundary k)) ks = true ->
  arun (Some r, q) ks = map (tag_latched r) ks /\ afinal (Some r, q) ks = (Some r, q).
Proof.
  induction ks as [|k ks IH]; cbn [forallb arun afinal map]; [auto|]. intros H. apply andb_true_iff in H as [Hk Hr].
  apply negb_true_iff in Hk. rewrite (latched_step r q k Hk). cbn [fst snd]. destruct (IH Hr) as [-> ->]. auto.
Qed.

(* tokens that do not latch while the machine waits for the next residue: non-records, HETATM records, and the remaining ATOM
   records of the residue that carried the terminal oxygen *)
Definition waits (q : option string) (k : token) : bool :=
  match k with KOther => true | KAtom ia nm rid => negb (ia && is_oxt_name nm) && negb (ia && opt_neqb q rid) | _ => false end.
Lemma waiting_step q k : waits q k = true -> astep (None, q) k = ((None, q), TNone).
Proof.
  destruct k as [| | |ia nm rid]; cbn; try discriminate; try reflexivity. intros H. apply andb_true_iff in H as [H1 H2].
  apply negb_true_iff in H1, H2. rewrite H1, H2. cbn. rewrite andb_false_r. reflexivity.
Qed.

(* THE SEGMENT THEOREM.  After a boundary (state (None, q)), let the first latching token be an ATOM record of residue r.
   Then until the next boundary exactly the ATOM records named N of residue r are tagged N+ (one per alternate location),
   and nothing else is. *)
Theorem chain_start_segment q waiting nm r rest :
  forallb (waits q) waiting = true -> opt_neqb q r = true -> is_oxt_name nm = false ->
  forallb (fun k => negb (is_boundary k)) rest = true ->
  arun (None, q) (waiting ++ KAtom true nm r :: rest)%list =
    (map (fun _ => TNone) waiting ++ map (tag_latched r) (KAtom true nm r :: rest))%list.
Proof.
  intros Hw Hq Hn Hr. induction waiting as [|k w IH]; cbn [app map arun forallb] in *.
  - cbn [astep fst snd]. rewrite Hq, Hn. cbn [andb fst snd opt_eqb]. rewrite String.eqb_refl, andb_true_r.
    destruct (latched_segment r None rest Hr) as [-> _]. cbn [tag_latched]. rewrite String.eqb_refl, andb_true_r.
    destruct (String.eqb nm "N"); reflexivity.
  - apply andb_true_iff in Hw as [Hk Hw]. rewrite (waiting_step q k Hk). cbn [fst snd]. rewrite (IH Hw). reflexivity.
Qed.
(* exactly as many N+ tags as the first residue has N records *)
Definition is_N_of (r : string) (k : token) : bool := match k with KAtom true nm rid => String.eqb nm "N" && String.eqb rid r | _ => false end.
Fixpoint count_nplus (l : list terminal) : nat := match l with [] => O | TNplus :: r => S (count_nplus r) | _ :: r => count_nplus r end.
Lemma count_nplus_app a b : count_nplus (a ++ b)%list = (count_nplus a + count_nplus b)%nat.
Proof. induction a as [|x a IH]; cbn; [reflexivity|]. destruct x; cbn; rewrite IH; reflexivity. Qed.
Lemma count_latched r ks : count_nplus (map (tag_latched r) ks) = length (filter (is_N_of r) ks).
Proof.
  induction ks as [|k ks IH]; cbn; [reflexivity|]. destruct k as [| | |[] nm rid]; cbn; try exact IH.
  destruct (String.eqb nm "N" && String.eqb rid r); cbn; rewrite IH; reflexivity.
Qed.
Lemma count_none {A} (l : list A) : count_nplus (map (fun _ => TNone) l) = 0%nat.
Proof. induction l; cbn; auto. Qed.
Corollary chain_start_count q waiting nm r rest :
  forallb (waits q) waiting = true -> opt_neqb q r = true -> is_oxt_name nm = false ->
  forallb (fun k => negb (is_boundary k)) rest = true ->
  count_nplus (arun (None, q) (waiting ++ KAtom true nm r :: rest)%list) = length (filter (is_N_of r) (KAtom true nm r :: rest)).
Proof.
  intros. rewrite chain_start_segment by assumption. rewrite count_nplus_app, count_latched.
  rewrite count_none. reflexivity.
Qed.
(* a terminal-oxygen record is a boundary that remembers its residue: the rest of that residue does not start a chain *)
Theorem oxt_then_waits s nm r : is_oxt_name nm = true -> astep s (KAtom true nm r) = ((None, Some r), TCminus).
Proof. intros H. cbn. rewrite H. reflexivity. Qed.
Theorem same_residue_after_oxt_waits r ia nm : is_oxt_name nm = false -> waits (Some r) (KAtom ia nm r) = true.
Proof. intros H. cbn. rewrite H, andb_false_r. cbn. rewrite String.eqb_refl. cbn. rewrite andb_false_r. reflexivity. Qed.
