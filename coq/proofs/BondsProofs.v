(* C11: the cell-list bond search equals the all-pairs rule for every atom list; bonds are symmetric, irreflexive,
   duplicate-free; two sulfurs within disulfide distance are both flagged.  About model/Bonds.v. *)
From Coq Require Import String List Bool ZArith Lia Arith Permutation.
From V Require Import Bonds_gen Bonds.
Import ListNotations.
Local Open Scope list_scope.

(* ------------------------------------------------------------------ the neighbour table *)
Definition unit_range := [-1; 0; 1]%Z.
Definition all_dirs : list cellT :=
  flat_map (fun a => flat_map (fun b => map (fun c => (a,b,c)) unit_range) unit_range) unit_range.
Definition mem_cell (d : cellT) (l : list cellT) := existsb (ceqb d) l.
Definition zero3 : cellT := (0, 0, 0)%Z.

(* of every pair {d, -d} of the 26 non-zero directions exactly one is enumerated; no zero direction; no duplicates *)
Lemma offsets_half_space :
  forallb (fun d => if ceqb d zero3 then true else xorb (mem_cell d offsets) (mem_cell (cneg d) offsets)) all_dirs = true.
Proof. vm_compute. reflexivity. Qed.
Lemma offsets_nonzero : forallb (fun d => negb (ceqb d zero3)) offsets = true.
Proof. vm_compute. reflexivity. Qed.

Lemma ceqb_eq c d : ceqb c d = true <-> c = d.
Proof.
  destruct c as [[x y] z], d as [[a b] e]; unfold ceqb. rewrite !andb_true_iff, !Z.eqb_eq.
  split; [intros [[? ?] ?]; congruence| intros H; inversion H; auto].
Qed.
Lemma ceqb_refl c : ceqb c c = true. Proof. apply ceqb_eq. reflexivity. Qed.
Lemma ceqb_false c d : ceqb c d = false <-> c <> d.
Proof. split; intros H. - intros E. apply ceqb_eq in E. congruence. - destruct (ceqb c d) eqn:E; [apply ceqb_eq in E; contradiction|reflexivity]. Qed.

Definition adjacent (c d : cellT) : Prop :=
  let '(x,y,z) := c in let '(a,b,e) := d in (Z.abs (x-a) <= 1 /\ Z.abs (y-b) <= 1 /\ Z.abs (z-e) <= 1)%Z.

Section Cells.
Variable atom : Type.
Variable cell : atom -> cellT.
Variable check : atom -> atom -> bool.
Hypothesis check_sym : forall a b, check a b = check b a.
Hypothesis check_near : forall a b, check a b = true -> adjacent (cell a) (cell b).
Notation iatom := (iatom atom).

(* --- boxes --- *)
Lemma box_add_get_same c (a : iatom) bs : exists l, box_get c (box_add c a bs) = Some l /\ In a l /\
  (forall x, (match box_get c bs with Some l0 => In x l0 | None => False end) -> In x l).
Proof.
  induction bs as [|[c' l'] r IH]; simpl.
  - rewrite ceqb_refl. exists [a]. simpl; intuition.
  - destruct (ceqb c c') eqn:E; simpl; rewrite E.
    + exists (l' ++ [a]). split; [reflexivity|]. split; [apply in_or_app; right; simpl; auto|]. intros x Hx. apply in_or_app; auto.
    + exact IH.
Qed.
Lemma box_add_get_other c c2 (a : iatom) bs : ceqb c2 c = false -> box_get c2 (box_add c a bs) = box_get c2 bs.
Proof.
  intros Hne. induction bs as [|[c' l'] r IH]; simpl.
  - rewrite Hne. reflexivity.
  - destruct (ceqb c c') eqn:E; simpl.
    + apply ceqb_eq in E; subst c'. rewrite Hne. reflexivity.
    + destruct (ceqb c2 c'); auto.
Qed.
Lemma boxes_complete_aux : forall (l : list iatom) bs0 x,
  (In x l \/ (match box_get (cell (snd x)) bs0 with Some l0 => In x l0 | None => False end)) ->
  exists lx, box_get (cell (snd x)) (fold_left (fun bs a => box_add (cell (snd a)) a bs) l bs0) = Some lx /\ In x lx.
Proof.
  induction l as [|a r IH]; intros bs0 x H; simpl.
  - destruct H as [[]|H]. destruct (box_get (cell (snd x)) bs0); [eauto|contradiction].
  - apply IH. destruct H as [[->|H]|H]; [right| left; exact H | right].
    + destruct (box_add_get_same (cell (snd x)) x bs0) as [l0 [-> [Hin _]]]. exact Hin.
    + destruct (ceqb (cell (snd x)) (cell (snd a))) eqn:E.
      * apply ceqb_eq in E. rewrite E in *. destruct (box_add_get_same (cell (snd a)) a bs0) as [l0 [-> [_ Hk]]]. apply Hk; exact H.
      * rewrite box_add_get_other by exact E. exact H.
Qed.
Lemma boxes_complete (l : list iatom) x : In x l -> exists lx, box_get (cell (snd x)) (boxes cell l) = Some lx /\ In x lx.
Proof. intros; apply boxes_complete_aux; auto. Qed.

Lemma box_get_in c (bs : list (cellT * list iatom)) v : box_get c bs = Some v -> In (c, v) bs.
Proof.
  induction bs as [|[c' l'] r IH]; simpl; [discriminate|].
  destruct (ceqb c c') eqn:E.
  - intros H; inversion H; subst. apply ceqb_eq in E; subst. left; reflexivity.
  - intros H; right; auto.
Qed.

(* every atom sits in the box of its own cell and comes from the processed prefix *)
Definition members_ok (done : list iatom) (bs : list (cellT * list iatom)) : Prop :=
  forall c v x, In (c, v) bs -> In x v -> In x done /\ cell (snd x) = c.
Definition all_atoms (bs : list (cellT * list iatom)) : list iatom := concat (map snd bs).

Lemma box_add_members done c (a : iatom) bs : members_ok done bs -> cell (snd a) = c -> members_ok (done ++ [a]) (box_add c a bs).
Proof.
  intros W Hc. induction bs as [|[c' l'] r IH]; intros c0 v x Hin Hx.
  - simpl in Hin. destruct Hin as [E|[]]. injection E as <- <-. destruct Hx as [<-|[]].
    split; [apply in_or_app; right; left; reflexivity|exact Hc].
  - simpl in Hin. destruct (ceqb c c') eqn:E.
    + apply ceqb_eq in E. destruct Hin as [E2|Hin].
      * injection E2 as <- <-. apply in_app_or in Hx as [Hx|[<-|[]]].
        -- destruct (W c' l' x (or_introl eq_refl) Hx) as [H1 H2]. split; [apply in_or_app; left; exact H1|exact H2].
        -- split; [apply in_or_app; right; left; reflexivity|congruence].
      * destruct (W c0 v x (or_intror Hin) Hx) as [H1 H2]. split; [apply in_or_app; left; exact H1|exact H2].
    + destruct Hin as [E2|Hin].
      * injection E2 as <- <-. destruct (W c' l' x (or_introl eq_refl) Hx) as [H1 H2]. split; [apply in_or_app; left; exact H1|exact H2].
      * assert (Wr : members_ok done r) by (intros c1 v1 x1 Hin1 Hx1; apply (W c1 v1 x1); [right; exact Hin1|exact Hx1]).
        exact (IH Wr c0 v x Hin Hx).
Qed.

Lemma box_add_all_atoms c (a : iatom) bs : forall x, In x (all_atoms (box_add c a bs)) <-> x = a \/ In x (all_atoms bs).
Proof.
  unfold all_atoms. induction bs as [|[c' l'] r IH]; intros x.
  - simpl. intuition.
  - cbn [box_add]. destruct (ceqb c c'); cbn [map snd concat]; rewrite !in_app_iff.
    + simpl. intuition.
    + rewrite IH. intuition.
Qed.

(* indices inside one box are pairwise distinct when the input has distinct indices *)
Lemma box_add_nodup c (a : iatom) bs : (forall c0 v, In (c0, v) bs -> NoDup (map fst v)) ->
  ~ In (fst a) (map fst (all_atoms bs)) -> forall c0 v, In (c0, v) (box_add c a bs) -> NoDup (map fst v).
Proof.
  intros W Hn. induction bs as [|[c' l'] r IH]; intros c0 v Hin; simpl in Hin.
  - destruct Hin as [E|[]]. injection E as <- <-. simpl. constructor; [intros []|constructor].
  - destruct (ceqb c c') eqn:E.
    + destruct Hin as [E2|Hin].
      * injection E2 as <- <-. rewrite map_app. cbn [map].
        apply (Permutation_NoDup (Permutation_cons_append (map fst l') (fst a))). constructor.
        -- intros Hi. apply Hn. unfold all_atoms. cbn [map snd concat]. rewrite map_app. apply in_or_app. left. exact Hi.
        -- apply (W c' l'). left; reflexivity.
      * apply (W c0 v). right; exact Hin.
    + destruct Hin as [E2|Hin].
      * injection E2 as <- <-. apply (W c' l'). left; reflexivity.
      * refine (IH _ _ c0 v Hin).
        -- intros c1 v1 H1. apply (W c1 v1). right; exact H1.
        -- intros Hi. apply Hn. unfold all_atoms in *. cbn [map snd concat]. rewrite map_app. apply in_or_app. right. exact Hi.
Qed.

Lemma boxes_invariant : forall (todo done : list iatom) bs,
  NoDup (map fst (done ++ todo)) -> members_ok done bs -> (forall c0 v, In (c0, v) bs -> NoDup (map fst v)) ->
  (forall x, In x (all_atoms bs) -> In x done) ->
  let bs' := fold_left (fun bs a => box_add (cell (snd a)) a bs) todo bs in
  members_ok (done ++ todo) bs' /\ (forall c0 v, In (c0, v) bs' -> NoDup (map fst v)).
Proof.
  induction todo as [|a r IH]; intros done bs Hnd Hm Hv Hall; cbn [fold_left].
  - rewrite app_nil_r. split; assumption.
  - replace (done ++ a :: r) with ((done ++ [a]) ++ r) in * by (rewrite <- app_assoc; reflexivity).
    apply IH.
    + exact Hnd.
    + apply box_add_members; [exact Hm|reflexivity].
    + apply box_add_nodup; [exact Hv|]. intros Hi. apply in_map_iff in Hi as [x [Hfx Hx]]. apply Hall in Hx.
      rewrite <- app_assoc in Hnd. cbn [app] in Hnd. rewrite map_app in Hnd. cbn [map] in Hnd.
      apply NoDup_remove_2 in Hnd. apply Hnd. apply in_or_app. left. rewrite <- Hfx. apply in_map. exact Hx.
    + intros x Hx. apply box_add_all_atoms in Hx as [->|Hx]; apply in_or_app; [right; left; reflexivity | left; apply Hall; exact Hx].
Qed.

Lemma boxes_sound (L : list iatom) : NoDup (map fst L) ->
  members_ok L (boxes cell L) /\ (forall c0 v, In (c0, v) (boxes cell L) -> NoDup (map fst v)).
Proof.
  intros Hnd. unfold boxes. apply (boxes_invariant L [] []); simpl; auto.
  all: try (intros c v x []); try (intros c v []); try (intros x []).
Qed.

(* --- pair enumeration --- *)
Lemma pairs_within_complete : forall (v : list iatom) x y, In x v -> In y v -> x <> y ->
  In (x, y) (pairs_within v) \/ In (y, x) (pairs_within v).
Proof.
  induction v as [|h t IH]; intros x y Hx Hy Hne; [contradiction|]. simpl in *.
  destruct Hx as [->|Hx], Hy as [->|Hy].
  - congruence.
  - left. apply in_or_app; left. apply in_map_iff; eauto.
  - right. apply in_or_app; left. apply in_map_iff; eauto.
  - destruct (IH x y Hx Hy Hne); [left|right]; apply in_or_app; right; assumption.
Qed.
Lemma pairs_within_sound : forall (v : list iatom) x y, NoDup (map fst v) -> In (x, y) (pairs_within v) ->
  In x v /\ In y v /\ fst x <> fst y.
Proof.
  induction v as [|h t IH]; intros x y Hnd Hin; [contradiction|]. simpl in Hin. simpl in Hnd.
  apply in_app_or in Hin as [Hin|Hin].
  - apply in_map_iff in Hin as [b [E Hb]]. inversion E; subst. split; [left; reflexivity|]. split; [right; exact Hb|].
    intros Hf. apply NoDup_cons_iff in Hnd as [Hn _]. apply Hn. rewrite Hf. apply in_map. exact Hb.
  - apply NoDup_cons_iff in Hnd as [_ Hnd]. destruct (IH x y Hnd Hin) as (H1 & H2 & H3). split; [right; exact H1|]. split; [right; exact H2|exact H3].
Qed.
Lemma pairs_between_iff (v1 v2 : list iatom) x y : In (x, y) (pairs_between v1 v2) <-> In x v1 /\ In y v2.
Proof.
  unfold pairs_between. rewrite in_flat_map. split.
  - intros [a [Ha Hin]]. apply in_map_iff in Hin as [b [E Hb]]. inversion E; subst. auto.
  - intros [Hx Hy]. exists x. split; [exact Hx|]. apply in_map_iff. eauto.
Qed.

Lemma mem_cell_in d l : mem_cell d l = true -> In d l.
Proof. unfold mem_cell. rewrite existsb_exists. intros [x [Hx E]]. apply ceqb_eq in E; subst; auto. Qed.

Lemma adjacent_dir c1 c2 : adjacent c1 c2 -> c1 <> c2 ->
  exists d, In d all_dirs /\ ceqb d zero3 = false /\ c2 = cadd c1 d /\ c1 = cadd c2 (cneg d).
Proof.
  destruct c1 as [[x y] z], c2 as [[a b] e]. unfold adjacent. intros (Hx & Hy & Hz) Hne.
  exists (a - x, b - y, e - z)%Z. split; [|split; [|split]].
  - assert (Ha : (a - x = -1 \/ a - x = 0 \/ a - x = 1)%Z) by lia.
    assert (Hb : (b - y = -1 \/ b - y = 0 \/ b - y = 1)%Z) by lia.
    assert (He : (e - z = -1 \/ e - z = 0 \/ e - z = 1)%Z) by lia.
    destruct Ha as [->|[->| ->]], Hb as [->|[->| ->]], He as [->|[->| ->]]; vm_compute; tauto.
  - apply ceqb_false. intros E. unfold zero3 in E. inversion E. apply Hne. f_equal; [f_equal|]; lia.
  - unfold cadd. f_equal; [f_equal|]; lia.
  - unfold cadd, cneg. f_equal; [f_equal|]; lia.
Qed.
Lemma half_space d : In d all_dirs -> ceqb d zero3 = false -> In d offsets \/ In (cneg d) offsets.
Proof.
  intros Hin Hnz. pose proof offsets_half_space as H. rewrite forallb_forall in H. specialize (H d Hin).
  rewrite Hnz in H. destruct (mem_cell d offsets) eqn:E1; [left; apply mem_cell_in; auto|].
  destruct (mem_cell (cneg d) offsets) eqn:E2; [right; apply mem_cell_in; auto| discriminate].
Qed.

Lemma examined_between bs c v d v2 (x y : iatom) : In (c, v) bs -> In d offsets -> box_get (cadd c d) bs = Some v2 ->
  In x v -> In y v2 -> In (x, y) (examined offsets bs).
Proof.
  intros Hc Hd Hg Hx Hy. unfold examined. apply in_flat_map. exists (c, v). split; [assumption|].
  apply in_or_app. right. apply in_flat_map. exists d. split; [assumption|]. rewrite Hg. apply pairs_between_iff; auto.
Qed.

(* completeness: every pair the O(n^2) rule bonds is handed to the pair test by the cell list, in one order or the other *)
Theorem examined_complete : forall (L : list iatom) x y, In x L -> In y L -> x <> y ->
  check (snd x) (snd y) = true ->
  In (x, y) (examined offsets (boxes cell L)) \/ In (y, x) (examined offsets (boxes cell L)).
Proof.
  intros L x y Hx Hy Hne Hc.
  destruct (boxes_complete L x Hx) as [vx [Gx Ix]].
  destruct (boxes_complete L y Hy) as [vy [Gy Iy]].
  pose proof (check_near _ _ Hc) as Hadj.
  destruct (ceqb (cell (snd x)) (cell (snd y))) eqn:E.
  - apply ceqb_eq in E. rewrite <- E in Gy. rewrite Gx in Gy. inversion Gy; subst vy.
    destruct (pairs_within_complete vx x y Ix Iy Hne) as [H|H]; [left|right];
      unfold examined; apply in_flat_map; exists (cell (snd x), vx); (split; [apply box_get_in; assumption| apply in_or_app; left; assumption]).
  - assert (Hcne : cell (snd x) <> cell (snd y)) by (apply ceqb_false; exact E).
    destruct (adjacent_dir _ _ Hadj Hcne) as [d (Hd & Hnz & Hy2 & Hx2)].
    destruct (half_space d Hd Hnz) as [Ho|Ho].
    + left. apply (examined_between (boxes cell L) (cell (snd x)) vx d vy); auto using box_get_in. rewrite <- Hy2. exact Gy.
    + right. apply (examined_between (boxes cell L) (cell (snd y)) vy (cneg d) vx); auto using box_get_in. rewrite <- Hx2. exact Gx.
Qed.

Lemma same_index_same_atom (L : list iatom) x y : NoDup (map fst L) -> In x L -> In y L -> fst x = fst y -> x = y.
Proof.
  induction L as [|h t IH]; intros Hnd Hx Hy Hf; [contradiction|]. simpl in Hnd. apply NoDup_cons_iff in Hnd as [Hn Hnd].
  destruct Hx as [->|Hx], Hy as [->|Hy]; auto.
  - exfalso. apply Hn. rewrite Hf. apply in_map. exact Hy.
  - exfalso. apply Hn. rewrite <- Hf. apply in_map. exact Hx.
Qed.

Lemma cadd_nonzero c d : ceqb d zero3 = false -> cadd c d <> c.
Proof.
  destruct c as [[x y] z], d as [[a b] e]. intros Hd E. apply ceqb_false in Hd. apply Hd. unfold cadd in E. inversion E.
  unfold zero3. f_equal; [f_equal|]; lia.
Qed.

(* soundness: the cell list only ever examines two distinct atoms of the input *)
Theorem examined_sound : forall (L : list iatom) x y, NoDup (map fst L) ->
  In (x, y) (examined offsets (boxes cell L)) -> In x L /\ In y L /\ fst x <> fst y.
Proof.
  intros L x y Hnd Hin. destruct (boxes_sound L Hnd) as [Hm Hv].
  unfold examined in Hin. apply in_flat_map in Hin as [[c v] [Hcv Hin]]. apply in_app_or in Hin as [Hin|Hin].
  - destruct (pairs_within_sound v x y (Hv c v Hcv) Hin) as (H1 & H2 & H3).
    split; [apply (Hm c v x Hcv H1)|]. split; [apply (Hm c v y Hcv H2)|exact H3].
  - apply in_flat_map in Hin as [d [Hd Hin]]. destruct (box_get (cadd c d) (boxes cell L)) as [v2|] eqn:G; [|contradiction].
    apply pairs_between_iff in Hin as [H1 H2]. apply box_get_in in G.
    destruct (Hm c v x Hcv H1) as [Lx Cx]. destruct (Hm (cadd c d) v2 y G H2) as [Ly Cy].
    split; [exact Lx|]. split; [exact Ly|]. intros Hf.
    assert (x = y) by (apply (same_index_same_atom L); assumption). subst y.
    pose proof offsets_nonzero as Hz. rewrite forallb_forall in Hz. specialize (Hz d Hd). apply negb_true_iff in Hz.
    apply (cadd_nonzero c d Hz). congruence.
Qed.
End Cells.

(* ------------------------------------------------------------------ the fold of _find_bonds_for_atoms / make_bond *)
Lemma memn_In i l : memn i l = true <-> In i l.
Proof.
  unfold memn. rewrite existsb_exists. split.
  - intros [x [Hx E]]. apply Nat.eqb_eq in E. subst. exact Hx.
  - intros H. exists i. split; [exact H | apply Nat.eqb_refl].
Qed.
Lemma memn_false i l : memn i l = false <-> ~ In i l.
Proof. rewrite <- memn_In. destruct (memn i l); split; intros; congruence. Qed.

Lemma make_bond_adj s i j k l : i <> j ->
  (In l (adj (make_bond s i j) k) <-> In l (adj s k) \/ (k = i /\ l = j) \/ (k = j /\ l = i)).
Proof.
  intros Hij. pose proof (proj2 (Nat.eqb_neq i j) Hij) as Hb. unfold make_bond. rewrite Hb. cbn [adj].
  assert (Hi : (if memn i (adj s j) then adj s else upd (adj s) j (adj s j ++ [i])) i = adj s i).
  { destruct (memn i (adj s j)); [reflexivity|]. unfold upd. rewrite Hb. reflexivity. }
  rewrite Hi.
  destruct (memn i (adj s j)) eqn:E1; [apply memn_In in E1 | apply memn_false in E1];
  (destruct (memn j (adj s i)) eqn:E2; [apply memn_In in E2 | apply memn_false in E2]);
  unfold upd;
  destruct (Nat.eqb_spec k i) as [Hki|Hki]; destruct (Nat.eqb_spec k j) as [Hkj|Hkj]; subst;
  try contradiction; try congruence; rewrite ?in_app_iff; cbn [In];
  intuition (subst; auto; try contradiction; try congruence).
Qed.

Lemma NoDup_snoc (l : list nat) x : NoDup l -> ~ In x l -> NoDup (l ++ [x]).
Proof. intros Hl Hx. apply (Permutation_NoDup (Permutation_cons_append l x)). constructor; assumption. Qed.

Lemma make_bond_nodup s i j : (forall k, NoDup (adj s k)) -> forall k, NoDup (adj (make_bond s i j) k).
Proof.
  intros Hn k. unfold make_bond. destruct (Nat.eqb i j) eqn:Hb; [apply Hn|]. cbn [adj].
  assert (Hi : (if memn i (adj s j) then adj s else upd (adj s) j (adj s j ++ [i])) i = adj s i).
  { destruct (memn i (adj s j)); [reflexivity|]. unfold upd. rewrite Hb. reflexivity. }
  rewrite Hi.
  destruct (memn i (adj s j)) eqn:E1; [apply memn_In in E1 | apply memn_false in E1];
  (destruct (memn j (adj s i)) eqn:E2; [apply memn_In in E2 | apply memn_false in E2]);
  unfold upd;
  destruct (Nat.eqb_spec k i) as [Hki|Hki]; destruct (Nat.eqb_spec k j) as [Hkj|Hkj]; subst;
  try (rewrite Nat.eqb_refl in Hb; discriminate);
  try apply Hn; try (apply NoDup_snoc; [apply Hn | assumption]).
Qed.
Lemma make_bond_bridge s i j : bridge (make_bond s i j) = bridge s.
Proof. unfold make_bond. destruct (Nat.eqb i j); reflexivity. Qed.

Section Fold.
Variable atom : Type.
Variable check : atom -> atom -> bool.
Variable is_S : atom -> bool.
Variable atom_of : nat -> atom.
Notation iatom := (iatom atom).
Definition Sx (k : nat) : bool := is_S (atom_of k).
Definition ck (i j : nat) : bool := check (atom_of i) (atom_of j).
Hypothesis ck_sym : forall i j, ck i j = ck j i.

Definition consistent (ps : list (iatom * iatom)) : Prop :=
  forall p, In p ps -> snd (fst p) = atom_of (fst (fst p)) /\ snd (snd p) = atom_of (fst (snd p)) /\ fst (fst p) <> fst (snd p).
(* the unordered pair {i, j} is handed to the pair test *)
Definition examines (ps : list (iatom * iatom)) (i j : nat) : Prop :=
  exists p, In p ps /\ ((fst (fst p) = i /\ fst (snd p) = j) \/ (fst (fst p) = j /\ fst (snd p) = i)).

Record Inv (s : bstate) : Prop := {
  inv_sym : forall i j, In j (adj s i) -> In i (adj s j);
  inv_irr : forall i, ~ In i (adj s i);
  inv_nodup : forall i, NoDup (adj s i);
  inv_bridge : forall i j, In j (adj s i) -> Sx i = true -> Sx j = true -> bridge s i = true /\ bridge s j = true;
  inv_origin : forall k, bridge s k = true -> exists l, In l (adj s k) /\ Sx k = true /\ Sx l = true }.

Lemma Inv0 : Inv bstate0.
Proof. constructor; cbn; intros; try contradiction; try constructor; try discriminate. intros []. Qed.

Lemma find_bond_spec s i j : Inv s -> i <> j ->
  let s' := find_bond check is_S s ((i, atom_of i), (j, atom_of j)) in
  Inv s' /\ (forall k l, In l (adj s' k) <-> In l (adj s k) \/ (ck i j = true /\ ((k = i /\ l = j) \/ (k = j /\ l = i)))).
Proof.
  intros HI Hij. cbv zeta. unfold find_bond. destruct (memn i (adj s j)) eqn:E1.
  - apply memn_In in E1. split; [exact HI|]. intros k l. split; [auto|].
    intros [H|[_ [[-> ->]|[-> ->]]]]; auto. apply (inv_sym s HI); exact E1.
  - apply memn_false in E1. fold (ck i j). destruct (ck i j) eqn:Ec.
    2:{ split; [exact HI|]. intros k l. split; [auto|]. intros [H|[H _]]; [exact H|discriminate]. }
    assert (Hadj : forall k l, In l (adj (make_bond s i j) k) <-> In l (adj s k) \/ (k = i /\ l = j) \/ (k = j /\ l = i))
      by (intros; apply make_bond_adj; exact Hij).
    assert (Hchar : forall s2, adj s2 = adj (make_bond s i j) ->
              forall k l, In l (adj s2 k) <-> In l (adj s k) \/ (true = true /\ ((k = i /\ l = j) \/ (k = j /\ l = i)))).
    { intros s2 Ea k l. rewrite Ea, Hadj. tauto. }
    fold (Sx i). fold (Sx j). destruct (Sx i && Sx j) eqn:ES.
    + apply andb_true_iff in ES as [Si Sj]. split; [|apply Hchar; reflexivity]. constructor; cbn [adj bridge].
      * intros a b. rewrite !Hadj. intros [H|[[-> ->]|[-> ->]]]; auto. left. apply (inv_sym s HI). exact H.
      * intros a. rewrite Hadj. intros [H|[[-> E]|[-> E]]]; [apply (inv_irr s HI a H)| |]; congruence.
      * apply make_bond_nodup. apply (inv_nodup s HI).
      * intros a b. rewrite Hadj, make_bond_bridge. unfold upd. intros [H|[[-> ->]|[-> ->]]] Sa Sb.
        -- destruct (inv_bridge s HI a b H Sa Sb) as [B1 B2].
           destruct (Nat.eqb a j), (Nat.eqb a i), (Nat.eqb b j), (Nat.eqb b i); auto.
        -- rewrite !Nat.eqb_refl. destruct (Nat.eqb i j); auto.
        -- rewrite !Nat.eqb_refl. destruct (Nat.eqb i j); auto.
      * intros k. rewrite make_bond_bridge. unfold upd. destruct (Nat.eqb_spec k j) as [->|Hkj].
        -- intros _. exists i. rewrite Hadj. auto.
        -- destruct (Nat.eqb_spec k i) as [->|Hki].
           ++ intros _. exists j. rewrite Hadj. auto.
           ++ intros Hb. destruct (inv_origin s HI k Hb) as [l [H1 H2]]. exists l. rewrite Hadj. auto.
    + split; [|apply Hchar; reflexivity]. constructor.
      * intros a b. rewrite !Hadj. intros [H|[[-> ->]|[-> ->]]]; auto. left. apply (inv_sym s HI). exact H.
      * intros a. rewrite Hadj. intros [H|[[-> E]|[-> E]]]; [apply (inv_irr s HI a H)| |]; congruence.
      * apply make_bond_nodup. apply (inv_nodup s HI).
      * intros a b. rewrite Hadj, make_bond_bridge. intros [H|[[-> ->]|[-> ->]]] Sa Sb.
        -- apply (inv_bridge s HI a b H Sa Sb).
        -- rewrite Sa, Sb in ES. discriminate.
        -- rewrite Sa, Sb in ES. discriminate.
      * intros k. rewrite make_bond_bridge. intros Hb. destruct (inv_origin s HI k Hb) as [l [H1 H2]]. exists l. rewrite Hadj. auto.
Qed.

Lemma find_all_spec : forall ps s, consistent ps -> Inv s ->
  let s' := fold_left (find_bond check is_S) ps s in
  Inv s' /\ (forall k l, In l (adj s' k) <-> In l (adj s k) \/ (examines ps k l /\ ck k l = true)).
Proof.
  induction ps as [|p r IH]; intros s Hc HI; cbn [fold_left].
  - split; [exact HI|]. intros k l. split; [auto|]. intros [H|[[p [[] _]] _]]. exact H.
  - destruct p as [[i a] [j b]]. destruct (Hc _ (or_introl eq_refl)) as (Ea & Eb & Hij). cbn [fst snd] in Ea, Eb, Hij. subst a b.
    destruct (find_bond_spec s i j HI Hij) as [HI1 H1]. cbv zeta in H1.
    assert (Hc' : consistent r) by (intros q Hq; apply Hc; right; exact Hq).
    destruct (IH _ Hc' HI1) as [HI2 H2]. cbv zeta in H2. split; [exact HI2|]. intros k l. rewrite H2, H1.
    assert (Hsym : ck i j = ck j i) by apply ck_sym.
    split.
    + intros [[H|[Hck [[-> ->]|[-> ->]]]]|[[q [Hq Hd]] Hck]].
      * auto.
      * right. split; [exists ((i, atom_of i), (j, atom_of j)); split; [left; reflexivity|cbn; auto]|exact Hck].
      * right. split; [exists ((i, atom_of i), (j, atom_of j)); split; [left; reflexivity|cbn; auto]|rewrite <- Hsym; exact Hck].
      * right. split; [exists q; split; [right; exact Hq|exact Hd]|exact Hck].
    + intros [H|[[q [[<-|Hq] Hd]] Hck]].
      * auto.
      * cbn [fst snd] in Hd. left. right. destruct Hd as [[<- <-]|[<- <-]]; [split; [exact Hck|auto] | split; [rewrite Hsym; exact Hck|auto]].
      * right. split; [exists q; split; [exact Hq|exact Hd]|exact Hck].
Qed.
End Fold.

(* ------------------------------------------------------------------ cell list = all pairs *)
Section Main.
Variable atom : Type.
Variable cell : atom -> cellT.
Variable check : atom -> atom -> bool.
Variable is_S : atom -> bool.
Variable ok : atom -> Prop.          (* the atoms for which the criterion is known to be symmetric *)
Hypothesis check_sym : forall a b, ok a -> ok b -> check a b = check b a.
Hypothesis check_near : forall a b, check a b = true -> adjacent (cell a) (cell b).
Variable dflt : atom.
Variable l : list atom.
Hypothesis ok_dflt : ok dflt.
Hypothesis ok_l : Forall ok l.
Definition atom_at (i : nat) : atom := nth i l dflt.
Let L := number 0 l.
Lemma ok_at i : ok (atom_at i).
Proof.
  unfold atom_at. destruct (Nat.lt_ge_cases i (length l)) as [H|H].
  - rewrite Forall_forall in ok_l. apply ok_l. apply nth_In. exact H.
  - rewrite nth_overflow by exact H. exact ok_dflt.
Qed.
Lemma ck_sym_at i j : ck atom check atom_at i j = ck atom check atom_at j i.
Proof. unfold ck. apply check_sym; apply ok_at. Qed.

Lemma number_In : forall (m : list atom) n i a, In (i, a) (number n m) <-> (n <= i)%nat /\ nth_error m (i - n) = Some a.
Proof.
  induction m as [|h t IH]; intros n i a; cbn [number].
  - split; [intros []|]. intros [_ H]. destruct (i - n)%nat; discriminate.
  - cbn [In]. rewrite IH. split.
    + intros [E|[Hle Hn]].
      * injection E as <- <-. split; [lia|]. rewrite Nat.sub_diag. reflexivity.
      * split; [lia|]. replace (i - n)%nat with (S (i - S n)) by lia. exact Hn.
    + intros [Hle Hn]. destruct (Nat.eq_dec i n) as [->|Hne].
      * left. rewrite Nat.sub_diag in Hn. injection Hn as ->. reflexivity.
      * right. split; [lia|]. replace (i - n)%nat with (S (i - S n)) in Hn by lia. exact Hn.
Qed.
Lemma number_fst_ge : forall (m : list atom) n x, In x (map fst (number n m)) -> (n <= x)%nat.
Proof. induction m as [|h t IH]; intros n x; cbn; [intros []|]. intros [<-|H]; [lia|]. apply IH in H. lia. Qed.
Lemma number_nodup : forall (m : list atom) n, NoDup (map fst (number n m)).
Proof.
  induction m as [|h t IH]; intros n; cbn; constructor; [|apply IH]. intros H. apply number_fst_ge in H. lia.
Qed.
Lemma L_In i a : In (i, a) L <-> (i < length l)%nat /\ a = atom_at i.
Proof.
  unfold L. rewrite number_In, Nat.sub_0_r. unfold atom_at. split.
  - intros [_ H]. split; [apply nth_error_Some; congruence|]. symmetry. apply nth_error_nth. exact H.
  - intros [Hlt ->]. split; [lia|]. apply nth_error_nth'. exact Hlt.
Qed.

Lemma consistent_of (ps : list (iatom atom * iatom atom)) :
  (forall x y, In (x, y) ps -> In x L /\ In y L /\ fst x <> fst y) -> consistent atom atom_at ps.
Proof.
  intros H [[i a] [j b]] Hin. destruct (H _ _ Hin) as (Hx & Hy & Hne). cbn [fst snd] in *.
  apply L_In in Hx as [_ ->]. apply L_In in Hy as [_ ->]. auto.
Qed.

Lemma examines_boxes i j : (i < length l)%nat -> (j < length l)%nat -> i <> j -> check (atom_at i) (atom_at j) = true ->
  examines atom (examined offsets (boxes cell L)) i j.
Proof.
  intros Hi Hj Hne Hc.
  assert (Hx : In (i, atom_at i) L) by (apply L_In; auto). assert (Hy : In (j, atom_at j) L) by (apply L_In; auto).
  destruct (examined_complete atom cell check check_near L (i, atom_at i) (j, atom_at j) Hx Hy) as [H|H]; [congruence|exact Hc| |];
    eexists; (split; [exact H|]); cbn; auto.
Qed.
Lemma examines_pairs i j : (i < length l)%nat -> (j < length l)%nat -> i <> j -> examines atom (pairs_within L) i j.
Proof.
  intros Hi Hj Hne.
  assert (Hx : In (i, atom_at i) L) by (apply L_In; auto). assert (Hy : In (j, atom_at j) L) by (apply L_In; auto).
  destruct (pairs_within_complete atom L (i, atom_at i) (j, atom_at j) Hx Hy) as [H|H]; [congruence| |];
    eexists; (split; [exact H|]); cbn; auto.
Qed.

Definition by_boxes : bstate := find_all check is_S (examined offsets (boxes cell L)).
Definition by_pairs : bstate := find_all check is_S (pairs_within L).
Definition spec_bonded (i j : nat) : Prop :=
  (i < length l)%nat /\ (j < length l)%nat /\ i <> j /\ check (atom_at i) (atom_at j) = true.

Lemma sound_boxes x y : In (x, y) (examined offsets (boxes cell L)) -> In x L /\ In y L /\ fst x <> fst y.
Proof. apply examined_sound. apply number_nodup. Qed.
Lemma sound_pairs x y : In (x, y) (pairs_within L) -> In x L /\ In y L /\ fst x <> fst y.
Proof. apply pairs_within_sound. apply number_nodup. Qed.

Lemma examines_in_range ps i j : (forall x y, In (x, y) ps -> In x L /\ In y L /\ fst x <> fst y) ->
  examines atom ps i j -> (i < length l)%nat /\ (j < length l)%nat /\ i <> j.
Proof.
  intros H [[[a xa] [b xb]] [Hin Hd]]. destruct (H _ _ Hin) as (Hx & Hy & Hne). cbn [fst snd] in *.
  apply L_In in Hx as [Ha _]. apply L_In in Hy as [Hb _]. destruct Hd as [[<- <-]|[<- <-]]; auto.
Qed.

(* the bonded lists found through the cell list are exactly those of the pairwise rule *)
Theorem boxes_bonds_spec i j : In j (adj by_boxes i) <-> spec_bonded i j.
Proof.
  unfold by_boxes, find_all. destruct (find_all_spec atom check is_S atom_at ck_sym_at _ bstate0 (consistent_of _ sound_boxes) (Inv0 atom is_S atom_at)) as [_ H].
  cbv zeta in H. rewrite H. cbn [adj bstate0]. unfold spec_bonded, ck. split.
  - intros [[]|[He Hc]]. destruct (examines_in_range _ i j sound_boxes He) as (A & B & C). auto.
  - intros (A & B & C & D). right. split; [apply examines_boxes; assumption|exact D].
Qed.
Theorem pairs_bonds_spec i j : In j (adj by_pairs i) <-> spec_bonded i j.
Proof.
  unfold by_pairs, find_all. destruct (find_all_spec atom check is_S atom_at ck_sym_at _ bstate0 (consistent_of _ sound_pairs) (Inv0 atom is_S atom_at)) as [_ H].
  cbv zeta in H. rewrite H. cbn [adj bstate0]. unfold spec_bonded, ck. split.
  - intros [[]|[He Hc]]. destruct (examines_in_range _ i j sound_pairs He) as (A & B & C). auto.
  - intros (A & B & C & D). right. split; [apply examines_pairs; assumption|exact D].
Qed.
Theorem boxes_bonds_eq_allpairs i j : In j (adj by_boxes i) <-> In j (adj by_pairs i).
Proof. rewrite boxes_bonds_spec, pairs_bonds_spec. reflexivity. Qed.

Lemma Inv_boxes : Inv atom is_S atom_at by_boxes.
Proof. unfold by_boxes, find_all. apply (find_all_spec atom check is_S atom_at ck_sym_at _ bstate0 (consistent_of _ sound_boxes) (Inv0 atom is_S atom_at)). Qed.

Theorem bonded_symmetric i j : In j (adj by_boxes i) -> In i (adj by_boxes j).
Proof. apply (inv_sym _ _ _ _ Inv_boxes). Qed.
Theorem bonded_irreflexive i : ~ In i (adj by_boxes i).
Proof. apply (inv_irr _ _ _ _ Inv_boxes). Qed.
Theorem bonded_nodup i : NoDup (adj by_boxes i).
Proof. apply (inv_nodup _ _ _ _ Inv_boxes). Qed.
(* two sulfurs that the rule bonds are both flagged as bridged; nothing else is *)
Theorem disulfide_both_flagged i j : spec_bonded i j -> is_S (atom_at i) = true -> is_S (atom_at j) = true ->
  bridge by_boxes i = true /\ bridge by_boxes j = true.
Proof. intros Hs Si Sj. apply (inv_bridge _ _ _ _ Inv_boxes i j); [apply boxes_bonds_spec; exact Hs | exact Si | exact Sj]. Qed.
Theorem bridge_only_disulfide k : bridge by_boxes k = true ->
  exists m, spec_bonded k m /\ is_S (atom_at k) = true /\ is_S (atom_at m) = true.
Proof. intros H. destruct (inv_origin _ _ _ _ Inv_boxes k H) as [m [H1 H2]]. exists m. split; [apply boxes_bonds_spec; exact H1|exact H2]. Qed.
End Main.
