(* C05 (iterative scheme): a sweep acts cluster-wise.  If no interaction joins the object set A with its complement, the new pKa values
   of the objects of A and the new annihilation values of the interactions of A depend only on the objects and interactions of A. *)
From Coq Require Import List Bool ZArith Reals Lia.
From V Require Import Num DetsGen Iterative.
Import ListNotations.

Section NI.
Context {F : Type} {N : Num F}.
Variable isA : nat -> bool.
Definition inA (it : inter (F:=F)) : bool := isA (i_a it) && isA (i_b it).
Definition separated (inters : list (inter (F:=F))) : Prop :=
  forall it, In it inters -> inA it = true \/ (isA (i_a it) = false /\ isA (i_b it) = false).
Definition agree (objs objs' : list (obj (F:=F))) : Prop := forall i, isA i = true -> nth i objs dflt_obj = nth i objs' dflt_obj.

Lemma pair_result_agree objs objs' it : agree objs objs' -> inA it = true -> pair_result objs it = pair_result objs' it.
Proof.
  intros Hag Hin. unfold inA in Hin. apply andb_true_iff in Hin as [Ha Hb]. unfold pair_result. rewrite (Hag _ Ha), (Hag _ Hb). reflexivity.
Qed.
Lemma contrib_outside objs k o it : isA o = true -> isA (i_a it) = false -> isA (i_b it) = false -> contrib objs k o it = [].
Proof.
  intros Ho Ha Hb. unfold contrib. induction (fst (pair_result objs it)) as [|e r IH]; [reflexivity|]. cbn [flat_map]. rewrite IH, app_nil_r.
  destruct e as [[[owner kind] p] v]. destruct (neqb owner (nlit 1 1)).
  - destruct (Nat.eqb (i_a it) o) eqn:E; [apply Nat.eqb_eq in E; congruence | reflexivity].
  - destruct (Nat.eqb (i_b it) o) eqn:E; [apply Nat.eqb_eq in E; congruence | reflexivity].
Qed.
Lemma contrib_agree objs objs' k o it : agree objs objs' -> inA it = true -> contrib objs k o it = contrib objs' k o it.
Proof. intros Hag Hin. unfold contrib. rewrite (pair_result_agree _ _ _ Hag Hin). reflexivity. Qed.

Lemma flat_contrib objs objs' k o inters : agree objs objs' -> separated inters -> isA o = true ->
  flat_map (contrib objs k o) inters = flat_map (contrib objs' k o) (filter inA inters).
Proof.
  intros Hag Hsep Ho. induction inters as [|it r IH]; [reflexivity|]. cbn [flat_map filter].
  assert (Hr : separated r) by (intros x Hx; apply Hsep; right; exact Hx).
  destruct (Hsep it (or_introl eq_refl)) as [Hin | [Ha Hb]].
  - rewrite Hin. cbn [flat_map]. rewrite (contrib_agree _ _ _ _ _ Hag Hin), (IH Hr). reflexivity.
  - assert (Hn : inA it = false) by (unfold inA; rewrite Ha; reflexivity). rewrite Hn, (contrib_outside _ _ _ _ Ho Ha Hb). cbn [app]. exact (IH Hr).
Qed.

(* the objects of A get the same new pKa whether or not the rest of the system is there, whatever it contains and wherever its interactions stand *)
Theorem pka_new_cluster_local objs objs' inters inters' o :
  agree objs objs' -> separated inters -> separated inters' -> filter inA inters = filter inA inters' -> isA o = true ->
  pka_new objs inters o = pka_new objs' inters' o.
Proof.
  intros Hag Hs Hs' Hf Ho. unfold pka_new.
  assert (Hag' : agree objs' objs') by (intros i _; reflexivity).
  rewrite (flat_contrib objs objs' 0 o inters Hag Hs Ho), (flat_contrib objs objs' 2 o inters Hag Hs Ho).
  rewrite (flat_contrib objs' objs' 0 o inters' Hag' Hs' Ho), (flat_contrib objs' objs' 2 o inters' Hag' Hs' Ho).
  rewrite Hf, (Hag o Ho). reflexivity.
Qed.
(* and the interactions of A get the same new annihilation values *)
Theorem annihilation_cluster_local objs objs' it : agree objs objs' -> inA it = true -> snd (pair_result objs it) = snd (pair_result objs' it).
Proof. intros Hag Hin. rewrite (pair_result_agree _ _ _ Hag Hin). reflexivity. Qed.
End NI.
