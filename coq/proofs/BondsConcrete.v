(* C11: the hypotheses of the abstract theorem hold for the concrete criterion (BondMaker.check_distance on top of the
   generated squared_distance) and the concrete cell index floor(coordinate / box_size), over the reals. *)
From Coq Require Import String Ascii List Bool ZArith QArith Lia Reals Lra Psatz.
From Flocq Require Import Raux.
From V Require Import Num VecGen Bonds_gen Bonds BondsProofs.
Import ListNotations.
Local Open Scope list_scope.
Open Scope R_scope.

Notation batomR := (batom R).
Definition cellR : batomR -> cellT := cell_of Zfloor.

(* ---- symmetry ---- *)
Lemma sqdist_sym (a b : vec3 R) : squared_distance a b = squared_distance b a.
Proof. destruct a, b. unfold squared_distance. num_unfold. simpl. ring. Qed.

(* the special-distance key 'El1-El2' looks up the same entry as 'El2-El1' for all element symbols of the periodic table
   known to propka and the empty symbol (finite domain: |known_elements|+1 squared pairs, by vm_compute) *)
Definition key_of (a b : string) : string := (a ++ "-" ++ b)%string.
Fixpoint key_index (k : string) (d : list (string * Q)) (n : nat) : option nat :=
  match d with [] => None | (k', _) :: r => if String.eqb k k' then Some n else key_index k r (S n) end.
Definition has_key (k : string) : option nat := key_index k special_distances O.
Definition elems := EmptyString :: known_elements.
Lemma special_keys_symmetric :
  forallb (fun a => forallb (fun b => match has_key (key_of a b), has_key (key_of b a) with
                                       | Some n, Some m => Nat.eqb n m | None, None => true | _, _ => false end) elems) elems = true.
Proof. vm_compute. reflexivity. Qed.

Lemma key_index_ge k : forall d n m, key_index k d n = Some m -> (n <= m)%nat.
Proof. induction d as [|[k' v] r IH]; intros n m E; [discriminate|]. cbn in E. destruct (String.eqb k k'); [injection E as <-; lia|]. apply IH in E. lia. Qed.
Lemma slookup_index {V} (f : Q -> V) k : forall d n,
  slookup k (map (fun kv => (fst kv, f (snd kv))) d)
  = match key_index k d n with Some m => option_map (fun kv => f (snd kv)) (nth_error d (m - n)) | None => None end.
Proof.
  induction d as [|[k' v] r IH]; intros n; cbn; [reflexivity|]. destruct (String.eqb k k').
  - rewrite Nat.sub_diag. reflexivity.
  - rewrite (IH (S n)). destruct (key_index k r (S n)) as [m|] eqn:E; [|reflexivity].
    apply key_index_ge in E. replace (m - n)%nat with (S (m - S n)) by lia. reflexivity.
Qed.
Lemma slookup_has_key {V} (f : Q -> V) k :
  slookup k (map (fun kv => (fst kv, f (snd kv))) special_distances)
  = match has_key k with Some n => option_map (fun kv => f (snd kv)) (nth_error special_distances n) | None => None end.
Proof. unfold has_key. rewrite (slookup_index f k special_distances O). destruct (key_index k special_distances 0); [rewrite Nat.sub_0_r|]; reflexivity. Qed.

Definition known (a : batomR) : Prop := In (b_elem a) elems.

Lemma special_lookup_sym (a b : batomR) : known a -> known b ->
  slookup (key_of (b_elem a) (b_elem b)) (special_sq (F:=R)) = slookup (key_of (b_elem b) (b_elem a)) (special_sq (F:=R)).
Proof.
  intros Ka Kb. unfold special_sq. rewrite !(slookup_has_key (fun q => nmul (qlit q) (qlit q))).
  pose proof special_keys_symmetric as H. rewrite forallb_forall in H. specialize (H _ Ka). rewrite forallb_forall in H. specialize (H _ Kb).
  destruct (has_key (key_of (b_elem a) (b_elem b))) as [n|], (has_key (key_of (b_elem b) (b_elem a))) as [m|]; try discriminate; [|reflexivity].
  apply Nat.eqb_eq in H. subst. reflexivity.
Qed.

Theorem check_distance_sym (a b : batomR) : known a -> known b -> check_distance a b = check_distance b a.
Proof.
  intros Ka Kb. unfold check_distance. rewrite (sqdist_sym (b_pos a) (b_pos b)). rewrite (Nat.add_comm (count_H (b_elem a))).
  fold (key_of (b_elem a) (b_elem b)). fold (key_of (b_elem b) (b_elem a)). rewrite (special_lookup_sym a b Ka Kb). reflexivity.
Qed.

(* ---- bonded atoms lie in adjacent cells ---- *)
Lemma floor_close u v : Rabs (u - v) < 1 -> (Z.abs (Zfloor u - Zfloor v) <= 1)%Z.
Proof.
  intros H. apply Rabs_def2 in H as [H1 H2].
  pose proof (Zfloor_lb u). pose proof (Zfloor_ub u). pose proof (Zfloor_lb v). pose proof (Zfloor_ub v).
  assert (A : (Zfloor u < Zfloor v + 2)%Z) by (apply lt_IZR; rewrite plus_IZR; simpl; lra).
  assert (B : (Zfloor v < Zfloor u + 2)%Z) by (apply lt_IZR; rewrite plus_IZR; simpl; lra).
  lia.
Qed.

Lemma nmax_ge_r (a b : R) : b <= nmax a b.
Proof. unfold nmax. num_unfold. destruct (Rltb a b) eqn:E; [lra|apply Rltb_false in E; exact E]. Qed.

Lemma box_gt_sqrt : sqrt (max_sq (F:=R)) < box_size (F:=R).
Proof. unfold box_size. eapply Rlt_le_trans; [|apply nmax_ge_r]. num_unfold. lra. Qed.

Lemma coord_close (x1 x2 s box : R) : (x2 - x1) * (x2 - x1) <= s -> sqrt s < box -> Rabs (x1 / box - x2 / box) < 1.
Proof.
  intros Hd Hb. assert (Hs : 0 <= s) by (pose proof (Rle_0_sqr (x2 - x1)) as Hq; unfold Rsqr in Hq; lra). assert (Hb0 : 0 < box) by (pose proof (sqrt_pos s); lra).
  assert (Habs : Rabs (x1 - x2) <= sqrt s).
  { rewrite <- (sqrt_Rsqr_abs (x1 - x2)). apply sqrt_le_1; [apply Rle_0_sqr| exact Hs |]. unfold Rsqr. replace ((x1 - x2) * (x1 - x2)) with ((x2 - x1) * (x2 - x1)) by ring. exact Hd. }
  replace (x1 / box - x2 / box) with ((x1 - x2) / box) by (field; lra).
  unfold Rdiv. rewrite Rabs_mult, (Rabs_pos_eq (/ box)) by (left; apply Rinv_0_lt_compat; exact Hb0).
  apply Rmult_lt_reg_r with box; [exact Hb0|]. rewrite Rmult_assoc, Rinv_l by lra. lra.
Qed.

Theorem check_distance_near (a b : batomR) : check_distance a b = true -> adjacent (cellR a) (cellR b).
Proof.
  unfold check_distance. destruct (nltb max_sq (squared_distance (b_pos a) (b_pos b))) eqn:E; [discriminate|]. intros _.
  change (nltb (F:=R)) with Rltb in E. apply Rltb_false in E.
  destruct a as [[x1 y1 z1] e1], b as [[x2 y2 z2] e2]. unfold squared_distance in E. num_unfold. simpl in E.
  pose proof box_gt_sqrt as Hb.
  unfold cellR, cell_of, adjacent. simpl. num_unfold.
  pose proof (Rle_0_sqr (x2 - x1)) as Qx. pose proof (Rle_0_sqr (y2 - y1)) as Qy. pose proof (Rle_0_sqr (z2 - z1)) as Qz. unfold Rsqr in Qx, Qy, Qz.
  repeat split; apply floor_close; apply (coord_close _ _ (max_sq (F:=R))); try exact Hb; lra.
Qed.

(* ---- the theorem about the model functions themselves ---- *)
Definition dflt_atom : batomR := {| b_pos := mk_vec3 0 0 0; b_elem := EmptyString |}.
Lemma known_dflt : known dflt_atom. Proof. left. reflexivity. Qed.

Section Final.
Variable atoms : list batomR.
Hypothesis Hk : Forall known atoms.
Notation at_ := (atom_at batomR dflt_atom atoms).

Lemma boxes_is_model : by_boxes batomR cellR check_distance is_sulfur atoms = bonds_using_boxes Zfloor atoms.
Proof. reflexivity. Qed.
Lemma pairs_is_model : by_pairs batomR check_distance is_sulfur atoms = bonds_all_pairs atoms.
Proof. reflexivity. Qed.

Theorem model_boxes_eq_allpairs i j :
  In j (adj (bonds_using_boxes Zfloor atoms) i) <-> In j (adj (bonds_all_pairs atoms) i).
Proof.
  rewrite <- boxes_is_model, <- pairs_is_model.
  apply (boxes_bonds_eq_allpairs batomR cellR check_distance is_sulfur known check_distance_sym check_distance_near dflt_atom atoms known_dflt Hk).
Qed.
Theorem model_boxes_spec i j :
  In j (adj (bonds_using_boxes Zfloor atoms) i) <->
  (i < length atoms)%nat /\ (j < length atoms)%nat /\ i <> j /\ check_distance (at_ i) (at_ j) = true.
Proof.
  rewrite <- boxes_is_model.
  apply (boxes_bonds_spec batomR cellR check_distance is_sulfur known check_distance_sym check_distance_near dflt_atom atoms known_dflt Hk).
Qed.
Theorem model_bonded_symmetric i j : In j (adj (bonds_using_boxes Zfloor atoms) i) -> In i (adj (bonds_using_boxes Zfloor atoms) j).
Proof. rewrite <- boxes_is_model. apply (bonded_symmetric batomR cellR check_distance is_sulfur known check_distance_sym dflt_atom atoms known_dflt Hk). Qed.
Theorem model_bonded_irreflexive i : ~ In i (adj (bonds_using_boxes Zfloor atoms) i).
Proof. rewrite <- boxes_is_model. apply (bonded_irreflexive batomR cellR check_distance is_sulfur known check_distance_sym dflt_atom atoms known_dflt Hk). Qed.
Theorem model_bonded_nodup i : NoDup (adj (bonds_using_boxes Zfloor atoms) i).
Proof. rewrite <- boxes_is_model. apply (bonded_nodup batomR cellR check_distance is_sulfur known check_distance_sym dflt_atom atoms known_dflt Hk). Qed.
Theorem model_disulfide_both_flagged i j :
  (i < length atoms)%nat -> (j < length atoms)%nat -> i <> j -> check_distance (at_ i) (at_ j) = true ->
  is_sulfur (at_ i) = true -> is_sulfur (at_ j) = true ->
  bridge (bonds_using_boxes Zfloor atoms) i = true /\ bridge (bonds_using_boxes Zfloor atoms) j = true.
Proof.
  intros A B C D. rewrite <- boxes_is_model.
  apply (disulfide_both_flagged batomR cellR check_distance is_sulfur known check_distance_sym check_distance_near dflt_atom atoms known_dflt Hk).
  unfold spec_bonded. auto.
Qed.
Theorem model_bridge_only_disulfide k : bridge (bonds_using_boxes Zfloor atoms) k = true ->
  exists m, (k < length atoms)%nat /\ (m < length atoms)%nat /\ k <> m /\ check_distance (at_ k) (at_ m) = true /\
            is_sulfur (at_ k) = true /\ is_sulfur (at_ m) = true.
Proof.
  rewrite <- boxes_is_model. intros H.
  destruct (bridge_only_disulfide batomR cellR check_distance is_sulfur known check_distance_sym check_distance_near dflt_atom atoms known_dflt Hk k H)
    as [m [(A & B & C & D) [E F]]]. exists m. auto 8.
Qed.
End Final.

(* non-vacuity (binary64 instance, vm_compute): with the shipped constants two sulfurs 2.03125 A apart are bonded and flagged,
   two carbons 2.25 A apart are not bonded; both element symbols are in the symmetric domain *)
From Coq Require Import PrimFloat.
Definition ffloor (x : float) : Z := 0%Z.   (* all example atoms lie in cell 0 *)
Example criterion_examples :
  let A (x : float) (e : string) := {| b_pos := mk_vec3 x 0%float 0%float; b_elem := e |} in
  let st := bonds_using_boxes (F:=float) ffloor [A 0%float "S"; A 2.03125%float "S"; A 10%float "C"; A 12.25%float "C"]%string in
  (adj st 0%nat, adj st 1%nat, adj st 2%nat, adj st 3%nat, bridge st 0%nat, bridge st 1%nat, bridge st 2%nat)
  = ([1]%nat, [0]%nat, @nil nat, @nil nat, true, true, false)
  /\ In "S"%string elems /\ In "C"%string elems.
Proof. vm_compute. repeat split; tauto. Qed.
