(* C13: parsing with a chain selection = parsing, without the option, the file from which every ATOM/HETATM
   record of the other chains has been deleted.  About model/PdbParse.v (all line lists, all states). *)
From Coq Require Import String Ascii List Bool ZArith Lia.
From V Require Import PyString PdbParse.
Import ListNotations.
Open Scope string_scope.

Definition no_chains (o : opts) : opts :=
  {| ignore_residues := ignore_residues o; keep_protons := keep_protons o; chains := [] |}.

(* the records kept by the deletion: everything that is not an ATOM/HETATM record, and the ATOM/HETATM records whose
   column 22 (index 21) is a selected chain identifier *)
Definition keeps (cs : list ascii) (l : string) : bool :=
  negb (is_atom_tag (slice 0 6 l)) || match idx 21 l with Ok c => mem_chr c cs | Err _ => true end.

(* well-formedness: ATOM/HETATM records are at least 22 columns wide (line[21] exists) *)
Definition wf_line (l : string) : bool := negb (is_atom_tag (slice 0 6 l)) || Nat.leb 22 (String.length l).

Lemma atom_tag_not_model tag : is_atom_tag tag = true -> String.eqb tag "MODEL " = false /\ is_ter tag = false.
Proof.
  unfold is_atom_tag. intros H. apply orb_true_iff in H as [H|H]; apply String.eqb_eq in H; rewrite H; split; reflexivity.
Qed.

Lemma dropped_noop o s l : chains o <> [] -> wf_line l = true -> keeps (chains o) l = false -> step o s l = Ok (s, []).
Proof.
  intros Hc Hwf Hk. unfold keeps in Hk. apply orb_false_iff in Hk as [Hk1 Hk2]. apply negb_false_iff in Hk1.
  unfold wf_line in Hwf. rewrite Hk1 in Hwf. cbn [negb orb] in Hwf. apply Nat.leb_le in Hwf.
  destruct (atom_tag_not_model _ Hk1) as [Hm Ht].
  unfold step. rewrite Hm, Ht, Hk1. cbn [bind negb].
  destruct (idx_some_of_len 16 l) as [c16 H16]; [lia|]. rewrite H16. cbn [bind].
  destruct (mem_str (slice 17 20 l) (ignore_residues o)); [reflexivity|].
  destruct (idx_some_of_len 21 l) as [c21 H21]; [lia|]. rewrite H21 in *.
  destruct (chains o) as [|c0 cs] eqn:Ecs; [congruence|]. cbn [bind]. rewrite Hk2. reflexivity.
Qed.

Lemma kept_same o s l : chains o <> [] -> wf_line l = true -> keeps (chains o) l = true -> step o s l = step (no_chains o) s l.
Proof.
  intros Hc Hwf Hk. unfold step. cbn [no_chains ignore_residues keep_protons chains].
  destruct (if String.eqb (slice 0 6 l) "MODEL " then _ else _) as [s1|e]; [|reflexivity]. cbn [bind].
  destruct (negb (is_atom_tag (slice 0 6 l))) eqn:Hat; [reflexivity|]. apply negb_false_iff in Hat.
  destruct (idx 16 l) as [c16|e]; [|reflexivity]. cbn [bind].
  destruct (mem_str (slice 17 20 l) (ignore_residues o)); [reflexivity|].
  unfold keeps in Hk. rewrite Hat in Hk. cbn [negb orb] in Hk.
  unfold wf_line in Hwf. rewrite Hat in Hwf. cbn [negb orb] in Hwf. apply Nat.leb_le in Hwf.
  destruct (idx_some_of_len 21 l) as [c21 H21]; [lia|]. rewrite H21 in *.
  destruct (chains o) as [|c0 cs] eqn:Ecs; [congruence|]. cbn [bind]. rewrite Hk. reflexivity.
Qed.

Theorem run_chain_filter_is_deletion o : chains o <> [] -> forall ls s, forallb wf_line ls = true ->
  run o s ls = run (no_chains o) s (filter (keeps (chains o)) ls).
Proof.
  intros Hc ls. induction ls as [|l r IH]; intros s Hwf; [reflexivity|].
  cbn [forallb] in Hwf. apply andb_true_iff in Hwf as [Hl Hr].
  cbn [filter]. destruct (keeps (chains o) l) eqn:Hk.
  - cbn [run]. rewrite (kept_same o s l Hc Hl Hk).
    destruct (step (no_chains o) s l) as [[s' out1]|e]; [|reflexivity]. cbn [bind fst snd]. rewrite IH by exact Hr. reflexivity.
  - cbn [run]. rewrite (dropped_noop o s l Hc Hl Hk). cbn [bind fst snd]. rewrite IH by exact Hr.
    destruct (run (no_chains o) s (filter (keeps (chains o)) r)); reflexivity.
Qed.

Theorem parse_chain_filter_is_deletion o ls : chains o <> [] -> forallb wf_line ls = true ->
  parse o ls = parse (no_chains o) (filter (keeps (chains o)) ls).
Proof. intros Hc Hwf. unfold parse. apply run_chain_filter_is_deletion; assumption. Qed.

(* the blank chain identifier is an ordinary member of the selection *)
Corollary blank_chain_selectable o ls : chains o = [" "%char] -> forallb wf_line ls = true ->
  parse o ls = parse (no_chains o) (filter (keeps [" "%char]) ls).
Proof. intros Hc Hwf. rewrite <- Hc. apply parse_chain_filter_is_deletion; [rewrite Hc; discriminate | exact Hwf]. Qed.

(* non-vacuity: a two-chain fragment; selecting B keeps exactly chain B's atoms and their N+ tag *)
Definition nl := String (ascii_of_nat 10) EmptyString.
Definition demo : list string := map (fun s => s ++ nl) [
  "ATOM      1  N   ALA A   1      11.000  12.000  13.000  1.00  0.00";
  "ATOM      2  CA  ALA A   1      12.000  12.000  13.000  1.00  0.00";
  "TER";
  "ATOM      3  N   GLY B   7      21.000  12.000  13.000  1.00  0.00";
  "HETATM    4  O   HOH B 100      25.000  12.000  13.000  1.00  0.00";
  "ATOM      5  CA  GLY B   7      22.000  12.000  13.000  1.00  0.00"].
Example demo_selects_B :
  forallb wf_line demo = true /\
  match parse {| ignore_residues := ["HOH"]; keep_protons := false; chains := ["B"%char] |} demo with
  | Ok l => map (fun x => (a_name (o_atom x), a_chain (o_atom x), o_term x)) l
  | Err _ => [] end = [("N", "B", TNplus); ("CA", "B", TNone)].
Proof. vm_compute. split; reflexivity. Qed.

(* ---- consequences: selecting is idempotent, and depends only on which identifiers are selected ---- *)
Lemma filter_idem {A} (f : A -> bool) l : filter f (filter f l) = filter f l.
Proof. induction l as [|x r IH]; cbn [filter]; [reflexivity|]. destruct (f x) eqn:E; cbn [filter]; rewrite ?E, IH; reflexivity. Qed.
Lemma forallb_filter_sub {A} (p f : A -> bool) l : forallb p l = true -> forallb p (filter f l) = true.
Proof. induction l as [|x r IH]; cbn [filter forallb]; [reflexivity|]. intros H. apply andb_true_iff in H as [Hx Hr].
  destruct (f x); cbn [forallb]; rewrite ?Hx; auto. Qed.

Corollary chain_selection_idempotent o ls : chains o <> [] -> forallb wf_line ls = true ->
  parse o (filter (keeps (chains o)) ls) = parse o ls.
Proof.
  intros Hc Hwf. rewrite (parse_chain_filter_is_deletion o ls Hc Hwf).
  rewrite (parse_chain_filter_is_deletion o (filter (keeps (chains o)) ls) Hc (forallb_filter_sub _ _ _ Hwf)).
  rewrite filter_idem. reflexivity.
Qed.

Lemma keeps_ext cs1 cs2 l : (forall c, mem_chr c cs1 = mem_chr c cs2) -> keeps cs1 l = keeps cs2 l.
Proof. intros H. unfold keeps. destruct (idx 21 l); [rewrite H|]; reflexivity. Qed.

Corollary chain_selection_depends_on_membership o1 o2 ls :
  ignore_residues o1 = ignore_residues o2 -> keep_protons o1 = keep_protons o2 ->
  chains o1 <> [] -> chains o2 <> [] -> (forall c, mem_chr c (chains o1) = mem_chr c (chains o2)) ->
  forallb wf_line ls = true -> parse o1 ls = parse o2 ls.
Proof.
  intros Hi Hk H1 H2 Hm Hwf.
  rewrite (parse_chain_filter_is_deletion o1 ls H1 Hwf), (parse_chain_filter_is_deletion o2 ls H2 Hwf).
  replace (no_chains o2) with (no_chains o1) by (unfold no_chains; rewrite Hi, Hk; reflexivity).
  f_equal. apply filter_ext. intros l. apply keeps_ext. exact Hm.
Qed.
