(* C17 (complements): with the regular number of covalent neighbours each nitrogen named in the property receives exactly its share of
   hydrogens and a steric number for which a construction exists (3 = trigonal, 4 = tetrahedral).  Finite table facts by vm_compute over the
   tables re-extracted from protonate.py / bonds.py. *)
From Coq Require Import String Ascii List ZArith Bool.
From V Require Import Protonate_gen Electrons.
Import ListNotations.
Open Scope string_scope.

(* (residue, atom, terminal, regular number of bonded heavy atoms, hydrogens expected, steric number expected) *)
Definition regular_cases : list (string * string * string * Z * Z * Z) :=
  [("ARG", "NE", "", 2, 1, 3); ("ARG", "NH1", "", 1, 2, 3); ("ARG", "NH2", "", 1, 2, 3);
   ("HIS", "ND1", "", 2, 1, 3); ("HIS", "NE2", "", 2, 1, 3);
   ("ASN", "ND2", "", 1, 2, 3); ("GLN", "NE2", "", 1, 2, 3); ("TRP", "NE1", "", 2, 1, 3);
   ("ALA", "N", "", 2, 1, 3); ("GLY", "N", "", 2, 1, 3); ("ASP", "N", "", 2, 1, 3); ("LYS", "N", "", 2, 1, 3);
   ("PRO", "N", "", 3, 0, 3);
   ("LYS", "NZ", "", 1, 3, 4); ("SER", "OG", "", 1, 1, 4); ("THR", "OG1", "", 1, 1, 4); ("TYR", "OH", "", 1, 1, 4); ("CYS", "SG", "", 1, 1, 4);
   ("ALA", "N", "N+", 1, 3, 4)]%Z.
Definition case_ok (c : string * string * string * Z * Z * Z) : bool :=
  let '(res, name, term, nb, h, st) := c in
  let el := String (match name with String ch _ => ch | EmptyString => " "%char end) EmptyString in
  Z.eqb (protons_to_add el res name term nb) h && Z.eqb (steric_number el res name term nb) st.
Lemma regular_complements : forallb case_ok regular_cases = true.
Proof. vm_compute. reflexivity. Qed.
(* the backbone amide rule holds for every residue name, not only the listed ones: the tables have no N entry keyed by residue *)
Lemma backbone_amide_any_residue res : zget (res ++ "-" ++ "N") pi_sidechains = None -> zget (res ++ "-" ++ "N") standard_charges = None ->
  protons_to_add "N" res "N" "" 2 = 1%Z /\ steric_number "N" res "N" "" 2 = 3%Z.
Proof.
  intros H1 H2. unfold steric_number, protons_to_add, pi23, piconj, charge.
  change (String.eqb "" "") with true. cbv iota. rewrite H1, H2. vm_compute. split; reflexivity.
Qed.
Lemma no_residue_keyed_backbone_N :
  forallb (fun kv => negb (String.eqb (substring 3 2 (fst kv)) "-N" && Nat.eqb (String.length (fst kv)) 5)) (pi_sidechains ++ standard_charges) = true.
Proof. vm_compute. reflexivity. Qed.
