(* C01 (tables part): over the shipped propka.cfg (text re-read from /repo each run, parsed inside Coq) every ionizable protein site type has
   exactly one founding atom and gets its tabulated model pKa. *)
From Coq Require Import String Ascii List Bool ZArith QArith Arith.
From V Require Import PyString Params Cfg_gen ShippedCfg Census.
Import ListNotations.
Open Scope string_scope.

Definition side_chain_table : list (string * string * string * Q) :=
  [("ASP", "CG", "COO", 38 # 10); ("GLU", "CD", "COO", 45 # 10); ("HIS", "CG", "HIS", 65 # 10); ("CYS", "SG", "CYS", 9 # 1);
   ("TYR", "OH", "TYR", 10 # 1); ("LYS", "NZ", "LYS", 105 # 10); ("ARG", "CZ", "ARG", 125 # 10)].

Definition pka_is (o : option string) (q : Q) : bool := match o with Some t => match dec t with Some v => Qeq_bool v q | None => false end | None => false end.

(* the tables, finite facts *)
Definition mapping : dict string := drow "protein_group_mapping" (sd shipped).
Definition table_ok_b : bool :=
  forallb (fun e => let '(res, an, cls, pk) := e in
     match dget (res ++ "-" ++ an) mapping with Some c => String.eqb c cls | None => false end
     && pka_is (get2 (nd shipped) "model_pkas" res) pk
     && match get2 (nd shipped) "custom_model_pkas" (res ++ "-" ++ an) with None => true | Some _ => false end) side_chain_table
  && pka_is (get2 (nd shipped) "model_pkas" "N+") (8 # 1) && pka_is (get2 (nd shipped) "model_pkas" "C-") (32 # 10).
Lemma table_ok : table_ok_b = true. Proof. vm_compute. reflexivity. Qed.

(* keys of the mapping whose residue has a model pKa: exactly the seven founding atoms *)
Definition titratable_keys : list string :=
  filter (fun k => match get2 (nd shipped) "model_pkas" (substring 0 3 k) with Some _ => true | None => false end) (map fst mapping).
Lemma titratable_keys_are : titratable_keys = ["ARG-CZ"; "LYS-NZ"; "TYR-OH"; "CYS-SG"; "HIS-CG"; "GLU-CD"; "ASP-CG"].
Proof. vm_compute. reflexivity. Qed.
Lemma mapping_keys_shape : forallb (fun k => Nat.ltb 4 (String.length k) && Ascii.eqb (match get 3 k with Some c => c | None => " "%char end) "-") (map fst mapping) = true.
Proof. vm_compute. reflexivity. Qed.

Lemma dget_In {V} k (d : dict V) v : dget k d = Some v -> In k (map fst d).
Proof.
  induction d as [|[k' v'] r IH]; cbn; [discriminate|]. destruct (String.eqb k k') eqn:E.
  - apply String.eqb_eq in E. auto.
  - intros H. right. exact (IH H).
Qed.
Definition founders : list (string * string) :=
  [("ASP", "CG"); ("GLU", "CD"); ("HIS", "CG"); ("CYS", "SG"); ("TYR", "OH"); ("LYS", "NZ"); ("ARG", "CZ")].

(* every founding atom founds its group: class, residue type, tabulated model pKa, titratable unless it is a bridged cysteine *)
Theorem founder_site a res an cls pk : In (res, an, cls, pk) side_chain_table ->
  c_type a = "atom" -> c_terminal a = "" -> c_res_name a = res -> c_name a = an ->
  exists s, census shipped a = Some s /\ s_class s = cls /\ s_residue_type s = res /\ pka_is (s_model_pka s) pk = true /\
            s_titratable s = negb (c_bridge a).
Proof.
  destruct a as [ty r n t nO br]. cbn [c_type c_terminal c_res_name c_name c_bridge]. intros Hin -> -> -> ->.
  cbn [side_chain_table In] in Hin.
  repeat (destruct Hin as [Hin|Hin]; [injection Hin as <- <- <- <-; eexists; split; [vm_compute; reflexivity|]; repeat split; vm_compute; reflexivity|]).
  destruct Hin.
Qed.
(* the chain termini: whatever the residue and whatever else the atom is called (custom_model_pkas has entries for DNA residues only) *)
Definition no_custom (a : catom) : Prop := get2 (nd shipped) "custom_model_pkas" (strip (c_res_name a) ++ "-" ++ strip (c_name a)) = None.
Lemma custom_keys_are_dna :
  forallb (fun k => mem (substring 0 3 k) ["DA-"; "DC-"; "DG-"; "DT-"]) (map fst (drow "custom_model_pkas" (nd shipped))) = true.
Proof. vm_compute. reflexivity. Qed.
Lemma nplus_pka : get2 (nd shipped) "model_pkas" "N+" = Some "8.00". Proof. vm_compute. reflexivity. Qed.
Lemma cminus_pka : get2 (nd shipped) "model_pkas" "C-" = Some "3.20". Proof. vm_compute. reflexivity. Qed.
Theorem nterm_site a : c_type a = "atom" -> c_terminal a = "N+" -> no_custom a ->
  census shipped a = Some {| s_class := "Nterm"; s_residue_type := "N+"; s_model_pka := Some "8.00"; s_titratable := negb (c_bridge a) |}.
Proof.
  destruct a as [ty r n t nO br]. unfold no_custom. cbn [c_type c_terminal c_res_name c_name c_bridge]. intros -> -> Hc.
  unfold census, group_class, model_pka. cbn [c_type c_terminal c_res_name c_name c_bridge].
  change (String.eqb "atom" "atom") with true. change (String.eqb "N+" "N+") with true. cbn [negb].
  unfold residue_type. cbn [c_terminal]. change (String.eqb "Nterm" "BBN") with false. change (String.eqb "Nterm" "BBC") with false.
  change (String.eqb "N+" "") with false. cbn iota. rewrite nplus_pka, Hc. reflexivity.
Qed.
Theorem cterm_site a : c_type a = "atom" -> c_terminal a = "C-" -> no_custom a ->
  census shipped a = Some {| s_class := "Cterm"; s_residue_type := "C-"; s_model_pka := Some "3.20"; s_titratable := negb (c_bridge a) |}.
Proof.
  destruct a as [ty r n t nO br]. unfold no_custom. cbn [c_type c_terminal c_res_name c_name c_bridge]. intros -> -> Hc.
  unfold census, group_class, model_pka. cbn [c_type c_terminal c_res_name c_name c_bridge].
  change (String.eqb "atom" "atom") with true. change (String.eqb "C-" "N+") with false. change (String.eqb "C-" "C-") with true. cbn [negb].
  unfold residue_type. cbn [c_terminal]. change (String.eqb "Cterm" "BBN") with false. change (String.eqb "Cterm" "BBC") with false.
  change (String.eqb "C-" "") with false. cbn iota. rewrite cminus_pka, Hc. reflexivity.
Qed.

(* nothing else in a protein residue titrates: a titratable non-terminal protein site is one of the seven founders *)
Lemma split_key (r n k : string) : String.length r = 3%nat -> r ++ "-" ++ n = k -> r = substring 0 3 k /\ n = substring 4 (String.length k - 4) k.
Proof.
  destruct r as [|c1 [|c2 [|c3 [|c4 r]]]]; cbn [String.length]; try discriminate. intros _ <-. cbn [append].
  split; [reflexivity|]. cbn [String.length Nat.sub substring]. rewrite Nat.sub_0_r. clear. induction n as [|c n IH]; [reflexivity|].
  cbn [substring String.length]. f_equal. exact IH.
Qed.
Lemma bb_not_titratable : get2 (nd shipped) "model_pkas" "BBN" = None /\ get2 (nd shipped) "model_pkas" "BBC" = None.
Proof. split; vm_compute; reflexivity. Qed.

Opaque shipped.
Theorem titratable_protein_sites : forall a, c_type a = "atom" -> c_terminal a = "" -> String.length (c_res_name a) = 3%nat ->
  match census shipped a with Some s => s_titratable s = true -> In (c_res_name a, c_name a) founders | None => True end.
Proof.
  destruct a as [ty r n t nO br]. cbn [c_type c_terminal c_res_name c_name c_bridge c_bonded_O]. intros -> -> Hlen.
  unfold census, group_class. cbn [c_type c_terminal c_res_name c_name c_bridge c_bonded_O].
  change (String.eqb "atom" "atom") with true. change (String.eqb "" "N+") with false. change (String.eqb "" "C-") with false. cbn [negb].
  destruct (String.eqb n "N" && negb (String.eqb r "PRO")).
  { cbn [s_titratable]. unfold residue_type, model_pka. change (String.eqb "BBN" "BBN") with true. cbn iota. rewrite (proj1 bb_not_titratable). discriminate. }
  destruct (String.eqb n "C" && Nat.eqb nO 1).
  { cbn [s_titratable]. unfold residue_type, model_pka. change (String.eqb "BBC" "BBN") with false. change (String.eqb "BBC" "BBC") with true. cbn iota.
    rewrite (proj2 bb_not_titratable). discriminate. }
  destruct (get2 (sd shipped) "protein_group_mapping" (r ++ "-" ++ n)) as [cls|] eqn:Eg; [|exact I].
  assert (Hk : In (r ++ "-" ++ n) (map fst mapping)).
  { unfold get2 in Eg. unfold mapping, drow. destruct (dget "protein_group_mapping" (sd shipped)) as [row|]; [|discriminate]. exact (dget_In _ _ _ Eg). }
  assert (Hkeys : map fst mapping = ["TRP-NE1"; "GLN-CD"; "ASN-CG"; "SER-OG"; "THR-OG1"; "ARG-CZ"; "LYS-NZ"; "TYR-OH"; "CYS-SG"; "HIS-CG"; "GLU-CD"; "ASP-CG"]) by (vm_compute; reflexivity).
  rewrite Hkeys in Hk. cbn [In] in Hk.
  repeat (destruct Hk as [Hk|Hk]; [symmetry in Hk; destruct (split_key r n _ Hlen Hk) as [Hr Hn]; vm_compute in Hr, Hn; subst r n;
    vm_compute in Eg; injection Eg as Eg; subst cls; cbn [s_titratable]; intros Ht; first [ vm_compute in Ht; discriminate Ht | unfold founders; cbn [In]; repeat (first [left; reflexivity | right]) ] |]).
  destruct Hk.
Qed.
Transparent shipped.
