(* C10 (grid part): the grid is exactly { lo + i*st : 0 <= i, lo + i*st <= hi }, in order, both end points included when
   they are on the lattice; the printed window rows are exactly the profile points on the window lattice. *)
From Coq Require Import List Bool ZArith QArith Lia Lqa.
From V Require Import Grid.
Import ListNotations.
Open Scope Q_scope.

Definition pt (lo st : Q) (i : Z) : Q := lo + inject_Z i * st.

Lemma inject_Z_succ i : inject_Z (i + 1) == inject_Z i + 1.
Proof. rewrite inject_Z_plus. reflexivity. Qed.

Lemma pt_mono lo st i j : 0 < st -> (i <= j)%Z -> pt lo st i <= pt lo st j.
Proof.
  intros Hst Hij. unfold pt. apply Qplus_le_r. apply Qmult_le_compat_r; [|apply Qlt_le_weak; exact Hst].
  rewrite <- Zle_Qle. exact Hij.
Qed.

(* the loop yields lo + i*st for i = i0 .. i0+n-1, where n is the number of iterations, and stops at the first point above hi *)
Lemma grid_loop_spec : forall fuel i0 lo hi st l, grid_loop fuel i0 lo hi st = Some l ->
  l = map (pt lo st) (map (fun k => (i0 + Z.of_nat k)%Z) (seq 0 (length l))) /\
  Forall (fun x => x <= hi) l /\ ~ (pt lo st (i0 + Z.of_nat (length l)) <= hi).
Proof.
  induction fuel as [|f IH]; intros i0 lo hi st l H; [discriminate|]. cbn [grid_loop] in H.
  fold (pt lo st i0) in H. destruct (Qle_bool (pt lo st i0) hi) eqn:E.
  - destruct (grid_loop f (i0 + 1) lo hi st) as [r|] eqn:Er; [|discriminate]. injection H as <-.
    destruct (IH _ _ _ _ _ Er) as (H1 & H2 & H3). cbn [length seq map]. split; [|split].
    + rewrite Z.add_0_r. f_equal. rewrite H1 at 1. rewrite <- seq_shift, !map_map. apply map_ext.
      intros k. f_equal. lia.
    + constructor; [apply Qle_bool_iff; exact E | exact H2].
    + replace (i0 + Z.of_nat (S (length r)))%Z with (i0 + 1 + Z.of_nat (length r))%Z by lia. exact H3.
  - injection H as <-. cbn [length seq map]. split; [reflexivity|]. split; [constructor|].
    rewrite Z.add_0_r. intros Hle. apply Qle_bool_iff in Hle. congruence.
Qed.

(* exact characterisation: for a positive step the grid is the list of ALL lattice points lo + i*st (i >= 0) that are <= hi *)
Theorem grid_exact fuel lo hi st l : 0 < st -> make_grid fuel lo hi st = Some l ->
  l = map (pt lo st) (map Z.of_nat (seq 0 (length l))) /\
  (forall i, (0 <= i)%Z -> (pt lo st i <= hi <-> (i < Z.of_nat (length l))%Z)).
Proof.
  intros Hst H. unfold make_grid in H. destruct (grid_loop_spec _ _ _ _ _ _ H) as (H1 & H2 & H3).
  split; [exact H1|]. intros i Hi. split.
  - intros Hle. destruct (Z_lt_le_dec i (Z.of_nat (length l))) as [Hlt|Hge]; [exact Hlt|]. exfalso. apply H3.
    cbn [Z.add]. eapply Qle_trans; [|exact Hle]. apply pt_mono; [exact Hst|lia].
  - intros Hlt. rewrite H1 in H2. rewrite Forall_forall in H2. apply H2.
    apply in_map. apply in_map_iff. exists (Z.to_nat i). split; [lia|]. apply in_seq. lia.
Qed.

(* both end points: when hi = lo + n*st the grid is exactly the n+1 points lo, lo+st, ..., lo+n*st (= hi) *)
Corollary grid_endpoints fuel lo hi st l n : 0 < st -> make_grid fuel lo hi st = Some l -> (0 <= n)%Z -> hi == pt lo st n ->
  l = map (pt lo st) (map Z.of_nat (seq 0 (S (Z.to_nat n)))).
Proof.
  intros Hst H Hn Hhi. destruct (grid_exact _ _ _ _ _ Hst H) as [H1 H2].
  assert (Hlen : Z.of_nat (length l) = (n + 1)%Z).
  { assert (A : (n < Z.of_nat (length l))%Z) by (apply H2; [exact Hn | rewrite Hhi; apply Qle_refl]).
    assert (B : ~ (n + 1 < Z.of_nat (length l))%Z).
    { intros C. apply H2 in C; [|lia]. rewrite Hhi in C. unfold pt in C. rewrite inject_Z_succ in C.
      assert (D : lo + (inject_Z n + 1) * st == lo + inject_Z n * st + st) by ring. rewrite D in C. lra. }
    lia. }
  assert (Hl : length l = S (Z.to_nat n)) by lia.
  rewrite Hl in H1. exact H1.
Qed.

(* termination: enough fuel always exists for a positive step *)
Lemma grid_loop_terminates : forall fuel i0 lo hi st, 0 < st ->
  pt lo st (i0 + Z.of_nat fuel) > hi -> exists l, grid_loop (S fuel) i0 lo hi st = Some l.
Proof.
  induction fuel as [|f IH]; intros i0 lo hi st Hst Hgt; cbn [grid_loop]; fold (pt lo st i0).
  - rewrite Z.add_0_r in Hgt. destruct (Qle_bool (pt lo st i0) hi) eqn:E; [apply Qle_bool_iff in E; lra | eauto].
  - destruct (Qle_bool (pt lo st i0) hi) eqn:E; [|eauto].
    destruct (IH (i0 + 1)%Z lo hi st Hst) as [l Hl]; [replace (i0 + 1 + Z.of_nat f)%Z with (i0 + Z.of_nat (S f))%Z by lia; exact Hgt|].
    change (grid_loop (S f) (i0 + 1) lo hi st) with
      (let x := lo + inject_Z (i0 + 1) * st in
       if Qle_bool x hi then match grid_loop f (i0 + 1 + 1) lo hi st with Some l => Some (x :: l) | None => None end else Some []) in Hl.
    cbn [grid_loop] in Hl |- *. rewrite Hl. eauto.
Qed.

(* ---- window rows ---- *)
Lemma Qred_inject k : Qden (Qred (inject_Z k)) = 1%positive.
Proof.
  unfold Qred, inject_Z. cbn [Qnum Qden].
  pose proof (Z.ggcd_gcd k 1) as Hg. pose proof (Z.ggcd_correct_divisors k 1) as Hd.
  destruct (Z.ggcd k 1) as (g, (aa, bb)). cbn [fst snd] in *. rewrite Z.gcd_1_r in Hg. subst g.
  destruct Hd as [_ Hb]. assert (bb = 1)%Z by lia. subst bb. reflexivity.
Qed.
Lemma is_int_spec q : is_int q = true <-> exists k : Z, q == inject_Z k.
Proof.
  unfold is_int. split.
  - intros H. apply Z.eqb_eq in H. exists (Qnum (Qred q)). rewrite <- (Qred_correct q) at 1.
    destruct (Qred q) as [n d]. cbn [Qden Qnum] in *. injection H as ->. unfold inject_Z. reflexivity.
  - intros [k Hk]. apply Z.eqb_eq. apply Qred_complete in Hk. rewrite Hk.
    rewrite Qred_inject. reflexivity.
Qed.

Theorem window_rows_spec {A} (wlo whi wst : Q) (profile : list (Q * A)) (p : Q * A) : 0 < wst ->
  (In p (window_rows wlo whi wst profile) <->
   In p profile /\ wlo <= fst p <= whi /\ exists k : Z, fst p == wlo + inject_Z k * wst).
Proof.
  intros Hst. unfold window_rows, on_window. rewrite filter_In, !andb_true_iff, !Qle_bool_iff, is_int_spec.
  split.
  - intros (Hin & (H1 & H2) & (k & Hk)). split; [exact Hin|]. split; [split; assumption|]. exists k.
    assert (E : fst p - wlo == inject_Z k * wst).
    { rewrite <- Hk. field. intros H0. rewrite H0 in Hst. apply (Qlt_irrefl 0). exact Hst. }
    lra.
  - intros (Hin & (H1 & H2) & (k & Hk)). split; [exact Hin|]. split; [split; assumption|]. exists k.
    rewrite Hk. field. intros H0. rewrite H0 in Hst. apply (Qlt_irrefl 0). exact Hst.
Qed.
(* the printed rows keep the order of the profile and never invent a point *)
Theorem window_rows_sublist {A} (wlo whi wst : Q) (profile : list (Q * A)) :
  exists keep : list bool, window_rows wlo whi wst profile = map snd (filter fst (combine (map (fun p => on_window wlo whi wst (fst p)) profile) profile)).
Proof.
  exists []. unfold window_rows. induction profile as [|p r IH]; cbn; [reflexivity|].
  destruct (on_window wlo whi wst (fst p)); cbn; rewrite IH; reflexivity.
Qed.

(* non-vacuity / the two shipped defaults: grid 0..14 step 0.1 has 141 points ending in 14; window 0..14 step 1 selects 15 of them *)
Example default_grid_and_window :
  match make_grid 200 0 14 (1#10) with
  | Some l => (length l, Qred (nth 140 l 0), length (window_rows 0 14 1 (map (fun x => (x, tt)) l)))
  | None => (O, 0, O) end = (141%nat, 14 # 1, 15%nat)
  /\ match make_grid 200 0 (3#10) (1#10) with Some l => map Qred l | None => [] end = [0; 1#10; 1#5; 3#10].
Proof. vm_compute. split; reflexivity. Qed.
