From Coq Require Import List Arith Bool Lia.
From V Require Import Coupling.
Import ListNotations.

Lemma In_add x y l : In y (add_unless_present x l) <-> In y l \/ y = x.
Proof.
  unfold add_unless_present. destruct (existsb (Nat.eqb x) l) eqn:E.
  - split; [auto|]. intros [H | ->]; [exact H|]. apply existsb_exists in E. destruct E as (z & Hz & Hxz). apply Nat.eqb_eq in Hxz. subst z. exact Hz.
  - rewrite in_app_iff. cbn. split; intros [H|H]; auto. destruct H as [-> | []]. right. reflexivity.
Qed.
Lemma cupd_same s i l : cupd s i l i = l. Proof. unfold cupd. rewrite Nat.eqb_refl. reflexivity. Qed.
Lemma cupd_other s i l j : j <> i -> cupd s i l j = s j. Proof. intros H. unfold cupd. rewrite (proj2 (Nat.eqb_neq j i) H). reflexivity. Qed.

(* the partners of x after couple a b *)
Lemma couple_spec s a b x y : In y (couple s a b x) <-> In y (s x) \/ (x = a /\ y = b) \/ (x = b /\ y = a).
Proof.
  unfold couple. destruct (Nat.eq_dec x b) as [-> | Hxb].
  - rewrite cupd_same, In_add. destruct (Nat.eq_dec b a) as [-> | Hba].
    + rewrite cupd_same, In_add. intuition congruence.
    + rewrite cupd_other by exact Hba. intuition congruence.
  - rewrite cupd_other by exact Hxb. destruct (Nat.eq_dec x a) as [-> | Hxa].
    + rewrite cupd_same, In_add. intuition congruence.
    + rewrite cupd_other by exact Hxa. intuition congruence.
Qed.
Theorem couple_keeps_symmetry s a b : symmetric s -> symmetric (couple s a b).
Proof. intros H x y. rewrite !couple_spec, (H x y). intuition congruence. Qed.
Theorem couple_all_symmetric ops : symmetric (couple_all ops).
Proof.
  unfold couple_all. assert (G : forall s, symmetric s -> symmetric (fold_left (fun s p => couple s (fst p) (snd p)) ops s)).
  { induction ops as [|p r IH]; cbn [fold_left]; intros s Hs; [exact Hs|]. apply IH. apply couple_keeps_symmetry. exact Hs. }
  apply G. intros x y. cbn. tauto.
Qed.
(* registration really registers, and nothing else changes *)
Theorem couple_registers s a b : In b (couple s a b a) /\ In a (couple s a b b).
Proof. rewrite !couple_spec. auto. Qed.
Theorem couple_frame s a b x : x <> a -> x <> b -> couple s a b x = s x.
Proof. intros Ha Hb. unfold couple. rewrite !cupd_other by assumption. reflexivity. Qed.

(* ---- exact characterisation: the partners of x are exactly the groups registered with x, in either role ---- *)
Lemma in_add_unless_present y x l : In y (add_unless_present x l) <-> y = x \/ In y l.
Proof.
  unfold add_unless_present. destruct (existsb (Nat.eqb x) l) eqn:E.
  - split; [intros H; right; exact H|]. intros [->|H]; [|exact H].
    apply existsb_exists in E as [z [Hz Hxz]]. apply Nat.eqb_eq in Hxz. subst z. exact Hz.
  - rewrite in_app_iff. cbn [In]. split; [intros [H|[H|[]]]; [right; exact H|left; symmetry; exact H] | intros [->|H]; [right; left; reflexivity|left; exact H]].
Qed.
Lemma in_couple s a b x y : In y (couple s a b x) <-> In y (s x) \/ (x = a /\ y = b) \/ (x = b /\ y = a).
Proof.
  unfold couple, cupd.
  destruct (Nat.eqb x b) eqn:Exb; [apply Nat.eqb_eq in Exb; subst x | apply Nat.eqb_neq in Exb].
  - rewrite in_add_unless_present.
    destruct (Nat.eqb b a) eqn:Eba; [apply Nat.eqb_eq in Eba; subst b | apply Nat.eqb_neq in Eba].
    + rewrite in_add_unless_present. tauto.
    + split; [intros [->|H]; [right; right; split; reflexivity | left; exact H] | intros [H|[[H _]|[_ ->]]]; [right; exact H | congruence | left; reflexivity]].
  - destruct (Nat.eqb x a) eqn:Exa; [apply Nat.eqb_eq in Exa; subst x | apply Nat.eqb_neq in Exa].
    + rewrite in_add_unless_present. split; [intros [->|H]; [right; left; split; reflexivity | left; exact H] | intros [H|[[_ ->]|[H _]]]; [right; exact H | left; reflexivity | congruence]].
    + split; [intros H; left; exact H | intros [H|[[H _]|[H _]]]; [exact H | congruence | congruence]].
Qed.
Lemma in_couple_fold ops : forall s x y,
  In y (fold_left (fun s p => couple s (fst p) (snd p)) ops s x) <->
  In y (s x) \/ exists a b, In (a, b) ops /\ ((x = a /\ y = b) \/ (x = b /\ y = a)).
Proof.
  induction ops as [|[a b] r IH]; intros s x y; cbn [fold_left fst snd].
  - split; [intros H; left; exact H | intros [H|(a & b & [] & _)]; exact H].
  - rewrite IH, in_couple. split.
    + intros [[H|H]|(a' & b' & Hin & H)].
      * left; exact H.
      * right. exists a, b. split; [left; reflexivity | exact H].
      * right. exists a', b'. split; [right; exact Hin | exact H].
    + intros [H|(a' & b' & [Heq|Hin] & H)].
      * left; left; exact H.
      * injection Heq as <- <-. left; right; exact H.
      * right. exists a', b'. split; assumption.
Qed.
Theorem partners_are_the_registered ops x y :
  In y (couple_all ops x) <-> exists a b, In (a, b) ops /\ ((x = a /\ y = b) \/ (x = b /\ y = a)).
Proof.
  unfold couple_all. rewrite in_couple_fold. unfold cinit. cbn [In]. tauto.
Qed.
(* each partner is listed once (one star source per partner), for every sequence of registrations *)
Lemma nodup_add_unless_present x l : NoDup l -> NoDup (add_unless_present x l).
Proof.
  intros H. unfold add_unless_present. destruct (existsb (Nat.eqb x) l) eqn:E; [exact H|].
  assert (Hx : ~ In x l).
  { intros Hin. assert (existsb (Nat.eqb x) l = true) by (apply existsb_exists; exists x; split; [exact Hin | apply Nat.eqb_refl]). congruence. }
  clear E. induction H as [|z r Hz Hr IH]; cbn [app]; [constructor; [intros []|constructor]|].
  constructor.
  - rewrite in_app_iff. cbn [In]. intros [Hin|[Heq|[]]]; [exact (Hz Hin)|]. apply Hx. left. symmetry. exact Heq.
  - apply IH. intros Hin. apply Hx. right. exact Hin.
Qed.
Lemma nodup_couple s a b : (forall x, NoDup (s x)) -> forall x, NoDup (couple s a b x).
Proof.
  intros H x. unfold couple, cupd.
  destruct (Nat.eqb x b); [apply nodup_add_unless_present; destruct (Nat.eqb b a); [apply nodup_add_unless_present|]; apply H|].
  destruct (Nat.eqb x a); [apply nodup_add_unless_present|]; apply H.
Qed.
Theorem partners_listed_once ops x : NoDup (couple_all ops x).
Proof.
  unfold couple_all.
  assert (G : forall s, (forall x, NoDup (s x)) -> forall x, NoDup (fold_left (fun s p => couple s (fst p) (snd p)) ops s x)).
  { induction ops as [|p r IH]; intros s Hs; cbn [fold_left]; [exact Hs|]. apply IH. apply nodup_couple. exact Hs. }
  apply G. intros z. constructor.
Qed.
