From Coq Require Import List Arith Bool Lia.
From V Require Import Coupling.
Import ListNotations.

Lemma In_add x y l : In y (add_unless_present x l) <-> In y l \/ y = x.
Proof.
  unfold add_unless_present. destruct (existsb (Nat.eqb x) l) eqn:E.
  - split; [auto|]. intros [H | ->]; [exact H|]. apply existsb_exists in E. destruct E as (z & Hz & Hxz). apply Nat.eqb_eq in Hxz. subst z. exact Hz.
  - rewrite in_app_iff. cbn. split; intros [H|H]; auto. destruct H as [-> | []]. right. reflexivity.
Qed.
Lemma cupd_same s i l : cupd s i l i = l. Proof. unfold cupd. rewrite Nat.eqb_refl. reflexivity. Qed.
Lemma cupd_other s i l j : j <> i -> cupd s i l j = s j. Proof. intros H. unfold cupd. rewrite (proj2 (Nat.eqb_neq j i) H). reflexivity. Qed.

(* the partners of x after couple a b *)
Lemma couple_spec s a b x y : In y (couple s a b x) <-> In y (s x) \/ (x = a /\ y = b) \/ (x = b /\ y = a).
Proof.
  unfold couple. destruct (Nat.eq_dec x b) as [-> | Hxb].
  - rewrite cupd_same, In_add. destruct (Nat.eq_dec b a) as [-> | Hba].
    + rewrite cupd_same, In_add. intuition congruence.
    + rewrite cupd_other by exact Hba. intuition congruence.
  - rewrite cupd_other by exact Hxb. destruct (Nat.eq_dec x a) as [-> | Hxa].
    + rewrite cupd_same, In_add. intuition congruence.
    + rewrite cupd_other by exact Hxa. intuition congruence.
Qed.
Theorem couple_keeps_symmetry s a b : symmetric s -> symmetric (couple s a b).
Proof. intros H x y. rewrite !couple_spec, (H x y). intuition congruence. Qed.
Theorem couple_all_symmetric ops : symmetric (couple_all ops).
Proof.
  unfold couple_all. assert (G : forall s, symmetric s -> symmetric (fold_left (fun s p => couple s (fst p) (snd p)) ops s)).
  { induction ops as [|p r IH]; cbn [fold_left]; intros s Hs; [exact Hs|]. apply IH. apply couple_keeps_symmetry. exact Hs. }
  apply G. intros x y. cbn. tauto.
Qed.
(* registration really registers, and nothing else changes *)
Theorem couple_registers s a b : In b (couple s a b a) /\ In a (couple s a b b).
Proof. rewrite !couple_spec. auto. Qed.
Theorem couple_frame s a b x : x <> a -> x <> b -> couple s a b x = s x.
Proof. intros Ha Hb. unfold couple. rewrite !cupd_other by assumption. reflexivity. Qed.
