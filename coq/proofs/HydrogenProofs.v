(* C17: the vector constructions hydrogens are placed with (propka/protonate.py trigonal / tetrahedral / set_bond_distance), stated on the
   GENERATED Vector methods and rotation (gen/VecGen.v, real instance).  a, a1, a2, a3 are bond vectors from the atom to its neighbours. *)
From Coq Require Import Reals Lra Nsatz Psatz Bool.
From V Require Import Num VecGen RotProofs.
Open Scope R_scope.

Definition nonzero (a : V3) : Prop := vx a <> 0 \/ vy a <> 0 \/ vz a <> 0.
Lemma nonzero_dot a : nonzero a -> 0 < dot a a.
Proof. destruct a as [x y z]. unfold nonzero, dot. cbn. intros [H|[H|H]]; nra. Qed.
Lemma dot_nonzero a : 0 < dot a a -> nonzero a.
Proof.
  destruct a as [x y z]. unfold nonzero, dot. cbn. intros H.
  destruct (Req_dec x 0) as [->|]; [|auto]. destruct (Req_dec y 0) as [->|]; [|auto]. destruct (Req_dec z 0) as [->|]; [|auto]. lra.
Qed.

(* ---- Vector.orthogonal: never the zero vector, always perpendicular ---- *)
Theorem orthogonal_spec a : nonzero a -> dot a (Vector_orthogonal a) = 0 /\ nonzero (Vector_orthogonal a).
Proof.
  destruct a as [x y z]. unfold nonzero, Vector_orthogonal, dot. num_unfold. cbn. rewrite lit0. intros H.
  destruct (Rltb (Rabs y) (Rabs z)) eqn:E; cbn.
  - apply Rltb_true in E. split; [ring|]. left. intros ->. rewrite Rabs_R0 in E. pose proof (Rabs_pos y). lra.
  - apply Rltb_false in E. split; [ring|]. destruct (Req_dec y 0) as [Hy|Hy]; [|left; exact Hy].
    right. left. subst y. rewrite Rabs_R0 in E. assert (Hz : z = 0) by (destruct (Req_dec z 0) as [Hz0|Hz0]; [exact Hz0 | pose proof (Rabs_pos_lt z Hz0); lra]).
    subst z. destruct H as [H|[H|H]]; try (exfalso; apply H; reflexivity). lra.
Qed.

(* ---- Vector.rescale / set_bond_distance: the tabulated length, the same direction ---- *)
Lemma length_pos a : nonzero a -> 0 < Vector_length a.
Proof.
  intros H. unfold Vector_length, Vector_sq_length. num_unfold. apply sqrt_lt_R0. pose proof (nonzero_dot a H) as Hd. destruct a. unfold dot in Hd. cbn in *. lra.
Qed.
Theorem rescale_spec a L : nonzero a -> Vector_rescale a L = scal (L / Vector_length a) a /\ dot (Vector_rescale a L) (Vector_rescale a L) = L * L.
Proof.
  intros H. pose proof (length_pos a H) as Hl. split.
  - destruct a as [x y z]. unfold Vector_rescale, scal. num_unfold. cbn. f_equal; ring.
  - pose proof (nonzero_dot a H) as Hd. destruct a as [x y z]. unfold Vector_rescale, Vector_length, Vector_sq_length, dot in *. num_unfold. cbn in *.
    set (n := sqrt (x * x + y * y + z * z)) in *. assert (Hnn : n * n = x * x + y * y + z * z) by (apply sqrt_sqrt; lra).
    transitivity (L * L * ((x * x + y * y + z * z) / (n * n))); [field; lra|]. rewrite Hnn. field. lra.
Qed.

(* ---- one neighbour: the first hydrogen (tetrahedral, and trigonal without a planar neighbour) ----
   h = rescale (rotate theta (orthogonal a) a) L  has length L and makes the angle theta with the bond: a . h = |a| L cos theta *)
Theorem first_hydrogen a t L : nonzero a -> 0 <= L ->
  let h := Vector_rescale (rotate_vector_around_an_axis t (Vector_orthogonal a) a) L in
  dot h h = L * L /\ dot a h = Vector_length a * L * cos t.
Proof.
  intros Ha HL. destruct (orthogonal_spec a Ha) as [Ho Hn]. cbv zeta.
  set (r := rotate_vector_around_an_axis t (Vector_orthogonal a) a).
  assert (Hrr : dot r r = dot a a) by (apply rotate_preserves_length; exact Hn).
  assert (Hr : nonzero r) by (apply dot_nonzero; rewrite Hrr; apply nonzero_dot; exact Ha).
  destruct (rescale_spec r L Hr) as [E1 E2]. split; [exact E2|].
  assert (Hperp : dot (unit_of (Vector_orthogonal a)) a = 0).
  { unfold unit_of. destruct a as [x y z], (Vector_orthogonal {| vec3_x := x; vec3_y := y; vec3_z := z |}) as [p q s]. unfold dot, scal in *. cbn in *.
    transitivity (/ norm (mk p q s) * (x * p + y * q + z * s)); [ring|]. rewrite Ho. ring. }
  destruct (rotate_turns_perpendicular t _ a Hn Hperp) as [Hturn _]. fold r in Hturn.
  rewrite E1. assert (Hlr : Vector_length r = Vector_length a).
  { unfold Vector_length, Vector_sq_length. num_unfold. f_equal. destruct r, a. unfold dot in Hrr. cbn in *. lra. }
  rewrite Hlr. transitivity (L / Vector_length a * dot a r); [destruct a, r; unfold dot, scal; cbn; ring|].
  rewrite Hturn. pose proof (length_pos a Ha) as Hl.
  assert (Hsq : dot a a = Vector_length a * Vector_length a).
  { unfold Vector_length, Vector_sq_length. num_unfold. rewrite sqrt_sqrt; [destruct a; unfold dot; cbn; ring|]. pose proof (nonzero_dot a Ha). destruct a. unfold dot in *. cbn in *. lra. }
  rewrite Hsq. field. lra.
Qed.

(* ---- completing a trigonal / tetrahedral centre: n = -(u1 + u2 [+ u3]) for unit bond directions ---- *)
Theorem opposite_of_two u1 u2 : dot u1 u1 = 1 -> dot u2 u2 = 1 ->
  let n := add (scal (-1) u1) (scal (-1) u2) in
  dot n n = 2 + 2 * dot u1 u2 /\ dot n u1 = - (1 + dot u1 u2) /\ dot n u2 = - (1 + dot u1 u2).
Proof. destruct u1, u2. unfold dot, add, scal. cbn. intros H1 H2. repeat split; nsatz. Qed.
Theorem opposite_of_three u1 u2 u3 : dot u1 u1 = 1 -> dot u2 u2 = 1 -> dot u3 u3 = 1 ->
  let n := add (add (scal (-1) u1) (scal (-1) u2)) (scal (-1) u3) in
  dot n u1 = - (1 + dot u1 u2 + dot u1 u3) /\ dot n u2 = - (1 + dot u1 u2 + dot u2 u3) /\ dot n u3 = - (1 + dot u1 u3 + dot u2 u3) /\
  dot n n = 3 + 2 * (dot u1 u2 + dot u1 u3 + dot u2 u3).
Proof. destruct u1, u2, u3. unfold dot, add, scal. cbn. intros H1 H2 H3. repeat split; nsatz. Qed.
(* the generated expressions are these: -avec1 - avec2 *)
Lemma neg_sub_is a b : Vector___sub__ (Vector___neg__ a) b = add (scal (-1) a) (scal (-1) b).
Proof. destruct a, b. unfold Vector___sub__, Vector___neg__, add, scal. num_unfold. cbn. f_equal; ring. Qed.

(* ---- two hydrogens on one atom are apart ---- *)
Theorem siblings_apart (u w : V3) L : dot u u = 1 -> dot w w = 1 -> dot u w <= 1 / 2 -> 92 / 100 <= L ->
  let d := add (scal L u) (scal (- L) w) in 1 / 4 <= dot d d.
Proof.
  intros Hu Hw Huw HL. cbv zeta.
  assert (E : dot (add (scal L u) (scal (- L) w)) (add (scal L u) (scal (- L) w)) = L * L * (dot u u + dot w w - 2 * dot u w)) by (destruct u, w; unfold dot, add, scal; cbn; ring).
  rewrite E, Hu, Hw. set (c := dot u w) in *.
  assert (HL2 : 8464 / 10000 <= L * L) by (apply Rle_trans with (92 / 100 * (92 / 100)); [lra | apply Rmult_le_compat; lra]). assert (Hq : 1 <= 1 + 1 - 2 * c) by lra.
  assert (H : 8464 / 10000 * 1 <= L * L * (1 + 1 - 2 * c)) by (apply Rmult_le_compat; lra). lra.
Qed.
(* tetrahedral, two neighbours: the new direction rot(90 deg, u1 + u2, -u1) makes equal angles with both neighbours: n . u_i = -(1 + c)/2 *)
Theorem tetrahedral_two_neighbours u1 u2 : dot u1 u1 = 1 -> dot u2 u2 = 1 -> dot u1 u2 <> -1 ->
  let n := rotate_vector_around_an_axis (PI / 2) (Vector___add__ u1 u2) (Vector___neg__ u1) in
  dot n n = 1 /\ dot n u1 = - (1 + dot u1 u2) / 2 /\ dot n u2 = - (1 + dot u1 u2) / 2.
Proof.
  intros H1 H2 Hc. cbv zeta.
  set (s := Vector___add__ u1 u2).
  assert (Hss : dot s s = 2 + 2 * dot u1 u2) by (subst s; destruct u1, u2; unfold Vector___add__, dot in *; num_unfold; cbn in *; nsatz).
  assert (Hc2 : -1 <= dot u1 u2).
  { destruct u1 as [a b c], u2 as [d e f]. unfold dot in *. cbn in *.
    pose proof (Rle_0_sqr (a + d)) as Q1. pose proof (Rle_0_sqr (b + e)) as Q2. pose proof (Rle_0_sqr (c + f)) as Q3. unfold Rsqr in *. lra. }
  assert (Hs : nonzero s) by (apply dot_nonzero; rewrite Hss; lra).
  rewrite rotate_is_rodrigues by exact Hs.
  assert (Hk : dot (unit_of s) (unit_of s) = 1) by (apply unit_norm; exact Hs).
  split; [rewrite rodrigues_norm by exact Hk; destruct u1; unfold Vector___neg__, dot in *; num_unfold; cbn in *; lra|].
  unfold rodrigues. rewrite cos_PI2, sin_PI2.
  set (ns := norm s). assert (Hns : ns * ns = 2 + 2 * dot u1 u2).
  { unfold ns, norm. rewrite sqrt_sqrt; [exact Hss | rewrite Hss; lra]. }
  assert (Hnp : ns <> 0) by (intros E; rewrite E in Hns; lra).
  unfold unit_of. fold ns. subst s. destruct u1 as [a b c], u2 as [d e f].
  unfold Vector___add__, Vector___neg__, dot, add, scal, cross in *. num_unfold. cbn in *.
  set (i := / ns). assert (Hi : i * ns = 1) by (unfold i; field; exact Hnp).
  assert (Hii : i * i * (2 + 2 * (a * d + b * e + c * f)) = 1) by (rewrite <- Hns; transitivity ((i * ns) * (i * ns)); [ring | rewrite Hi; ring]).
  clearbody i. clear Hi Hnp Hk Hs Hss ns Hns Hc Hc2.
  split; (match goal with |- ?X = _ => assert (A : 2 * X = - (1 + (a * d + b * e + c * f))) by nsatz end; lra).
Qed.
