(* C04: rigid motions.  Every geometric quantity the model is built from is invariant (distances, angle factors, perceived bonds) or
   equivariant (the rotation used to construct hydrogens) under x -> M x + t for every proper orthogonal M and every t. *)
From Coq Require Import Reals Lra Nsatz Psatz Bool List String ZArith.
From Flocq Require Import Raux.
From V Require Import Num VecGen EnergyGen RotProofs Bonds_gen Bonds BondsProofs BondsConcrete.
Import ListNotations.
Open Scope R_scope.

Record mat3 := { m11 : R; m12 : R; m13 : R; m21 : R; m22 : R; m23 : R; m31 : R; m32 : R; m33 : R }.
Definition mapply (M : mat3) (v : V3) : V3 :=
  mk (m11 M * vx v + m12 M * vy v + m13 M * vz v) (m21 M * vx v + m22 M * vy v + m23 M * vz v) (m31 M * vx v + m32 M * vy v + m33 M * vz v).
Definition orthogonal (M : mat3) : Prop :=
  m11 M * m11 M + m21 M * m21 M + m31 M * m31 M = 1 /\ m12 M * m12 M + m22 M * m22 M + m32 M * m32 M = 1 /\
  m13 M * m13 M + m23 M * m23 M + m33 M * m33 M = 1 /\ m11 M * m12 M + m21 M * m22 M + m31 M * m32 M = 0 /\
  m11 M * m13 M + m21 M * m23 M + m31 M * m33 M = 0 /\ m12 M * m13 M + m22 M * m23 M + m32 M * m33 M = 0.
(* a proper rotation: orthogonal and equal to its own cofactor matrix (equivalently det = +1) *)
Definition proper (M : mat3) : Prop :=
  orthogonal M /\
  m11 M = m22 M * m33 M - m23 M * m32 M /\ m12 M = m23 M * m31 M - m21 M * m33 M /\ m13 M = m21 M * m32 M - m22 M * m31 M /\
  m21 M = m13 M * m32 M - m12 M * m33 M /\ m22 M = m11 M * m33 M - m13 M * m31 M /\ m23 M = m12 M * m31 M - m11 M * m32 M /\
  m31 M = m12 M * m23 M - m13 M * m22 M /\ m32 M = m13 M * m21 M - m11 M * m23 M /\ m33 M = m11 M * m22 M - m12 M * m21 M.
Definition move (M : mat3) (t : V3) (v : V3) : V3 := add (mapply M v) t.

Ltac orth H := destruct H as (O1 & O2 & O3 & O4 & O5 & O6).
Lemma dot_rot M a b : orthogonal M -> dot (mapply M a) (mapply M b) = dot a b.
Proof.
  intros H. orth H. destruct a as [ax ay az], b as [bx by_ bz]. unfold dot, mapply. cbn.
  transitivity (ax * bx * (m11 M * m11 M + m21 M * m21 M + m31 M * m31 M) + ay * by_ * (m12 M * m12 M + m22 M * m22 M + m32 M * m32 M)
                + az * bz * (m13 M * m13 M + m23 M * m23 M + m33 M * m33 M) + (ax * by_ + ay * bx) * (m11 M * m12 M + m21 M * m22 M + m31 M * m32 M)
                + (ax * bz + az * bx) * (m11 M * m13 M + m21 M * m23 M + m31 M * m33 M) + (ay * bz + az * by_) * (m12 M * m13 M + m22 M * m23 M + m32 M * m33 M)); [ring|].
  rewrite O1, O2, O3, O4, O5, O6. ring.
Qed.
Lemma cross_rot M a b : proper M -> cross (mapply M a) (mapply M b) = mapply M (cross a b).
Proof.
  intros [_ (C1 & C2 & C3 & C4 & C5 & C6 & C7 & C8 & C9)]. destruct a as [ax ay az], b as [bx by_ bz].
  unfold cross, mapply. cbn. f_equal.
  - rewrite C1 at 1. rewrite C2 at 1. rewrite C3 at 1. ring.
  - rewrite C4 at 1. rewrite C5 at 1. rewrite C6 at 1. ring.
  - rewrite C7 at 1. rewrite C8 at 1. rewrite C9 at 1. ring.
Qed.

(* ---- distances ---- *)
Lemma sqdist_is_dot (p q : V3) : squared_distance p q = dot (add q (scal (-1) p)) (add q (scal (-1) p)).
Proof. destruct p, q. unfold squared_distance, dot, add, scal. num_unfold. cbn. ring. Qed.
Lemma diff_move M t p q : add (move M t q) (scal (-1) (move M t p)) = mapply M (add q (scal (-1) p)).
Proof. destruct p, q, t. unfold move, add, scal, mapply. cbn. f_equal; ring. Qed.
Theorem sqdist_move M t p q : orthogonal M -> squared_distance (move M t p) (move M t q) = squared_distance p q.
Proof. intros H. rewrite !sqdist_is_dot, diff_move. apply dot_rot. exact H. Qed.

(* ---- the angle / distance factors of hydrogen bonds ---- *)
Definition toE (v : V3) : EnergyGen.vec3 R := EnergyGen.mk_vec3 (vx v) (vy v) (vz v).   (* EnergyGen has its own copy of the Vector record *)
Lemma adf_is_dots (a1 a2 a3 : V3) :
  angle_distance_factors_atoms (toE a1) (toE a2) (toE a3) =
  let d32 := add a2 (scal (-1) a3) in let d21 := add a1 (scal (-1) a2) in
  (sqrt (dot d21 d21), dot d21 d32 / (sqrt (dot d21 d21) * sqrt (dot d32 d32)), sqrt (dot d32 d32)).
Proof.
  destruct a1, a2, a3. unfold angle_distance_factors_atoms, dot, add, scal, toE. num_unfold. cbn.
  match goal with |- (sqrt ?A, _, sqrt ?B) = (sqrt ?A', _, sqrt ?B') => replace A' with A by ring; replace B' with B by ring end.
  repeat match goal with |- context [sqrt ?e] => let s := fresh "s" in set (s := sqrt e) end.
  f_equal. f_equal. unfold Rdiv.
  match goal with |- _ = _ * / (?x * ?y) => destruct (Req_dec x 0) as [Hx|Hx]; [|destruct (Req_dec y 0) as [Hy|Hy]] end.
  - rewrite Hx. rewrite Rmult_0_l, Rinv_0. ring.
  - rewrite Hy. rewrite Rmult_0_r, Rinv_0. ring.
  - field. split; assumption.
Qed.
Theorem angle_factors_move M t a1 a2 a3 : orthogonal M ->
  angle_distance_factors_atoms (toE (move M t a1)) (toE (move M t a2)) (toE (move M t a3)) = angle_distance_factors_atoms (toE a1) (toE a2) (toE a3).
Proof. intros H. rewrite !adf_is_dots. cbv zeta. rewrite !diff_move, !dot_rot by exact H. reflexivity. Qed.

(* ---- the rotation used when hydrogens are constructed is equivariant ---- *)
Lemma mapply_add M a b : mapply M (add a b) = add (mapply M a) (mapply M b).
Proof. destruct a, b. unfold mapply, add. cbn. f_equal; ring. Qed.
Lemma mapply_scal M k a : mapply M (scal k a) = scal k (mapply M a).
Proof. destruct a. unfold mapply, scal. cbn. f_equal; ring. Qed.
Lemma norm_rot M a : orthogonal M -> norm (mapply M a) = norm a.
Proof. intros H. unfold norm. rewrite dot_rot by exact H. reflexivity. Qed.
Lemma unit_rot M a : orthogonal M -> unit_of (mapply M a) = mapply M (unit_of a).
Proof. intros H. unfold unit_of. rewrite norm_rot by exact H. rewrite mapply_scal. reflexivity. Qed.
Lemma rodrigues_rot M t k v : proper M -> rodrigues t (mapply M k) (mapply M v) = mapply M (rodrigues t k v).
Proof.
  intros H. unfold rodrigues. rewrite !mapply_add, !mapply_scal, cross_rot by exact H. rewrite dot_rot by exact (proj1 H). reflexivity.
Qed.
Lemma nonzero_rot M a : orthogonal M -> (vx a <> 0 \/ vy a <> 0 \/ vz a <> 0) ->
  (vx (mapply M a) <> 0 \/ vy (mapply M a) <> 0 \/ vz (mapply M a) <> 0).
Proof.
  intros H Ha. assert (Hd : dot a a <> 0).
  { destruct a as [x y z]. unfold dot. cbn in *. intros E.
    assert (x = 0 /\ y = 0 /\ z = 0) as (-> & -> & ->) by (repeat split; nra). destruct Ha as [Ha|[Ha|Ha]]; apply Ha; reflexivity. }
  rewrite <- (dot_rot M a a H) in Hd. destruct (mapply M a) as [x y z]. unfold dot in Hd. cbn in *.
  destruct (Req_dec x 0) as [->|]; [|auto]. destruct (Req_dec y 0) as [->|]; [|auto]. destruct (Req_dec z 0) as [->|]; [|auto].
  exfalso. apply Hd. ring.
Qed.
Theorem rotate_equivariant M t axis v : proper M -> (vx axis <> 0 \/ vy axis <> 0 \/ vz axis <> 0) ->
  rotate_vector_around_an_axis t (mapply M axis) (mapply M v) = mapply M (rotate_vector_around_an_axis t axis v).
Proof.
  intros H Ha. rewrite rotate_is_rodrigues by (apply nonzero_rot; [exact (proj1 H) | exact Ha]).
  rewrite rotate_is_rodrigues by exact Ha. rewrite unit_rot by exact (proj1 H). apply rodrigues_rot. exact H.
Qed.
(* the cross product (plane normals in trigonal / planarity tests) and Vector arithmetic are equivariant too *)
Theorem vector_ops_equivariant M a b : proper M ->
  Vector_cross (mapply M a) (mapply M b) = mapply M (Vector_cross a b) /\
  Vector_dot (mapply M a) (mapply M b) = Vector_dot a b /\
  Vector___add__ (mapply M a) (mapply M b) = mapply M (Vector___add__ a b) /\
  Vector___sub__ (mapply M a) (mapply M b) = mapply M (Vector___sub__ a b) /\
  Vector_sq_length (mapply M a) = Vector_sq_length a.
Proof.
  intros H. pose proof (cross_rot M a b H) as Hc. pose proof (dot_rot M a b (proj1 H)) as Hd. pose proof (dot_rot M a a (proj1 H)) as Hs.
  destruct a as [ax ay az], b as [bx by_ bz].
  unfold Vector_cross, Vector_dot, Vector___add__, Vector___sub__, Vector_sq_length, cross, dot, mapply in *. num_unfold. cbn in *.
  repeat split.
  - rewrite <- Hc. f_equal; ring.
  - rewrite <- Hd. ring.
  - f_equal; ring.
  - f_equal; ring.
  - rewrite <- Hs. ring.
Qed.

(* ---- perceived bonds ---- *)
Definition move_atom M t (a : batomR) : batomR := {| b_pos := move M t (b_pos a); b_elem := b_elem a |}.
Lemma check_distance_move M t a b : orthogonal M -> check_distance (move_atom M t a) (move_atom M t b) = check_distance a b.
Proof. intros H. unfold check_distance, move_atom. cbn [b_pos b_elem]. rewrite sqdist_move by exact H. reflexivity. Qed.
Lemma atom_at_move M t atoms i : (i < List.length atoms)%nat ->
  atom_at batomR dflt_atom (map (move_atom M t) atoms) i = move_atom M t (atom_at batomR dflt_atom atoms i).
Proof. intros Hi. unfold atom_at. rewrite (nth_indep _ dflt_atom (move_atom M t dflt_atom)) by (rewrite map_length; exact Hi). apply map_nth. Qed.
Theorem bonds_move M t (atoms : list batomR) : orthogonal M -> Forall known atoms -> forall i j,
  In j (adj (bonds_using_boxes Zfloor (map (move_atom M t) atoms)) i) <-> In j (adj (bonds_using_boxes Zfloor atoms) i).
Proof.
  intros H Hk i j.
  assert (Hk' : Forall known (map (move_atom M t) atoms)).
  { rewrite Forall_forall in *. intros a Ha. apply in_map_iff in Ha as (a0 & <- & Ha0). exact (Hk a0 Ha0). }
  rewrite (model_boxes_spec _ Hk'), (model_boxes_spec _ Hk), map_length.
  split; intros (Hi & Hj & Hne & Hc); repeat split; try assumption.
  - rewrite !atom_at_move, check_distance_move in Hc by assumption. exact Hc.
  - rewrite !atom_at_move, check_distance_move by assumption. exact Hc.
Qed.
Theorem bridges_move M t (atoms : list batomR) : orthogonal M -> Forall known atoms -> forall k,
  bridge (bonds_using_boxes Zfloor (map (move_atom M t) atoms)) k = true -> 
  exists m, (k < List.length atoms)%nat /\ (m < List.length atoms)%nat /\ k <> m /\
            check_distance (atom_at batomR dflt_atom atoms k) (atom_at batomR dflt_atom atoms m) = true /\
            is_sulfur (atom_at batomR dflt_atom atoms k) = true /\ is_sulfur (atom_at batomR dflt_atom atoms m) = true.
Proof.
  intros H Hk k Hb.
  assert (Hk' : Forall known (map (move_atom M t) atoms)).
  { rewrite Forall_forall in *. intros a Ha. apply in_map_iff in Ha as (a0 & <- & Ha0). exact (Hk a0 Ha0). }
  destruct (model_bridge_only_disulfide _ Hk' k Hb) as (m & H1 & H2 & H3 & H4 & H5 & H6). rewrite map_length in *.
  exists m. rewrite !atom_at_move, check_distance_move in H4 by assumption. rewrite !atom_at_move in H5, H6 by assumption.
  repeat split; assumption.
Qed.

(* ---- the 24 axis-permuting proper rotations ---- *)
Definition M3 a b c d e f g h i := {| m11 := a; m12 := b; m13 := c; m21 := d; m22 := e; m23 := f; m31 := g; m32 := h; m33 := i |}.
Definition rots24 : list mat3 :=
  [ M3 1 0 0 0 1 0 0 0 1; M3 1 0 0 0 (-1) 0 0 0 (-1); M3 (-1) 0 0 0 1 0 0 0 (-1); M3 (-1) 0 0 0 (-1) 0 0 0 1;
    M3 1 0 0 0 0 (-1) 0 1 0; M3 1 0 0 0 0 1 0 (-1) 0; M3 (-1) 0 0 0 0 1 0 1 0; M3 (-1) 0 0 0 0 (-1) 0 (-1) 0;
    M3 0 1 0 0 0 1 1 0 0; M3 0 1 0 0 0 (-1) (-1) 0 0; M3 0 (-1) 0 0 0 1 (-1) 0 0; M3 0 (-1) 0 0 0 (-1) 1 0 0;
    M3 0 0 1 1 0 0 0 1 0; M3 0 0 1 (-1) 0 0 0 (-1) 0; M3 0 0 (-1) 1 0 0 0 (-1) 0; M3 0 0 (-1) (-1) 0 0 0 1 0;
    M3 0 1 0 1 0 0 0 0 (-1); M3 0 1 0 (-1) 0 0 0 0 1; M3 0 (-1) 0 1 0 0 0 0 1; M3 0 (-1) 0 (-1) 0 0 0 0 (-1);
    M3 0 0 1 0 1 0 (-1) 0 0; M3 0 0 1 0 (-1) 0 1 0 0; M3 0 0 (-1) 0 1 0 1 0 0; M3 0 0 (-1) 0 (-1) 0 (-1) 0 0 ].
Theorem rots24_proper : Forall proper rots24.
Proof. unfold rots24. repeat (apply Forall_cons; [unfold proper, orthogonal, M3; cbn; repeat split; lra|]). apply Forall_nil. Qed.
(* they map the 0.001 A grid onto itself: every entry is 0, 1 or -1 *)
Theorem rots24_integer : Forall (fun M => Forall (fun e => e = 0 \/ e = 1 \/ e = -1) [m11 M; m12 M; m13 M; m21 M; m22 M; m23 M; m31 M; m32 M; m33 M]) rots24.
Proof. unfold rots24. repeat (apply Forall_cons; [unfold M3; cbn; repeat (apply Forall_cons; [lra|]); apply Forall_nil|]). apply Forall_nil. Qed.

(* ------------------------------------------------------------------ group centres (model/Centre.v = Group.set_center) move with the structure *)
From V Require Import Centre.
Definition sx (pts : list V3) : R := fold_right (fun p a => vx p + a) 0 pts.
Definition sy (pts : list V3) : R := fold_right (fun p a => vy p + a) 0 pts.
Definition sz (pts : list V3) : R := fold_right (fun p a => vz p + a) 0 pts.
Lemma fold_acc (pts : list V3) : forall acc,
  vx (fold_left acc_add pts acc) = vx acc + sx pts /\ vy (fold_left acc_add pts acc) = vy acc + sy pts /\ vz (fold_left acc_add pts acc) = vz acc + sz pts.
Proof.
  unfold sx, sy, sz. induction pts as [|p r IH]; intros acc; cbn [fold_left fold_right]; [repeat split; lra|].
  destruct (IH (acc_add acc p)) as (A & B & C). rewrite A, B, C. unfold acc_add. num_unfold. cbn.
  repeat split; lra.
Qed.
Lemma sums_move M t (pts : list V3) :
  sx (map (move M t) pts) = m11 M * sx pts + m12 M * sy pts + m13 M * sz pts + INR (List.length pts) * vx t /\
  sy (map (move M t) pts) = m21 M * sx pts + m22 M * sy pts + m23 M * sz pts + INR (List.length pts) * vy t /\
  sz (map (move M t) pts) = m31 M * sx pts + m32 M * sy pts + m33 M * sz pts + INR (List.length pts) * vz t.
Proof.
  unfold sx, sy, sz. induction pts as [|p r (A & B & C)]; [cbn; repeat split; lra|].
  change (List.length (p :: r)) with (S (List.length r)). rewrite S_INR.
  cbn [map fold_right]. rewrite A, B, C. unfold move, add, mapply. cbn. repeat split; lra.
Qed.
Theorem centre_move M t (pts : list V3) : set_center (map (move M t) pts) = option_map (move M t) (set_center pts).
Proof.
  destruct pts as [|p r]; [reflexivity|].
  unfold set_center. cbn [map option_map]. set (l := p :: r). change (move M t p :: map (move M t) r) with (map (move M t) l).
  f_equal. rewrite map_length.
  destruct (fold_acc (map (move M t) l) (mk (nlit 0 1) (nlit 0 1) (nlit 0 1))) as (A & B & C).
  destruct (fold_acc l (mk (nlit 0 1) (nlit 0 1) (nlit 0 1))) as (A' & B' & C').
  destruct (sums_move M t l) as (SX & SY & SZ).
  assert (Hn : INR (List.length l) <> 0) by (apply not_0_INR; discriminate).
  assert (Hz : IZR (Z.of_nat (List.length l)) / IZR 1 = INR (List.length l)) by (rewrite <- INR_IZR_INZ; field).
  rewrite A, B, C, A', B', C', SX, SY, SZ. unfold move, add, mapply. num_unfold. cbn [vec3_x vec3_y vec3_z]. simpl vec3_x. simpl vec3_y. simpl vec3_z.
  rewrite Hz, lit0. set (n := INR (List.length l)) in *. clearbody n.
  assert (P1 : forall a b c : R, vx (mk a b c) = a) by reflexivity. assert (P2 : forall a b c : R, vy (mk a b c) = b) by reflexivity.
  assert (P3 : forall a b c : R, vz (mk a b c) = c) by reflexivity. rewrite !P1, !P2, !P3.
  f_equal; field; exact Hn.
Qed.
(* the centre is never a default: it exists exactly for non-empty atom lists *)
Theorem centre_defined (pts : list V3) : set_center pts <> None <-> pts <> [].
Proof. destruct pts; cbn; split; intros H; congruence. Qed.
