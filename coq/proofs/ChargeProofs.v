(* C09: Henderson-Hasselbalch facts of the generated Group.calculate_charge, the container sums, and the
   pI bisection, all over R. *)
From Coq Require Import Reals Lra List Bool.
From V Require Import Num GroupGen Charge.
Import ListNotations.
Open Scope R_scope.

Definition pow10 (x : R) := Rpower 10 x.
(* the single-site titration curve: q * c/(1+c), c = 10^(q (pK - pH)) *)
Definition charge (q pk ph : R) := q * (pow10 (q * (pk - ph)) / (1 + pow10 (q * (pk - ph)))).

Lemma pow10_pos x : 0 < pow10 x. Proof. apply exp_pos. Qed.
Lemma ln10_pos : 0 < ln 10. Proof. rewrite <- ln_1. apply ln_increasing; lra. Qed.
Lemma pow10_mono x y : x <= y -> pow10 x <= pow10 y.
Proof. intros H. destruct H as [H|H]; [left|right; rewrite H; reflexivity]. unfold pow10, Rpower. apply exp_increasing. pose proof ln10_pos. nra. Qed.
Lemma pow10_0 : pow10 0 = 1. Proof. unfold pow10. apply Rpower_O. lra. Qed.

Definition frac c := c / (1 + c).
Lemma frac_bounds c : 0 < c -> 0 < frac c < 1.
Proof. intros. unfold frac. split.
  - apply Rdiv_lt_0_compat; lra.
  - apply Rmult_lt_reg_r with (1 + c); [lra|]. unfold Rdiv. rewrite Rmult_assoc, Rinv_l by lra. lra. Qed.
Lemma frac_mono c d : 0 < c -> c <= d -> frac c <= frac d.
Proof. intros Hc Hd. unfold frac.
  apply Rmult_le_reg_r with ((1 + c) * (1 + d)); [nra|].
  replace (c / (1 + c) * ((1 + c) * (1 + d))) with (c * (1 + d)) by (field; lra).
  replace (d / (1 + d) * ((1 + c) * (1 + d))) with (d * (1 + c)) by (field; lra). nra. Qed.

(* ---- the generated functions are `charge` ---- *)
Lemma lit1 : IZR 1 / IZR 1 = 1. Proof. lra. Qed.
Lemma gen_charge_folded (g : grp R) ph : calculate_charge_folded g ph = charge (grp_charge g) (grp_pka_value g) ph.
Proof. unfold calculate_charge_folded, charge, pow10. num_unfold. rewrite lit1. reflexivity. Qed.
Lemma gen_charge_unfolded (g : grp R) ph : calculate_charge_unfolded g ph = charge (grp_charge g) (grp_model_pka g) ph.
Proof. unfold calculate_charge_unfolded, charge, pow10. num_unfold. rewrite lit1. reflexivity. Qed.

(* ---- single site ---- *)
Theorem charge_between q pk ph : (0 <= q -> 0 <= charge q pk ph <= q) /\ (q <= 0 -> q <= charge q pk ph <= 0).
Proof.
  unfold charge. fold (frac (pow10 (q * (pk - ph)))).
  pose proof (frac_bounds _ (pow10_pos (q * (pk - ph)))) as [H0 H1]. split; intros Hq; split; nra.
Qed.
Theorem charge_half q pk : charge q pk pk = q / 2.
Proof. unfold charge. replace (q * (pk - pk)) with 0 by ring. rewrite pow10_0. field. Qed.
Theorem charge_antitone q pk ph1 ph2 : ph1 <= ph2 -> charge q pk ph2 <= charge q pk ph1.
Proof.
  intros H. unfold charge. fold (frac (pow10 (q * (pk - ph2)))). fold (frac (pow10 (q * (pk - ph1)))).
  destruct (Rle_dec 0 q) as [Hq|Hq].
  - apply Rmult_le_compat_l; [exact Hq|]. apply frac_mono; [apply pow10_pos|]. apply pow10_mono. nra.
  - assert (frac (pow10 (q * (pk - ph1))) <= frac (pow10 (q * (pk - ph2)))).
    { apply frac_mono; [apply pow10_pos|]. apply pow10_mono. nra. }
    nra.
Qed.

(* ---- container sums ---- *)
Fixpoint sumR (l : list R) : R := match l with [] => 0 | x :: r => x + sumR r end.
Lemma lit0 : IZR 0 / IZR 1 = 0. Proof. lra. Qed.

Lemma total_charge_acc (l : list (grp R)) ph : forall u f,
  fold_left (fun (acc : R * R) g => let '(u, f) := acc in
               (nadd u (calculate_charge_unfolded g ph), nadd f (calculate_charge_folded g ph))) l (u, f)
  = (u + sumR (map (fun g => charge (grp_charge g) (grp_model_pka g) ph) l),
     f + sumR (map (fun g => charge (grp_charge g) (grp_pka_value g) ph) l)).
Proof.
  induction l as [|g r IH]; intros u f; cbn [fold_left map sumR].
  - f_equal; lra.
  - rewrite IH. rewrite gen_charge_folded, gen_charge_unfolded. num_unfold. f_equal; lra.
Qed.

(* the pair returned is (unfolded, folded): sums over the titratable groups with model pKa / predicted pKa *)
Theorem total_charge_is_sum (gs : list (grp R)) ph :
  total_charge gs ph =
  (sumR (map (fun g => charge (grp_charge g) (grp_model_pka g) ph) (filter (fun g => grp_titratable g) gs)),
   sumR (map (fun g => charge (grp_charge g) (grp_pka_value g) ph) (filter (fun g => grp_titratable g) gs))).
Proof. unfold total_charge, fzero. rewrite total_charge_acc. num_unfold. rewrite lit0. f_equal; lra. Qed.

Theorem profile_rows (gs : list (grp R)) grid :
  charge_profile gs grid = map (fun ph => (ph, Qunfolded gs ph, Qfolded gs ph)) grid.
Proof.
  unfold charge_profile, Qunfolded, Qfolded. apply map_ext. intros ph. destruct (total_charge gs ph); reflexivity.
Qed.

Lemma sum_antitone (l : list (grp R)) (pk : grp R -> R) ph1 ph2 : ph1 <= ph2 ->
  sumR (map (fun g => charge (grp_charge g) (pk g) ph2) l) <= sumR (map (fun g => charge (grp_charge g) (pk g) ph1) l).
Proof.
  intros H. induction l as [|g r IH]; cbn [map sumR]; [lra|]. pose proof (charge_antitone (grp_charge g) (pk g) _ _ H). lra.
Qed.
Theorem Qfolded_antitone gs ph1 ph2 : ph1 <= ph2 -> Qfolded gs ph2 <= Qfolded gs ph1.
Proof. intros H. unfold Qfolded. rewrite !total_charge_is_sum. cbn [snd]. apply sum_antitone. exact H. Qed.
Theorem Qunfolded_antitone gs ph1 ph2 : ph1 <= ph2 -> Qunfolded gs ph2 <= Qunfolded gs ph1.
Proof. intros H. unfold Qunfolded. rewrite !total_charge_is_sum. cbn [fst]. apply sum_antitone. exact H. Qed.

(* ---- bisection ---- *)
Section Pi.
Variable Q : R -> R.
Variable prec : R.

Lemma pi_unfold fuel pH lo hi :
  pi Q prec (S fuel) pH lo hi =
  if Rltb prec (hi - lo) then
    if Rltb 0 (Q pH) then pi Q prec fuel ((pH + hi) / 2) pH hi else pi Q prec fuel ((lo + pH) / 2) lo pH
  else Some pH.
Proof. cbn [pi]. unfold fzero. num_unfold. rewrite lit0. replace (IZR 2 / IZR 1) with 2 by lra. reflexivity. Qed.

Lemma pi_brackets : forall fuel pH lo hi p,
  lo <= pH <= hi -> 0 < Q lo -> Q hi <= 0 ->
  pi Q prec fuel pH lo hi = Some p ->
  exists a b, a <= p <= b /\ b - a <= prec /\ 0 < Q a /\ Q b <= 0 /\ lo <= a /\ b <= hi.
Proof.
  induction fuel as [|f IH]; intros pH lo hi p Hin Hlo Hhi Hr; [discriminate|].
  rewrite pi_unfold in Hr. destruct (Rltb prec (hi - lo)) eqn:Hw.
  - apply Rltb_true in Hw. destruct (Rltb 0 (Q pH)) eqn:Hq.
    + apply Rltb_true in Hq. assert (H1 : pH <= (pH + hi) / 2 <= hi) by lra.
      destruct (IH _ _ _ _ H1 Hq Hhi Hr) as (a & b & H). exists a, b. intuition lra.
    + apply Rltb_false in Hq. assert (H1 : lo <= (lo + pH) / 2 <= pH) by lra.
      destruct (IH _ _ _ _ H1 Hlo Hq Hr) as (a & b & H). exists a, b. intuition lra.
  - apply Rltb_false in Hw. injection Hr as <-. exists lo, hi. intuition lra.
Qed.

(* with an antitone curve every sign change lies in the final bracket, hence within prec of the answer *)
Theorem pi_near_root fuel g0 g1 p r :
  (forall x y, x <= y -> Q y <= Q x) ->
  g0 <= g1 -> 0 < Q g0 -> Q g1 <= 0 -> pi Q prec fuel ((g0 + g1) / 2) g0 g1 = Some p ->
  (forall x, x < r -> 0 < Q x) -> (forall x, r < x -> Q x <= 0) -> Rabs (p - r) <= prec.
Proof.
  intros Hmono Hg H0 H1 Hr Hbelow Habove.
  assert (Hm : g0 <= (g0 + g1) / 2 <= g1) by lra.
  destruct (pi_brackets fuel _ g0 g1 p Hm H0 H1 Hr) as (a & b & Hp & Hw & Ha & Hb & _).
  assert (a <= r). { destruct (Rle_dec a r); auto. exfalso. specialize (Habove a ltac:(lra)). lra. }
  assert (r <= b). { destruct (Rle_dec r b); auto. exfalso. specialize (Hbelow b ltac:(lra)). lra. }
  apply Rabs_le. lra.
Qed.

(* enough fuel: the interval halves at every call, so the recursion ends *)
Lemma pi_terminates : forall fuel pH lo hi, pH = (lo + hi) / 2 -> lo <= hi -> hi - lo <= prec * 2 ^ fuel ->
  exists p, pi Q prec (S fuel) pH lo hi = Some p.
Proof.
  induction fuel as [|f IH]; intros pH lo hi HpH Hle Hw; rewrite pi_unfold.
  - simpl in Hw. replace (Rltb prec (hi - lo)) with false by (symmetry; apply Rltb_false; lra). eauto.
  - destruct (Rltb prec (hi - lo)) eqn:E; [|eauto]. simpl pow in Hw.
    destruct (Rltb 0 (Q pH)); apply IH; subst pH; try lra.
Qed.
End Pi.

(* get_pi returns (pI of the FOLDED curve, pI of the UNFOLDED curve) *)
Theorem get_pi_order (gs : list (grp R)) g0 g1 prec fuel :
  get_pi gs g0 g1 prec fuel =
  (pi (Qfolded gs) prec fuel ((g0 + g1) / 2) g0 g1, pi (Qunfolded gs) prec fuel ((g0 + g1) / 2) g0 g1).
Proof. unfold get_pi. num_unfold. replace (IZR 2 / IZR 1) with 2 by lra. reflexivity. Qed.

Theorem get_pi_folded_is_root gs g0 g1 prec fuel p r :
  g0 <= g1 -> 0 < Qfolded gs g0 -> Qfolded gs g1 <= 0 -> fst (get_pi gs g0 g1 prec fuel) = Some p ->
  (forall x, x < r -> 0 < Qfolded gs x) -> (forall x, r < x -> Qfolded gs x <= 0) -> Rabs (p - r) <= prec.
Proof.
  intros Hg H0 H1 Hp Hb Ha. rewrite get_pi_order in Hp. cbn [fst] in Hp.
  apply (pi_near_root (Qfolded gs) prec fuel g0 g1 p r); auto.
  intros x y Hxy. apply Qfolded_antitone. exact Hxy.
Qed.
Theorem get_pi_unfolded_is_root gs g0 g1 prec fuel p r :
  g0 <= g1 -> 0 < Qunfolded gs g0 -> Qunfolded gs g1 <= 0 -> snd (get_pi gs g0 g1 prec fuel) = Some p ->
  (forall x, x < r -> 0 < Qunfolded gs x) -> (forall x, r < x -> Qunfolded gs x <= 0) -> Rabs (p - r) <= prec.
Proof.
  intros Hg H0 H1 Hp Hb Ha. rewrite get_pi_order in Hp. cbn [snd] in Hp.
  apply (pi_near_root (Qunfolded gs) prec fuel g0 g1 p r); auto.
  intros x y Hxy. apply Qunfolded_antitone. exact Hxy.
Qed.

(* non-vacuity: an acid (pK 4) and a base (pK 10): the folded curve changes sign inside [0,14] *)
Example sign_change_exists :
  let gs := [mk_grp (-1) 4 4 0 true; mk_grp 1 10 10 0 true] in 0 < Qfolded gs 0 /\ Qfolded gs 14 <= 0.
Proof.
  cbv zeta. unfold Qfolded. rewrite !total_charge_is_sum. cbn [filter grp_titratable map sumR snd grp_charge grp_pka_value].
  unfold charge.
  assert (Hlt : forall x, x < 0 -> pow10 x < 1).
  { intros x Hx. rewrite <- pow10_0. unfold pow10, Rpower. apply exp_increasing. pose proof ln10_pos. nra. }
  assert (Hgt : forall x, 0 < x -> 1 < pow10 x).
  { intros x Hx. rewrite <- pow10_0. unfold pow10, Rpower. apply exp_increasing. pose proof ln10_pos. nra. }
  assert (H1 : pow10 (-1 * (4 - 0)) < 1) by (apply Hlt; lra).
  assert (H2 : 1 < pow10 (1 * (10 - 0))) by (apply Hgt; lra).
  assert (H3 : 1 < pow10 (-1 * (4 - 14))) by (apply Hgt; lra).
  assert (H4 : pow10 (1 * (10 - 14)) < 1) by (apply Hlt; lra).
  pose proof (pow10_pos (-1 * (4 - 0))). pose proof (pow10_pos (1 * (10 - 14))).
  set (a := pow10 (-1 * (4 - 0))) in *. set (b := pow10 (1 * (10 - 0))) in *.
  set (c := pow10 (-1 * (4 - 14))) in *. set (d := pow10 (1 * (10 - 14))) in *.
  split.
  - assert (a / (1 + a) < 1 / 2) by (apply Rmult_lt_reg_r with (2 * (1 + a)); [lra|]; field_simplify; lra).
    assert (1 / 2 < b / (1 + b)) by (apply Rmult_lt_reg_r with (2 * (1 + b)); [lra|]; field_simplify; lra).
    lra.
  - assert (1 / 2 < c / (1 + c)) by (apply Rmult_lt_reg_r with (2 * (1 + c)); [lra|]; field_simplify; lra).
    assert (d / (1 + d) < 1 / 2) by (apply Rmult_lt_reg_r with (2 * (1 + d)); [lra|]; field_simplify; lra).
    lra.
Qed.

(* ---- strict versions: a group with a non-zero formal charge loses charge strictly with pH, and a protein with at least
   one such titratable group has strictly decreasing total curves (so each has at most one zero: the pI is unique) ---- *)
Lemma pow10_strict x y : x < y -> pow10 x < pow10 y.
Proof. intros H. unfold pow10, Rpower. apply exp_increasing. pose proof ln10_pos. nra. Qed.
Lemma frac_strict c d : 0 < c -> c < d -> frac c < frac d.
Proof. intros Hc Hd. unfold frac.
  apply Rmult_lt_reg_r with ((1 + c) * (1 + d)); [nra|].
  replace (c / (1 + c) * ((1 + c) * (1 + d))) with (c * (1 + d)) by (field; lra).
  replace (d / (1 + d) * ((1 + c) * (1 + d))) with (d * (1 + c)) by (field; lra). nra. Qed.
Theorem charge_strict q pk ph1 ph2 : q <> 0 -> ph1 < ph2 -> charge q pk ph2 < charge q pk ph1.
Proof.
  intros Hq H. unfold charge. fold (frac (pow10 (q * (pk - ph2)))). fold (frac (pow10 (q * (pk - ph1)))).
  destruct (Rlt_dec 0 q) as [Hpos|Hneg].
  - apply Rmult_lt_compat_l; [exact Hpos|]. apply frac_strict; [apply pow10_pos|]. apply pow10_strict. nra.
  - assert (Hq' : q < 0) by lra.
    assert (frac (pow10 (q * (pk - ph1))) < frac (pow10 (q * (pk - ph2)))).
    { apply frac_strict; [apply pow10_pos|]. apply pow10_strict. nra. }
    nra.
Qed.
Lemma sum_strict (l : list (grp R)) (pk : grp R -> R) ph1 ph2 : ph1 < ph2 ->
  List.Exists (fun g => grp_charge g <> 0) l ->
  sumR (map (fun g => charge (grp_charge g) (pk g) ph2) l) < sumR (map (fun g => charge (grp_charge g) (pk g) ph1) l).
Proof.
  intros H Hex. induction Hex as [g r Hg | g r Hr IH]; cbn [map sumR].
  - pose proof (charge_strict (grp_charge g) (pk g) _ _ Hg H).
    pose proof (sum_antitone r pk ph1 ph2 (Rlt_le _ _ H)). lra.
  - pose proof (charge_antitone (grp_charge g) (pk g) ph1 ph2 (Rlt_le _ _ H)). lra.
Qed.
Definition has_charged_titratable (gs : list (grp R)) : Prop :=
  List.Exists (fun g => grp_charge g <> 0) (filter (fun g => grp_titratable g) gs).
Theorem Qfolded_strict gs ph1 ph2 : has_charged_titratable gs -> ph1 < ph2 -> Qfolded gs ph2 < Qfolded gs ph1.
Proof. intros Hex H. unfold Qfolded. rewrite !total_charge_is_sum. cbn [snd]. apply sum_strict; assumption. Qed.
Theorem Qunfolded_strict gs ph1 ph2 : has_charged_titratable gs -> ph1 < ph2 -> Qunfolded gs ph2 < Qunfolded gs ph1.
Proof. intros Hex H. unfold Qunfolded. rewrite !total_charge_is_sum. cbn [fst]. apply sum_strict; assumption. Qed.
Theorem zero_unique (Q : R -> R) : (forall a b, a < b -> Q b < Q a) -> forall x y, Q x = 0 -> Q y = 0 -> x = y.
Proof.
  intros Hs x y Hx Hy. destruct (Rtotal_order x y) as [Hlt|[Heq|Hgt]]; [|exact Heq|].
  - pose proof (Hs x y Hlt). lra.
  - pose proof (Hs y x Hgt). lra.
Qed.
