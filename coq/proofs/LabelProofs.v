(* C06: relabelling residues changes no comparison the computations make, as long as it keeps distinct (chain, number) keys distinct;
   insertion codes are NOT part of the compared key (known finding), shown by a witness. *)
From Coq Require Import String List Bool ZArith Lia.
From V Require Import Labels Inventory_gen.
Import ListNotations.
Open Scope string_scope.

Lemma key_eqb_eq x y : key_eqb x y = true <-> x = y.
Proof. destruct x, y. unfold key_eqb. cbn. rewrite andb_true_iff, String.eqb_eq, Z.eqb_eq. split; [intros [-> ->]; reflexivity | intros H; injection H; auto]. Qed.
Lemma bool_iff (a b : bool) : (a = true <-> b = true) -> a = b.
Proof. destruct a, b; intros [H1 H2]; try reflexivity; [symmetry; apply H1; reflexivity | apply H2; reflexivity]. Qed.

Section Relabel.
Variable rho : resid -> resid.                 (* the relabelling *)
Variable residues : list resid.                (* the residues of the structure *)
(* order-preserving relabellings of chain ids / numbers are in particular injective on the (chain, number) keys of the structure, both ways *)
Hypothesis keys_preserved : forall a b, In a residues -> In b residues -> (code_key (rho a) = code_key (rho b) <-> code_key a = code_key b).

Theorem same_residue_invariant a b : In a residues -> In b residues -> same_residue (rho a) (rho b) = same_residue a b.
Proof. intros Ha Hb. apply bool_iff. unfold same_residue. rewrite !key_eqb_eq. apply keys_preserved; assumption. Qed.
Theorem group_equality_invariant t1 a t2 b : In a residues -> In b residues -> group_eq t1 (rho a) t2 (rho b) = group_eq t1 a t2 b.
Proof.
  intros Ha Hb. unfold group_eq, label_eqb, label_key. cbn [fst snd]. f_equal.
  apply bool_iff. rewrite !key_eqb_eq. apply keys_preserved; assumption.
Qed.
End Relabel.

(* chain renaming by an injective map and per-chain constant shifts preserve keys *)
Definition rename_shift (ren : string -> string) (shift : string -> Z) (a : resid) : resid :=
  {| r_chain := ren (r_chain a); r_num := (r_num a + shift (r_chain a))%Z; r_icode := r_icode a |}.
Theorem rename_shift_preserves_keys ren shift : (forall c d, ren c = ren d -> c = d) ->
  forall a b, code_key (rename_shift ren shift a) = code_key (rename_shift ren shift b) <-> code_key a = code_key b.
Proof.
  intros Hinj a b. unfold code_key, rename_shift. cbn. split; intros H; injection H as H1 H2.
  - apply Hinj in H1. rewrite H1 in *. f_equal. lia.
  - rewrite H1, H2. reflexivity.
Qed.
(* renumbering in file order (each residue a number of its own, insertion codes dropped) preserves keys exactly when no two residues of the
   structure share chain and number, i.e. when there are no insertion-code twins *)
Theorem renumbering_preserves_keys_without_twins (rho : resid -> resid) residues :
  (forall a b, In a residues -> In b residues -> code_key (rho a) = code_key (rho b) -> a = b) ->       (* new numbers are all different *)
  (forall a b, In a residues -> In b residues -> code_key a = code_key b -> a = b) ->                   (* no twins before *)
  forall a b, In a residues -> In b residues -> (code_key (rho a) = code_key (rho b) <-> code_key a = code_key b).
Proof. intros H1 H2 a b Ha Hb. split; intros H; [rewrite (H1 a b Ha Hb H) | rewrite (H2 a b Ha Hb H)]; reflexivity. Qed.
(* twins ARE conflated by the compared key: residues 48 and 48A of one chain are distinct residues with the same key *)
Theorem twins_conflated_refuted : exists a b, resid_eqb a b = false /\ same_residue a b = true /\ group_eq "ARG" a "ARG" b = true.
Proof. exists {| r_chain := "E"; r_num := 48; r_icode := " " |}, {| r_chain := "E"; r_num := 48; r_icode := "A" |}. repeat split; reflexivity. Qed.

(* the inventory rows the model relies on *)
Definition inventory_ok_b : bool :=
  reads residue_identity_reads "energy.py" "radial_volume_desolvation" "res_num" &&
  reads residue_identity_reads "energy.py" "radial_volume_desolvation" "chain_id" &&
  negb (reads residue_identity_reads "energy.py" "radial_volume_desolvation" "icode") &&
  reads residue_identity_reads "group.py" "Group.__init__" "res_num" && reads residue_identity_reads "group.py" "Group.__init__" "chain_id" &&
  negb (reads residue_identity_reads "group.py" "Group.__init__" "icode") &&
  reads residue_identity_reads "group.py" "Group.__eq__" "label" && negb (reads residue_identity_reads "group.py" "Group.__eq__" "icode") &&
  reads residue_identity_reads "iterative.py" "Iterative.__eq__" "label".
Lemma inventory_ok : inventory_ok_b = true. Proof. vm_compute. reflexivity. Qed.

(* ---- the atom sorting key of ConformationContainer.sort_atoms_key: ord(chain) * UNICODE_MULTIPLIER + res_num * RESIDUE_MULTIPLIER + ord(c) ---- *)
Fixpoint zlookup (k : string) (l : list (string * Z)) : Z := match l with [] => 0%Z | (k', v) :: r => if String.eqb k k' then v else zlookup k r end.
Definition UM : Z := zlookup "UNICODE_MULTIPLIER" sort_key_constants.
Definition RM : Z := zlookup "RESIDUE_MULTIPLIER" sort_key_constants.
Lemma sort_constants : UM = 10000000%Z /\ RM = 1000%Z. Proof. split; vm_compute; reflexivity. Qed.
Definition sort_key (chain num c : Z) : Z := (chain * UM + num * RM + c)%Z.
(* with character codes below 1000 and residue numbers of the two atoms at most 9999 apart (e.g. all numbers in 0..9999, or in -999..9000)
   the key orders atoms lexicographically by (chain, number, character): order-preserving relabellings inside such a range keep the atom order *)
Theorem sort_key_lexicographic ch1 n1 c1 ch2 n2 c2 : (0 <= c1 < 1000)%Z -> (0 <= c2 < 1000)%Z -> (Z.abs (n1 - n2) <= 9999)%Z ->
  ((sort_key ch1 n1 c1 < sort_key ch2 n2 c2)%Z <-> (ch1 < ch2 \/ (ch1 = ch2 /\ (n1 < n2 \/ (n1 = n2 /\ c1 < c2))))%Z).
Proof. unfold sort_key. destruct sort_constants as [-> ->]. lia. Qed.
(* outside that range chains interleave: chain 65 residue 9999 sorts AFTER chain 66 residue -999 *)
Theorem sort_key_overlap_refuted : (sort_key 66 (-999) 0 < sort_key 65 9999 0)%Z.
Proof. unfold sort_key. destruct sort_constants as [-> ->]. lia. Qed.
