(* C02 / C08 / C15: invariants of the determinant bookkeeping machine (model/Dets.v) over the reals,
   for EVERY operation sequence. *)
From Coq Require Import List Bool Arith Reals Lra Lia Permutation.
From V Require Import Num Dets.
Import ListNotations.
Local Open Scope list_scope.
Open Scope R_scope.

Notation detR := (det R).
Notation grpR := (grp R).
Notation stateR := (state R).
Notation opR := (op R).

Definition sumv (l : list detR) : R := fold_right (fun d acc => d_val d + acc) 0 l.
Lemma l0 : IZR 0 / IZR 1 = 0. Proof. lra. Qed.

Lemma sum_dets_eq (l : list detR) : forall acc, sum_dets acc l = acc + sumv l.
Proof.
  unfold sum_dets. induction l as [|d r IH]; intros acc; simpl; [lra|]. rewrite IH. num_unfold. lra.
Qed.
Lemma sumv_app a b : sumv (a ++ b) = sumv a + sumv b.
Proof. induction a as [|d r IH]; simpl; [lra|]. fold (sumv (r ++ b)). fold (sumv r). rewrite IH. lra. Qed.
Lemma sumv_perm a b : Permutation a b -> sumv a = sumv b.
Proof. induction 1; simpl; try lra. Qed.

Lemma sumv_nil : sumv [] = 0. Proof. reflexivity. Qed.
Lemma sumv_cons d l : sumv (d :: l) = d_val d + sumv l. Proof. reflexivity. Qed.
Arguments sumv : simpl never.

(* what "the reported pKa equals model pKa plus the listed contributions" means for one group *)
Definition listed (g : grpR) : R := g_model g + g_vol g + g_loc g + sumv (g_sc g) + sumv (g_bb g) + sumv (g_co g).
Definition consistent (g : grpR) : Prop := if g_bridged g then g_pka g = 9999 / 100 else g_pka g = listed g.

Lemma total_listed (g : grpR) : total g = listed g.
Proof. unfold total, listed. rewrite !sum_dets_eq. num_unfold. lra. Qed.

(* ---------------------------------------------------------------- C02: recompute establishes, clean groups are consistent *)
Theorem recompute_establishes (g : grpR) : consistent (recompute g) /\ g_dirty (recompute g) = false.
Proof.
  unfold recompute, consistent. cbn [with_pka g_bridged g_pka g_dirty]. split; [|reflexivity].
  destruct (g_bridged g); [num_unfold; reflexivity|]. rewrite total_listed. unfold listed. reflexivity.
Qed.

Definition Inv (s : stateR) : Prop := forall i, g_dirty (s i) = false -> consistent (s i).

Lemma upd_same (s : stateR) i g : upd s i g i = g. Proof. unfold upd. rewrite Nat.eqb_refl. reflexivity. Qed.
Lemma upd_other (s : stateR) i j g : j <> i -> upd s i g j = s j. Proof. intros H. unfold upd. rewrite (proj2 (Nat.eqb_neq j i) H). reflexivity. Qed.

Lemma Inv_upd_dirty s i g : Inv s -> g_dirty g = true -> Inv (upd s i g).
Proof. intros HI Hd j Hj. destruct (Nat.eq_dec j i) as [->|Hne]; [rewrite upd_same in Hj; congruence | rewrite upd_other in * by exact Hne; apply HI; exact Hj]. Qed.
Lemma Inv_upd_recompute s i g : Inv s -> Inv (upd s i (recompute g)).
Proof. intros HI j Hj. destruct (Nat.eq_dec j i) as [->|Hne]; [rewrite upd_same; apply recompute_establishes | rewrite upd_other in * by exact Hne; apply HI; exact Hj]. Qed.

Theorem step_preserves_Inv s o : Inv s -> Inv (step s o).
Proof.
  intros HI. destruct o as [g lab key m b | g k d | g vol nvol bur | g loc | g k id v | g | g labels | g1 g2 | dst src | dst src fresh | dst kk];
    cbn [step]; cbv zeta; try (apply Inv_upd_dirty; [exact HI|reflexivity]).
  - apply Inv_upd_recompute. exact HI.
  - destruct (transfer (g_co (s g1)) (g_co (s g2)) (g_label (s g1)) (g_label (s g2))) as [c1 c2].
    destruct (transfer (g_sc (s g1)) (g_sc (s g2)) (g_label (s g1)) (g_label (s g2))) as [s1 s2].
    apply Inv_upd_recompute. apply Inv_upd_recompute. apply Inv_upd_dirty; [|reflexivity]. apply Inv_upd_dirty; [exact HI|reflexivity].
  - destruct (iadd_dets (g_sc (s dst)) (g_sc (s src)) fresh) as [sc fr1]. destruct (iadd_dets (g_bb (s dst)) (g_bb (s src)) fr1) as [bb fr2].
    destruct (iadd_dets (g_co (s dst)) (g_co (s src)) fr2) as [co fr3]. apply Inv_upd_dirty; [exact HI|reflexivity].
Qed.

Lemma Inv_state0 : Inv (@state0 R NumR).
Proof. intros i _. unfold consistent, state0, blank, listed. cbn. rewrite !sumv_nil. unfold fzero. num_unfold. lra. Qed.

(* every group whose total was recomputed after its last change satisfies pKa = model + desolvation terms + listed determinants,
   after ANY sequence of operations *)
Theorem clean_groups_consistent (ops : list opR) : Inv (run ops).
Proof.
  unfold run. assert (H : forall s, Inv s -> Inv (fold_left step ops s)).
  { induction ops as [|o r IH]; intros s Hs; cbn [fold_left]; [exact Hs|]. apply IH. apply step_preserves_Inv. exact Hs. }
  apply H. apply Inv_state0.
Qed.

(* the per-conformation script of ConformationContainer.calculate_pka: whatever determinants are added, shared or removed,
   recomputing every group at the end leaves every group clean *)
Definition recompute_all (gs : list nat) : list opR := map (@ORecompute R) gs.
Lemma recompute_all_clean gs : forall s i, In i gs -> g_dirty (fold_left step (recompute_all gs) s i) = false.
Proof.
  induction gs as [|g r IH]; intros s i Hin; [contradiction|]. cbn [recompute_all map fold_left]. fold (recompute_all r).
  destruct (in_dec Nat.eq_dec i r) as [Hr|Hr]; [apply IH; exact Hr|]. destruct Hin as [->|Hin]; [|contradiction].
  assert (Hk : forall l s0, ~ In i l -> fold_left step (recompute_all l) s0 i = s0 i).
  { induction l as [|h t IHl]; intros s0 Hn; [reflexivity|]. cbn [recompute_all map fold_left]. fold (recompute_all t).
    rewrite IHl by (intros H; apply Hn; right; exact H). cbn [step]. apply upd_other. intros E. apply Hn. left. congruence. }
  rewrite Hk by exact Hr. cbn [step]. rewrite upd_same. reflexivity.
Qed.
Theorem script_ends_clean (before : list opR) (gs : list nat) i : In i gs ->
  let s := run (before ++ recompute_all gs) in g_dirty (s i) = false /\ consistent (s i).
Proof.
  intros Hin. cbv zeta. assert (Hd : g_dirty (run (before ++ recompute_all gs) i) = false).
  { unfold run. rewrite fold_left_app. apply recompute_all_clean. exact Hin. }
  split; [exact Hd|]. apply clean_groups_consistent. exact Hd.
Qed.

(* the shape BEFORE the repair (recompute only inside `if remove_penalised_group`) is refuted: sharing rewrites a determinant after
   the totals were computed and nothing recomputes them *)
Lemma stale_after_sharing_refuted :
  exists ops : list opR, let s := run ops in g_dirty (s 0%nat) = true /\ ~ consistent (s 0%nat).
Proof.
  exists [ONew 0 1 1 4 false; OAppend 0 CO {| d_id := 1; d_key := 2; d_glabel := 2; d_label := 2; d_val := 1 |}; ORecompute 0;
          OSetDetValue 0 CO 1 3].
  cbv zeta. unfold run. cbn. split; [reflexivity|]. unfold consistent, listed. cbn. rewrite ?sumv_cons, ?sumv_nil. cbn. unfold fzero. num_unfold. lra.
Qed.

(* ---------------------------------------------------------------- C15: a swap, then the same swap, restores everything *)
Lemma filter_split {A} (p : A -> bool) l : Permutation (filter p l ++ filter (fun x => negb (p x)) l) l.
Proof.
  induction l as [|a l IH]; cbn [filter]; [constructor|]. destruct (p a); cbn [negb app].
  - constructor; exact IH.
  - apply Permutation_sym. apply Permutation_cons_app. apply Permutation_sym. exact IH.
Qed.
Lemma filter_has_relabel l l' (ds : list detR) : filter (has_label l) (map (relabel l) (filter (has_label l') ds)) = map (relabel l) (filter (has_label l') ds).
Proof. induction ds as [|d r IH]; cbn; auto. destruct (has_label l' d); cbn; auto. unfold has_label at 1; cbn. rewrite Nat.eqb_refl. f_equal; exact IH. Qed.
Lemma filter_nothas_relabel l l' (ds : list detR) : filter (fun d => negb (has_label l d)) (map (relabel l) (filter (has_label l') ds)) = [].
Proof. induction ds as [|d r IH]; cbn; auto. destruct (has_label l' d); cbn; auto. unfold has_label at 1; cbn. rewrite Nat.eqb_refl. cbn. exact IH. Qed.
Lemma filter_has_nothas l (ds : list detR) : filter (has_label l) (filter (fun d => negb (has_label l d)) ds) = [].
Proof. induction ds as [|d r IH]; cbn; auto. destruct (has_label l d) eqn:E; cbn; auto. rewrite E. exact IH. Qed.
Lemma filter_nothas_idem l (ds : list detR) : filter (fun d => negb (has_label l d)) (filter (fun d => negb (has_label l d)) ds) = filter (fun d => negb (has_label l d)) ds.
Proof. induction ds as [|d r IH]; cbn; auto. destruct (has_label l d) eqn:E; cbn; auto. rewrite E. cbn. f_equal; exact IH. Qed.
Lemma relabel_back l (ds : list detR) : (forall d, In d ds -> d_label d = l) -> map (relabel l) ds = ds.
Proof. induction ds as [|d r IH]; cbn; intros H; auto. f_equal; [destruct d; unfold relabel; cbn; f_equal; symmetry; apply (H _ (or_introl eq_refl)) | apply IH; auto]. Qed.
Lemma map_relabel_relabel l l' (ds : list detR) : map (relabel l) (map (relabel l') ds) = map (relabel l) ds.
Proof. induction ds; cbn; auto. f_equal; auto. Qed.
Lemma filter_has_label l (ds : list detR) : forall d, In d (filter (has_label l) ds) -> d_label d = l.
Proof. intros d H. apply filter_In in H as [_ H]. apply Nat.eqb_eq in H. exact H. Qed.

Theorem transfer_involutive (d1 d2 : list detR) l1 l2 :
  let '(a, b) := transfer d1 d2 l1 l2 in
  let '(a', b') := transfer a b l1 l2 in
  Permutation a' d1 /\ Permutation b' d2.
Proof.
  unfold transfer. cbv zeta.
  rewrite !filter_app, !filter_has_relabel, !filter_nothas_relabel, !filter_has_nothas, !filter_nothas_idem, !app_nil_r.
  cbn [app]. rewrite !map_relabel_relabel.
  rewrite (relabel_back l2 (filter (has_label l2) d1)) by apply filter_has_label.
  rewrite (relabel_back l1 (filter (has_label l1) d2)) by apply filter_has_label.
  split.
  - eapply perm_trans; [apply Permutation_app_comm|]. apply filter_split.
  - eapply perm_trans; [apply Permutation_app_comm|]. apply filter_split.
Qed.

(* determinant VALUES are never touched by a transfer: the multiset of (id, value) pairs over both lists is preserved *)
Lemma sumv_relabel l (ds : list detR) : sumv (map (relabel l) ds) = sumv ds.
Proof. induction ds as [|d r IH]; cbn [map]; [reflexivity|]. rewrite !sumv_cons, IH. reflexivity. Qed.
Lemma sumv_filter_split (p : detR -> bool) l : sumv (filter p l) + sumv (filter (fun x => negb (p x)) l) = sumv l.
Proof. rewrite <- sumv_app. apply sumv_perm. apply filter_split. Qed.
Theorem transfer_preserves_total (d1 d2 : list detR) l1 l2 :
  let '(a, b) := transfer d1 d2 l1 l2 in sumv a + sumv b = sumv d1 + sumv d2.
Proof.
  unfold transfer. cbv zeta. rewrite !sumv_app, !sumv_relabel.
  pose proof (sumv_filter_split (has_label l2) d1). pose proof (sumv_filter_split (has_label l1) d2). lra.
Qed.

(* the analysis step swap; (evaluate); swap back: both groups are clean again, their lists are the old ones up to order,
   hence their pKa is exactly the old one *)
Theorem swap_twice_restores (s : stateR) g1 g2 : g1 <> g2 ->
  g_dirty (s g1) = false -> g_dirty (s g2) = false -> consistent (s g1) -> consistent (s g2) ->
  let s' := step (step s (OSwap g1 g2)) (OSwap g1 g2) in
  Permutation (g_sc (s' g1)) (g_sc (s g1)) /\ Permutation (g_co (s' g1)) (g_co (s g1)) /\ g_bb (s' g1) = g_bb (s g1) /\
  Permutation (g_sc (s' g2)) (g_sc (s g2)) /\ Permutation (g_co (s' g2)) (g_co (s g2)) /\ g_bb (s' g2) = g_bb (s g2) /\
  g_pka (s' g1) = g_pka (s g1) /\ g_pka (s' g2) = g_pka (s g2) /\
  (forall k, k <> g1 -> k <> g2 -> s' k = s k).
Proof.
  intros Hne D1 D2 C1 C2. cbv zeta.
  set (l1 := g_label (s g1)). set (l2 := g_label (s g2)).
  pose proof (transfer_involutive (g_co (s g1)) (g_co (s g2)) l1 l2) as Hco.
  pose proof (transfer_involutive (g_sc (s g1)) (g_sc (s g2)) l1 l2) as Hsc.
  cbn [step]. fold l1 l2.
  destruct (transfer (g_co (s g1)) (g_co (s g2)) l1 l2) as [c1 c2] eqn:Ec.
  destruct (transfer (g_sc (s g1)) (g_sc (s g2)) l1 l2) as [s1 s2] eqn:Es.
  (* state after the first swap *)
  set (x1 := with_dets (with_dets (s g1) CO c1 true) SC s1 true).
  set (x2 := with_dets (with_dets (s g2) CO c2 true) SC s2 true).
  set (st0 := upd (upd s g1 x1) g2 x2).
  set (st1 := upd st0 g1 (recompute (st0 g1))).
  set (st2 := upd st1 g2 (recompute (st1 g2))).
  assert (E1 : st2 g1 = recompute x1).
  { unfold st2. rewrite upd_other by exact Hne. unfold st1. rewrite upd_same. unfold st0. rewrite upd_other by exact Hne. rewrite upd_same. reflexivity. }
  assert (E2 : st2 g2 = recompute x2).
  { unfold st2. rewrite upd_same. unfold st1. rewrite upd_other by (intros E; apply Hne; congruence). unfold st0. rewrite upd_same. reflexivity. }
  assert (Eo : forall k, k <> g1 -> k <> g2 -> st2 k = s k).
  { intros k K1 K2. unfold st2, st1, st0. rewrite !upd_other by assumption. reflexivity. }
  rewrite E1, E2.
  assert (L1 : g_label (recompute x1) = l1) by reflexivity. assert (L2 : g_label (recompute x2) = l2) by reflexivity.
  rewrite L1, L2.
  assert (Hc1 : g_co (recompute x1) = c1) by reflexivity. assert (Hc2 : g_co (recompute x2) = c2) by reflexivity.
  assert (Hs1 : g_sc (recompute x1) = s1) by reflexivity. assert (Hs2 : g_sc (recompute x2) = s2) by reflexivity.
  rewrite Hc1, Hc2, Hs1, Hs2.
  destruct (transfer c1 c2 l1 l2) as [c1' c2'] eqn:Ec'. destruct (transfer s1 s2 l1 l2) as [s1' s2'] eqn:Es'.
  destruct Hco as [Pc1 Pc2]. destruct Hsc as [Ps1 Ps2].
  set (y1 := with_dets (with_dets (recompute x1) CO c1' true) SC s1' true).
  set (y2 := with_dets (with_dets (recompute x2) CO c2' true) SC s2' true).
  set (t0 := upd (upd st2 g1 y1) g2 y2).
  set (t1 := upd t0 g1 (recompute (t0 g1))).
  set (t2 := upd t1 g2 (recompute (t1 g2))).
  assert (F1 : t2 g1 = recompute y1).
  { unfold t2. rewrite upd_other by exact Hne. unfold t1. rewrite upd_same. unfold t0. rewrite upd_other by exact Hne. rewrite upd_same. reflexivity. }
  assert (F2 : t2 g2 = recompute y2).
  { unfold t2. rewrite upd_same. unfold t1. rewrite upd_other by (intros E; apply Hne; congruence). unfold t0. rewrite upd_same. reflexivity. }
  rewrite F1, F2.
  assert (B1 : g_bridged y1 = g_bridged (s g1)) by reflexivity. assert (B2 : g_bridged y2 = g_bridged (s g2)) by reflexivity.
  repeat split; try assumption; try reflexivity.
  - unfold recompute. cbn [with_pka g_pka]. rewrite B1. unfold consistent in C1. destruct (g_bridged (s g1)); [num_unfold; lra|].
    rewrite total_listed, C1. unfold listed.
    change (g_sc y1) with s1'. change (g_co y1) with c1'. change (g_bb y1) with (g_bb (s g1)).
    change (g_model y1) with (g_model (s g1)). change (g_vol y1) with (g_vol (s g1)). change (g_loc y1) with (g_loc (s g1)).
    rewrite (sumv_perm _ _ Ps1), (sumv_perm _ _ Pc1). reflexivity.
  - unfold recompute. cbn [with_pka g_pka]. rewrite B2. unfold consistent in C2. destruct (g_bridged (s g2)); [num_unfold; lra|].
    rewrite total_listed, C2. unfold listed.
    change (g_sc y2) with s2'. change (g_co y2) with c2'. change (g_bb y2) with (g_bb (s g2)).
    change (g_model y2) with (g_model (s g2)). change (g_vol y2) with (g_vol (s g2)). change (g_loc y2) with (g_loc (s g2)).
    rewrite (sumv_perm _ _ Ps2), (sumv_perm _ _ Pc2). reflexivity.
  - intros k K1 K2. unfold t2, t1, t0. rewrite !upd_other by assumption. apply Eo; assumption.
Qed.

(* ---------------------------------------------------------------- C08 / C02: the average *)
(* contribution towards partner class k *)
Definition sumk (k : nat) (l : list detR) : R := sumv (filter (fun d => Nat.eqb (d_key d) k) l).
Lemma sumk_add_det k f d (l : list detR) : sumk k (add_det f d l) = sumk k l + (if Nat.eqb (d_key d) k then d_val d else 0).
Proof.
  unfold sumk. induction l as [|e r IH]; cbn [add_det filter d_key].
  - destruct (Nat.eqb (d_key d) k); rewrite ?sumv_cons, ?sumv_nil; cbn [d_val]; lra.
  - destruct (Nat.eqb (d_key e) (d_key d)) eqn:E; cbn [filter d_key].
    + apply Nat.eqb_eq in E. rewrite <- E. destruct (Nat.eqb (d_key e) k); rewrite ?sumv_cons; cbn [d_val]; num_unfold; lra.
    + destruct (Nat.eqb (d_key e) k); rewrite ?sumv_cons, IH; lra.
Qed.
Lemma sumv_add_det f d (l : list detR) : sumv (add_det f d l) = sumv l + d_val d.
Proof.
  induction l as [|e r IH]; cbn [add_det]; [rewrite sumv_cons, !sumv_nil; cbn [d_val]; lra|].
  destruct (Nat.eqb (d_key e) (d_key d)); rewrite !sumv_cons; cbn [d_val].
  - num_unfold. lra.
  - rewrite IH. lra.
Qed.
Lemma iadd_dets_sum (others : list detR) : forall own fresh,
  sumv (fst (iadd_dets own others fresh)) = sumv own + sumv others /\
  forall k, sumk k (fst (iadd_dets own others fresh)) = sumk k own + sumk k others.
Proof.
  induction others as [|d r IH]; intros own fresh; cbn [iadd_dets fst].
  - split; [rewrite sumv_nil; lra|]. intros k. unfold sumk. cbn [filter]. rewrite sumv_nil. lra.
  - assert (Hs : forall f, sumv (add_det f d own) = sumv own + d_val d) by (intros; apply sumv_add_det).
    assert (Hk : forall f k, sumk k (add_det f d own) = sumk k own + (if Nat.eqb (d_key d) k then d_val d else 0)) by (intros; apply sumk_add_det).
    assert (Hr : forall k, sumk k (d :: r) = (if Nat.eqb (d_key d) k then d_val d else 0) + sumk k r).
    { intros k. unfold sumk. cbn [filter]. destruct (Nat.eqb (d_key d) k); rewrite ?sumv_cons; lra. }
    destruct (existsb _ own); [|destruct fresh as [|f fr]];
    (match goal with |- context [iadd_dets ?o r ?f] => destruct (IH o f) as [I1 I2] end);
    (split; [rewrite I1, Hs, sumv_cons; lra | intros k; rewrite I2, Hk, Hr; lra]).
Qed.

Record summand_ok (m : R) (b : bool) (g : grpR) : Prop := { so_cons : consistent g; so_model : g_model g = m; so_br : g_bridged g = b }.

(* accumulated quantities after adding the groups srcs to dst *)
Fixpoint iadd_all (s : stateR) (dst : nat) (srcs : list (nat * list nat)) : stateR :=
  match srcs with [] => s | (src, fresh) :: r => iadd_all (step s (OIadd dst src fresh)) dst r end.

Lemma iadd_step_fields (s : stateR) dst src fresh : dst <> src ->
  let s' := step s (OIadd dst src fresh) in
  g_pka (s' dst) = g_pka (s dst) + g_pka (s src) /\ g_vol (s' dst) = g_vol (s dst) + g_vol (s src) /\
  g_loc (s' dst) = g_loc (s dst) + g_loc (s src) /\ g_buried (s' dst) = g_buried (s dst) + g_buried (s src) /\
  sumv (g_sc (s' dst)) = sumv (g_sc (s dst)) + sumv (g_sc (s src)) /\
  sumv (g_bb (s' dst)) = sumv (g_bb (s dst)) + sumv (g_bb (s src)) /\
  sumv (g_co (s' dst)) = sumv (g_co (s dst)) + sumv (g_co (s src)) /\
  (forall k, sumk k (g_sc (s' dst)) = sumk k (g_sc (s dst)) + sumk k (g_sc (s src))) /\
  (forall k, sumk k (g_bb (s' dst)) = sumk k (g_bb (s dst)) + sumk k (g_bb (s src))) /\
  (forall k, sumk k (g_co (s' dst)) = sumk k (g_co (s dst)) + sumk k (g_co (s src))) /\
  g_model (s' dst) = g_model (s dst) /\ g_bridged (s' dst) = g_bridged (s dst) /\ (forall j, j <> dst -> s' j = s j).
Proof.
  intros Hne. cbv zeta. cbn [step].
  destruct (iadd_dets (g_sc (s dst)) (g_sc (s src)) fresh) as [sc fr1] eqn:E1.
  destruct (iadd_dets (g_bb (s dst)) (g_bb (s src)) fr1) as [bb fr2] eqn:E2.
  destruct (iadd_dets (g_co (s dst)) (g_co (s src)) fr2) as [co fr3] eqn:E3.
  destruct (iadd_dets_sum (g_sc (s src)) (g_sc (s dst)) fresh) as [A1 A2]. rewrite E1 in A1, A2. cbn [fst] in A1, A2.
  destruct (iadd_dets_sum (g_bb (s src)) (g_bb (s dst)) fr1) as [B1 B2]. rewrite E2 in B1, B2. cbn [fst] in B1, B2.
  destruct (iadd_dets_sum (g_co (s src)) (g_co (s dst)) fr2) as [C1 C2]. rewrite E3 in C1, C2. cbn [fst] in C1, C2.
  rewrite upd_same. cbn. num_unfold. repeat split; try assumption; try reflexivity.
  intros j Hj. apply upd_other. exact Hj.
Qed.

Definition mean_of (f : grpR -> R) (s : stateR) (srcs : list (nat * list nat)) : R :=
  fold_right (fun x acc => f (s (fst x)) + acc) 0 srcs.

Lemma mean_of_ext (f : grpR -> R) (s1 s2 : stateR) srcs :
  (forall x, In x (map fst srcs) -> s1 x = s2 x) -> mean_of f s1 srcs = mean_of f s2 srcs.
Proof.
  unfold mean_of. induction srcs as [|[a fa] t IH]; intros H; cbn [fold_right fst]; [reflexivity|].
  rewrite (H a) by (left; reflexivity). rewrite IH; [reflexivity|]. intros x Hx. apply H. right. exact Hx.
Qed.

Lemma mean_of_cons (f : grpR -> R) (s : stateR) a fr r : mean_of f s ((a, fr) :: r) = f (s a) + mean_of f s r.
Proof. reflexivity. Qed.
Lemma mean_of_nil (f : grpR -> R) (s : stateR) : mean_of f s [] = 0. Proof. reflexivity. Qed.

Lemma iadd_all_fields : forall (srcs : list (nat * list nat)) (s : stateR) dst, ~ In dst (map fst srcs) ->
  let s' := iadd_all s dst srcs in
  g_pka (s' dst) = g_pka (s dst) + mean_of (@g_pka R) s srcs /\ g_vol (s' dst) = g_vol (s dst) + mean_of (@g_vol R) s srcs /\
  g_loc (s' dst) = g_loc (s dst) + mean_of (@g_loc R) s srcs /\ g_buried (s' dst) = g_buried (s dst) + mean_of (@g_buried R) s srcs /\
  sumv (g_sc (s' dst)) = sumv (g_sc (s dst)) + mean_of (fun g => sumv (g_sc g)) s srcs /\
  sumv (g_bb (s' dst)) = sumv (g_bb (s dst)) + mean_of (fun g => sumv (g_bb g)) s srcs /\
  sumv (g_co (s' dst)) = sumv (g_co (s dst)) + mean_of (fun g => sumv (g_co g)) s srcs /\
  (forall k, sumk k (g_sc (s' dst)) = sumk k (g_sc (s dst)) + mean_of (fun g => sumk k (g_sc g)) s srcs) /\
  (forall k, sumk k (g_bb (s' dst)) = sumk k (g_bb (s dst)) + mean_of (fun g => sumk k (g_bb g)) s srcs) /\
  (forall k, sumk k (g_co (s' dst)) = sumk k (g_co (s dst)) + mean_of (fun g => sumk k (g_co g)) s srcs) /\
  g_model (s' dst) = g_model (s dst) /\ g_bridged (s' dst) = g_bridged (s dst).
Proof.
  induction srcs as [|[src fresh] r IH]; intros s dst Hn; cbv zeta; cbn [iadd_all]; rewrite ?mean_of_cons, ?mean_of_nil.
  - repeat split; try lra; intros; rewrite ?mean_of_nil; lra.
  - cbn [map In fst] in Hn. assert (Hne : dst <> src) by (intros E; apply Hn; left; congruence).
    assert (Hn' : ~ In dst (map fst r)) by (intros H; apply Hn; right; exact H).
    destruct (iadd_step_fields s dst src fresh Hne) as (P1 & P2 & P3 & P4 & P5 & P6 & P7 & P8 & P9 & P10 & P11 & P12 & Po).
    cbv zeta in *. set (s1 := step s (OIadd dst src fresh)) in *.
    destruct (IH s1 dst Hn') as (Q1 & Q2 & Q3 & Q4 & Q5 & Q6 & Q7 & Q8 & Q9 & Q10 & Q11 & Q12). cbv zeta in *.
    assert (Hm : forall f, mean_of f s1 r = mean_of f s r).
    { intros f. apply mean_of_ext. intros x Hx. apply Po. intros E. subst x. contradiction. }
    rewrite !Hm in *.
    split; [lra|]. split; [lra|]. split; [lra|]. split; [lra|]. split; [lra|]. split; [lra|]. split; [lra|].
    split; [intros k; rewrite mean_of_cons, Q8, P8, ?Hm; lra|]. split; [intros k; rewrite mean_of_cons, Q9, P9, ?Hm; lra|].
    split; [intros k; rewrite mean_of_cons, Q10, P10, ?Hm; lra|].
    split; [rewrite Q11; exact P11 | rewrite Q12; exact P12].
Qed.

(* the average produced by clone; += every conformation's group; / n  is the arithmetic mean of the summands,
   provided the divisor is the number of summands *)
Theorem average_is_mean (s : stateR) dst src0 (srcs : list (nat * list nat)) :
  ~ In dst (map fst srcs) -> srcs <> [] ->
  let n := INR (length srcs) in
  let s' := step (iadd_all (step s (OClone dst src0)) dst srcs) (ODiv dst n) in
  (dst <> src0 \/ True) ->
  g_pka (s' dst) = mean_of (@g_pka R) (step s (OClone dst src0)) srcs / n /\
  g_vol (s' dst) = mean_of (@g_vol R) (step s (OClone dst src0)) srcs / n /\
  g_loc (s' dst) = mean_of (@g_loc R) (step s (OClone dst src0)) srcs / n /\
  g_buried (s' dst) = mean_of (@g_buried R) (step s (OClone dst src0)) srcs / n.
Proof.
  intros Hn Hne. cbv zeta. intros _. set (sc := step s (OClone dst src0)).
  destruct (iadd_all_fields srcs sc dst Hn) as (Q1 & Q2 & Q3 & Q4 & _). cbv zeta in *.
  cbn [step]. rewrite upd_same. cbn [g_pka g_vol g_loc g_buried]. num_unfold. rewrite Q1, Q2, Q3, Q4.
  unfold sc. cbn [step]. rewrite upd_same. cbn. unfold fzero. num_unfold. rewrite l0. repeat split; f_equal; lra.
Qed.

Definition divd (n : R) (d : detR) : detR := {| d_id := d_id d; d_key := d_key d; d_glabel := d_glabel d; d_label := d_label d; d_val := d_val d / n |}.
Lemma sumv_divd n (l : list detR) : sumv (map (divd n) l) = sumv l / n.
Proof. induction l as [|d r IH]; cbn [map]; [rewrite !sumv_nil; lra|]. rewrite !sumv_cons, IH. cbn [divd d_val]. lra. Qed.
Lemma sumk_divd n k (l : list detR) : sumk k (map (divd n) l) = sumk k l / n.
Proof.
  unfold sumk. induction l as [|d r IH]; cbn [map filter]; [rewrite !sumv_nil; lra|]. cbn [divd d_key].
  destruct (Nat.eqb (d_key d) k); rewrite ?sumv_cons, IH; cbn [divd d_val]; lra.
Qed.

Section Average.
Variable s : stateR.
Variables dst src0 : nat.
Variable srcs : list (nat * list nat).
Hypothesis Hdst : ~ In dst (map fst srcs).
Hypothesis Hne : srcs <> [].
Let n := INR (length srcs).
Let sc := step s (OClone dst src0).
Let s' := step (iadd_all sc dst srcs) (ODiv dst n).

Lemma n_pos : n <> 0.
Proof. unfold n. apply not_0_INR. destruct srcs; [congruence|discriminate]. Qed.

Lemma final_fields :
  g_pka (s' dst) = mean_of (@g_pka R) sc srcs / n /\ g_vol (s' dst) = mean_of (@g_vol R) sc srcs / n /\
  g_loc (s' dst) = mean_of (@g_loc R) sc srcs / n /\ g_buried (s' dst) = mean_of (@g_buried R) sc srcs / n /\
  sumv (g_sc (s' dst)) = mean_of (fun g => sumv (g_sc g)) sc srcs / n /\
  sumv (g_bb (s' dst)) = mean_of (fun g => sumv (g_bb g)) sc srcs / n /\
  sumv (g_co (s' dst)) = mean_of (fun g => sumv (g_co g)) sc srcs / n /\
  (forall k, sumk k (g_sc (s' dst)) = mean_of (fun g => sumk k (g_sc g)) sc srcs / n) /\
  (forall k, sumk k (g_bb (s' dst)) = mean_of (fun g => sumk k (g_bb g)) sc srcs / n) /\
  (forall k, sumk k (g_co (s' dst)) = mean_of (fun g => sumk k (g_co g)) sc srcs / n) /\
  g_model (s' dst) = g_model (s src0) /\ g_bridged (s' dst) = g_bridged (s src0).
Proof.
  destruct (iadd_all_fields srcs sc dst Hdst) as (Q1 & Q2 & Q3 & Q4 & Q5 & Q6 & Q7 & Q8 & Q9 & Q10 & Q11 & Q12). cbv zeta in *.
  assert (Hc : g_pka (sc dst) = 0 /\ g_vol (sc dst) = 0 /\ g_loc (sc dst) = 0 /\ g_buried (sc dst) = 0 /\
               g_sc (sc dst) = [] /\ g_bb (sc dst) = [] /\ g_co (sc dst) = [] /\ g_model (sc dst) = g_model (s src0) /\
               g_bridged (sc dst) = g_bridged (s src0)).
  { unfold sc. cbn [step]. rewrite upd_same. cbn. unfold fzero. num_unfold. rewrite l0. repeat split; reflexivity. }
  destruct Hc as (C1 & C2 & C3 & C4 & C5 & C6 & C7 & C8 & C9).
  unfold s'. cbn [step]. rewrite upd_same. cbn [g_pka g_vol g_loc g_buried g_sc g_bb g_co g_model g_bridged]. num_unfold.
  change (map (fun d : detR => {| d_id := d_id d; d_key := d_key d; d_glabel := d_glabel d; d_label := d_label d; d_val := d_val d / n |}))
    with (map (divd n)).
  rewrite !sumv_divd. rewrite Q1, Q2, Q3, Q4, Q5, Q6, Q7, Q11, Q12, C1, C2, C3, C4, C5, C6, C7, C8, C9, !sumv_nil.
  repeat split; try (f_equal; lra).
  - intros k. rewrite sumk_divd, Q8, C5. unfold sumk at 1. cbn [filter]. rewrite sumv_nil. f_equal. lra.
  - intros k. rewrite sumk_divd, Q9, C6. unfold sumk at 1. cbn [filter]. rewrite sumv_nil. f_equal. lra.
  - intros k. rewrite sumk_divd, Q10, C7. unfold sumk at 1. cbn [filter]. rewrite sumv_nil. f_equal. lra.
Qed.

(* C08: every reported average quantity is the arithmetic mean over the conformations that were added *)
Theorem average_is_mean_over_present :
  g_pka (s' dst) = mean_of (@g_pka R) sc srcs / n /\ g_vol (s' dst) = mean_of (@g_vol R) sc srcs / n /\
  g_loc (s' dst) = mean_of (@g_loc R) sc srcs / n /\ g_buried (s' dst) = mean_of (@g_buried R) sc srcs / n /\
  (forall k, sumk k (g_sc (s' dst)) = mean_of (fun g => sumk k (g_sc g)) sc srcs / n) /\
  (forall k, sumk k (g_bb (s' dst)) = mean_of (fun g => sumk k (g_bb g)) sc srcs / n) /\
  (forall k, sumk k (g_co (s' dst)) = mean_of (fun g => sumk k (g_co g)) sc srcs / n).
Proof. destruct final_fields as (A & B & C & D & _ & _ & _ & E & F & G & _). auto 10. Qed.

(* C02 for the average: if every summand is consistent and they share model pKa and bridge status, so is the average *)
Lemma mean_linear (f g : grpR -> R) (c : R) : (forall x, In x (map fst srcs) -> f (sc x) = c + g (sc x)) ->
  mean_of f sc srcs = n * c + mean_of g sc srcs.
Proof.
  unfold n. clear Hne Hdst s'. induction srcs as [|[a fa] r IH]; intros H.
  - rewrite !mean_of_nil. cbn. lra.
  - rewrite !mean_of_cons, IH by (intros x Hx; apply H; right; exact Hx). rewrite (H a) by (left; reflexivity).
    cbn [length]. rewrite S_INR. lra.
Qed.

Theorem average_consistent m b :
  g_model (s src0) = m -> g_bridged (s src0) = b ->
  (forall x, In x (map fst srcs) -> consistent (s x) /\ g_model (s x) = m /\ g_bridged (s x) = b) ->
  consistent (s' dst).
Proof.
  intros Hm Hb Hall. destruct final_fields as (A & B & C & D & E & F & G & _ & _ & _ & M & Br).
  assert (Hsx : forall x, In x (map fst srcs) -> sc x = s x).
  { intros x Hx. unfold sc. cbn [step]. apply upd_other. intros Ex. subst x. contradiction. }
  pose proof n_pos as Hn.
  unfold consistent. rewrite Br, Hb. destruct b.
  - rewrite A. rewrite (mean_linear (@g_pka R) (fun _ => 0) (9999/100)).
    + assert (Hz : mean_of (fun _ : grpR => 0) sc srcs = 0).
      { clear. induction srcs as [|[a fa] r IH]; [reflexivity|]. rewrite mean_of_cons, IH. lra. }
      rewrite Hz. field. exact Hn.
    + intros x Hx. rewrite (Hsx x Hx). destruct (Hall x Hx) as (Cx & _ & Bx). unfold consistent in Cx. rewrite Bx in Cx. lra.
  - unfold listed. rewrite A, B, C, E, F, G, M, Hm.
    rewrite (mean_linear (@g_pka R) (fun g => g_vol g + g_loc g + sumv (g_sc g) + sumv (g_bb g) + sumv (g_co g)) m).
    + assert (Hsplit : mean_of (fun g => g_vol g + g_loc g + sumv (g_sc g) + sumv (g_bb g) + sumv (g_co g)) sc srcs
                       = mean_of (@g_vol R) sc srcs + mean_of (@g_loc R) sc srcs + mean_of (fun g => sumv (g_sc g)) sc srcs
                         + mean_of (fun g => sumv (g_bb g)) sc srcs + mean_of (fun g => sumv (g_co g)) sc srcs).
      { clear. induction srcs as [|[a fa] r IH]; [rewrite !mean_of_nil; lra|]. rewrite !mean_of_cons, IH. lra. }
      rewrite Hsplit. field. exact Hn.
    + intros x Hx. rewrite (Hsx x Hx). destruct (Hall x Hx) as (Cx & Mx & Bx). unfold consistent in Cx. rewrite Bx in Cx.
      rewrite Cx. unfold listed. rewrite Mx. lra.
Qed.
End Average.

(* the divisor matters: dividing by the number of conformations when a conformation lacks the group breaks the equation
   (this is what the unrepaired average_of_conformations did) *)
Lemma wrong_divisor_refuted :
  exists (s : stateR), consistent (s 1%nat) /\ g_dirty (s 1%nat) = false /\
    ~ consistent (step (step (step s (OClone 0 1)) (OIadd 0 1 [])) (ODiv 0 2) 0%nat).
Proof.
  exists (run [ONew 1 1 1 4 false; ORecompute 1]). split; [|split].
  - apply clean_groups_consistent. reflexivity.
  - reflexivity.
  - unfold run, consistent, listed. cbn. rewrite !sumv_nil. unfold fzero. num_unfold. lra.
Qed.

(* ------------------------------------------------------------------ C16 for the reported average: ranges and signs survive averaging *)
Lemma mean_of_bounds (f : grpR -> R) (s : stateR) srcs lo hi :
  (forall x, In x (map fst srcs) -> lo <= f (s x) <= hi) ->
  lo * INR (length srcs) <= mean_of f s srcs <= hi * INR (length srcs).
Proof.
  induction srcs as [|[a fa] t IH]; intros H.
  - rewrite mean_of_nil. cbn [length INR]. lra.
  - rewrite mean_of_cons. change (length ((a, fa) :: t)) with (S (length t)). rewrite S_INR.
    assert (Ha := H a (or_introl eq_refl)).
    assert (Ht : lo * INR (length t) <= mean_of f s t <= hi * INR (length t)) by (apply IH; intros x Hx; apply H; right; exact Hx).
    cbn [fst] in Ha. lra.
Qed.
Theorem average_in_range (f : grpR -> R) (s : stateR) dst src0 (srcs : list (nat * list nat)) lo hi :
  ~ In dst (map fst srcs) -> srcs <> [] ->
  (forall x, In x (map fst srcs) -> lo <= f (s x) <= hi) ->
  let n := INR (length srcs) in let sc := step s (OClone dst src0) in
  lo <= mean_of f sc srcs / n <= hi.
Proof.
  intros Hd Hne H n sc.
  assert (Hn : 0 < n) by (unfold n; apply lt_0_INR; destruct srcs; [congruence | cbn; apply Nat.lt_0_succ]).
  assert (Hb : lo * n <= mean_of f sc srcs <= hi * n).
  { apply mean_of_bounds. intros x Hx. assert (E : sc x = s x).
    { unfold sc. cbn [step]. apply upd_other. intros ->. apply Hd. exact Hx. }
    rewrite E. apply H. exact Hx. }
  split.
  - apply Rmult_le_reg_r with n; [exact Hn|]. unfold Rdiv. rewrite Rmult_assoc, Rinv_l by lra. lra.
  - apply Rmult_le_reg_r with n; [exact Hn|]. unfold Rdiv. rewrite Rmult_assoc, Rinv_l by lra. lra.
Qed.

Lemma average_buried_fraction_unit : forall (s : stateR) dst src0 (srcs : list (nat * list nat)),
  ~ In dst (map fst srcs) -> srcs <> [] -> (forall x, In x (map fst srcs) -> 0 <= g_buried (s x) <= 1) ->
  let n := INR (length srcs) in let sc := step s (OClone dst src0) in
  let s' := step (iadd_all sc dst srcs) (ODiv dst n) in 0 <= g_buried (s' dst) <= 1.
Proof.
  intros s dst src0 srcs H1 H2 H3 n sc s'.
  destruct (average_is_mean_over_present s dst src0 srcs H1) as (_ & _ & _ & D & _). unfold s', sc, n. rewrite D.
  exact (average_in_range (@g_buried R) s dst src0 srcs 0 1 H1 H2 H3).
Qed.

Lemma average_desolvation_range : forall (s : stateR) dst src0 (srcs : list (nat * list nat)) lo hi,
  ~ In dst (map fst srcs) -> srcs <> [] -> (forall x, In x (map fst srcs) -> lo <= g_vol (s x) <= hi) ->
  let n := INR (length srcs) in let sc := step s (OClone dst src0) in
  let s' := step (iadd_all sc dst srcs) (ODiv dst n) in lo <= g_vol (s' dst) <= hi.
Proof.
  intros s dst src0 srcs lo hi H1 H2 H3 n sc s'.
  destruct (average_is_mean_over_present s dst src0 srcs H1) as (_ & B & _). unfold s', sc, n. rewrite B.
  exact (average_in_range (@g_vol R) s dst src0 srcs lo hi H1 H2 H3).
Qed.

Lemma single_conformation_identity : forall (s : stateR) dst src fresh, dst <> src ->
  let s' := step (iadd_all (step s (OClone dst src)) dst [(src, fresh)]) (ODiv dst 1) in
  g_pka (s' dst) = g_pka (s src) /\ g_vol (s' dst) = g_vol (s src) /\ g_loc (s' dst) = g_loc (s src).
Proof.
  intros s dst src fresh Hne. cbv zeta.
  assert (H1 : ~ In dst (map fst [(src, fresh)])) by (cbn; intros [E|[]]; congruence).
  assert (H2 : [(src, fresh)] <> []) by discriminate.
  destruct (average_is_mean_over_present s dst src [(src, fresh)] H1) as (A & B & C & _).
  cbn [length INR] in A, B, C. rewrite A, B, C. rewrite !mean_of_cons, !mean_of_nil.
  assert (E : step s (OClone dst src) src = s src) by (cbn [step]; apply upd_other; congruence). rewrite E.
  repeat split; field.
Qed.
