From Coq Require Import String Ascii List Bool ZArith Lia.
From V Require Import PyString Titrate.
Import ListNotations.
Open Scope string_scope.

Lemma key_eqb_eq a b : key_eqb a b = true <-> a = b.
Proof.
  destruct a as [[c1 n1] i1], b as [[c2 n2] i2]. unfold key_eqb. rewrite !andb_true_iff, !String.eqb_eq, Z.eqb_eq.
  split; [intros [[-> ->] ->]; reflexivity | intros H; injection H as -> -> ->; auto].
Qed.
Lemma key_mem_In k l : key_mem k l = true <-> In k l.
Proof.
  induction l as [|x r IH]; cbn [key_mem In]; [split; [discriminate | tauto]|].
  rewrite orb_true_iff, key_eqb_eq, IH. split; intros [H|H]; auto.
Qed.

Section Flags.
Context {E : Type}.
Implicit Types (g : grp E) (l : list reskey).

(* exactly the listed groups stay titratable *)
Theorem titratable_exactly_listed l g : g_titratable (init_group (Some l) g) = g_titratable g && key_mem (g_key g) l.
Proof. unfold init_group. destruct (key_mem (g_key g) l); cbn; [rewrite andb_true_r | rewrite andb_false_r]; reflexivity. Qed.
(* exactly the listed groups are reported (fresh groups have exclude_cys_from_results = False) *)
Theorem reported_exactly_listed l g : g_excl g = false ->
  use_in_calculations (init_group (Some l) g) = use_in_calculations g && key_mem (g_key g) l.
Proof.
  intros Hx. unfold init_group, use_in_calculations. destruct (key_mem (g_key g) l); cbn.
  - rewrite andb_true_r. reflexivity.
  - rewrite Hx. destruct (g_is_cys g), (g_titratable g); reflexivity.
Qed.
(* nothing else about any group changes: key, residue type and the whole environment payload *)
Theorem environment_untouched o g :
  g_key (init_group o g) = g_key g /\ g_is_cys (init_group o g) = g_is_cys g /\ g_env (init_group o g) = g_env g.
Proof. destruct o as [l|]; cbn; [destruct (key_mem (g_key g) l); cbn|]; auto. Qed.
Theorem listed_untouched l g : key_mem (g_key g) l = true -> init_group (Some l) g = g.
Proof. intros H. unfold init_group. rewrite H. reflexivity. Qed.
(* listing every residue of the structure = no option *)
Theorem all_listed_is_no_option l (gs : list (grp E)) :
  (forall g, In g gs -> In (g_key g) l) -> map (init_group (Some l)) gs = map (init_group None) gs.
Proof.
  intros H. apply map_ext_in. intros g Hg. cbn [init_group]. rewrite (proj2 (key_mem_In _ _) (H g Hg)). reflexivity.
Qed.
(* only membership matters: order, repetitions and entries naming no residue of the structure have no effect *)
Theorem same_members_same_effect l1 l2 (gs : list (grp E)) :
  (forall g, In g gs -> (In (g_key g) l1 <-> In (g_key g) l2)) -> map (init_group (Some l1)) gs = map (init_group (Some l2)) gs.
Proof.
  intros H. apply map_ext_in. intros g Hg. unfold init_group.
  assert (Hm : key_mem (g_key g) l1 = key_mem (g_key g) l2).
  { specialize (H g Hg). destruct (key_mem (g_key g) l1) eqn:E1, (key_mem (g_key g) l2) eqn:E2; try reflexivity.
    - apply key_mem_In in E1. apply H in E1. apply key_mem_In in E1. congruence.
    - apply key_mem_In in E2. apply H in E2. apply key_mem_In in E2. congruence. }
  rewrite Hm. reflexivity.
Qed.
Corollary nonexistent_entries_no_effect l extra (gs : list (grp E)) :
  (forall g, In g gs -> ~ In (g_key g) extra) -> map (init_group (Some (l ++ extra)%list)) gs = map (init_group (Some l)) gs.
Proof.
  intros H. apply same_members_same_effect. intros g Hg. rewrite in_app_iff. specialize (H g Hg). tauto.
Qed.
End Flags.

(* ---------------- the list syntax ---------------- *)
Fixpoint has_char (c : ascii) (s : string) : bool :=
  match s with EmptyString => false | String x r => Ascii.eqb x c || has_char c r end.

Lemma split_nosep sep s : has_char sep s = false -> split sep s = [s].
Proof.
  induction s as [|c r IH]; cbn; [reflexivity|]. rewrite orb_false_iff. intros [H1 H2]. rewrite H1, (IH H2). reflexivity.
Qed.
Lemma split_app sep a b : has_char sep a = false -> split sep (a ++ String sep b) = a :: split sep b.
Proof.
  induction a as [|c r IH]; cbn; intros H.
  - rewrite Ascii.eqb_refl. reflexivity.
  - apply orb_false_iff in H as [H1 H2]. rewrite H1, (IH H2). reflexivity.
Qed.
Lemma split_join sep items : items <> [] -> Forall (fun s => has_char sep s = false) items -> split sep (join sep items) = items.
Proof.
  induction items as [|x r IH]; [congruence|]. intros _ HF. apply Forall_inv in HF as Hx. apply Forall_inv_tail in HF.
  destruct r as [|y r']; cbn [join]; [apply split_nosep; exact Hx|].
  rewrite split_app by exact Hx. f_equal. apply IH; [discriminate | exact HF].
Qed.

(* "chain:num" *)
Theorem parse_plain chain num n : has_char ":" chain = false -> has_char ":" num = false -> py_int num = Ok n ->
  parse_res_string (chain ++ String ":" num) = Ok (chain, n, " ").
Proof.
  intros Hc Hn Hi. unfold parse_res_string. rewrite split_app by exact Hc. rewrite (split_nosep _ _ Hn), Hi. reflexivity.
Qed.
Lemma but_last_app s c : but_last (s ++ String c EmptyString) = s.
Proof. induction s as [|x r IH]; cbn; [reflexivity|]. rewrite IH. destruct r; reflexivity. Qed.
Lemma last_char_app s c : last_char (s ++ String c EmptyString) = Some c.
Proof. induction s as [|x r IH]; cbn; [reflexivity|]. rewrite IH. destruct r; reflexivity. Qed.
Lemma has_char_app c a b : has_char c (a ++ b) = has_char c a || has_char c b.
Proof. induction a as [|x r IH]; cbn; [reflexivity|]. rewrite IH, orb_assoc. reflexivity. Qed.
(* "chain:num<icode>" *)
Theorem parse_icode chain num c n : has_char ":" chain = false -> has_char ":" num = false -> Ascii.eqb c ":" = false ->
  py_int num = Ok n -> (forall m, py_int (num ++ String c EmptyString) <> Ok m) ->
  parse_res_string (chain ++ String ":" (num ++ String c EmptyString)) = Ok (chain, n, String c EmptyString).
Proof.
  intros Hc Hn Hcc Hi Hbad. unfold parse_res_string. rewrite split_app by exact Hc.
  rewrite split_nosep by (rewrite has_char_app, Hn; cbn; rewrite Hcc; reflexivity).
  destruct (py_int (num ++ String c EmptyString)) as [m|e] eqn:E; [exfalso; exact (Hbad m eq_refl)|].
  rewrite but_last_app, last_char_app, Hi. reflexivity.
Qed.

(* digit strings: int() of a non-empty run of digits succeeds; appending a letter makes it fail *)
Fixpoint all_digits (s : string) : bool := match s with EmptyString => true | String c r => is_digit c && all_digits r end.
Fixpoint dec_val (s : string) (acc : Z) : Z :=
  match s with EmptyString => acc | String c r => dec_val r (acc * 10 + Z.of_nat (code c - 48))%Z end.
Fixpoint no_space (s : string) : bool := match s with EmptyString => true | String c r => negb (is_space c) && no_space r end.

Lemma digit_facts c : is_digit c = true -> is_space c = false /\ Nat.eqb (code c) 45 = false /\ Nat.eqb (code c) 43 = false.
Proof. destruct c as [[] [] [] [] [] [] [] []]; cbn; intros H; try discriminate H; repeat split; reflexivity. Qed.
Lemma int_digits_run s : forall acc, all_digits s = true -> int_digits s acc false true = Ok (dec_val s acc).
Proof.
  induction s as [|c r IH]; intros acc Hd; cbn in *; [reflexivity|].
  apply andb_true_iff in Hd as [Hc Hr]. rewrite Hc. apply IH. exact Hr.
Qed.
Lemma int_digits_bad s c : forall acc pu any, all_digits s = true -> is_digit c = false -> Nat.eqb (code c) 95 = false ->
  int_digits (s ++ String c EmptyString) acc pu any = Err ValueError.
Proof.
  induction s as [|x r IH]; intros acc pu any Hd Hc Hu; cbn in *.
  - rewrite Hc, Hu. reflexivity.
  - apply andb_true_iff in Hd as [Hx Hr]. rewrite Hx. apply IH; assumption.
Qed.
Lemma rstrip_no_space s : no_space s = true -> rstrip s = s.
Proof.
  induction s as [|c r IH]; cbn; [reflexivity|]. intros H. apply andb_true_iff in H as [Hc Hr]. rewrite (IH Hr).
  destruct r; [apply negb_true_iff in Hc; rewrite Hc|]; reflexivity.
Qed.
Lemma lstrip_no_space s : no_space s = true -> lstrip s = s.
Proof. destruct s as [|c r]; cbn; [reflexivity|]. intros H. apply andb_true_iff in H as [Hc _]. apply negb_true_iff in Hc. rewrite Hc. reflexivity. Qed.
Lemma strip_no_space s : no_space s = true -> strip s = s.
Proof. intros H. unfold strip. rewrite (lstrip_no_space _ H). apply rstrip_no_space. exact H. Qed.
Lemma digits_no_space s : all_digits s = true -> no_space s = true.
Proof.
  induction s as [|c r IH]; cbn; [reflexivity|]. intros H. apply andb_true_iff in H as [Hc Hr].
  rewrite (IH Hr), (proj1 (digit_facts c Hc)). reflexivity.
Qed.
Lemma no_space_app a b : no_space (a ++ b) = no_space a && no_space b.
Proof. induction a as [|x r IH]; cbn; [reflexivity|]. rewrite IH, andb_assoc. reflexivity. Qed.

(* int() of a non-empty run of digits is its decimal value; with one more non-digit character it is a ValueError *)
Theorem py_int_numeral c r : all_digits (String c r) = true -> py_int (String c r) = Ok (dec_val (String c r) 0).
Proof.
  intros Hd. unfold py_int. rewrite (strip_no_space _ (digits_no_space _ Hd)).
  cbn in Hd. apply andb_true_iff in Hd as [Hc Hr]. destruct (digit_facts c Hc) as (_ & H45 & H43). rewrite H45, H43.
  cbn [int_digits]. rewrite Hc. cbn [dec_val]. apply int_digits_run. exact Hr.
Qed.
Theorem py_int_numeral_icode c r ic : all_digits (String c r) = true -> is_digit ic = false -> Nat.eqb (code ic) 95 = false -> is_space ic = false ->
  py_int (String c r ++ String ic EmptyString) = Err ValueError.
Proof.
  intros Hd Hi Hu Hs. unfold py_int.
  rewrite strip_no_space by (rewrite no_space_app, (digits_no_space _ Hd); cbn; rewrite Hs; reflexivity).
  cbn in Hd. apply andb_true_iff in Hd as [Hc Hr]. destruct (digit_facts c Hc) as (_ & H45 & H43).
  cbn [append]. rewrite H45, H43. cbn [int_digits]. rewrite Hc. apply int_digits_bad; assumption.
Qed.
Lemma digits_no_colon s : all_digits s = true -> has_char ":" s = false.
Proof.
  induction s as [|c r IH]; cbn; [reflexivity|]. intros H. apply andb_true_iff in H as [Hc Hr]. rewrite (IH Hr), orb_false_r.
  destruct c as [[] [] [] [] [] [] [] []]; cbn in *; try discriminate Hc; reflexivity.
Qed.

(* the documented syntax: "chain:number" and "chain:number<insertion code>" for every chain text without a colon, every decimal numeral and
   every insertion code that is not a digit, an underscore, white space or a colon *)
Theorem parse_documented_syntax chain c r : has_char ":" chain = false -> all_digits (String c r) = true ->
  parse_res_string (chain ++ String ":" (String c r)) = Ok (chain, dec_val (String c r) 0, " ") /\
  (forall ic, is_digit ic = false -> Nat.eqb (code ic) 95 = false -> is_space ic = false -> Ascii.eqb ic ":" = false ->
     parse_res_string (chain ++ String ":" (String c r ++ String ic EmptyString)) = Ok (chain, dec_val (String c r) 0, String ic EmptyString)).
Proof.
  intros Hc Hd. split.
  - apply parse_plain; [exact Hc | apply digits_no_colon; exact Hd | apply py_int_numeral; exact Hd].
  - intros ic H1 H2 H3 H4. apply parse_icode; [exact Hc | apply digits_no_colon; exact Hd | exact H4 | apply py_int_numeral; exact Hd |].
    intros m Hm. rewrite (py_int_numeral_icode c r ic Hd H1 H2 H3) in Hm. discriminate.
Qed.

(* the comma-separated list *)
Theorem parse_list_joined items keys : items <> [] -> Forall (fun s => has_char "," s = false) items ->
  Forall2 (fun s k => parse_res_string s = Ok k) items keys -> parse_res_list (join "," items) = Ok keys.
Proof.
  intros Hne Hf H2. unfold parse_res_list. rewrite split_join by assumption. clear Hne Hf.
  induction H2 as [|s k r ks Hs _ IH]; cbn [parse_all]; [reflexivity|]. rewrite Hs, IH. reflexivity.
Qed.

(* ------------------------------------------------------------------ the flags of a group on a bridged atom (C11) *)
Lemma init_group_lowers {E} o (g : grp E) : g_titratable (init_group o g) = true -> g_titratable g = true.
Proof. destruct o as [l|]; cbn [init_group]; [destruct (negb (key_mem (g_key g) l)); cbn; [discriminate | auto] | auto]. Qed.
Lemma flag_step_bridge_monotone {E} (st : flag_state E) o : fst st = true -> fst (flag_step st o) = true.
Proof. destruct st as [b g]; cbn [fst]; intros ->; destruct o; reflexivity. Qed.
Lemma flag_step_keeps_untitrated {E} (st : flag_state E) o :
  fst st = true -> g_titratable (snd st) = false -> g_titratable (snd (flag_step st o)) = false.
Proof.
  destruct st as [b g]; cbn [fst snd]; intros -> Hg; destruct o as [mps|l| |]; cbn [flag_step snd g_titratable]; auto.
  - rewrite andb_false_r; reflexivity.
  - destruct (g_titratable (init_group l g)) eqn:H; [apply init_group_lowers in H; congruence | reflexivity].
Qed.
(* whatever happens to a group whose atom is bridged when the group is created: it is never titratable *)
Lemma bridged_never_titratable {E} (ops : list flag_op) (st : flag_state E) :
  fst st = true -> g_titratable (snd st) = false ->
  fst (flag_run st ops) = true /\ g_titratable (snd (flag_run st ops)) = false.
Proof.
  unfold flag_run. revert st. induction ops as [|o ops IH]; cbn [fold_left]; intros st Hb Hg; [auto|].
  apply IH; [apply flag_step_bridge_monotone | apply flag_step_keeps_untitrated]; assumption.
Qed.
Lemma bridged_from_init {E} k is_cys (env : E) ops :
  g_titratable (snd (flag_run (flag_init k is_cys true env) ops)) = false.
Proof. apply (bridged_never_titratable ops (flag_init k is_cys true env)); reflexivity. Qed.
(* the pipeline of a free group: setup, then the restriction *)
Lemma free_group_flags {E} k is_cys (env : E) mps o :
  g_titratable (snd (flag_run (flag_init k is_cys false env) [OpSetup mps; OpRestrict o])) =
  mps && match o with None => true | Some l => key_mem k l end.
Proof.
  cbn. destruct o as [l|]; cbn [init_group g_key]; [|rewrite !andb_true_r; reflexivity].
  destruct (key_mem k l); cbn; rewrite ?andb_true_r, ?andb_false_r; reflexivity.
Qed.
(* a bridged cysteine stays in the results unless the restriction excludes it, exactly as a free one *)
Lemma bridged_cys_reported {E} k (env : E) mps o :
  use_in_calculations (snd (flag_run (flag_init k true true env) [OpSetup mps; OpRestrict o])) =
  match o with None => true | Some l => key_mem k l end.
Proof.
  cbn. rewrite andb_false_r. destruct o as [l|]; cbn [init_group g_key]; [|reflexivity].
  destruct (key_mem k l); reflexivity.
Qed.

Lemma bridge_flag_never_cleared : forall {E : Type} (st : flag_state E) ops, fst st = true -> fst (flag_run st ops) = true.
Proof. intros E st ops Hb. destruct (g_titratable (snd st)) eqn:Hg.
  - revert st Hb Hg. unfold flag_run. induction ops as [|o ops IH]; cbn [fold_left]; intros st Hb Hg; [exact Hb|].
    destruct (g_titratable (snd (flag_step st o))) eqn:H2; [apply IH; [apply flag_step_bridge_monotone; exact Hb | exact H2]|].
    apply (bridged_never_titratable ops (flag_step st o)); [apply flag_step_bridge_monotone; exact Hb | exact H2].
  - apply (bridged_never_titratable ops st Hb Hg).
Qed.
