(* C18 (finite part): facts about the shipped propka.cfg, parsed INSIDE Coq by the model of parse_line from
   the raw text that tables.py re-reads from /repo on every run; all by vm_compute over the stated finite domain. *)
From Coq Require Import String Ascii List Bool ZArith QArith.
From V Require Import Params Cfg_gen.
Import ListNotations.
Open Scope string_scope.

Definition shipped_opt : option params := parse_cfg param_kinds cfg_text.
Definition shipped : params := match shipped_opt with Some p => p | None => p0 end.

Fixpoint mem (s : string) (l : list string) : bool := match l with [] => false | x :: r => String.eqb s x || mem s r end.
Fixpoint dedup (l : list string) : list string :=
  match l with [] => [] | x :: r => if mem x r then dedup r else x :: dedup r end.
Fixpoint nodupb (l : list string) : bool := match l with [] => true | x :: r => negb (mem x r) && nodupb r end.

(* group types the program can create under the shipped `ligand_typing groups`:
   every `self.type = '...'` of a Group subclass, minus the Marvin-only classes; BBN/BBC are filtered out before
   the matrix look-up (get_sidechain_groups) and ION is scored by set_ion_determinants, never through the matrix *)
Definition marvin_only := ["TitratableLigandGroup"; "NonTitratableLigandGroup"].
Definition creatable_types : list string :=
  dedup (flat_map snd (filter (fun c => negb (mem (fst c) marvin_only)) group_classes)).
Definition lookup_types : list string := filter (fun t => negb (mem t ["BBN"; "BBC"; "ION"])) creatable_types.

Definition is_itype (o : option string) : bool := match o with Some v => mem v ["I"; "N"; "-"] | None => false end.
Definition matrix_complete_b : bool :=
  forallb (fun t1 => forallb (fun t2 => is_itype (im_get (imx shipped) t1 t2)) lookup_types) lookup_types.

Definition keys {V} (d : dict V) : list string := dedup (map fst d).
Definition nd_get (f k : string) : option string := get2 (nd shipped) f k.
Definition sl_get (f : string) : list string := match dget f (sl shipped) with Some l => l | None => [] end.
Definition sc_get (f : string) : option string := dget f (sc shipped).

Definition starts_with (pre s : string) : bool := String.eqb (substring 0 (String.length pre) s) pre.
(* group type carrying the charge of a reported residue type *)
Definition type_of (r : string) : string :=
  match find (fun kv => starts_with (r ++ "-") (fst kv)) (drow "protein_group_mapping" (sd shipped)) with
  | Some kv => snd kv
  | None => if String.eqb r "C-" then "COO" else r
  end.
Definition qnonzero (o : option string) : bool :=
  match o with Some t => match dec t with Some q => negb (Qeq_bool q 0) | None => false end | None => false end.
Definition titratable_complete_b : bool :=
  forallb (fun r => mem r (sl_get "write_out_order") && qnonzero (nd_get "charge" (type_of r)))
          (keys (drow "model_pkas" (nd shipped))).
(* every entry of write_out_order has a model pKa; SER is the one dead entry (its model pKa line is commented out and
   serine hydroxyls are ROH groups, never reported) *)
Definition write_out_have_pka_b : bool :=
  forallb (fun r => match nd_get "model_pkas" r with Some _ => true | None => String.eqb r "SER" end) (sl_get "write_out_order").

Definition qlt (a b : option string) : bool :=
  match a, b with Some x, Some y => match dec x, dec y with Some p, Some q => Qle_bool p q && negb (Qeq_bool p q) | _, _ => false end
  | _, _ => false end.
Definition pair_ok (v : string * string) : bool := qlt (Some (fst v)) (Some (snd v)).
Definition bb_ok (l : list string) : bool := match l with [_; c1; c2] => qlt (Some c1) (Some c2) | _ => false end.
Definition cutoffs_ordered_b : bool :=
  pair_ok (pdefault (cut shipped))
  && forallb (fun row => forallb (fun kv => pair_ok (snd kv)) (snd row)) (pmap (cut shipped))
  && forallb (fun kv => bb_ok (snd kv)) (drow "backbone_NH_hydrogen_bond" (ld shipped))
  && forallb (fun kv => bb_ok (snd kv)) (drow "backbone_CO_hydrogen_bond" (ld shipped))
  && qlt (sc_get "coulomb_cutoff1") (sc_get "coulomb_cutoff2")
  && qlt (sc_get "buried_cutoff") (sc_get "desolv_cutoff")
  && qlt (sc_get "Nmin") (sc_get "Nmax").
Definition charges_unit_b : bool :=
  forallb (fun kv => match dec (snd kv) with Some q => Qeq_bool q 1 || Qeq_bool q (-1) | None => false end)
          (drow "charge" (nd shipped)).
Definition vdw_nonneg_b : bool :=
  forallb (fun kv => match dec (snd kv) with Some q => Qle_bool 0 q | None => false end) (drow "VanDerWaalsVolume" (nd shipped)).

Lemma shipped_parses : exists p, shipped_opt = Some p.
Proof. vm_compute. eexists. reflexivity. Qed.

(* non-vacuity: the domain of the completeness statement contains the protein and the ligand types *)
Lemma lookup_types_nonvacuous :
  forallb (fun t => mem t lookup_types) ["COO"; "HIS"; "CYS"; "TYR"; "LYS"; "ARG"; "N+"; "AMD"; "TRP"; "ROH"; "Cl"; "F"; "OCO"; "N1"; "SH"] = true
  /\ mem "BBN" lookup_types = false.
Proof. vm_compute. split; reflexivity. Qed.

Lemma matrix_complete : matrix_complete_b = true.        Proof. vm_compute. reflexivity. Qed.
Lemma titratable_complete : titratable_complete_b = true.  Proof. vm_compute. reflexivity. Qed.
Lemma write_out_have_pka : write_out_have_pka_b = true.  Proof. vm_compute. reflexivity. Qed.
Lemma cutoffs_ordered : cutoffs_ordered_b = true.        Proof. vm_compute. reflexivity. Qed.
Lemma charges_unit : charges_unit_b = true.              Proof. vm_compute. reflexivity. Qed.
Lemma vdw_nonneg : vdw_nonneg_b = true.                  Proof. vm_compute. reflexivity. Qed.
Lemma write_out_nodup : nodupb (sl_get "write_out_order") = true. Proof. vm_compute. reflexivity. Qed.

(* Prop form of the completeness statement *)
Lemma mem_In s l : mem s l = true <-> In s l.
Proof. induction l as [|x r IH]; simpl; [split; [discriminate|tauto]|].
  rewrite orb_true_iff, IH. split; intros [H|H]; auto; [left; symmetry; apply String.eqb_eq; exact H | left; apply String.eqb_eq; auto]. Qed.
Theorem shipped_matrix_complete t1 t2 : In t1 lookup_types -> In t2 lookup_types ->
  exists v, im_get (imx shipped) t1 t2 = Some v /\ In v ["I"; "N"; "-"].
Proof.
  intros H1 H2. pose proof matrix_complete as H. unfold matrix_complete_b in H.
  rewrite forallb_forall in H. specialize (H t1 H1). rewrite forallb_forall in H. specialize (H t2 H2).
  unfold is_itype in H. destruct (im_get (imx shipped) t1 t2) as [v|]; [|discriminate].
  exists v. split; [reflexivity|]. apply mem_In. exact H.
Qed.
