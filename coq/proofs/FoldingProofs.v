(* C10: proton linkage of the GENERATED Group.calculate_folding_energy (both reference states), summed over the
   container; optimum / ranges of the profile model. *)
From Coq Require Import Reals Lra List Bool.
From Coquelicot Require Import Coquelicot.
From V Require Import Num GroupGen Charge ChargeProofs.
Import ListNotations.
Open Scope R_scope.

Lemma l0 : IZR 0 / IZR 1 = 0. Proof. lra. Qed.
Lemma l1 : IZR 1 / IZR 1 = 1. Proof. lra. Qed.
Lemma l136 : IZR (-34) / IZR 25 = - (136 / 100). Proof. lra. Qed.

(* the pH-dependent part: -1.36 (log10(1+10^(pH-pK)) - log10(1+10^(pH-pKm))) *)
Definition ddg_low (pk pkm ph : R) := - (136/100) * (ln (1 + Rpower 10 (ph - pk)) / ln 10 - ln (1 + Rpower 10 (ph - pkm)) / ln 10).

Lemma ln10_ne : ln 10 <> 0. Proof. pose proof ln10_pos. lra. Qed.

Lemma ddg_low_deriv_acid pk pkm ph :
  is_derive (fun ph => ddg_low pk pkm ph) ph ((136/100) * (charge (-1) pk ph - charge (-1) pkm ph)).
Proof.
  unfold ddg_low, charge, pow10, Rpower.
  auto_derive.
  - repeat split; try (apply Rplus_lt_0_compat; [lra | apply exp_pos]); auto.
  - pose proof ln10_ne as H10.
    replace (-1 * (pk - ph) * ln 10) with ((ph + - pk) * ln 10) by ring.
    replace (-1 * (pkm - ph) * ln 10) with ((ph + - pkm) * ln 10) by ring.
    generalize (exp_pos ((ph + - pk) * ln 10)) (exp_pos ((ph + - pkm) * ln 10)).
    generalize (exp ((ph + - pk) * ln 10)) (exp ((ph + - pkm) * ln 10)). intros a b Ha Hb.
    field. repeat split; lra.
Qed.
Lemma ddg_low_deriv_base pk pkm ph :
  is_derive (fun ph => ddg_low pk pkm ph) ph ((136/100) * (charge 1 pk ph - charge 1 pkm ph)).
Proof.
  unfold ddg_low, charge, pow10, Rpower.
  auto_derive.
  - repeat split; try (apply Rplus_lt_0_compat; [lra | apply exp_pos]); auto.
  - pose proof ln10_ne as H10.
    replace (1 * (pk - ph) * ln 10) with (- ((ph + - pk) * ln 10)) by ring.
    replace (1 * (pkm - ph) * ln 10) with (- ((ph + - pkm) * ln 10)) by ring.
    rewrite !exp_Ropp.
    generalize (exp_pos ((ph + - pk) * ln 10)) (exp_pos ((ph + - pkm) * ln 10)).
    generalize (exp ((ph + - pk) * ln 10)) (exp ((ph + - pkm) * ln 10)). intros a b Ha Hb.
    field. repeat split; lra.
Qed.

(* shape of the generated functions: a pH-independent constant plus ddg_low (titratable), or 0 *)
Lemma gen_folding_neutral_shape (g : grp R) (p : params R) (dets : list R) :
  exists K, forall ph,
    calculate_folding_energy_neutral g p ph dets =
    if grp_titratable g then K + ddg_low (grp_pka_value g) (grp_model_pka g) ph else 0.
Proof.
  unfold calculate_folding_energy_neutral. num_unfold. rewrite ?l0, ?l1, ?l136.
  destruct (grp_titratable g); cbn [negb].
  - eexists. intros ph. unfold ddg_low. reflexivity.
  - exists 0. intros ph. reflexivity.
Qed.
Lemma gen_folding_lowph_shape (g : grp R) (p : params R) (dets : list R) :
  exists K, forall ph,
    calculate_folding_energy_lowph g p ph dets =
    if grp_titratable g then K + ddg_low (grp_pka_value g) (grp_model_pka g) ph else 0.
Proof.
  unfold calculate_folding_energy_lowph. num_unfold. rewrite ?l0, ?l1, ?l136.
  destruct (grp_titratable g); cbn [negb].
  - eexists. intros ph. unfold ddg_low. reflexivity.
  - exists 0. intros ph. reflexivity.
Qed.

Definition unit_charge (g : grp R) : Prop := grp_charge g = 1 \/ grp_charge g = -1.
(* what the group contributes to (Q_folded - Q_unfolded) *)
Definition dq (g : grp R) (ph : R) : R :=
  if grp_titratable g then calculate_charge_folded g ph - calculate_charge_unfolded g ph else 0.

Lemma shape_linkage (f : R -> R) (g : grp R) K ph : unit_charge g ->
  (forall ph, f ph = if grp_titratable g then K + ddg_low (grp_pka_value g) (grp_model_pka g) ph else 0) ->
  is_derive f ph ((136/100) * dq g ph).
Proof.
  intros Hq Hf. unfold dq. rewrite gen_charge_folded, gen_charge_unfolded.
  apply is_derive_ext with (f := fun ph => if grp_titratable g then K + ddg_low (grp_pka_value g) (grp_model_pka g) ph else 0).
  - intros t. symmetry. apply Hf.
  - destruct (grp_titratable g).
    + destruct Hq as [-> | ->].
      * evar_last; [apply (is_derive_plus (fun _ => K) (fun ph => ddg_low (grp_pka_value g) (grp_model_pka g) ph));
                    [apply is_derive_const | apply ddg_low_deriv_base] |].
        unfold plus, zero; simpl. ring.
      * evar_last; [apply (is_derive_plus (fun _ => K) (fun ph => ddg_low (grp_pka_value g) (grp_model_pka g) ph));
                    [apply is_derive_const | apply ddg_low_deriv_acid] |].
        unfold plus, zero; simpl. ring.
    + evar_last; [apply is_derive_const|]. unfold zero; simpl. ring.
Qed.

Theorem linkage_group_neutral g p dets ph : unit_charge g ->
  is_derive (fun ph => calculate_folding_energy_neutral g p ph dets) ph ((136/100) * dq g ph).
Proof. intros Hq. destruct (gen_folding_neutral_shape g p dets) as [K HK]. eapply shape_linkage; eauto. Qed.
Theorem linkage_group_lowph g p dets ph : unit_charge g ->
  is_derive (fun ph => calculate_folding_energy_lowph g p ph dets) ph ((136/100) * dq g ph).
Proof. intros Hq. destruct (gen_folding_lowph_shape g p dets) as [K HK]. eapply shape_linkage; eauto. Qed.

(* ---- summed over the container: d(dG)/dpH = 1.36 (Q_folded - Q_unfolded) with the SAME charge curves as C09 ---- *)
Lemma fold_energy_acc (En : grp R -> list R -> R -> R) (gs : list (gdet (F:=R))) ph : forall a,
  fold_left (fun ddg (g : gdet) => nadd ddg (En (fst g) (snd g) ph)) gs a = a + sumR (map (fun g => En (fst g) (snd g) ph) gs).
Proof.
  induction gs as [|g r IH]; intros a; cbn [fold_left map sumR]; [lra|]. rewrite IH. num_unfold. lra.
Qed.

Lemma sum_derive (fs : list (R -> R)) (ds : list R) ph :
  List.Forall2 (fun f d => is_derive f ph d) fs ds -> is_derive (fun t => sumR (map (fun f => f t) fs)) ph (sumR ds).
Proof.
  induction 1 as [|f d fr dr Hf Hr IH]; cbn [map sumR].
  - evar_last; [apply is_derive_const | reflexivity].
  - apply (is_derive_plus f (fun t => sumR (map (fun f => f t) fr))); assumption.
Qed.

Lemma dq_sum (gs : list (grp R)) ph :
  sumR (map (fun g => dq g ph) gs) = Qfolded gs ph - Qunfolded gs ph.
Proof.
  unfold Qfolded, Qunfolded. rewrite total_charge_is_sum. cbn [fst snd].
  induction gs as [|g r IH]; cbn [map sumR filter]; [lra|]. unfold dq at 1.
  rewrite gen_charge_folded, gen_charge_unfolded. destruct (grp_titratable g); cbn [map sumR]; lra.
Qed.

Section Total.
Variable p : params R.
Variable En : grp R -> params R -> R -> list R -> R.
Hypothesis HE : forall g dets ph, unit_charge g -> is_derive (fun ph => En g p ph dets) ph ((136/100) * dq g ph).

Lemma total_linkage (gs : list (gdet (F:=R))) (ph : R) : List.Forall (fun g => unit_charge (fst g)) gs ->
  is_derive (fun t : R => fold_left (fun (ddg : R) (g : gdet) => nadd ddg (En (fst g) p t (snd g))) gs fzero) ph
            ((136/100) * (Qfolded (map fst gs) ph - Qunfolded (map fst gs) ph)).
Proof.
  intros Hq.
  apply is_derive_ext with (f := fun t => sumR (map (fun f => f t) (map (fun g => fun t => En (fst g) p t (snd g)) gs))).
  - intros t. rewrite (fold_energy_acc (fun g d t => En g p t d)). unfold fzero. num_unfold. rewrite l0. rewrite map_map. lra.
  - rewrite <- dq_sum. rewrite map_map.
    replace ((136/100) * sumR (map (fun x => dq (fst x) ph) gs)) with (sumR (map (fun g => (136/100) * dq (fst g) ph) gs)).
    + apply sum_derive. induction gs as [|g r IH]; cbn [map]; constructor.
      * apply HE. inversion Hq; assumption.
      * apply IH. inversion Hq; assumption.
    + induction gs as [|g r IH]; cbn [map sumR]; [lra|]. rewrite IH; [lra|]. inversion Hq; assumption.
Qed.
End Total.

Theorem linkage_total_neutral p (gs : list (gdet (F:=R))) (ph : R) : List.Forall (fun g => unit_charge (fst g)) gs ->
  is_derive (fun t : R => folding_energy_neutral p gs t) ph ((136/100) * (Qfolded (map fst gs) ph - Qunfolded (map fst gs) ph)).
Proof. intros H. unfold folding_energy_neutral. apply (total_linkage p calculate_folding_energy_neutral); [|exact H].
  intros g dets t Hg. apply linkage_group_neutral. exact Hg. Qed.
Theorem linkage_total_lowph p (gs : list (gdet (F:=R))) (ph : R) : List.Forall (fun g => unit_charge (fst g)) gs ->
  is_derive (fun t : R => folding_energy_lowph p gs t) ph ((136/100) * (Qfolded (map fst gs) ph - Qunfolded (map fst gs) ph)).
Proof. intros H. unfold folding_energy_lowph. apply (total_linkage p calculate_folding_energy_lowph); [|exact H].
  intros g dets t Hg. apply linkage_group_lowph. exact Hg. Qed.

(* ---- optimum and ranges of the computed profile ---- *)
Lemma opt_step_R (opt : option R * R) (pt : R * R) :
  opt_step opt pt = if Rltb (snd pt) (snd opt) then (Some (fst pt), snd pt) else opt.
Proof. reflexivity. Qed.

Lemma optimum_acc (profile : list (R * R)) : forall o,
  let r := fold_left opt_step profile o in
  snd r <= snd o /\ (forall q, In q profile -> snd r <= snd q) /\
  (r = o \/ exists x, fst r = Some x /\ In (x, snd r) profile).
Proof.
  induction profile as [|pt rest IH]; intros o; cbn [fold_left].
  - split; [lra|]. split; [intros q []|left; reflexivity].
  - specialize (IH (opt_step o pt)). cbv zeta in IH. destruct IH as (H1 & H2 & H3).
    rewrite opt_step_R in *. destruct (Rltb (snd pt) (snd o)) eqn:E.
    + apply Rltb_true in E. cbn [snd fst] in *. split; [lra|]. split.
      * intros q [<-|Hq]; [exact H1 | apply H2; exact Hq].
      * right. destruct H3 as [-> | (x & Hx & Hin)].
        -- exists (fst pt). cbn [fst snd]. split; [reflexivity|]. left. destruct pt; reflexivity.
        -- exists x. split; [exact Hx | right; exact Hin].
    + apply Rltb_false in E. split; [lra|]. split.
      * intros q [<-|Hq]; [lra | apply H2; exact Hq].
      * destruct H3 as [-> | (x & Hx & Hin)]; [left; reflexivity|]. right. exists x. split; [exact Hx | right; exact Hin].
Qed.

(* the reported optimum is the minimum of the computed profile (and a point of it) *)
Theorem optimum_is_min (profile : list (R * R)) :
  (forall q, In q profile -> snd (optimum profile) <= snd q) /\
  (forall x, fst (optimum profile) = Some x -> In (x, snd (optimum profile)) profile) /\
  ((exists q, In q profile /\ snd q < 1000000) -> fst (optimum profile) <> None).
Proof.
  unfold optimum. destruct (optimum_acc profile (None, nlit 1000000 1)) as (H1 & H2 & H3). cbv zeta in *.
  split; [exact H2|]. split.
  - intros x Hx. destruct H3 as [H3 | (y & Hy & Hin)].
    + rewrite H3 in Hx. discriminate.
    + rewrite Hx in Hy. injection Hy as <-. exact Hin.
  - intros (q & Hq & Hlt) Hn. destruct H3 as [H3 | (y & Hy & Hin)].
    + specialize (H2 q Hq). rewrite H3 in H2. cbn [snd] in H2. num_unfold. lra.
    + rewrite Hn in Hy. discriminate.
Qed.

Lemma list_min_spec (l : list R) m : list_min l = Some m -> In m l /\ forall x, In x l -> m <= x.
Proof.
  destruct l as [|a r]; [discriminate|]. cbn [list_min]. intros E; injection E as <-.
  revert a. induction r as [|b r IH]; intros a; cbn [fold_left].
  - split; [left; reflexivity|]. intros x [<-|[]]. lra.
  - num_unfold. destruct (Rltb b a) eqn:E; [apply Rltb_true in E | apply Rltb_false in E].
    + destruct (IH b) as [Hin Hle]. split.
      * destruct Hin as [<-|Hin]; [right; left; reflexivity | right; right; exact Hin].
      * intros x [<-|[<-|Hx]]; [pose proof (Hle b (or_introl eq_refl)); lra | apply Hle; left; reflexivity | apply Hle; right; exact Hx].
    + destruct (IH a) as [Hin Hle]. split.
      * destruct Hin as [<-|Hin]; [left; reflexivity | right; right; exact Hin].
      * intros x [<-|[<-|Hx]]; [apply Hle; left; reflexivity | pose proof (Hle a (or_introl eq_refl)); lra | apply Hle; right; exact Hx].
Qed.
Lemma list_max_spec (l : list R) m : list_max l = Some m -> In m l /\ forall x, In x l -> x <= m.
Proof.
  destruct l as [|a r]; [discriminate|]. cbn [list_max]. intros E; injection E as <-.
  revert a. induction r as [|b r IH]; intros a; cbn [fold_left].
  - split; [left; reflexivity|]. intros x [<-|[]]. lra.
  - num_unfold. destruct (Rltb a b) eqn:E; [apply Rltb_true in E | apply Rltb_false in E].
    + destruct (IH b) as [Hin Hle]. split.
      * destruct Hin as [<-|Hin]; [right; left; reflexivity | right; right; exact Hin].
      * intros x [<-|[<-|Hx]]; [pose proof (Hle b (or_introl eq_refl)); lra | apply Hle; left; reflexivity | apply Hle; right; exact Hx].
    + destruct (IH a) as [Hin Hle]. split.
      * destruct Hin as [<-|Hin]; [left; reflexivity | right; right; exact Hin].
      * intros x [<-|[<-|Hx]]; [apply Hle; left; reflexivity | pose proof (Hle a (or_introl eq_refl)); lra | apply Hle; right; exact Hx].
Qed.

(* the stability range is [min, max] of the grid points with negative free energy; None exactly when there is none *)
Theorem stability_range_spec (profile : list (R * R)) :
  match stability_range profile with
  | (Some a, Some b) => (exists da db, In (a, da) profile /\ da < 0 /\ In (b, db) profile /\ db < 0) /\
                        forall x d, In (x, d) profile -> d < 0 -> a <= x <= b
  | (None, None) => forall x d, In (x, d) profile -> ~ d < 0
  | _ => False
  end.
Proof.
  unfold stability_range, range_of.
  set (sel := filter (fun p : R * R => nltb (snd p) fzero) profile).
  assert (Hsel : forall x d, In (x, d) sel <-> In (x, d) profile /\ d < 0).
  { intros x d. unfold sel. rewrite filter_In. cbn [snd]. unfold fzero. num_unfold. rewrite l0.
    split; intros [H1 H2]; split; auto; [apply Rltb_true; exact H2 | apply Rltb_true in H2; exact H2]. }
  destruct (map fst sel) as [|a0 r0] eqn:Em.
  - intros x d Hin Hd. assert (Hs : In (x, d) sel) by (apply Hsel; auto).
    apply (in_map fst) in Hs. rewrite Em in Hs. exact Hs.
  - rewrite <- Em. destruct (list_min (map fst sel)) as [a|] eqn:Ea; [|rewrite Em in Ea; discriminate].
    destruct (list_max (map fst sel)) as [b|] eqn:Eb; [|rewrite Em in Eb; discriminate].
    destruct (list_min_spec _ _ Ea) as [Hain Hamin]. destruct (list_max_spec _ _ Eb) as [Hbin Hbmax].
    apply in_map_iff in Hain as [[a' da] [<- Ha]]. apply in_map_iff in Hbin as [[b' db] [<- Hb]]. cbn [fst] in *.
    apply Hsel in Ha as [Ha1 Ha2]. apply Hsel in Hb as [Hb1 Hb2].
    split; [exists da, db; auto|]. intros x d Hin Hd.
    assert (Hs : In x (map fst sel)) by (apply in_map_iff; exists (x, d); split; [reflexivity | apply Hsel; auto]).
    split; [apply Hamin | apply Hbmax]; exact Hs.
Qed.

(* the 80 % range collects the grid points whose free energy is below 0.8 x optimum; it contains the optimum when that is negative *)
Theorem range_80pct_spec (profile : list (R * R)) :
  let o := snd (optimum profile) in
  match range_80pct profile with
  | (Some a, Some b) => forall x d, In (x, d) profile -> d < (8/10) * o -> a <= x <= b
  | (None, None) => forall x d, In (x, d) profile -> ~ d < (8/10) * o
  | _ => False
  end.
Proof.
  cbv zeta. unfold range_80pct, range_of.
  set (o := snd (optimum profile)).
  set (sel := filter (fun p : R * R => nltb (snd p) (nmul (nlit 8 10) o)) profile).
  assert (Hsel : forall x d, In (x, d) sel <-> In (x, d) profile /\ d < (8/10) * o).
  { intros x d. unfold sel. rewrite filter_In. cbn [snd]. num_unfold.
    split; intros [H1 H2]; split; auto; [apply Rltb_true in H2; lra | apply Rltb_true; lra]. }
  destruct (map fst sel) as [|a0 r0] eqn:Em.
  - intros x d Hin Hd. assert (Hs : In (x, d) sel) by (apply Hsel; auto).
    apply (in_map fst) in Hs. rewrite Em in Hs. exact Hs.
  - rewrite <- Em. destruct (list_min (map fst sel)) as [a|] eqn:Ea; [|rewrite Em in Ea; discriminate].
    destruct (list_max (map fst sel)) as [b|] eqn:Eb; [|rewrite Em in Eb; discriminate].
    destruct (list_min_spec _ _ Ea) as [_ Hamin]. destruct (list_max_spec _ _ Eb) as [_ Hbmax].
    intros x d Hin Hd.
    assert (Hs : In x (map fst sel)) by (apply in_map_iff; exists (x, d); split; [reflexivity | apply Hsel; auto]).
    split; [apply Hamin | apply Hbmax]; exact Hs.
Qed.
