(* C16: sign and bound of every contribution, about the GENERATED kernels (gen/EnergyGen.v) and the GENERATED sign-assigning
   functions (gen/DetsGen.v: every place where determinants.py / iterative.py create determinants), over R.
   An event (owner, kind, partner, value): owner/partner 1 or 2 = first/second argument; kind 0 side chain, 1 backbone, 2 Coulomb. *)
From Coq Require Import Reals Lra Psatz List Bool.
From V Require Import Num VecGen EnergyGen DetsGen.
Import ListNotations.
Open Scope R_scope.

Lemma lit_0 : IZR 0 / IZR 1 = 0. Proof. lra. Qed.
Lemma lit_1 : IZR 1 / IZR 1 = 1. Proof. lra. Qed.
Lemma lit_2 : IZR 2 / IZR 1 = 2. Proof. lra. Qed.
Ltac lits := rewrite ?lit_0, ?lit_1, ?lit_2 in *.

(* ---------------- kernels ---------------- *)
Theorem weight_unit (p : params R) nv : params_Nmin p < params_Nmax p -> 0 <= calculate_weight p nv <= 1.
Proof.
  intros H. unfold calculate_weight. num_unfold. lits. rcases; lra.
Qed.
Theorem pair_weight_unit (p : params R) n1 n2 : params_Nmin p < params_Nmax p -> 0 <= calculate_pair_weight p n1 n2 <= 1.
Proof. intros H. unfold calculate_pair_weight. num_unfold. lits. rcases; lra. Qed.
Theorem scale_factor_range (p : params R) w : 0 <= params_desolvationSurfaceScalingFactor p <= 1 -> 0 <= w <= 1 ->
  params_desolvationSurfaceScalingFactor p <= calculate_scale_factor p w <= 1.
Proof. intros Hs Hw. unfold calculate_scale_factor. num_unfold. lits. nra. Qed.

Theorem hb_bound dist dmax c0 c1 fa : c0 < c1 ->
  0 <= hydrogen_bond_energy dist dmax (c0, c1) fa <= Rabs dmax * Rabs fa.
Proof.
  intros Hc. unfold hydrogen_bond_energy. num_unfold. lits. split; [apply Rabs_pos|].
  assert (Hv : forall v, 0 <= v <= 1 -> Rabs (dmax * v * fa) <= Rabs dmax * Rabs fa).
  { intros v Hv. rewrite !Rabs_mult, (Rabs_pos_eq v) by lra. pose proof (Rabs_pos dmax) as Hd. pose proof (Rabs_pos fa) as Hfa.
    assert (H1 : Rabs dmax * v <= Rabs dmax) by nra. apply Rmult_le_compat_r; [exact Hfa | exact H1]. }
  rcases; apply Hv; try lra.
  assert (0 <= (dist - c0) / (c1 - c0) <= 1).
  { split; [apply Rmult_le_pos; [lra| left; apply Rinv_0_lt_compat; lra]|].
    apply Rmult_le_reg_r with (c1 - c0); [lra|]. unfold Rdiv. rewrite Rmult_assoc, Rinv_l by lra. lra. }
  lra.
Qed.
Corollary hb_bound_unit dist dmax c0 c1 fa : c0 < c1 -> Rabs fa <= 1 -> 0 <= hydrogen_bond_energy dist dmax (c0, c1) fa <= Rabs dmax.
Proof.
  intros Hc Hf. destruct (hb_bound dist dmax c0 c1 fa Hc) as [A B]. split; [exact A|]. pose proof (Rabs_pos dmax) as Hd.
  apply Rle_trans with (Rabs dmax * Rabs fa); [exact B|]. rewrite <- (Rmult_1_r (Rabs dmax)) at 2. apply Rmult_le_compat_l; assumption.
Qed.

Lemma clamp_range x : 0 <= (if Rltb (if Rltb 0 x then x else 0) 1 then (if Rltb 0 x then x else 0) else 1) <= 1.
Proof.
  destruct (Rltb 0 x) eqn:E1; [apply Rltb_true in E1 | apply Rltb_false in E1].
  - destruct (Rltb x 1) eqn:E2; [apply Rltb_true in E2 | apply Rltb_false in E2]; lra.
  - destruct (Rltb 0 1) eqn:E2; [apply Rltb_true in E2 | apply Rltb_false in E2]; lra.
Qed.

Theorem coulomb_bound dist w (p : params R) : 0 < params_coulomb_cutoff1 p < params_coulomb_cutoff2 p -> 0 <= w <= 1 ->
  0 <= coulomb_energy dist w p <= (24412 / 100) / (30 * params_coulomb_cutoff1 p).
Proof.
  intros [Hc1 Hc2] Hw. unfold coulomb_energy. num_unfold. lits. split; [apply Rabs_pos|].
  set (c1 := params_coulomb_cutoff1 p) in *. set (c2 := params_coulomb_cutoff2 p) in *.
  replace (IZR 160 / IZR 1) with 160 by lra. replace (IZR 30 / IZR 1) with 30 by lra. replace (IZR 6103 / IZR 25) with (24412 / 100) by lra.
  set (d := if Rltb dist c1 then c1 else dist). assert (Hd : c1 <= d) by (unfold d; destruct (Rltb dist c1) eqn:E; [lra | apply Rltb_false in E; lra]).
  set (diel := 160 - (160 - 30) * w). assert (Hdiel : 30 <= diel) by (unfold diel; lra).
  set (sc0 := (d - c2) / (c1 - c2)).
  set (sc1 := if Rltb 0 sc0 then sc0 else 0). set (sc := if Rltb sc1 1 then sc1 else 1).
  assert (Hsc : 0 <= sc <= 1) by (unfold sc, sc1; apply clamp_range).
  assert (Hpos : 0 < diel * d) by (apply Rmult_lt_0_compat; lra).
  assert (Hge : 30 * c1 <= diel * d) by (apply Rmult_le_compat; lra).
  rewrite Rabs_pos_eq.
  - apply Rle_trans with (24412 / 100 / (diel * d) * 1).
    + apply Rmult_le_compat_l; [|lra]. apply Rlt_le. apply Rdiv_lt_0_compat; lra.
    + rewrite Rmult_1_r. unfold Rdiv. apply Rmult_le_compat_l; [lra|]. apply Rinv_le_contravar; [lra | exact Hge].
  - apply Rmult_le_pos; [|lra]. apply Rlt_le. apply Rdiv_lt_0_compat; lra.
Qed.

(* the angle factor is a cosine *)
Lemma cauchy3 a b c x y z : (a * x + b * y + c * z) * (a * x + b * y + c * z) <= (a * a + b * b + c * c) * (x * x + y * y + z * z).
Proof.
  pose proof (Rle_0_sqr (a * y - b * x)) as H1. pose proof (Rle_0_sqr (a * z - c * x)) as H2. pose proof (Rle_0_sqr (b * z - c * y)) as H3.
  unfold Rsqr in *.
  replace ((a * a + b * b + c * c) * (x * x + y * y + z * z)) with
    ((a * x + b * y + c * z) * (a * x + b * y + c * z) + ((a * y - b * x) * (a * y - b * x) + (a * z - c * x) * (a * z - c * x) + (b * z - c * y) * (b * z - c * y))) by ring.
  lra.
Qed.
Theorem f_angle_unit (a1 a2 a3 : vec3 R) :
  let '(d12, f, d23) := angle_distance_factors_atoms a1 a2 a3 in 0 < d12 -> 0 < d23 -> Rabs f <= 1.
Proof.
  destruct a1 as [x1 y1 z1], a2 as [x2 y2 z2], a3 as [x3 y3 z3]. unfold angle_distance_factors_atoms. num_unfold. cbn [vec3_x vec3_y vec3_z].
  set (u := x2 - x3). set (v := y2 - y3). set (w := z2 - z3). set (p := x1 - x2). set (q := y1 - y2). set (r := z1 - z2).
  set (n23 := sqrt (u * u + v * v + w * w)). set (n12 := sqrt (p * p + q * q + r * r)). intros H12 H23.
  assert (Sq : forall a b c, 0 <= a * a + b * b + c * c).
  { intros a b c. pose proof (Rle_0_sqr a). pose proof (Rle_0_sqr b). pose proof (Rle_0_sqr c). unfold Rsqr in *. lra. }
  assert (S23 : n23 * n23 = u * u + v * v + w * w) by (apply sqrt_sqrt; apply Sq).
  assert (S12 : n12 * n12 = p * p + q * q + r * r) by (apply sqrt_sqrt; apply Sq).
  replace (p / n12 * (u / n23) + q / n12 * (v / n23) + r / n12 * (w / n23)) with ((p * u + q * v + r * w) / (n12 * n23)) by (field; lra).
  apply Rabs_le. pose proof (cauchy3 p q r u v w) as HC. rewrite <- S12, <- S23 in HC.
  assert (Hn : 0 < n12 * n23) by (apply Rmult_lt_0_compat; assumption).
  assert (Hb : Rabs (p * u + q * v + r * w) <= n12 * n23).
  { rewrite <- (Rabs_pos_eq (n12 * n23)) by lra. apply Rsqr_le_abs_0. unfold Rsqr.
    replace (n12 * n23 * (n12 * n23)) with (n12 * n12 * (n23 * n23)) by ring. exact HC. }
  assert (Hb2 : - (n12 * n23) <= p * u + q * v + r * w <= n12 * n23).
  { unfold Rabs in Hb. destruct (Rcase_abs (p * u + q * v + r * w)); lra. }
  clear Hb. rename Hb2 into Hb. split.
  - apply Rmult_le_reg_r with (n12 * n23); [exact Hn|]. unfold Rdiv. rewrite Rmult_assoc, Rinv_l by lra. lra.
  - apply Rmult_le_reg_r with (n12 * n23); [exact Hn|]. unfold Rdiv. rewrite Rmult_assoc, Rinv_l by lra. lra.
Qed.

(* ---------------- sign-assigning functions (events) ---------------- *)
Notation ev := (R * R * R * R)%type.
Definition ev_owner (e : ev) : R := let '(o, _, _, _) := e in o.
Definition ev_kind (e : ev) : R := let '(_, k, _, _) := e in k.
Definition ev_partner (e : ev) : R := let '(_, _, p, _) := e in p.
Definition ev_value (e : ev) : R := let '(_, _, _, v) := e in v.

(* like-charged acids: ONE Coulomb determinant, +value, on the group with the higher model pKa (never lowers an acid) *)
Theorem acid_pair_events (o1 o2 : grp R) v :
  add_coulomb_acid_pair o1 o2 v = if Rltb (grp_model_pka o2) (grp_model_pka o1) then [(1, 2, 2, v)] else [(2, 2, 1, v)].
Proof. unfold add_coulomb_acid_pair. num_unfold. lits. destruct (Rltb _ _); reflexivity. Qed.
(* like-charged bases: ONE Coulomb determinant, -value, on the group with the lower model pKa (never raises a base) *)
Theorem base_pair_events (o1 o2 : grp R) v :
  add_coulomb_base_pair o1 o2 v = if Rltb (grp_model_pka o1) (grp_model_pka o2) then [(1, 2, 2, - v)] else [(2, 2, 1, - v)].
Proof. unfold add_coulomb_base_pair. num_unfold. lits. destruct (Rltb _ _); reflexivity. Qed.
(* opposite charges: both groups get a Coulomb determinant, charge x value: equal and opposite for charges +1 / -1,
   lowering the acid and raising the base *)
Theorem ion_pair_events (o1 o2 : grp R) v :
  add_coulomb_ion_pair o1 o2 v = [(1, 2, 2, grp_charge o1 * v); (2, 2, 1, grp_charge o2 * v)].
Proof. unfold add_coulomb_ion_pair. num_unfold. lits. reflexivity. Qed.
Corollary ion_pair_equal_and_opposite (o1 o2 : grp R) v : grp_charge o1 = - grp_charge o2 ->
  match add_coulomb_ion_pair o1 o2 v with [e1; e2] => ev_value e1 = - ev_value e2 | _ => False end.
Proof. intros H. rewrite ion_pair_events. cbn. rewrite H. ring. Qed.

(* side-chain hydrogen bond: nothing when the interaction is 0; otherwise one determinant on each side;
   unlike charges: charge x value on each side; like charges: -value on the lower model pKa, +value on the other *)
Theorem sidechain_events (g1 g2 : grp R) h :
  add_sidechain_determinants g1 g2 h =
  if Reqb h 0 then []
  else if Reqb (grp_charge g1) (grp_charge g2)
       then (if Rltb (grp_model_pka g1) (grp_model_pka g2) then [(1, 0, 2, - h); (2, 0, 1, h)] else [(1, 0, 2, h); (2, 0, 1, - h)])
       else [(1, 0, 2, h * grp_charge g1); (2, 0, 1, h * grp_charge g2)].
Proof.
  unfold add_sidechain_determinants. num_unfold. lits.
  destruct (Reqb h 0); cbn [negb]; [reflexivity|]. destruct (Reqb (grp_charge g1) (grp_charge g2)); [|reflexivity].
  destruct (Rltb _ _); reflexivity.
Qed.
Lemma Rabs_m1 : Rabs (-1) = 1. Proof. replace (-1) with (- (1)) by ring. rewrite Rabs_Ropp. apply Rabs_R1. Qed.
Lemma Rabs_unit_mul h q : q = 1 \/ q = -1 -> Rabs (h * q) = Rabs h.
Proof. intros [-> | ->]; rewrite Rabs_mult, ?Rabs_R1, ?Rabs_m1; ring. Qed.
Corollary sidechain_values_bounded (g1 g2 : grp R) h : (grp_charge g1 = 1 \/ grp_charge g1 = -1) -> (grp_charge g2 = 1 \/ grp_charge g2 = -1) ->
  Forall (fun e => Rabs (ev_value e) = Rabs h) (add_sidechain_determinants g1 g2 h).
Proof.
  intros H1 H2. rewrite sidechain_events. destruct (Reqb h 0); [constructor|].
  destruct (Reqb (grp_charge g1) (grp_charge g2)).
  - destruct (Rltb _ _); constructor; cbn [ev_value]; rewrite ?Rabs_Ropp; try reflexivity; constructor; cbn [ev_value]; rewrite ?Rabs_Ropp;
    try reflexivity; constructor.
  - constructor; [cbn [ev_value]; apply Rabs_unit_mul; exact H1|]. constructor; [cbn [ev_value]; apply Rabs_unit_mul; exact H2|]. constructor.
Qed.

(* ions and backbone *)
Theorem ion_determinant_sign (ion : grp R) c : 0 <= c ->
  (0 < grp_charge ion -> ion_determinant_value ion c <= 0) /\ (grp_charge ion < 0 -> 0 <= ion_determinant_value ion c) /\
  Rabs (ion_determinant_value ion c) = Rabs (grp_charge ion) * c.
Proof.
  intros Hc. unfold ion_determinant_value. num_unfold. repeat split; intros; try nra.
  rewrite Rabs_mult, Rabs_Ropp, (Rabs_pos_eq c) by exact Hc. reflexivity.
Qed.
Theorem backbone_determinant_sign (g : grp R) hb : 0 <= hb ->
  (grp_charge g < 0 -> backbone_determinant_value g hb <= 0) /\ (0 < grp_charge g -> 0 <= backbone_determinant_value g hb).
Proof. intros H. unfold backbone_determinant_value. num_unfold. split; intros; nra. Qed.

(* iterative scheme: whatever the iteration state (pKa of the previous sweep, annihilation terms), every emitted value is
   +-hbond, +-coulomb (like charges) or charge x hbond / charge x coulomb (unlike charges), and the Coulomb events keep the sign rules *)
Definition in4 (x a b c d : R) : Prop := x = a \/ x = b \/ x = c \/ x = d.
Theorem iterative_acid_events (o1 o2 : iter R) pr hb co a0 a1 :
  let '(evs, _) := add_iterative_acid_pair o1 o2 (pr, (hb, co), (a0, a1)) in
  Forall (fun e => in4 (ev_value e) hb (- hb) co co /\ (ev_kind e = 2 -> ev_value e = co)) evs /\ length evs = 3%nat.
Proof.
  unfold add_iterative_acid_pair. num_unfold. lits. cbv beta iota zeta.
  destruct (Rltb _ _); cbn [app]; (split; [|reflexivity]);
  repeat (constructor; [split; [unfold in4; cbn [ev_value]; auto 6 | cbn [ev_kind ev_value]; intros Hk; try reflexivity; exfalso; lra]|]); constructor.
Qed.
Theorem iterative_base_events (o1 o2 : iter R) pr hb co a0 a1 :
  let '(evs, _) := add_iterative_base_pair o1 o2 (pr, (hb, co), (a0, a1)) in
  Forall (fun e => in4 (ev_value e) hb (- hb) (- co) (- co) /\ (ev_kind e = 2 -> ev_value e = - co)) evs /\ length evs = 3%nat.
Proof.
  unfold add_iterative_base_pair. num_unfold. lits. cbv beta iota zeta.
  destruct (Rltb _ _); cbn [app]; (split; [|reflexivity]);
  repeat (constructor; [split; [unfold in4; cbn [ev_value]; auto 6 | cbn [ev_kind ev_value]; intros Hk; try reflexivity; exfalso; lra]|]); constructor.
Qed.
Theorem iterative_ion_events (o1 o2 : iter R) pr hb co a0 a1 :
  let '(evs, _) := add_iterative_ion_pair o1 o2 (pr, (hb, co), (a0, a1)) in
  Forall (fun e => in4 (ev_value e) (iter_q o1 * hb) (iter_q o2 * hb) (iter_q o1 * co) (iter_q o2 * co) /\
                   (ev_kind e = 2 -> (ev_owner e = 1 -> ev_value e = iter_q o1 * co) /\ (ev_owner e = 2 -> ev_value e = iter_q o2 * co))) evs /\
  (* Coulomb events come in pairs: owner 1 and owner 2 together *)
  (length (filter (fun e => Reqb (ev_kind e) 2) evs) = 0%nat \/ length (filter (fun e => Reqb (ev_kind e) 2) evs) = 2%nat).
Proof.
  unfold add_iterative_ion_pair. num_unfold. lits. cbv beta iota zeta.
  set (T1 := Reqb 1 2). set (T2 := Reqb 2 2). set (T0 := Reqb 0 2).
  assert (E1 : T1 = false) by (apply Reqb_false; lra). assert (E2 : T2 = true) by (apply Reqb_true; lra). assert (E0 : T0 = false) by (apply Reqb_false; lra).
  match goal with |- context [if (if ?c then true else ?d) then _ else _] => set (AT := if c then true else d) end.
  destruct AT.
  2:{ split; [constructor | left; reflexivity]. }
  destruct (Rltb (1 / 200) co); destruct (Rltb (1 / 200) hb); destruct (iter_excluded o1); destruct (iter_excluded o2); cbn [negb app filter ev_kind];
  fold T1 T2 T0; rewrite ?E1, ?E2, ?E0; cbn [length];
  (split; [repeat (constructor; [split; [unfold in4; cbn [ev_value]; auto 6
                                        | cbn [ev_kind ev_value ev_owner]; intros Hk; split; intros Ho; try reflexivity; exfalso; lra]|]); constructor
          | auto]).
Qed.

(* ---------------- desolvation and backbone reorganisation (sliced expressions of energy.py) ---------------- *)
Theorem desolv_increment_nonneg dvol m sq : 0 <= dvol -> 0 < m -> 0 <= desolv_volume_increment dvol m sq.
Proof.
  intros Hd Hm. unfold desolv_volume_increment. num_unfold.
  assert (Hp : 0 < (if Rltb m (sq * sq) then sq * sq else m)) by (destruct (Rltb m (sq * sq)) eqn:E; [apply Rltb_true in E; lra | exact Hm]).
  apply Rmult_le_pos; [exact Hd | left; apply Rinv_0_lt_compat; exact Hp].
Qed.
Theorem desolv_after_allowance_nonneg v (p : params R) : 0 <= desolv_volume_after_allowance v p.
Proof. unfold desolv_volume_after_allowance. num_unfold. lits. destruct (Rltb 0 _) eqn:E; [apply Rltb_true in E; lra | lra]. Qed.
(* with a negative prefactor (shipped: -13) and a scale factor in [0,1]: never lowers an acid's pKa, never raises a base's *)
Theorem desolv_sign (g : EnergyGen.grp R) (p : params R) v sc : params_desolvationPrefactor p < 0 -> 0 <= v -> 0 <= sc ->
  (EnergyGen.grp_charge g < 0 -> 0 <= desolv_energy g p v sc) /\ (0 < EnergyGen.grp_charge g -> desolv_energy g p v sc <= 0).
Proof.
  intros Hp Hv Hs. unfold desolv_energy. num_unfold.
  assert (Hvs : 0 <= v * sc) by (apply Rmult_le_pos; assumption).
  split; intros Hq.
  - assert (H1 : 0 < EnergyGen.grp_charge g * params_desolvationPrefactor p) by nra.
    rewrite Rmult_assoc. apply Rmult_le_pos; [lra | exact Hvs].
  - assert (H1 : EnergyGen.grp_charge g * params_desolvationPrefactor p < 0) by nra.
    rewrite Rmult_assoc. assert (H2 : EnergyGen.grp_charge g * params_desolvationPrefactor p * (v * sc) <= 0 * (v * sc)) by (apply Rmult_le_compat_r; lra). lra.
Qed.
Theorem reorg_increment_positive dist : dist < 6 -> 0 < reorg_increment (reorg_value dist) <= 4 / 5.
Proof.
  intros H. unfold reorg_increment, reorg_value. num_unfold. lits.
  replace (IZR 3 / IZR 1) with 3 by lra. replace (IZR 6 / IZR 1) with 6 by lra. replace (IZR 4 / IZR 5) with (4 / 5) by lra.
  destruct (Rltb _ 1) eqn:E; [apply Rltb_true in E | apply Rltb_false in E]; lra.
Qed.

(* ---------------- buried-pair exceptions: each pair type uses its own configured value, exactly when buried ---------------- *)
Theorem exception_values (g1 g2 : EnergyGen.grp R) (v : vers R) :
  check_coo_his_exception g1 g2 v = (check_buried (EnergyGen.grp_num_volume g1) (EnergyGen.grp_num_volume g2), excp_COO_HIS_exception (vers_parameters v)) /\
  check_oco_his_exception g1 g2 v = (check_buried (EnergyGen.grp_num_volume g1) (EnergyGen.grp_num_volume g2), excp_OCO_HIS_exception (vers_parameters v)) /\
  check_cys_his_exception g1 g2 v = (check_buried (EnergyGen.grp_num_volume g1) (EnergyGen.grp_num_volume g2), excp_CYS_HIS_exception (vers_parameters v)) /\
  check_cys_cys_exception g1 g2 v = (check_buried (EnergyGen.grp_num_volume g1) (EnergyGen.grp_num_volume g2), excp_CYS_CYS_exception (vers_parameters v)).
Proof.
  unfold check_coo_his_exception, check_oco_his_exception, check_cys_his_exception, check_cys_cys_exception.
  destruct (check_buried _ _); repeat split; reflexivity.
Qed.

(* ---------------- which exception function a pair of group types reaches (table re-extracted from energy.check_exceptions) ---------------- *)
From V Require Import Inventory_gen.
From Coq Require Import String.
Open Scope string_scope.
Definition lower_ascii (c : Ascii.ascii) : Ascii.ascii :=
  let n := Ascii.nat_of_ascii c in if (Nat.leb 65 n && Nat.leb n 90)%bool then Ascii.ascii_of_nat (n + 32) else c.
Fixpoint lower_s (s : string) : string := match s with EmptyString => EmptyString | String c r => String (lower_ascii c) (lower_s r) end.
(* the callee is named after the two types (in either order) and the table is closed under swapping the types *)
Definition dispatch_row_ok (r : string * string * string * bool) : bool :=
  let '(a, b, callee, _) := r in
  (String.eqb callee ("check_" ++ lower_s a ++ "_" ++ lower_s b ++ "_exception") || String.eqb callee ("check_" ++ lower_s b ++ "_" ++ lower_s a ++ "_exception"))%bool
  && existsb (fun r' => let '(a', b', callee', _) := r' in (String.eqb a' b && String.eqb b' a && String.eqb callee' callee)%bool) exception_dispatch.
Lemma dispatch_consistent : forallb dispatch_row_ok exception_dispatch = true /\ List.length exception_dispatch = 10%nat.
Proof. split; vm_compute; reflexivity. Qed.
Close Scope string_scope.
