(* C18: symmetry of both look-up tables and the default fallback for EVERY parameter file (any number and
   order of lines); coherence of the squared cut-offs for every operation sequence. *)
From Coq Require Import String Ascii List Bool ZArith Reals Lra.
From V Require Import Num Params.
Import ListNotations.
Open Scope string_scope.

(* ---------- association-list lemmas ---------- *)
Lemma get2_set2 {V} (m : dict (dict V)) a b v c d :
  get2 (set2 m a b v) c d = if (String.eqb c a && String.eqb d b)%bool then Some v else get2 m c d.
Proof.
  unfold get2, set2, dset, drow. cbn [dget].
  destruct (String.eqb_spec c a) as [->|Hca]; cbn [andb].
  - cbn [dget]. destruct (String.eqb d b); [reflexivity|]. destruct (dget a m); reflexivity.
  - reflexivity.
Qed.

Definition sym {V} (m : dict (dict V)) : Prop := forall a b, get2 m a b = get2 m b a.

Lemma sym_nil {V} : sym (@nil (string * dict V)).
Proof. intros a b. reflexivity. Qed.

Lemma sym_set_pair {V} (m : dict (dict V)) x y v : sym m -> sym (set2 (set2 m x y v) y x v).
Proof.
  intros Hs a b. rewrite !get2_set2.
  destruct (String.eqb a y), (String.eqb b x), (String.eqb a x), (String.eqb b y); cbn [andb]; try reflexivity; apply Hs.
Qed.

(* ---------- InteractionMatrix: every add keeps the matrix symmetric ---------- *)
Lemma im_fold_sym (new : string) (kvs : list (string * string)) : forall mp, sym mp ->
  sym (fold_left (fun mp (kv : string * string) => let (g, v) := kv in set2 (set2 mp g new v) new g v) kvs mp).
Proof.
  induction kvs as [|[g v] r IH]; intros mp H; cbn [fold_left]; [exact H|]. apply IH. apply sym_set_pair. exact H.
Qed.
Lemma im_add_sym m ws m' : sym (imap m) -> im_add m ws = Some m' -> sym (imap m').
Proof.
  unfold im_add. intros H. destruct (negb _); [discriminate|]. destruct ws as [|new vals]; [discriminate|].
  intros E. injection E as <-. cbn [imap]. apply im_fold_sym. exact H.
Qed.
Lemma pm_add_sym m ws m' : sym (pmap m) -> pm_add m ws = Some m' -> sym (pmap m').
Proof.
  unfold pm_add. intros H.
  destruct ws as [|w1 [|w2 [|w3 [|w4 [|w5 r]]]]]; try discriminate.
  - destruct (String.eqb w1 "default"); [|discriminate]. intros E. injection E as <-. exact H.
  - intros E. injection E as <-. cbn [pmap]. apply sym_set_pair. exact H.
Qed.

Section AnyFile.
Variable kinds : dict kind.

Definition Inv (p : params) : Prop := sym (imap (imx p)) /\ sym (pmap (cut p)).

Lemma parse_words_inv p ws p' : Inv p -> parse_words kinds p ws = Some p' -> Inv p'.
Proof.
  intros [Hi Hp]. unfold parse_words. destruct ws as [|w0 rest]; [intros E; injection E as <-; split; assumption|].
  destruct (match dget w0 kinds with Some k => k | None => KFloat end).
  - destruct rest as [|k [|v [|x r]]]; try discriminate. intros E; injection E as <-. split; assumption.
  - destruct rest as [|v [|x r]]; try discriminate. intros E; injection E as <-. split; assumption.
  - destruct rest as [|v [|x r]]; try discriminate. intros E; injection E as <-. split; assumption.
  - destruct rest as [|k [|v1 vs]]; try discriminate. intros E; injection E as <-. split; assumption.
  - destruct (im_add (imx p) rest) eqn:Ea; [|discriminate]. intros E; injection E as <-. split; cbn [imx cut];
    [eapply im_add_sym; eauto | assumption].
  - destruct (pm_add (cut p) rest) eqn:Ea; [|discriminate]. intros E; injection E as <-. split; cbn [imx cut];
    [assumption | eapply pm_add_sym; eauto].
  - destruct rest as [|k [|v [|x r]]]; try discriminate. intros E; injection E as <-. split; assumption.
  - destruct rest as [|v [|x r]]; try discriminate. intros E; injection E as <-. split; assumption.
  - destruct rest as [|v [|x r]]; try discriminate. intros E; injection E as <-. split; assumption.
Qed.

Lemma fold_parse_none ls : fold_left (parse_line kinds) ls None = None.
Proof. induction ls; cbn; auto. Qed.

Lemma parse_lines_inv ls : forall p p', Inv p -> fold_left (parse_line kinds) ls (Some p) = Some p' -> Inv p'.
Proof.
  induction ls as [|l r IH]; intros p p' H E; cbn [fold_left] in E.
  - injection E as <-. exact H.
  - unfold parse_line at 2 in E. destruct (parse_words kinds p (words l)) as [q|] eqn:Eq.
    + eapply IH; [|exact E]. eapply parse_words_inv; eauto.
    + rewrite fold_parse_none in E. discriminate.
Qed.

Lemma Inv_p0 : Inv p0.
Proof. split; intros a b; reflexivity. Qed.

(* every parameter file: the interaction-type look-up is symmetric ... *)
Theorem imatrix_symmetric ls p a b : parse_cfg kinds ls = Some p -> im_get (imx p) a b = im_get (imx p) b a.
Proof. intros E. destruct (parse_lines_inv ls p0 p Inv_p0 E) as [H _]. apply H. Qed.
(* ... and so is the cut-off look-up, default included *)
Theorem pairwise_symmetric ls p a b : parse_cfg kinds ls = Some p -> pm_get (cut p) a b = pm_get (cut p) b a.
Proof. intros E. destruct (parse_lines_inv ls p0 p Inv_p0 E) as [_ H]. unfold pm_get. rewrite (H a b). reflexivity. Qed.

(* default fallback: a pair that no sidechain_cutoffs line names (in either order) gets the declared default *)
Definition names_pair (a b : string) (l : string) : bool :=
  match words l with
  | w0 :: g1 :: g2 :: _ :: _ :: nil =>
    match dget w0 kinds with
    | Some KPairMatrix => ((String.eqb g1 a && String.eqb g2 b) || (String.eqb g1 b && String.eqb g2 a))%bool
    | _ => false end
  | _ => false
  end.

Lemma parse_words_unnamed p l p' a b : names_pair a b l = false -> parse_words kinds p (words l) = Some p' ->
  get2 (pmap (cut p)) a b = None -> get2 (pmap (cut p')) a b = None.
Proof.
  unfold names_pair, parse_words. destruct (words l) as [|w0 rest]; [intros _ E; injection E as <-; auto|].
  destruct (dget w0 kinds) as [k|] eqn:Ek; [destruct k|].
  all: try (intros _; destruct rest as [|x1 [|x2 [|x3 r]]]; try discriminate; intros E; injection E as <-; auto; fail).
  all: try (intros _; destruct rest as [|x1 [|x2 r]]; try discriminate; intros E; injection E as <-; auto; fail).
  - intros _. destruct (im_add (imx p) rest); [|discriminate]. intros E; injection E as <-. auto.
  - intros Hn. unfold pm_add. destruct rest as [|w1 [|w2 [|w3 [|w4 [|w5 r]]]]]; try discriminate.
    + destruct (String.eqb w1 "default"); [|discriminate]. intros E; injection E as <-. auto.
    + intros E; injection E as <-. cbn [cut pmap]. intros H0. rewrite !get2_set2.
      apply orb_false_iff in Hn as [H1 H2].
      rewrite (String.eqb_sym a w2), (String.eqb_sym b w1), (String.eqb_sym a w1), (String.eqb_sym b w2).
      rewrite andb_comm in H2. rewrite H2, H1. exact H0.
Qed.

Lemma parse_lines_unnamed a b ls : forall p p', forallb (fun l => negb (names_pair a b l)) ls = true ->
  fold_left (parse_line kinds) ls (Some p) = Some p' -> get2 (pmap (cut p)) a b = None -> get2 (pmap (cut p')) a b = None.
Proof.
  induction ls as [|l r IH]; intros p p' Hn E H0; cbn [fold_left] in E.
  - injection E as <-. exact H0.
  - cbn [forallb] in Hn. apply andb_true_iff in Hn as [Hl Hr]. apply negb_true_iff in Hl.
    unfold parse_line at 2 in E. destruct (parse_words kinds p (words l)) as [q|] eqn:Eq.
    + eapply IH; [exact Hr | exact E |]. eapply parse_words_unnamed; eauto.
    + rewrite fold_parse_none in E. discriminate.
Qed.

Theorem pairwise_default ls p a b : parse_cfg kinds ls = Some p ->
  forallb (fun l => negb (names_pair a b l)) ls = true -> pm_get (cut p) a b = pdefault (cut p).
Proof.
  intros E Hn. unfold pm_get. rewrite (parse_lines_unnamed a b ls p0 p Hn E); reflexivity.
Qed.
End AnyFile.

(* ---------- squared cut-offs: for every operation sequence the squared read is the square of the plain one ---------- *)
Open Scope R_scope.
Theorem squared_is_square (c : cutoffs R) ops n : sq_get (crun c ops) n = (cget (crun c ops) n) * (cget (crun c ops) n).
Proof. reflexivity. Qed.
Theorem sq_set_then_get (c : cutoffs R) n v : 0 <= v -> sq_get (sq_set c n v) n = v.
Proof. intros Hv. unfold sq_get, sq_set. destruct n; cbn; apply sqrt_sqrt; exact Hv. Qed.
Theorem sq_set_frame (c : cutoffs R) n m v : n <> m -> sq_get (sq_set c n v) m = sq_get c m.
Proof. intros H. unfold sq_get, sq_set. destruct n, m; cbn; try reflexivity; congruence. Qed.
Theorem plain_set_then_sq_get (c : cutoffs R) n v : sq_get (cset c n v) n = v * v.
Proof. destruct n; reflexivity. Qed.
