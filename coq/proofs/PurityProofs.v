(* C03: a run that writes every global cell before it reads it is independent of what earlier runs left there. *)
From Coq Require Import List Bool ZArith String Lia.
From V Require Import Purity Inventory_gen.
Import ListNotations.

Section Gen.
Context {I : Type}.
Lemma exec_agree (ops : list (op I)) : forall written s1 s2 inp seen, covered written ops = true ->
  (forall c, existsb (Nat.eqb c) written = true -> s1 c = s2 c) ->
  fst (exec s1 inp seen ops) = fst (exec s2 inp seen ops).
Proof.
  induction ops as [|o r IH]; intros written s1 s2 inp seen Hc Hs; [reflexivity|]. destruct o as [c|c f]; cbn [exec covered] in *.
  - apply andb_true_iff in Hc as [Hm Hr]. rewrite (Hs c Hm). apply (IH written); assumption.
  - apply (IH (c :: written)); [exact Hc|]. intros d Hd. unfold upd. destruct (Nat.eqb d c) eqn:E; [reflexivity|].
    apply Hs. cbn [existsb] in Hd. rewrite E in Hd. exact Hd.
Qed.
Theorem write_before_read_is_history_independent (ops : list (op I)) : covered [] ops = true ->
  forall s1 s2 inp, fst (exec s1 inp [] ops) = fst (exec s2 inp [] ops).
Proof. intros H s1 s2 inp. apply (exec_agree ops []); [exact H | intros c Hc; discriminate]. Qed.
(* a read that is not covered does observe the history *)
Theorem uncovered_read_refuted : exists (ops : list (op unit)) s1 s2, fst (exec s1 tt [] ops) <> fst (exec s2 tt [] ops).
Proof. exists [Rd 0%nat], (fun _ => 0%Z), (fun _ => 1%Z). cbn. discriminate. Qed.
(* a memo cell that only ever receives one constant, and only when unset, reads the same whatever happened before:
   modelled as  lookup-or-default  with the default independent of the state *)
Definition memo_read (table : list (nat * Z)) (dflt : Z) (k : nat) : Z :=
  match find (fun kv => Nat.eqb (fst kv) k) table with Some kv => snd kv | None => dflt end.
Definition memo_insert (table : list (nat * Z)) (dflt : Z) (k : nat) : list (nat * Z) :=
  match find (fun kv => Nat.eqb (fst kv) k) table with Some _ => table | None => table ++ [(k, dflt)] end.
Lemma find_app_none {A} (f : A -> bool) l1 l2 : find f l1 = None -> find f (l1 ++ l2) = find f l2.
Proof. induction l1 as [|x r IH]; cbn; [reflexivity|]. destruct (f x); [discriminate | exact IH]. Qed.
Lemma find_app_some {A} (f : A -> bool) l1 l2 x : find f l1 = Some x -> find f (l1 ++ l2) = Some x.
Proof. induction l1 as [|y r IH]; cbn; [discriminate|]. destruct (f y); [auto | exact IH]. Qed.
Theorem memo_insert_invisible table dflt k j : memo_read (memo_insert table dflt k) dflt j = memo_read table dflt j.
Proof.
  unfold memo_insert, memo_read. destruct (find (fun kv => Nat.eqb (fst kv) k) table) eqn:E; [reflexivity|].
  destruct (find (fun kv => Nat.eqb (fst kv) j) table) as [kv|] eqn:Ej.
  - rewrite (find_app_some _ _ _ _ Ej). reflexivity.
  - rewrite (find_app_none _ _ _ Ej). cbn. destruct (Nat.eqb k j); reflexivity.
Qed.
End Gen.

(* ---- the process-global objects of the current source and their run-time mutations ---- *)
Open Scope string_scope.
Definition expected_mutations : list (string * string * string * string) :=
  [("NonCovalentlyCoupledGroups", "identify_non_covalently_coupled_groups", "parameters", "W");
   ("Protonate", "set_number_of_protons_to_add", "valence_electrons", "M");
   ("Protonate", "set_steric_number_and_lone_pairs", "valence_electrons", "M")].
Lemma only_known_mutations : runtime_mutations global_object_events = expected_mutations.
Proof. vm_compute. reflexivity. Qed.
(* the one plain attribute written at run time is written before it is read in the method that is the entry point of the singleton *)
Lemma nccg_parameters_written_first :
  first_access "parameters" (method_events global_object_events "NonCovalentlyCoupledGroups" "identify_non_covalently_coupled_groups") = Some "W".
Proof. vm_compute. reflexivity. Qed.
Definition global_classes : list string := map (fun h => snd h) global_objects.
Lemma global_objects_are : global_classes = ["NonCovalentlyCoupledGroups"; "Protonate"; "squared_property"; "squared_property"; "squared_property"; "squared_property"].
Proof. vm_compute. reflexivity. Qed.

(* no mutable default argument, cache decorator, `global` statement or class attribute stored through the class anywhere in propka/*.py;
   the only module-level container mutated inside a function is the version-handler registry of the vendored _version.py (import time) *)
Lemma no_hidden_state : hidden_state_sites =
  [("container-mutation", "_version.py", "decorate", "HANDLERS"); ("container-mutation", "_version.py", "register_vcs_handler", "HANDLERS")].
Proof. vm_compute. reflexivity. Qed.
