(* C05: locality.  Kernels vanish beyond their cut-offs, the desolvation loop ignores atoms beyond both cut-offs wherever they stand in the
   atom list, the smallest-distance search always returns a pair, and a converged cluster is not disturbed by sweeps forced by another one. *)
From Coq Require Import Reals Lra Psatz List Bool ZArith Lia.
From V Require Import Num VecGen EnergyGen Locality SignProofs.
Import ListNotations.
Open Scope R_scope.

(* ---------------- kernels ---------------- *)
Theorem coulomb_zero_beyond_cutoff dist w (p : params R) :
  params_coulomb_cutoff1 p < params_coulomb_cutoff2 p -> params_coulomb_cutoff2 p <= dist -> coulomb_energy dist w p = 0.
Proof.
  intros Hc Hd. unfold coulomb_energy. num_unfold. lits.
  assert (E1 : Rltb dist (params_coulomb_cutoff1 p) = false) by (apply Rltb_false; lra). rewrite E1.
  set (sc := (dist - params_coulomb_cutoff2 p) / (params_coulomb_cutoff1 p - params_coulomb_cutoff2 p)).
  assert (Hs : sc <= 0).
  { unfold sc, Rdiv. assert (H1 : / (params_coulomb_cutoff1 p - params_coulomb_cutoff2 p) < 0) by (apply Rinv_lt_0_compat; lra).
    assert (H2 : 0 <= dist - params_coulomb_cutoff2 p) by lra. nra. }
  destruct (Rltb 0 sc) eqn:E2; [apply Rltb_true in E2; lra|].
  assert (E3 : Rltb 0 1 = true) by (apply Rltb_true; lra).
  destruct (Rltb 0 1) eqn:E4; [|discriminate]. rewrite Rmult_0_r. apply Rabs_R0.
Qed.
Theorem hbond_zero_beyond_cutoff dist dmax c0 c1 fa : c0 < c1 -> c1 < dist -> hydrogen_bond_energy dist dmax (c0, c1) fa = 0.
Proof.
  intros Hc Hd. unfold hydrogen_bond_energy. num_unfold. lits.
  assert (E1 : Rltb dist c0 = false) by (apply Rltb_false; lra). assert (E2 : Rltb c1 dist = true) by (apply Rltb_true; lra).
  rewrite E1, E2. rewrite Rmult_0_r, Rmult_0_l. apply Rabs_R0.
Qed.
Theorem no_coulomb_pair_beyond_cutoff (p : params R) g1 g2 dist : params_coulomb_cutoff2 p < dist -> check_coulomb_pair p g1 g2 dist = false.
Proof.
  intros Hd. unfold check_coulomb_pair. num_unfold. assert (E : Rltb (params_coulomb_cutoff2 p) dist = true) by (apply Rltb_true; lra). rewrite E.
  cbv zeta. destruct (Rltb (grp_num_volume g1 + grp_num_volume g2) (params_Nmin p)); reflexivity.
Qed.

(* ---------------- the desolvation loop ---------------- *)
Definition near (g : VecGen.vec3 R) (dsq bsq : R) (a : VecGen.vec3 R * R) : bool :=
  Rltb (squared_distance g (fst a)) dsq || Rltb (squared_distance g (fst a)) bsq.
Lemma desolv_step_far g dsq bsq m4 acc a : near g dsq bsq a = false -> desolv_step g dsq bsq m4 acc a = acc.
Proof.
  unfold near, desolv_step. intros H. apply orb_false_iff in H as [H1 H2]. num_unfold. rewrite H1, H2. destruct acc; reflexivity.
Qed.
(* atoms beyond both cut-offs contribute nothing, wherever they are in the list: the loop only sees the near atoms, in their order *)
Theorem desolv_loop_local g dsq bsq m4 atoms :
  desolv_loop g dsq bsq m4 atoms = desolv_loop g dsq bsq m4 (filter (near g dsq bsq) atoms).
Proof.
  unfold desolv_loop. generalize (@nlit R _ 0 1, O). induction atoms as [|a r IH]; intros acc; [reflexivity|].
  cbn [filter fold_left]. destruct (near g dsq bsq a) eqn:E.
  - cbn [fold_left]. apply IH.
  - rewrite desolv_step_far by exact E. apply IH.
Qed.
Corollary desolv_loop_ignores_far_set g dsq bsq m4 own far :
  forallb (fun a => negb (near g dsq bsq a)) far = true ->
  desolv_loop g dsq bsq m4 (own ++ far) = desolv_loop g dsq bsq m4 own /\ desolv_loop g dsq bsq m4 (far ++ own) = desolv_loop g dsq bsq m4 own.
Proof.
  intros H. assert (Hf : filter (near g dsq bsq) far = []).
  { induction far as [|a r IH]; [reflexivity|]. cbn in *. apply andb_true_iff in H as [H1 H2]. apply negb_true_iff in H1. rewrite H1. exact (IH H2). }
  split; rewrite desolv_loop_local, filter_app, Hf, ?app_nil_r, ?app_nil_l; symmetry; apply desolv_loop_local.
Qed.

(* ---------------- the smallest distance ---------------- *)
(* started from infinity the search returns a pair whenever both lists are non-empty (no bound on the extent of the structure) *)
Lemma inner_some i (a1 : VecGen.vec3 R) l2 : forall k (s : small_state (F:=R)), snd s <> None -> snd (fold_left (small_step i a1) (number k l2) s) <> None.
Proof.
  induction l2 as [|a r IH]; intros k s Hs; [exact Hs|]. cbn [number fold_left]. apply IH. unfold small_step.
  destruct (lt_opt _ (fst s)); [discriminate | exact Hs].
Qed.
Lemma inner_first i (a1 : VecGen.vec3 R) a r k : snd (fold_left (small_step i a1) (number k (a :: r)) (@None R, None)) <> None.
Proof. cbn [number fold_left]. apply inner_some. unfold small_step. cbn. discriminate. Qed.
Lemma outer_some (l1 l2 : list (VecGen.vec3 R)) : forall k (s : small_state (F:=R)), snd s <> None ->
  snd (fold_left (fun s ia1 => fold_left (small_step (fst ia1) (snd ia1)) (number 0 l2) s) (number k l1) s) <> None.
Proof. induction l1 as [|a r IH]; intros k s Hs; [exact Hs|]. cbn [number fold_left]. apply IH. apply inner_some. exact Hs. Qed.
Theorem smallest_finds_a_pair (a1 : VecGen.vec3 R) r1 a2 r2 : snd (smallest None (a1 :: r1) (a2 :: r2)) <> None.
Proof.
  unfold smallest, smallest_from. cbn [snd]. remember (a2 :: r2) as l2 eqn:E2. cbn [number fold_left fst snd]. apply outer_some.
  subst l2. apply inner_first.
Qed.
(* ... whereas a finite start value loses every pair at or beyond it *)
Lemma inner_none i (a1 : VecGen.vec3 R) l2 (m : R) : forall k, Forall (fun a2 => m <= squared_distance a1 a2) l2 ->
  fold_left (small_step i a1) (number k l2) (Some m, None) = (Some m, None).
Proof.
  induction l2 as [|a r IH]; intros k Hf; [reflexivity|]. cbn [number fold_left]. unfold small_step at 2. cbn [fst snd lt_opt]. num_unfold.
  assert (E : Rltb (squared_distance a1 a) m = false) by (apply Rltb_false; exact (Forall_inv Hf)). rewrite E. apply IH. exact (Forall_inv_tail Hf).
Qed.
Theorem finite_start_misses_far_pairs (m : R) (l1 l2 : list (VecGen.vec3 R)) : Forall (fun a1 => Forall (fun a2 => m <= squared_distance a1 a2) l2) l1 ->
  smallest (Some m) l1 l2 = (Some (sqrt m), None).
Proof.
  intros Hf. unfold smallest, smallest_from.
  assert (E : forall k, fold_left (fun s ia1 => fold_left (small_step (fst ia1) (snd ia1)) (number 0 l2) s) (number k l1) (Some m, None) = (Some m, None)).
  { induction l1 as [|a r IH]; intros k; [reflexivity|]. cbn [number fold_left fst snd]. rewrite inner_none by exact (Forall_inv Hf). apply IH. exact (Forall_inv_tail Hf). }
  rewrite E. reflexivity.
Qed.

(* ---------------- the global stopping rule ---------------- *)
Section Product.
Context {A B O : Type} (fa : A -> A) (fb : B -> B) (ca : A -> bool) (cb : B -> bool) (obs : A -> O).
Definition fprod (s : A * B) : A * B := (fa (fst s), fb (snd s)).
Definition cprod (s : A * B) : bool := ca (fst s) && cb (snd s).
(* a converged cluster stays converged and keeps its observable results when swept again *)
Hypothesis stable : forall a, ca a = true -> ca (fa a) = true /\ obs (fa a) = obs a.
Lemma converged_undisturbed : forall n a b, ca a = true -> obs (fst (run_sweeps fprod cprod n (a, b))) = obs a.
Proof.
  induction n as [|k IH]; intros a b Ha; [reflexivity|]. cbn [run_sweeps]. change (fprod (a, b)) with (fa a, fb b). change (cprod (fa a, fb b)) with (ca (fa a) && cb (fb b)).
  destruct (stable a Ha) as [H1 H2]. destruct (ca (fa a) && cb (fb b) || Nat.eqb k 0); cbn [fst]; [exact H2|].
  rewrite IH by exact H1. exact H2.
Qed.
Theorem cluster_independent_of_other_cluster : forall n a b,
  obs (fst (run_sweeps fprod cprod n (a, b))) = obs (run_sweeps fa ca n a).
Proof.
  induction n as [|k IH]; intros a b; [reflexivity|]. cbn [run_sweeps]. change (fprod (a, b)) with (fa a, fb b). change (cprod (fa a, fb b)) with (ca (fa a) && cb (fb b)).
  destruct (Nat.eqb k 0) eqn:Ek; [rewrite !orb_true_r; reflexivity|]. rewrite !orb_false_r.
  destruct (ca (fa a)) eqn:Ea; cbn [andb].
  - destruct (cb (fb b)); cbn [fst]; [reflexivity|]. apply converged_undisturbed. exact Ea.
  - apply IH.
Qed.
End Product.
