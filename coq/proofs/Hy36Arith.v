(* Arithmetic core of the hybrid-36 round trip, for every width (C19). *)
From Coq Require Import List ZArith Lia.
Import ListNotations.
Open Scope Z_scope.

Section Base.
Variable B : Z.
Hypothesis HB : 1 < B.

(* most-significant digit first, exactly w digits *)
Fixpoint digits (w : nat) (v : Z) : list Z :=
  match w with
  | O => []
  | S w' => (v / B ^ Z.of_nat w') :: digits w' (v mod B ^ Z.of_nat w')
  end.
Definition horner (ds : list Z) : Z := fold_left (fun acc d => acc * B + d) ds 0.

Lemma horner_acc ds : forall a, fold_left (fun acc d => acc * B + d) ds a = a * B ^ Z.of_nat (length ds) + horner ds.
Proof.
  unfold horner. induction ds as [|d r IH]; intros a.
  - simpl. lia.
  - cbn [fold_left length]. rewrite IH. rewrite (IH (0 * B + d)).
    rewrite Nat2Z.inj_succ, Z.pow_succ_r by lia. ring.
Qed.

Lemma digits_length w v : length (digits w v) = w.
Proof. revert v; induction w; simpl; auto. Qed.

Lemma horner_digits w : forall v, 0 <= v < B ^ Z.of_nat w -> horner (digits w v) = v.
Proof.
  induction w as [|w IH]; intros v Hv.
  - simpl in *. unfold horner; simpl. lia.
  - cbn [digits]. unfold horner. cbn [fold_left]. rewrite horner_acc, digits_length.
    assert (Hp : 0 < B ^ Z.of_nat w) by (apply Z.pow_pos_nonneg; lia).
    rewrite IH by (apply Z.mod_pos_bound; lia).
    pose proof (Z.div_mod v (B ^ Z.of_nat w)). lia.
Qed.

Lemma digits_range w : forall v, 0 <= v < B ^ Z.of_nat w -> Forall (fun d => 0 <= d < B) (digits w v).
Proof.
  induction w as [|w IH]; intros v Hv; cbn [digits]; constructor.
  - assert (Hp : 0 < B ^ Z.of_nat w) by (apply Z.pow_pos_nonneg; lia).
    rewrite Nat2Z.inj_succ, Z.pow_succ_r in Hv by lia.
    split; [apply Z.div_pos; lia|]. apply Z.div_lt_upper_bound; lia.
  - apply IH. apply Z.mod_pos_bound. apply Z.pow_pos_nonneg; lia.
Qed.

(* leading digit of a value in [lo*B^(w-1), hi*B^(w-1)) lies in [lo,hi) *)
Lemma leading_digit w v lo hi : 0 <= lo -> lo * B ^ Z.of_nat w <= v < hi * B ^ Z.of_nat w ->
  lo <= v / B ^ Z.of_nat w < hi.
Proof.
  intros Hlo Hv. assert (Hp : 0 < B ^ Z.of_nat w) by (apply Z.pow_pos_nonneg; lia).
  split; [apply Z.div_le_lower_bound; lia | apply Z.div_lt_upper_bound; lia].
Qed.
End Base.

(* hybrid-36 value map, width w = S w' *)
Definition P10 (w : nat) := 10 ^ Z.of_nat w.
Definition P36 (w : nat) := 36 ^ Z.of_nat w.
Inductive seg := Dec | Upper | Lower.
Definition seg_of (w' : nat) (n : Z) : seg :=
  if n <? P10 (S w') then Dec else if n <? P10 (S w') + 26 * P36 w' then Upper else Lower.
(* what encode writes in base 36 / what decode adds back *)
Definition enc_val (w' : nat) (n : Z) : Z :=
  match seg_of w' n with
  | Dec => n
  | Upper => n - P10 (S w') + 10 * P36 w'
  | Lower => n - P10 (S w') - 26 * P36 w' + 10 * P36 w'
  end.
Definition dec_val (w' : nat) (s : seg) (v : Z) : Z :=
  match s with
  | Dec => v
  | Upper => v + - (10 * 36 ^ (Z.of_nat (S w') - 1) - 10 ^ Z.of_nat (S w'))      (* reference of hybrid36.py *)
  | Lower => v + (16 * 36 ^ (Z.of_nat (S w') - 1) + 10 ^ Z.of_nat (S w'))
  end.

Theorem value_round_trip w' n : 0 <= n < P10 (S w') + 52 * P36 w' ->
  dec_val w' (seg_of w' n) (enc_val w' n) = n /\
  (seg_of w' n <> Dec -> 10 * P36 w' <= enc_val w' n < 36 * P36 w').
Proof.
  intros Hn. unfold dec_val, enc_val, seg_of, P10, P36 in *.
  replace (Z.of_nat (S w') - 1) with (Z.of_nat w') by lia.
  assert (0 < 36 ^ Z.of_nat w') by (apply Z.pow_pos_nonneg; lia).
  destruct (n <? 10 ^ Z.of_nat (S w')) eqn:E1; [split; [lia|congruence]|].
  apply Z.ltb_ge in E1.
  destruct (n <? 10 ^ Z.of_nat (S w') + 26 * 36 ^ Z.of_nat w') eqn:E2.
  - apply Z.ltb_lt in E2. split; [lia|intros _; lia].
  - apply Z.ltb_ge in E2. split; [lia|intros _; lia].
Qed.
