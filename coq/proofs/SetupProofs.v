(* C12: the set-up glue is total - no shape of the neighbour lists raises. *)
From Coq Require Import List Bool Arith String Ascii.
From V Require Import Setup.
Import ListNotations.

Definition ok {A} (r : res A) : Prop := exists v, r = Ok v.

Theorem coo_total self oxygens : ok (coo_setup self oxygens).
Proof. unfold coo_setup. destruct oxygens; cbn; eexists; reflexivity. Qed.
Theorem his_total self ring : ok (his_setup self ring).
Proof. unfold his_setup. destruct ring as [|[[a n] h] r]; cbn; eexists; reflexivity. Qed.
Theorem amd_total self oxygens nitrogens : ok (amd_setup self oxygens nitrogens).
Proof. unfold amd_setup. destruct oxygens, nitrogens; cbn; eexists; reflexivity. Qed.
Theorem arg_total self nitrogens : ok (arg_setup self nitrogens).
Proof. unfold arg_setup. cbn. eexists; reflexivity. Qed.
Theorem trp_total self hydrogens : ok (trp_setup self hydrogens).
Proof. unfold trp_setup. cbn. eexists; reflexivity. Qed.
Lemma remove_first_ok x l : In x l -> ok (remove_first x l).
Proof.
  induction l as [|y r IH]; [intros []|]. intros H. cbn. destruct (Nat.eqb x y) eqn:E; [eexists; reflexivity|].
  destruct H as [H|H]; [subst y; rewrite Nat.eqb_refl in E; discriminate|]. destruct (IH H) as [v ->]. cbn. eexists; reflexivity.
Qed.
(* the C-terminal oxygen is among the oxygens bonded to its carbon because bonds are symmetric (C11_bonds_symmetric) *)
Theorem cterm_total self carbons : (forall c oxs, In (c, oxs) carbons -> In self oxs) -> ok (cterm_setup self carbons).
Proof.
  intros H. unfold cterm_setup. destruct carbons as [|[c oxs] r]; [cbn; eexists; reflexivity|].
  destruct (remove_first_ok self oxs (H c oxs (or_introl eq_refl))) as [v ->]. cbn. eexists; reflexivity.
Qed.
(* without that symmetry the set-up does raise: the hypothesis is needed *)
Theorem cterm_needs_symmetry : cterm_setup 1 [(2, [3])] = Err ValueError.
Proof. reflexivity. Qed.
(* the amide guard must test BOTH lists: these are exactly the shapes that reach nitrogens[0] *)
Theorem amd_early_return self oxygens nitrogens : (oxygens = [] \/ nitrogens = []) ->
  amd_setup self oxygens nitrogens = Ok {| centre := [self]; inter := None |}.
Proof. intros [-> | ->]; [|destruct oxygens]; reflexivity. Qed.
(* input rejection: anything but a .pdb name (any case) with at least one conformation is a ValueError, nothing else *)
Theorem read_dispatch_spec suffix n : read_dispatch suffix n = Accept <-> (lower suffix = ".pdb"%string /\ n <> 0).
Proof.
  unfold read_dispatch. destruct (String.eqb (lower suffix) ".pdb") eqn:E.
  - apply String.eqb_eq in E. destruct (Nat.eqb n 0) eqn:En; [apply Nat.eqb_eq in En | apply Nat.eqb_neq in En]; split; try discriminate; intros; auto.
    destruct H as [_ H]. contradiction.
  - split; [discriminate|]. intros [H _]. apply String.eqb_neq in E. contradiction.
Qed.
