(* C07 (parser part): records, residues, columns and hydrogen records that cannot influence the atom stream. *)
From Coq Require Import String Ascii List Bool ZArith Lia.
From V Require Import PyString PdbParse.
Import ListNotations.
Open Scope string_scope.

(* ---- records other than ATOM / HETATM / MODEL / TER ---- *)
Definition is_other_record (l : string) : bool :=
  let tag := slice 0 6 l in
  negb (is_atom_tag tag) && negb (String.eqb tag "MODEL ") && negb (is_ter tag).

Theorem other_records_noop o s l : is_other_record l = true -> step o s l = Ok (s, []).
Proof.
  unfold is_other_record. intros H. apply andb_true_iff in H as [H Ht]. apply andb_true_iff in H as [Ha Hm].
  apply negb_true_iff in Ht, Hm. unfold step. rewrite Hm, Ht. cbn [bind]. rewrite Ha. destruct s; reflexivity.
Qed.
Corollary other_records_inert o : forall ls s, run o s (filter (fun l => negb (is_other_record l)) ls) = run o s ls.
Proof.
  induction ls as [|l r IH]; intros s; [reflexivity|]. cbn [filter].
  destruct (is_other_record l) eqn:E; cbn [negb].
  - cbn [run]. rewrite (other_records_noop o s l E). cbn [bind fst snd]. rewrite IH.
    destruct (run o s r); reflexivity.
  - cbn [run]. destruct (step o s l) as [[s' x]|e]; [|reflexivity]. cbn [bind fst snd]. rewrite IH. reflexivity.
Qed.

(* ---- residues configured as ignorable ---- *)
Definition is_ignored_record (o : opts) (l : string) : bool :=
  is_atom_tag (slice 0 6 l) && Nat.leb 17 (String.length l) && mem_str (slice 17 20 l) (ignore_residues o).

Theorem ignored_residues_noop o s l : is_ignored_record o l = true -> step o s l = Ok (s, []).
Proof.
  unfold is_ignored_record. intros H. apply andb_true_iff in H as [H Hi]. apply andb_true_iff in H as [Ha Hl].
  apply Nat.leb_le in Hl. unfold step.
  assert (Hm : String.eqb (slice 0 6 l) "MODEL " = false /\ is_ter (slice 0 6 l) = false).
  { unfold is_atom_tag in Ha. apply orb_true_iff in Ha as [E|E]; apply String.eqb_eq in E; rewrite E; split; reflexivity. }
  destruct Hm as [Hm Ht]. rewrite Hm, Ht, Ha. cbn [bind negb].
  destruct (idx_some_of_len 16 l) as [c H16]; [lia|]. rewrite H16. cbn [bind]. rewrite Hi. destruct s; reflexivity.
Qed.
Corollary ignored_residues_inert o : forall ls s, run o s (filter (fun l => negb (is_ignored_record o l)) ls) = run o s ls.
Proof.
  induction ls as [|l r IH]; intros s; [reflexivity|]. cbn [filter].
  destruct (is_ignored_record o l) eqn:E; cbn [negb].
  - cbn [run]. rewrite (ignored_residues_noop o s l E). cbn [bind fst snd]. rewrite IH.
    destruct (run o s r); reflexivity.
  - cbn [run]. destruct (step o s l) as [[s' x]|e]; [|reflexivity]. cbn [bind fst snd]. rewrite IH. reflexivity.
Qed.

(* ---- columns that are never read: serial (beyond being a valid hybrid-36 field), occupancy, B-factor and everything
        from column 67 on (segment id, element symbol, charge); the element is inferred from the name columns ---- *)
Definition relevant (l : string) :=
  (slice 0 6 l, slice 12 16 l, idx 16 l, slice 17 20 l, idx 21 l, slice 22 26 l, slice 26 27 l, slice 21 27 l,
   slice 30 38 l, slice 38 46 l, slice 46 54 l, slice 12 14 l).
Definition serial_ok (l : string) : bool :=
  match Hy36.decode (list_ascii_of_string (slice 6 11 l)) with Hy36.Ok _ => true | Hy36.ValueError => false end.
(* forget the three stored-but-unused fields *)
Definition erase (a : atomrec) : atomrec :=
  {| a_name := a_name a; a_numb := 0; a_x := a_x a; a_y := a_y a; a_z := a_z a; a_res_num := a_res_num a; a_res_name := a_res_name a;
     a_chain := a_chain a; a_type := a_type a; a_occ := ""; a_beta := ""; a_icode := a_icode a; a_element := a_element a |}.
Definition erase_out (x : out) : out := {| o_model := o_model x; o_alt := o_alt x; o_atom := erase (o_atom x); o_term := o_term x |}.
Definition erase_res (r : result (st * list out)) : result (st * list out) :=
  match r with Ok (s, l) => Ok (s, map erase_out l) | Err e => Err e end.

Lemma mk_atom_relevant l1 l2 : relevant l1 = relevant l2 -> serial_ok l1 = true -> serial_ok l2 = true ->
  match mk_atom l1, mk_atom l2 with
  | Ok a1, Ok a2 => erase a1 = erase a2
  | Err e1, Err e2 => e1 = e2
  | _, _ => False end.
Proof.
  unfold relevant, serial_ok, mk_atom. intros H S1 S2.
  injection H as H0 H1 H2 H3 H4 H5 H6 HR H7 H8 H9 H10.
  destruct (Hy36.decode (list_ascii_of_string (slice 6 11 l1))); [|discriminate].
  destruct (Hy36.decode (list_ascii_of_string (slice 6 11 l2))); [|discriminate].
  cbn [bind]. rewrite H7, H8, H9, H5, H4, H1, H3, H0. unfold element_of. rewrite H10.
  destruct (float_field (slice 30 38 l2)); [|reflexivity]. cbn [bind].
  destruct (float_field (slice 38 46 l2)); [|reflexivity]. cbn [bind].
  destruct (float_field (slice 46 54 l2)); [|reflexivity]. cbn [bind].
  destruct (py_int (strip (slice 22 26 l2))); [|reflexivity]. cbn [bind].
  destruct (idx 21 l2); [|reflexivity]. cbn [bind].
  destruct (if Nat.eqb (String.length (strip (slice 12 16 l2))) 4 then _ else _); [|reflexivity]. cbn [bind].
  unfold erase. cbn. rewrite H6. reflexivity.
Qed.

Theorem unread_columns_inert o s l1 l2 : is_atom_tag (slice 0 6 l1) = true ->
  relevant l1 = relevant l2 -> serial_ok l1 = true -> serial_ok l2 = true ->
  erase_res (step o s l1) = erase_res (step o s l2).
Proof.
  intros Ha1 H S1 S2. pose proof (mk_atom_relevant l1 l2 H S1 S2) as Hm.
  unfold relevant in H. injection H as H0 H1 H2 H3 H4 H5 H6 HR H7 H8 H9 H10.
  unfold step. rewrite H0 in *.
  assert (Hnt : String.eqb (slice 0 6 l2) "MODEL " = false).
  { unfold is_atom_tag in Ha1. apply orb_true_iff in Ha1 as [E|E]; apply String.eqb_eq in E; rewrite E; reflexivity. }
  rewrite Hnt, Ha1. cbn [bind negb]. rewrite H2, H3, H4, HR, H1.
  destruct (idx 16 l2); [|reflexivity]. cbn [bind].
  destruct (mem_str (slice 17 20 l2) (ignore_residues o)); [reflexivity|].
  destruct (match chains o with [] => Ok true | _ => _ end) as [sel|e]; [|reflexivity]. cbn [bind].
  destruct (negb sel); [reflexivity|].
  destruct (mk_atom l1) as [a1|e1], (mk_atom l2) as [a2|e2]; try contradiction; cbn [bind].
  - assert (He : a_element a1 = a_element a2) by (apply (f_equal a_element) in Hm; exact Hm). rewrite He.
    destruct (String.eqb (a_element a2) "H" && negb (keep_protons o)); cbn [erase_res map]; [reflexivity|].
    unfold erase_out. cbn [o_model o_alt o_atom o_term]. rewrite Hm. reflexivity.
  - cbn [erase_res]. rewrite Hm. reflexivity.
Qed.

(* ---- hydrogen records (keep_protons off) ---- *)
(* a record that the parser reads as a hydrogen atom and therefore does not yield *)
Definition is_h_record (o : opts) (l : string) : bool :=
  is_atom_tag (slice 0 6 l) &&
  match idx 16 l with Ok _ => true | Err _ => false end &&
  negb (mem_str (slice 17 20 l) (ignore_residues o)) &&
  match chains o with [] => true | cs => match idx 21 l with Ok c => mem_chr c cs | Err _ => false end end &&
  negb (String.eqb (strip (slice 12 16 l)) "N") && negb (String.eqb (strip (slice 12 16 l)) "OXT") &&
  negb (String.eqb (strip (slice 12 16 l)) "O''") &&
  match mk_atom l with Ok a => String.eqb (a_element a) "H" | Err _ => false end.

(* the only trace a hydrogen record can leave: it may latch the N-terminus residue number *)
Definition h_harmless (s : st) (l : string) : bool :=
  match nt s with
  | Some _ => true
  | None => negb (String.eqb (slice 0 6 l) "ATOM  ") || negb (opt_neqb (oldres s) (slice 21 27 l))
  end.

Theorem hydrogen_record_noop o s l : keep_protons o = false -> is_h_record o l = true -> h_harmless s l = true ->
  step o s l = Ok (s, []).
Proof.
  unfold is_h_record, h_harmless. intros Hk H Hh.
  repeat (apply andb_true_iff in H as [H ?]).
  match goal with Ha : is_atom_tag _ = true |- _ => rename Ha into Hat end.
  assert (Hm : String.eqb (slice 0 6 l) "MODEL " = false /\ is_ter (slice 0 6 l) = false).
  { unfold is_atom_tag in Hat. apply orb_true_iff in Hat as [E|E]; apply String.eqb_eq in E; rewrite E; split; reflexivity. }
  destruct Hm as [Hm Ht]. unfold step. rewrite Hm, Ht, Hat. cbn [bind negb].
  destruct (idx 16 l) as [c16|]; [|discriminate]. cbn [bind].
  match goal with Hi : negb (mem_str _ _) = true |- _ => apply negb_true_iff in Hi; rewrite Hi end.
  match goal with Hc : (match chains o with [] => true | _ => _ end) = true |- _ => rename Hc into Hsel end.
  match goal with |- context [bind ?e _] =>
    match e with context [chains o] => set (sel := e) end end.
  assert (Hs : sel = Ok true).
  { unfold sel. destruct (chains o) as [|c0 cs]; [reflexivity|]. destruct (idx 21 l) as [c|]; [|discriminate].
    cbn [bind]. rewrite Hsel. reflexivity. }
  rewrite Hs. cbn [bind negb].
  repeat match goal with Hn : negb (String.eqb _ _) = true |- _ => apply negb_true_iff in Hn; rewrite Hn end.
  rewrite !andb_false_r. cbn [orb andb].
  destruct (mk_atom l) as [a|]; [|discriminate]. cbn [bind].
  match goal with He : String.eqb (a_element a) "H" = true |- _ => rewrite He end. rewrite Hk. cbn [negb andb].
  destruct (nt s) as [r|] eqn:En.
  - destruct s; cbn in *; subst; reflexivity.
  - apply orb_true_iff in Hh as [Hh|Hh]; apply negb_true_iff in Hh; rewrite Hh; rewrite ?andb_false_r; cbn [andb];
    destruct s; cbn in *; subst; reflexivity.
Qed.

(* executable well-formedness check of a whole file: every hydrogen record arrives in a harmless parser state
   (i.e. after a heavy ATOM record of its TER/MODEL/OXT segment, or it repeats the residue number that carried the OXT) *)
Fixpoint hwf (o : opts) (s : st) (ls : list string) : bool :=
  match ls with
  | [] => true
  | l :: r => (if is_h_record o l then h_harmless s l else true) &&
              match step o s l with Ok (s', _) => hwf o s' r | Err _ => true end
  end.

Theorem strip_hydrogens_noop o : keep_protons o = false -> forall ls s, hwf o s ls = true ->
  run o s (filter (fun l => negb (is_h_record o l)) ls) = run o s ls.
Proof.
  intros Hk. induction ls as [|l r IH]; intros s Hw; [reflexivity|].
  cbn [hwf] in Hw. apply andb_true_iff in Hw as [Hh Hr]. cbn [filter].
  destruct (is_h_record o l) eqn:E; cbn [negb].
  - pose proof (hydrogen_record_noop o s l Hk E Hh) as Hs. rewrite Hs in Hr.
    cbn [run]. rewrite Hs. cbn [bind fst snd]. rewrite IH by exact Hr. destruct (run o s r); reflexivity.
  - cbn [run]. destruct (step o s l) as [[s' x]|e]; [|reflexivity]. cbn [bind fst snd]. rewrite IH by exact Hr. reflexivity.
Qed.

(* non-vacuity: a protonated dipeptide satisfies hwf, has hydrogen records, and stripping them gives the same stream *)
Definition nl := String (ascii_of_nat 10) EmptyString.
Definition dipeptide : list string := map (fun s => s ++ nl) [
  "ATOM      1  N   GLY A   1      11.000  12.000  13.000  1.00  0.00";
  "ATOM      2  H1  GLY A   1      10.500  12.500  13.000  1.00  0.00";
  "ATOM      3  CA  GLY A   1      12.000  12.000  13.000  1.00  0.00";
  "ATOM      4  HA2 GLY A   1      12.300  12.900  13.000  1.00  0.00";
  "ATOM      5  C   GLY A   1      13.000  12.500  13.500  1.00  0.00";
  "ATOM      6  N   ASP A   2      14.000  12.000  13.000  1.00  0.00";
  "ATOM      7  H   ASP A   2      14.200  11.100  13.000  1.00  0.00";
  "ATOM      8  OXT ASP A   2      15.000  12.000  13.000  1.00  0.00";
  "ATOM      9  HB2 ASP A   2      15.500  12.000  13.000  1.00  0.00"].
Definition o_default : opts := {| ignore_residues := ["HOH"]; keep_protons := false; chains := [] |}.
Example dipeptide_hwf :
  hwf o_default st0 dipeptide = true /\ length (filter (is_h_record o_default) dipeptide) = 4%nat /\
  match parse o_default dipeptide with Ok l => map (fun x => (a_name (o_atom x), o_term x)) l | Err _ => [] end
  = [("N", TNplus); ("CA", TNone); ("C", TNone); ("N", TNone); ("OXT", TCminus)].
Proof. vm_compute. repeat split; reflexivity. Qed.
