(* C19: round trip of hybrid-36 for every width and padding, rejection of every malformed
   string, strict monotonicity.  About model/Hy36.v:decode. *)
From Coq Require Import String List ZArith Lia Ascii Bool.
From V Require Import PyStr Hy36 Hy36Arith.
Import ListNotations.
Open Scope Z_scope.

(* ---------- reference encoder (cci.lbl.gov hy36encode, plus the leading '-' propka documents) ---------- *)
Definition dig_char (d : Z) : ascii := chr (d + 48).
Definition up_char (d : Z) : ascii := if d <? 10 then chr (d + 48) else chr (d + 55).
Definition low_char (d : Z) : ascii := if d <? 10 then chr (d + 48) else chr (d + 87).

(* drop leading zero digits but keep the last digit *)
Fixpoint strip0 (ds : list Z) : list Z :=
  match ds with
  | d :: ((_ :: _) as r) => if d =? 0 then strip0 r else ds
  | _ => ds
  end.
Definition dec_str (k : nat) (n : Z) : str := map dig_char (strip0 (digits 10 k n)).

Definition enc_nonneg (w' : nat) (n : Z) : str :=
  match seg_of w' n with
  | Dec => dec_str (S w') n
  | Upper => map up_char (digits 36 (S w') (enc_val w' n))
  | Lower => map low_char (digits 36 (S w') (enc_val w' n))
  end.
(* width S w'; negative numbers use one column for the sign *)
Definition encode (w' : nat) (n : Z) : str :=
  if n <? 0 then "-"%char :: dec_str w' (- n) else enc_nonneg w' n.
Definition in_range (w' : nat) (n : Z) : Prop :=
  - P10 w' < n < P10 (S w') + 52 * P36 w'.

(* ---------- character facts ---------- *)
Ltac char_facts :=
  unfold is_upper, is_lower, is_digit, is_space;
  repeat match goal with |- context [code (chr ?z)] => rewrite (code_chr z) by lia end;
  repeat match goal with |- context [?a <=? ?b] => let H := fresh in destruct (Z.leb_spec a b) as [H|H]; try lia end;
  repeat match goal with |- context [?a =? ?b] => let H := fresh in destruct (Z.eqb_spec a b) as [H|H]; try lia end;
  simpl; repeat split; try lia; auto.

Lemma dig_char_props d : 0 <= d < 10 ->
  code (dig_char d) - 48 = d /\ is_digit (dig_char d) = true /\ is_space (dig_char d) = false /\
  (code (dig_char d) =? 45) = false.
Proof. intros Hd. unfold dig_char. rewrite code_chr by lia. char_facts. Qed.

Lemma up_char_props d : 0 <= d < 36 ->
  val36 (up_char d) = d /\ (is_upper (up_char d) || is_digit (up_char d)) = true /\
  is_space (up_char d) = false /\
  (10 <= d -> is_upper (up_char d) = true /\ is_digit (up_char d) = false /\ (code (up_char d) =? 45) = false).
Proof.
  intros Hd. unfold up_char, val36.
  destruct (d <? 10) eqn:E; [apply Z.ltb_lt in E | apply Z.ltb_ge in E]; char_facts; intros; char_facts.
Qed.

Lemma low_char_props d : 0 <= d < 36 ->
  val36 (low_char d) = d /\ (is_lower (low_char d) || is_digit (low_char d)) = true /\
  is_space (low_char d) = false /\
  (10 <= d -> is_lower (low_char d) = true /\ is_upper (low_char d) = false /\ is_digit (low_char d) = false /\
              (code (low_char d) =? 45) = false).
Proof.
  intros Hd. unfold low_char, val36.
  destruct (d <? 10) eqn:E; [apply Z.ltb_lt in E | apply Z.ltb_ge in E]; char_facts; intros; char_facts.
Qed.

(* ---------- int36 / int10 over encoded digits ---------- *)
Lemma int36_map (f : Z -> ascii) ds :
  (forall d, 0 <= d < 36 -> val36 (f d) = d) -> Forall (fun d => 0 <= d < 36) ds -> forall acc,
  fold_left (fun acc c => acc * 36 + val36 c) (map f ds) acc = fold_left (fun acc d => acc * 36 + d) ds acc.
Proof.
  intros Hf. induction 1 as [|d r Hd Hr IH]; intros acc; simpl; auto. rewrite (Hf d Hd). apply IH.
Qed.
Lemma int10_map ds : Forall (fun d => 0 <= d < 10) ds -> forall acc,
  fold_left (fun acc c => acc * 10 + (code c - 48)) (map dig_char ds) acc
  = fold_left (fun acc d => acc * 10 + d) ds acc.
Proof.
  induction 1 as [|d r Hd Hr IH]; intros acc; simpl; auto.
  rewrite (proj1 (dig_char_props d Hd)). apply IH.
Qed.

Lemma strip0_cons2 d e r : strip0 (d :: e :: r) = if d =? 0 then strip0 (e :: r) else d :: e :: r.
Proof. reflexivity. Qed.
Lemma strip0_horner ds : horner 10 (strip0 ds) = horner 10 ds.
Proof.
  induction ds as [|d r IH]; [reflexivity|]. destruct r as [|e r']; [reflexivity|].
  rewrite strip0_cons2. destruct (Z.eqb_spec d 0) as [->|Hd]; [|reflexivity].
  rewrite IH. unfold horner. cbn [fold_left]. reflexivity.
Qed.
Lemma strip0_Forall (P : Z -> Prop) ds : Forall P ds -> Forall P (strip0 ds).
Proof.
  induction ds as [|d r IH]; intros H; [constructor|]. destruct r as [|e r']; [exact H|].
  rewrite strip0_cons2. destruct (d =? 0); [apply IH; inversion H; assumption | exact H].
Qed.
Lemma strip0_nonempty ds : ds <> [] -> strip0 ds <> [].
Proof.
  induction ds as [|d r IH]; intros H; [congruence|]. destruct r as [|e r']; [simpl; congruence|].
  rewrite strip0_cons2. destruct (d =? 0); [apply IH; congruence | congruence].
Qed.

Lemma digits_nonempty B w v : digits B (S w) v <> [].
Proof. cbn [digits]. congruence. Qed.

Lemma H10 : 1 < 10. Proof. lia. Qed.
Lemma H36 : 1 < 36. Proof. lia. Qed.

(* decimal strings: all digits, value preserved *)
Lemma dec_str_facts k n : 0 <= n < P10 (S k) ->
  exists c r, dec_str (S k) n = c :: r /\ is_digit c = true /\ forallb is_digit r = true /\
              forallb (fun c => negb (is_space c)) (c :: r) = true /\ (code c =? 45) = false /\
              int10 (c :: r) = n.
Proof.
  intros Hn. unfold dec_str, P10 in *.
  pose proof (digits_range 10 H10 (S k) n Hn) as Hr.
  pose proof (horner_digits 10 H10 (S k) n Hn) as Hh.
  pose proof (strip0_Forall _ _ Hr) as Hr'.
  pose proof (strip0_nonempty _ (digits_nonempty 10 k n)) as Hne.
  rewrite <- (strip0_horner (digits 10 (S k) n)) in Hh.
  destruct (strip0 (digits 10 (S k) n)) as [|d ds] eqn:E; [congruence|].
  exists (dig_char d), (map dig_char ds). split; [reflexivity|].
  pose proof (Forall_inv Hr') as Hd. pose proof (Forall_inv_tail Hr') as Hds.
  destruct (dig_char_props d Hd) as (_ & Hdg & Hsp & Hm).
  assert (Hall : forall c, In c (map dig_char ds) -> is_digit c = true /\ is_space c = false).
  { intros c Hc. apply in_map_iff in Hc as [e [<- He]]. rewrite Forall_forall in Hds.
    destruct (dig_char_props e (Hds e He)) as (_ & ? & ? & _). auto. }
  repeat split; auto.
  - apply forallb_forall. intros c Hc. apply (Hall c Hc).
  - cbn [forallb]. rewrite Hsp. simpl. apply forallb_forall. intros c Hc.
    rewrite (proj2 (Hall c Hc)). reflexivity.
  - unfold int10. change (dig_char d :: map dig_char ds) with (map dig_char (d :: ds)).
    rewrite int10_map by exact Hr'. exact Hh.
Qed.

(* ---------- decode on a padded core ---------- *)
Lemma decode_padded k1 k2 c r : forallb (fun c => negb (is_space c)) (c :: r) = true ->
  decode (spaces k1 ++ (c :: r) ++ spaces k2) =
  let '(sign, s) := split_sign (c :: r) in
  match s with
  | [] => ValueError
  | c :: tl =>
    let n := Z.of_nat (length s) in
    if is_digit c then if forallb is_digit tl then Ok (sign * int10 s) else ValueError
    else if is_upper c then
      if all_upper_set tl then Ok (sign * (int36 s + - (10 * 36 ^ (n - 1) - 10 ^ n))) else ValueError
    else if is_lower c then
      if all_lower_set tl then Ok (sign * (int36 s + (16 * 36 ^ (n - 1) + 10 ^ n))) else ValueError
    else ValueError
  end.
Proof. intros H. unfold decode. rewrite strip_padded by exact H. reflexivity. Qed.

Lemma decode_dec k1 k2 k n : 0 <= n < P10 (S k) ->
  decode (spaces k1 ++ dec_str (S k) n ++ spaces k2) = Ok n.
Proof.
  intros Hn. destruct (dec_str_facts k n Hn) as (c & r & -> & Hd & Hr & Hsp & Hm & Hv).
  rewrite decode_padded by exact Hsp. unfold split_sign. rewrite Hm, Hd, Hr. f_equal. lia.
Qed.

Lemma decode_neg k1 k2 k n : 0 < n < P10 (S k) ->
  decode (spaces k1 ++ ("-"%char :: dec_str (S k) n) ++ spaces k2) = Ok (- n).
Proof.
  intros Hn. destruct (dec_str_facts k n ltac:(lia)) as (c & r & -> & Hd & Hr & Hsp & Hm & Hv).
  rewrite decode_padded.
  - unfold split_sign. change (code "-"%char =? 45) with true. cbv iota beta.
    rewrite Hd, Hr. f_equal. lia.
  - change (forallb (fun c0 => negb (is_space c0)) ("-"%char :: c :: r))
      with (negb (is_space "-"%char) && forallb (fun c0 => negb (is_space c0)) (c :: r)).
    rewrite Hsp. reflexivity.
Qed.

Lemma decode_letters (f : Z -> ascii) (upper : bool) w' k1 k2 v :
  (forall d, 0 <= d < 36 -> val36 (f d) = d /\ is_space (f d) = false /\
     ((if upper then is_upper (f d) else is_lower (f d)) || is_digit (f d)) = true /\
     (10 <= d -> (if upper then is_upper (f d) = true else is_upper (f d) = false /\ is_lower (f d) = true)
                 /\ is_digit (f d) = false /\ (code (f d) =? 45) = false)) ->
  10 * P36 w' <= v < 36 * P36 w' ->
  decode (spaces k1 ++ map f (digits 36 (S w') v) ++ spaces k2) =
  Ok (v + (if upper then - (10 * 36 ^ Z.of_nat w' - 10 ^ Z.of_nat (S w'))
           else 16 * 36 ^ Z.of_nat w' + 10 ^ Z.of_nat (S w'))).
Proof.
  intros Hf Hv. unfold P36 in *.
  assert (Hp : 0 < 36 ^ Z.of_nat w') by (apply Z.pow_pos_nonneg; lia).
  assert (Hv' : 0 <= v < 36 ^ Z.of_nat (S w')) by (rewrite Nat2Z.inj_succ, Z.pow_succ_r by lia; lia).
  pose proof (digits_range 36 H36 (S w') v Hv') as Hrange.
  pose proof (horner_digits 36 H36 (S w') v Hv') as Hh.
  pose proof (digits_length 36 (S w') v) as Hlen.
  cbn [digits] in *. set (d0 := v / 36 ^ Z.of_nat w') in *.
  set (rest := digits 36 w' (v mod 36 ^ Z.of_nat w')) in *.
  assert (Hd0 : 10 <= d0 < 36) by (apply (leading_digit 36 H36 w' v 10 36); [lia| exact Hv]).
  pose proof (Forall_inv Hrange) as Hd0r. pose proof (Forall_inv_tail Hrange) as Hrest.
  assert (Hnsp : forallb (fun c => negb (is_space c)) (map f (d0 :: rest)) = true).
  { apply forallb_forall. intros c Hc. apply in_map_iff in Hc as [d [<- Hd]].
    rewrite Forall_forall in Hrange. destruct (Hf d (Hrange d Hd)) as (_ & -> & _). reflexivity. }
  cbn [map] in *. rewrite decode_padded by exact Hnsp.
  destruct (Hf d0 Hd0r) as (Hval & _ & _ & Hlead). destruct (Hlead (proj1 Hd0)) as (Hcase & Hdg & Hminus).
  unfold split_sign. rewrite Hminus, Hdg.
  assert (Hint : int36 (f d0 :: map f rest) = v).
  { unfold int36. change (f d0 :: map f rest) with (map f (d0 :: rest)).
    rewrite int36_map; [exact Hh | intros d Hd; apply (Hf d Hd) | exact Hrange]. }
  assert (Hn : Z.of_nat (length (f d0 :: map f rest)) - 1 = Z.of_nat w').
  { cbn [length] in *. rewrite map_length. lia. }
  assert (Hn2 : Z.of_nat (length (f d0 :: map f rest)) = Z.of_nat (S w')).
  { cbn [length] in *. rewrite map_length. lia. }
  destruct upper.
  - rewrite Hcase.
    replace (all_upper_set (map f rest)) with true.
    2:{ symmetry. apply forallb_forall. intros c Hc. apply in_map_iff in Hc as [d [<- Hd]].
        rewrite Forall_forall in Hrest. apply (Hf d (Hrest d Hd)). }
    cbv zeta. rewrite Hint, Hn, Hn2. f_equal. lia.
  - destruct Hcase as [Hu Hl]. rewrite Hu, Hl.
    replace (all_lower_set (map f rest)) with true.
    2:{ symmetry. apply forallb_forall. intros c Hc. apply in_map_iff in Hc as [d [<- Hd]].
        rewrite Forall_forall in Hrest. apply (Hf d (Hrest d Hd)). }
    cbv zeta. rewrite Hint, Hn, Hn2. f_equal. lia.
Qed.

(* ---------- the round trip, every width, every padding ---------- *)
Theorem decode_encode_all w' k1 k2 n : in_range w' n ->
  decode (spaces k1 ++ encode w' n ++ spaces k2) = Ok n.
Proof.
  unfold in_range, encode. intros Hn.
  destruct (n <? 0) eqn:Eneg; [apply Z.ltb_lt in Eneg | apply Z.ltb_ge in Eneg].
  - destruct w' as [|k]; [unfold P10 in Hn; simpl in Hn; lia|].
    replace n with (- (- n)) at 2 by lia. apply decode_neg. lia.
  - assert (Hn' : 0 <= n < P10 (S w') + 52 * P36 w') by lia.
    destruct (value_round_trip w' n Hn') as [Hrt Hbound].
    unfold enc_nonneg. unfold dec_val in Hrt.
    replace (Z.of_nat (S w') - 1) with (Z.of_nat w') in Hrt by lia.
    destruct (seg_of w' n) eqn:Eseg.
    + apply decode_dec. unfold seg_of in Eseg. destruct (n <? P10 (S w')) eqn:E; [apply Z.ltb_lt in E; lia|].
      destruct (n <? P10 (S w') + 26 * P36 w'); discriminate.
    + rewrite (decode_letters up_char true); [f_equal; exact Hrt | | apply Hbound; discriminate].
      intros d Hd. destruct (up_char_props d Hd) as (H1 & H2 & H3 & Hl).
      split; [exact H1|]. split; [exact H3|]. split; [exact H2|].
      intros H10d. destruct (Hl H10d) as (H4 & H5 & H6). split; [exact H4|]. split; assumption.
    + rewrite (decode_letters low_char false); [f_equal; exact Hrt | | apply Hbound; discriminate].
      intros d Hd. destruct (low_char_props d Hd) as (H1 & H2 & H3 & Hl).
      split; [exact H1|]. split; [exact H3|]. split; [exact H2|].
      intros H10d. destruct (Hl H10d) as (H4 & H5 & H6 & H7).
      split; [split; assumption|]. split; assumption.
Qed.

Corollary decode_strict_mono_all w' k1 k2 k3 k4 n1 n2 r1 r2 :
  in_range w' n1 -> in_range w' n2 -> n1 < n2 ->
  decode (spaces k1 ++ encode w' n1 ++ spaces k2) = Ok r1 ->
  decode (spaces k3 ++ encode w' n2 ++ spaces k4) = Ok r2 -> r1 < r2.
Proof.
  intros H1 H2 Hlt E1 E2. rewrite decode_encode_all in E1, E2 by assumption.
  injection E1 as <-. injection E2 as <-. exact Hlt.
Qed.

(* the field ranges quoted in the property *)
Lemma range_width5 n : in_range 4 n <-> -9999 <= n <= 87440031.
Proof. unfold in_range, P10, P36. simpl. lia. Qed.
Lemma range_width1 n : in_range 0 n <-> 0 <= n <= 61.
Proof. unfold in_range, P10, P36. simpl. lia. Qed.

(* ---------- rejection: an independent, declarative well-formedness predicate ---------- *)
Definition wf_body (s : str) : bool :=
  match s with
  | [] => false
  | c :: tl => (is_digit c && forallb is_digit tl)
               || (is_upper c && forallb (fun d => is_upper d || is_digit d) tl)
               || (is_lower c && forallb (fun d => is_lower d || is_digit d) tl)
  end.
Definition wf (s0 : str) : bool :=
  match strip s0 with
  | c :: r => if code c =? 45 then wf_body r else wf_body (c :: r)
  | [] => false
  end.

Lemma class_disjoint c :
  (is_digit c = true -> is_upper c = false /\ is_lower c = false) /\
  (is_upper c = true -> is_digit c = false /\ is_lower c = false) /\
  (is_lower c = true -> is_digit c = false /\ is_upper c = false).
Proof. pose proof (code_range c). char_facts. Qed.

Lemma decode_body_spec sign s :
  (match s with
   | [] => ValueError
   | c :: tl =>
     let n := Z.of_nat (length s) in
     if is_digit c then if forallb is_digit tl then Ok (sign * int10 s) else ValueError
     else if is_upper c then
       if all_upper_set tl then Ok (sign * (int36 s + - (10 * 36 ^ (n - 1) - 10 ^ n))) else ValueError
     else if is_lower c then
       if all_lower_set tl then Ok (sign * (int36 s + (16 * 36 ^ (n - 1) + 10 ^ n))) else ValueError
     else ValueError
   end) = ValueError <-> wf_body s = false.
Proof.
  destruct s as [|c tl]; [simpl; tauto|]. unfold wf_body, all_upper_set, all_lower_set.
  destruct (class_disjoint c) as (Hd & Hu & Hl).
  destruct (is_digit c) eqn:Ed.
  - destruct (Hd eq_refl) as [-> ->]. destruct (forallb is_digit tl); simpl; split; congruence.
  - destruct (is_upper c) eqn:Eu.
    + destruct (Hu eq_refl) as [_ ->]. destruct (forallb _ tl); simpl; split; congruence.
    + destruct (is_lower c) eqn:El; [destruct (forallb _ tl)|]; simpl; split; congruence.
Qed.

Theorem decode_rejects_iff s : decode s = ValueError <-> wf s = false.
Proof.
  unfold decode, wf. destruct (strip s) as [|c r] eqn:E; [simpl; tauto|].
  unfold split_sign. destruct (code c =? 45); [exact (decode_body_spec (-1) r) | exact (decode_body_spec 1 (c :: r))].
Qed.

(* wf is about what the property calls malformed: anything but [-](digits | Upper(Upper|digit)* | lower(lower|digit)* ) *)
Example wf_examples :
  map (fun s => wf (S_ s)) ["12345"; "A0000"; "zzzzz"; " -123"; "-A0000"; "  ZZZZY"]%string = repeat true 6 /\
  map (fun s => wf (S_ s)) ["1_0"; "A00a0"; "a0A00"; ""; "     "; "-"; "1 2"; "+12"; "1.5"; "12-"; "--1"; "!NotOk"]%string
  = repeat false 12.
Proof. vm_compute. split; reflexivity. Qed.

(* ---------- padding invariance for EVERY string (well-formed or not) ---------- *)
Lemma rstrip_lstrip_app_spaces s k : rstrip (lstrip (s ++ spaces k)) = rstrip (lstrip s).
Proof.
  induction s as [|c r IH].
  - cbn [app lstrip]. rewrite <- (app_nil_r (spaces k)), lstrip_spaces. reflexivity.
  - cbn [app lstrip]. destruct (is_space c); [exact IH|].
    change (c :: r ++ spaces k) with ((c :: r) ++ spaces k). apply rstrip_app_spaces.
Qed.

Lemma strip_padding_irrelevant k1 k2 s : strip (spaces k1 ++ s ++ spaces k2) = strip s.
Proof. unfold strip. rewrite lstrip_spaces. apply rstrip_lstrip_app_spaces. Qed.

Theorem decode_padding_irrelevant k1 k2 s : decode (spaces k1 ++ s ++ spaces k2) = decode s.
Proof. unfold decode. rewrite strip_padding_irrelevant. reflexivity. Qed.

(* ---------- the encoding is injective on the representable range ---------- *)
Corollary encode_injective w' n1 n2 : in_range w' n1 -> in_range w' n2 ->
  encode w' n1 = encode w' n2 -> n1 = n2.
Proof.
  intros H1 H2 E.
  pose proof (decode_encode_all w' 0 0 n1 H1) as D1.
  pose proof (decode_encode_all w' 0 0 n2 H2) as D2.
  rewrite E in D1. rewrite D1 in D2. injection D2 as ->. reflexivity.
Qed.
