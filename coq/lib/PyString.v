(* Python str operations on Coq `string` (8-bit code points), with explicit errors. *)
From Coq Require Import String Ascii List Bool ZArith Lia.
Import ListNotations.
Open Scope string_scope.

Inductive err := IndexError | ValueError.
Inductive result (A : Type) := Ok (a : A) | Err (e : err).
Arguments Ok {A}. Arguments Err {A}.
Definition bind {A B} (r : result A) (f : A -> result B) : result B := match r with Ok a => f a | Err e => Err e end.
Notation "'do' x <- r ; k" := (bind r (fun x => k)) (at level 200, x name, r at level 100, k at level 200).

(* s[a:b] with clipping (0 <= a <= b) ; s[a:] *)
Definition slice (a b : nat) (s : string) : string := substring a (b - a) s.
Definition slice_from (a : nat) (s : string) : string := substring a (String.length s - a) s.
(* s[i] *)
Definition idx (i : nat) (s : string) : result ascii := match get i s with Some c => Ok c | None => Err IndexError end.

Definition code (c : ascii) : nat := nat_of_ascii c.
Definition is_space (c : ascii) : bool :=
  let n := code c in
  (Nat.leb 9 n && Nat.leb n 13) || (Nat.leb 28 n && Nat.leb n 32) || Nat.eqb n 133 || Nat.eqb n 160.
Definition is_digit (c : ascii) : bool := let n := code c in Nat.leb 48 n && Nat.leb n 57.

Fixpoint lstrip (s : string) : string :=
  match s with String c r => if is_space c then lstrip r else s | EmptyString => EmptyString end.
Fixpoint rstrip (s : string) : string :=
  match s with
  | EmptyString => EmptyString
  | String c r => match rstrip r with
                  | EmptyString => if is_space c then EmptyString else String c EmptyString
                  | r' => String c r' end
  end.
Definition strip (s : string) : string := rstrip (lstrip s).
(* s.strip(string.digits) *)
Fixpoint lstrip_digits (s : string) : string :=
  match s with String c r => if is_digit c then lstrip_digits r else s | EmptyString => EmptyString end.
Fixpoint rstrip_digits (s : string) : string :=
  match s with
  | EmptyString => EmptyString
  | String c r => match rstrip_digits r with
                  | EmptyString => if is_digit c then EmptyString else String c EmptyString
                  | r' => String c r' end
  end.
Definition strip_digits (s : string) : string := rstrip_digits (lstrip_digits s).

Definition lower_char (c : ascii) : ascii :=
  let n := code c in if Nat.leb 65 n && Nat.leb n 90 then ascii_of_nat (n + 32) else c.
Fixpoint lower (s : string) : string :=
  match s with EmptyString => EmptyString | String c r => String (lower_char c) (lower r) end.
(* "{0:<3s}".format(s) *)
Fixpoint ljust (n : nat) (s : string) : string :=
  match n, s with
  | O, _ => s
  | S k, EmptyString => String " " (ljust k EmptyString)
  | S k, String c r => String c (ljust k r)
  end.

Fixpoint mem_str (s : string) (l : list string) : bool :=
  match l with [] => false | x :: r => String.eqb s x || mem_str s r end.
Fixpoint mem_chr (c : ascii) (l : list ascii) : bool :=
  match l with [] => false | x :: r => Ascii.eqb c x || mem_chr c r end.

(* int(s): optional surrounding white space, optional sign, digits with single inner underscores *)
Fixpoint int_digits (s : string) (acc : Z) (prev_us any : bool) : result Z :=
  match s with
  | EmptyString => if prev_us || negb any then Err ValueError else Ok acc
  | String c r =>
    if is_digit c then int_digits r (acc * 10 + Z.of_nat (code c - 48))%Z false true
    else if Nat.eqb (code c) 95 && negb prev_us && any then int_digits r acc true any
    else Err ValueError
  end.
Definition py_int (s0 : string) : result Z :=
  match strip s0 with
  | EmptyString => Err ValueError
  | String c r =>
    if Nat.eqb (code c) 45 then do v <- int_digits r 0 false false; Ok (- v)%Z
    else if Nat.eqb (code c) 43 then int_digits r 0 false false
    else int_digits (String c r) 0 false false
  end.

(* float(s) accepts: [ws] [+-] (digits[.digits] | .digits) [ (e|E) [+-] digits ] [ws], with single inner underscores in
   digit runs, or inf / infinity / nan (any case).  Only acceptance is modelled; the value stays the text. *)
Fixpoint digit_run (s : string) (prev_us any : bool) : option (string * bool) :=   (* rest, any digit seen *)
  match s with
  | EmptyString => if prev_us then None else Some (s, any)
  | String c r =>
    if is_digit c then digit_run r false true
    else if Nat.eqb (code c) 95 && negb prev_us && any then
      match r with String d _ => if is_digit d then digit_run r true any else None | EmptyString => None end
    else if prev_us then None else Some (s, any)
  end.
Definition float_special (s : string) : bool :=
  let t := lower s in String.eqb t "inf" || String.eqb t "infinity" || String.eqb t "nan".
Definition py_float_ok (s0 : string) : bool :=
  match strip s0 with
  | EmptyString => false
  | String c r as s =>
    let body := if Nat.eqb (code c) 45 || Nat.eqb (code c) 43 then r else s in
    if float_special body then true else
    match digit_run body false false with
    | None => false
    | Some (rest, any1) =>
      let after_frac :=
        match rest with
        | String d r2 => if Nat.eqb (code d) 46 then
                           match digit_run r2 false false with Some (rest2, any2) => Some (rest2, any1 || any2) | None => None end
                         else Some (rest, any1)
        | EmptyString => Some (rest, any1) end in
      match after_frac with
      | None => false
      | Some (rest2, anyd) =>
        if negb anyd then false else
        match rest2 with
        | EmptyString => true
        | String e r3 =>
          if Nat.eqb (code e) 101 || Nat.eqb (code e) 69 then
            let r4 := match r3 with String sg r5 => if Nat.eqb (code sg) 45 || Nat.eqb (code sg) 43 then r5 else r3 | EmptyString => r3 end in
            match digit_run r4 false false with Some (EmptyString, true) => true | _ => false end
          else false
        end
      end
    end
  end.

Definition codes (s : string) : list Z := map (fun c => Z.of_nat (code c)) (list_ascii_of_string s).
Fixpoint of_codes (l : list Z) : string :=
  match l with [] => EmptyString | z :: r => String (ascii_of_nat (Z.to_nat z)) (of_codes r) end.

Lemma idx_some_of_len : forall n s, (n < String.length s)%nat -> exists c, idx n s = Ok c.
Proof.
  unfold idx. induction n; destruct s; simpl; intros; try lia; eauto.
  apply IHn. lia.
Qed.
