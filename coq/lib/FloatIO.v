(* Exact wire format for binary64 values between the harness and vm_compute runs of the float instance. *)
From Coq Require Import ZArith List PrimFloat FloatOps SpecFloat.
Definition fout (x : float) : Z * Z * Z :=
  match Prim2SF x with
  | S754_zero s => (0, if s then 1 else 0, 0)%Z
  | S754_infinity s => (1, if s then 1 else 0, 0)%Z
  | S754_nan => (2, 0, 0)%Z
  | S754_finite s m e => (3, if s then Z.neg m else Z.pos m, e)%Z
  end.
Definition bout (b : bool) : Z * Z * Z := (4, if b then 1 else 0, 0)%Z.

(* math.floor of a finite binary64 value, exactly *)
Definition float_floor (x : float) : Z :=
  match Prim2SF x with
  | S754_finite s m e =>
    let v := if s then Z.neg m else Z.pos m in
    if (0 <=? e)%Z then (v * 2 ^ e)%Z else (v / 2 ^ (- e))%Z
  | _ => 0%Z
  end.
