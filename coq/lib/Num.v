(* One definition, two number systems: generated numeric code (coq/gen/*.v) is written over this class.
   NumR (Coq reals) is used for every theorem; NumF (PrimFloat, binary64) is executed with vm_compute and
   compared bit for bit with Python for the functions that use no transcendental member. *)
From Coq Require Import Reals ZArith Bool.
From Coq Require PrimFloat Uint63.

Class Num (F : Type) := {
  nadd : F -> F -> F; nsub : F -> F -> F; nmul : F -> F -> F; ndiv : F -> F -> F;
  nabs : F -> F; nneg : F -> F; nsqrt : F -> F;
  nltb : F -> F -> bool; nleb : F -> F -> bool; neqb : F -> F -> bool;
  nlit : Z -> Z -> F;                       (* exact quotient numerator / denominator *)
  npow10 : F -> F; nlog10 : F -> F; nsin : F -> F; ncos : F -> F; nasin : F -> F; nacos : F -> F; npi : F }.

(* Python's max(a, b) / min(a, b): the first extremal argument wins *)
Definition nmax {F} {N : Num F} (a b : F) : F := if nltb a b then b else a.
Definition nmin {F} {N : Num F} (a b : F) : F := if nltb b a then b else a.

Definition Rltb (a b : R) : bool := if Rlt_dec a b then true else false.
Definition Rleb (a b : R) : bool := if Rle_dec a b then true else false.
Definition Reqb (a b : R) : bool := if Req_EM_T a b then true else false.

#[export] Instance NumR : Num R := {|
  nadd := Rplus; nsub := Rminus; nmul := Rmult; ndiv := Rdiv; nabs := Rabs; nneg := Ropp; nsqrt := sqrt;
  nltb := Rltb; nleb := Rleb; neqb := Reqb;
  nlit := fun n d => (IZR n / IZR d)%R;
  npow10 := fun x => Rpower 10 x; nlog10 := fun x => (ln x / ln 10)%R;
  nsin := sin; ncos := cos; nasin := asin; nacos := acos; npi := PI |}.

Lemma Rltb_true a b : Rltb a b = true <-> (a < b)%R.
Proof. unfold Rltb. destruct (Rlt_dec a b); split; intros; auto; discriminate. Qed.
Lemma Rltb_false a b : Rltb a b = false <-> (b <= a)%R.
Proof. unfold Rltb. destruct (Rlt_dec a b); split; intros; auto; try discriminate.
  - exfalso. apply (Rlt_irrefl a). eapply Rlt_le_trans; eauto.
  - apply Rnot_lt_le. assumption. Qed.
Lemma Rleb_true a b : Rleb a b = true <-> (a <= b)%R.
Proof. unfold Rleb. destruct (Rle_dec a b); split; intros; auto; discriminate. Qed.
Lemma Rleb_false a b : Rleb a b = false <-> (b < a)%R.
Proof. unfold Rleb. destruct (Rle_dec a b); split; intros; auto; try discriminate.
  - exfalso. apply (Rlt_irrefl a). eapply Rle_lt_trans; eauto.
  - apply Rnot_le_lt. assumption. Qed.
Lemma Reqb_true a b : Reqb a b = true <-> a = b.
Proof. unfold Reqb. destruct (Req_EM_T a b); split; intros; auto; discriminate. Qed.
Lemma Reqb_false a b : Reqb a b = false <-> a <> b.
Proof. unfold Reqb. destruct (Req_EM_T a b); split; intros; auto; try discriminate. contradiction. Qed.

(* case analysis on the boolean comparisons of the real instance *)
Ltac rcases :=
  repeat match goal with
  | |- context [Rltb ?a ?b] => let H := fresh "Hc" in destruct (Rltb a b) eqn:H;
        [apply Rltb_true in H | apply Rltb_false in H]
  | |- context [Rleb ?a ?b] => let H := fresh "Hc" in destruct (Rleb a b) eqn:H;
        [apply Rleb_true in H | apply Rleb_false in H]
  | |- context [Reqb ?a ?b] => let H := fresh "Hc" in destruct (Reqb a b) eqn:H;
        [apply Reqb_true in H | apply Reqb_false in H]
  end.
Ltac num_unfold := cbn [nadd nsub nmul ndiv nabs nneg nsqrt nltb nleb neqb nlit npow10 nlog10 nsin ncos nasin nacos npi NumR] in *;
  unfold nmax, nmin in *;
  cbn [nadd nsub nmul ndiv nabs nneg nsqrt nltb nleb neqb nlit npow10 nlog10 nsin ncos nasin nacos npi NumR] in *.

(* binary64 instance; transcendental members are not available in Coq: they return nan, and only
   functions free of them are executed through this instance *)
Definition flit (n d : Z) : PrimFloat.float :=
  let f z := if (z <? 0)%Z then PrimFloat.opp (PrimFloat.of_uint63 (Uint63.of_Z (- z)))
             else PrimFloat.of_uint63 (Uint63.of_Z z) in
  PrimFloat.div (f n) (f d).
#[export] Instance NumFl : Num PrimFloat.float := {|
  nadd := PrimFloat.add; nsub := PrimFloat.sub; nmul := PrimFloat.mul; ndiv := PrimFloat.div;
  nabs := PrimFloat.abs; nneg := PrimFloat.opp; nsqrt := PrimFloat.sqrt;
  nltb := PrimFloat.ltb; nleb := PrimFloat.leb; neqb := PrimFloat.eqb;
  nlit := flit;
  npow10 := fun _ => PrimFloat.nan; nlog10 := fun _ => PrimFloat.nan; nsin := fun _ => PrimFloat.nan; ncos := fun _ => PrimFloat.nan;
  nasin := fun _ => PrimFloat.nan; nacos := fun _ => PrimFloat.nan; npi := PrimFloat.nan |}.

(* binary64 instance whose 10**x and log10 are finite tables recorded from the Python run under comparison
   (libm cannot be evaluated inside Coq); a missing entry yields nan and therefore a visible disagreement *)
Definition flookup (tbl : list (PrimFloat.float * PrimFloat.float)) (x : PrimFloat.float) : PrimFloat.float :=
  match List.find (fun p => PrimFloat.eqb (fst p) x) tbl with Some p => snd p | None => PrimFloat.nan end.
Definition NumFlT (p10 l10 : list (PrimFloat.float * PrimFloat.float)) : Num PrimFloat.float := {|
  nadd := PrimFloat.add; nsub := PrimFloat.sub; nmul := PrimFloat.mul; ndiv := PrimFloat.div;
  nabs := PrimFloat.abs; nneg := PrimFloat.opp; nsqrt := PrimFloat.sqrt;
  nltb := PrimFloat.ltb; nleb := PrimFloat.leb; neqb := PrimFloat.eqb;
  nlit := flit;
  npow10 := flookup p10; nlog10 := flookup l10; nsin := fun _ => PrimFloat.nan; ncos := fun _ => PrimFloat.nan;
  nasin := fun _ => PrimFloat.nan; nacos := fun _ => PrimFloat.nan; npi := PrimFloat.nan |}.
