(* Python str semantics used by the text-level models.  A str is a list of
   8-bit characters (code points 0..255, i.e. the Latin-1 range of Python's
   str); the correspondence checks feed exactly that range. *)
From Coq Require Import List ZArith Lia Ascii Bool String.
Import ListNotations.
Open Scope Z_scope.

Definition str := list ascii.
Definition code (c : ascii) : Z := Z.of_nat (nat_of_ascii c).
Definition chr (z : Z) : ascii := ascii_of_nat (Z.to_nat z).
Lemma code_chr z : 0 <= z < 256 -> code (chr z) = z.
Proof. intros. unfold code, chr. rewrite nat_ascii_embedding by lia. lia. Qed.
Lemma code_range c : 0 <= code c < 256.
Proof. unfold code. pose proof (nat_ascii_bounded c). lia. Qed.
Lemma chr_code c : chr (code c) = c.
Proof. unfold chr, code. rewrite Nat2Z.id. apply ascii_nat_embedding. Qed.

Definition S_ (s : string) : str := list_ascii_of_string s.

Definition is_digit c := (48 <=? code c) && (code c <=? 57).
Definition is_upper c := (65 <=? code c) && (code c <=? 90).
Definition is_lower c := (97 <=? code c) && (code c <=? 122).
(* str.isspace() on code points 0..255: \t\n\v\f\r, FS GS RS US, space, NEL, NBSP *)
Definition is_space c :=
  ((9 <=? code c) && (code c <=? 13)) || ((28 <=? code c) && (code c <=? 32))
  || (code c =? 133) || (code c =? 160).

(* str.strip() *)
Fixpoint lstrip (s : str) : str :=
  match s with c :: r => if is_space c then lstrip r else s | [] => [] end.
Fixpoint rstrip (s : str) : str :=
  match s with
  | [] => []
  | c :: r => match rstrip r with
              | [] => if is_space c then [] else [c]
              | r' => c :: r' end
  end.
Definition strip (s : str) : str := rstrip (lstrip s).

(* value of a character as a base-36 digit (only used on validated characters) *)
Definition val36 (c : ascii) : Z :=
  if is_digit c then code c - 48 else if is_upper c then code c - 55 else code c - 87.
(* int(s, 36) / int(s) on strings already validated as [0-9A-Za-z]+ / [0-9]+ *)
Definition int36 (s : str) : Z := fold_left (fun acc c => acc * 36 + val36 c) s 0.
Definition int10 (s : str) : Z := fold_left (fun acc c => acc * 10 + (code c - 48)) s 0.

Definition spaces (k : nat) : str := repeat " "%char k.

Lemma lstrip_spaces k s : lstrip (spaces k ++ s) = lstrip s.
Proof. unfold spaces. induction k; simpl; auto. Qed.
Lemma rstrip_spaces k : rstrip (spaces k) = [].
Proof. unfold spaces. induction k; simpl; auto. rewrite IHk. reflexivity. Qed.
Lemma rstrip_app_spaces s k : rstrip (s ++ spaces k) = rstrip s.
Proof. induction s as [|c r IH]; simpl; [apply rstrip_spaces|]. rewrite IH. reflexivity. Qed.
Lemma rstrip_nonspace s : forallb (fun c => negb (is_space c)) s = true -> rstrip s = s.
Proof.
  induction s as [|c r IH]; simpl; auto. intros H. apply andb_true_iff in H as [Hc Hr].
  rewrite IH by exact Hr. apply negb_true_iff in Hc. rewrite Hc. destruct r; reflexivity.
Qed.
Lemma strip_padded k1 k2 c r : forallb (fun c => negb (is_space c)) (c :: r) = true ->
  strip (spaces k1 ++ (c :: r) ++ spaces k2) = c :: r.
Proof.
  intros H. unfold strip. rewrite lstrip_spaces.
  assert (Hc : is_space c = false)
    by (simpl in H; apply andb_true_iff in H as [Hc _]; apply negb_true_iff in Hc; exact Hc).
  simpl app. simpl lstrip. rewrite Hc. change (c :: r ++ spaces k2) with ((c :: r) ++ spaces k2).
  rewrite rstrip_app_spaces. apply rstrip_nonspace. exact H.
Qed.

(* strip only removes white space at the ends: characterisation used by the rejection theorem *)
Lemma lstrip_head s c r : lstrip s = c :: r -> is_space c = false.
Proof.
  induction s as [|a s IH]; simpl; [discriminate|]. destruct (is_space a) eqn:E; auto.
  intros H; injection H as -> _. exact E.
Qed.
Lemma rstrip_head s c r : rstrip s = c :: r -> exists r0, s = c :: r0.
Proof.
  destruct s as [|a s]; simpl; [discriminate|]. destruct (rstrip s).
  - destruct (is_space a); [discriminate|]. intros H; injection H as -> _. eauto.
  - intros H; injection H as -> _. eauto.
Qed.
Lemma strip_head s c r : strip s = c :: r -> is_space c = false.
Proof.
  unfold strip. intros H. destruct (rstrip_head _ _ _ H) as [r0 Hr0]. eapply lstrip_head; eauto.
Qed.
