(* C11 — Covalent bonds are exactly those the pairwise distance rule gives.  Statements only.
   Model: model/Bonds.v (cell list, make_bond, check_distance over the GENERATED squared_distance; offsets and distance
   constants from gen/Bonds_gen.v, re-extracted from propka/bonds.py every run).  Real-number instance, cell = floor(x / box_size). *)
From Coq Require Import String List Bool ZArith Reals PrimFloat.
From Flocq Require Import Raux.
From V Require Import Num VecGen Bonds_gen Bonds BondsProofs BondsConcrete.
Import ListNotations.

(* the half-space neighbour table: of each pair {d,-d} of the 26 directions exactly one is enumerated, none is zero *)
Theorem C11_offsets_cover_each_direction_once :
  forallb (fun d => if ceqb d zero3 then true else xorb (mem_cell d offsets) (mem_cell (cneg d) offsets)) all_dirs = true
  /\ forallb (fun d => negb (ceqb d zero3)) offsets = true.
Proof. split; [exact offsets_half_space | exact offsets_nonzero]. Qed.
Print Assumptions C11_offsets_cover_each_direction_once.

(* for EVERY atom list (any order, density, signs of coordinates; element symbols of the periodic table):
   j is in the bonded list of i after the cell-list search  <->  after the O(n^2) search  <->  the pair criterion holds *)
Theorem C11_cell_list_equals_all_pairs : forall atoms : list (batom R), Forall known atoms -> forall i j,
  In j (adj (bonds_using_boxes Zfloor atoms) i) <-> In j (adj (bonds_all_pairs atoms) i).
Proof. exact model_boxes_eq_allpairs. Qed.
Theorem C11_bonds_are_the_pairwise_rule : forall atoms : list (batom R), Forall known atoms -> forall i j,
  In j (adj (bonds_using_boxes Zfloor atoms) i) <->
  (i < length atoms)%nat /\ (j < length atoms)%nat /\ i <> j /\
  check_distance (atom_at (batom R) dflt_atom atoms i) (atom_at (batom R) dflt_atom atoms j) = true.
Proof. exact model_boxes_spec. Qed.
Print Assumptions C11_bonds_are_the_pairwise_rule.

Theorem C11_bonds_symmetric : forall atoms : list (batom R), Forall known atoms -> forall i j,
  In j (adj (bonds_using_boxes Zfloor atoms) i) -> In i (adj (bonds_using_boxes Zfloor atoms) j).
Proof. exact model_bonded_symmetric. Qed.
Theorem C11_no_self_bond : forall atoms : list (batom R), Forall known atoms -> forall i, ~ In i (adj (bonds_using_boxes Zfloor atoms) i).
Proof. exact model_bonded_irreflexive. Qed.
Theorem C11_no_duplicate_bond : forall atoms : list (batom R), Forall known atoms -> forall i, NoDup (adj (bonds_using_boxes Zfloor atoms) i).
Proof. exact model_bonded_nodup. Qed.

(* two sulfurs the rule bonds are BOTH marked as bridged, and only such atoms are marked *)
Theorem C11_disulfide_both_flagged : forall atoms : list (batom R), Forall known atoms -> forall i j,
  (i < length atoms)%nat -> (j < length atoms)%nat -> i <> j ->
  check_distance (atom_at (batom R) dflt_atom atoms i) (atom_at (batom R) dflt_atom atoms j) = true ->
  is_sulfur (atom_at (batom R) dflt_atom atoms i) = true -> is_sulfur (atom_at (batom R) dflt_atom atoms j) = true ->
  bridge (bonds_using_boxes Zfloor atoms) i = true /\ bridge (bonds_using_boxes Zfloor atoms) j = true.
Proof. exact model_disulfide_both_flagged. Qed.
Theorem C11_bridge_only_for_disulfides : forall atoms : list (batom R), Forall known atoms -> forall k,
  bridge (bonds_using_boxes Zfloor atoms) k = true ->
  exists m, (k < length atoms)%nat /\ (m < length atoms)%nat /\ k <> m /\
            check_distance (atom_at (batom R) dflt_atom atoms k) (atom_at (batom R) dflt_atom atoms m) = true /\
            is_sulfur (atom_at (batom R) dflt_atom atoms k) = true /\ is_sulfur (atom_at (batom R) dflt_atom atoms m) = true.
Proof. exact model_bridge_only_disulfide. Qed.

(* the two hypotheses discharged for the concrete criterion and cell index *)
Theorem C11_criterion_symmetric : forall a b : batom R, known a -> known b -> check_distance a b = check_distance b a.
Proof. exact check_distance_sym. Qed.
Theorem C11_bonded_atoms_in_adjacent_cells : forall a b : batom R, check_distance a b = true -> adjacent (cellR a) (cellR b).
Proof. exact check_distance_near. Qed.
Theorem C11_nonvacuous :
  let A (x : float) (e : string) := {| b_pos := mk_vec3 x 0%float 0%float; b_elem := e |} in
  let st := bonds_using_boxes (F:=float) ffloor [A 0%float "S"; A 2.03125%float "S"; A 10%float "C"; A 12.25%float "C"]%string in
  (adj st 0%nat, adj st 1%nat, adj st 2%nat, adj st 3%nat, bridge st 0%nat, bridge st 1%nat, bridge st 2%nat)
  = ([1]%nat, [0]%nat, @nil nat, @nil nat, true, true, false)
  /\ In "S"%string elems /\ In "C"%string elems.
Proof. exact criterion_examples. Qed.

(* ---- "a bridged cysteine is not titrated": the titration flags of a group whose atom carries the bridge flag when the group is
   created, under ANY sequence of the operations the source performs on these flags (setup with any model-pKa state, the
   --titrate_only restriction with any list, cloning, further bridge marks); model/Titrate.v, inventory gen/Inventory_gen.v *)
From V Require Import PyString Titrate TitrateProofs Inventory_gen.
From Coq Require Import QArith.
Theorem C11_bridged_group_never_titratable : forall (E : Type) k is_cys (env : E) (ops : list flag_op),
  g_titratable (snd (flag_run (flag_init k is_cys true env) ops)) = false.
Proof. intros E. exact bridged_from_init. Qed.
Theorem C11_bridge_flag_never_cleared : forall (E : Type) (st : flag_state E) ops, fst st = true -> fst (flag_run st ops) = true.
Proof. intros E. exact bridge_flag_never_cleared. Qed.
Theorem C11_free_group_flags : forall (E : Type) k is_cys (env : E) mps o,
  g_titratable (snd (flag_run (flag_init k is_cys false env) [OpSetup mps; OpRestrict o])) =
  mps && match o with None => true | Some l => key_mem k l end.
Proof. intros E. exact free_group_flags. Qed.
(* every assignment to titratable / cysteine_bridge / exclude_cys_from_results in the CURRENT source is one of the model's operations,
   each operation's write is present, and the reported pKa of a bridged cysteine is the sentinel 99.99 *)
Theorem C11_flag_writes_are_the_modelled_operations :
  forallb row_ok flag_writes = true
  /\ has_row flag_writes "Group.__init__" "titratable" "False" = true
  /\ has_row flag_writes "Group.setup" "titratable" "True" = true
  /\ has_row flag_writes "BondMaker._find_bonds_for_atoms" "cysteine_bridge" "True" = true
  /\ has_row flag_writes "ConformationContainer.init_group" "titratable" "False" = true
  /\ match bridged_pka_sentinel with Some q => Qeq_bool q (9999 # 100) = true | None => False end.
Proof. vm_compute. repeat split. Qed.
Print Assumptions C11_bridged_group_never_titratable.
Print Assumptions C11_flag_writes_are_the_modelled_operations.
