(* C18 — Parameter tables are symmetric, complete and self-consistent.  Statements only.
   Model: model/Params.v (hand-written, tied by correspondence); shipped-file facts are computed from
   gen/Cfg_gen.v, which is regenerated from propka/propka.cfg, parameters.py and group.py on every run. *)
From Coq Require Import String List Bool Reals.
From V Require Import Num Params ParamsProofs Cfg_gen ShippedCfg.
Import ListNotations.
Open Scope string_scope.

(* ---- any parameter file (any list of lines, any annotation table) ---- *)
Theorem C18_interaction_lookup_symmetric : forall kinds (ls : list string) p a b,
  parse_cfg kinds ls = Some p -> im_get (imx p) a b = im_get (imx p) b a.
Proof. exact imatrix_symmetric. Qed.
Print Assumptions C18_interaction_lookup_symmetric.

Theorem C18_cutoff_lookup_symmetric : forall kinds (ls : list string) p a b,
  parse_cfg kinds ls = Some p -> pm_get (cut p) a b = pm_get (cut p) b a.
Proof. exact pairwise_symmetric. Qed.

Theorem C18_unspecified_pair_gets_default : forall kinds (ls : list string) p a b,
  parse_cfg kinds ls = Some p -> forallb (fun l => negb (names_pair kinds a b l)) ls = true ->
  pm_get (cut p) a b = pdefault (cut p).
Proof. exact pairwise_default. Qed.
Print Assumptions C18_unspecified_pair_gets_default.

(* ---- squared cut-offs, any sequence of assignments to plain or squared attributes ---- *)
Theorem C18_squared_is_square : forall (c : cutoffs R) ops n,
  sq_get (crun c ops) n = (cget (crun c ops) n * cget (crun c ops) n)%R.
Proof. exact squared_is_square. Qed.
Theorem C18_squared_set_then_get : forall (c : cutoffs R) n v, (0 <= v)%R -> sq_get (sq_set c n v) n = v.
Proof. exact sq_set_then_get. Qed.
Theorem C18_squared_set_frame : forall (c : cutoffs R) n m v, n <> m -> sq_get (sq_set c n v) m = sq_get c m.
Proof. exact sq_set_frame. Qed.

(* ---- the shipped file ---- *)
Theorem C18_shipped_is_the_parsed_file : shipped_opt = parse_cfg param_kinds cfg_text /\ exists p, shipped_opt = Some p.
Proof. split; [unfold shipped_opt; reflexivity | exact shipped_parses]. Qed.
Theorem C18_shipped_matrix_complete : forall t1 t2, In t1 lookup_types -> In t2 lookup_types ->
  exists v, im_get (imx shipped) t1 t2 = Some v /\ In v ["I"; "N"; "-"].
Proof. exact shipped_matrix_complete. Qed.
Theorem C18_lookup_types_nonvacuous :
  forallb (fun t => mem t lookup_types) ["COO"; "HIS"; "CYS"; "TYR"; "LYS"; "ARG"; "N+"; "AMD"; "TRP"; "ROH"; "Cl"; "F"; "OCO"; "N1"; "SH"] = true
  /\ mem "BBN" lookup_types = false.
Proof. exact lookup_types_nonvacuous. Qed.
Theorem C18_shipped_titratable_types_written_and_charged : titratable_complete_b = true.
Proof. exact titratable_complete. Qed.
Theorem C18_shipped_written_types_have_model_pka : write_out_have_pka_b = true.
Proof. exact write_out_have_pka. Qed.
Theorem C18_shipped_inner_cutoffs_below_outer : cutoffs_ordered_b = true.
Proof. exact cutoffs_ordered. Qed.
Theorem C18_shipped_write_out_order_nodup : nodupb (sl_get "write_out_order") = true.
Proof. exact write_out_nodup. Qed.
Theorem C18_shipped_charges_are_unit : charges_unit_b = true.
Proof. exact charges_unit. Qed.
Theorem C18_shipped_vdw_volumes_nonnegative : vdw_nonneg_b = true.
Proof. exact vdw_nonneg. Qed.
Print Assumptions C18_shipped_matrix_complete.
Print Assumptions C18_squared_set_then_get.
