(* C09 — Charge curves and isoelectric points follow Henderson-Hasselbalch.  Statements only.
   calculate_charge_folded/unfolded are GENERATED from propka/group.py (gen/GroupGen.v); the container sums, the profile
   and the bisection are the hand models of model/Charge.v (tied by correspondence). *)
From Coq Require Import Reals List.
From V Require Import Num GroupGen Charge ChargeProofs.
Import ListNotations.
Open Scope R_scope.

(* the generated per-group functions are q * c/(1+c), c = 10^(q (pK - pH)), with the predicted / the model pKa *)
Theorem C09_generated_charge_is_HH : forall (g : grp R) ph,
  calculate_charge_folded g ph = charge (grp_charge g) (grp_pka_value g) ph /\
  calculate_charge_unfolded g ph = charge (grp_charge g) (grp_model_pka g) ph.
Proof. intros g ph. split; [apply gen_charge_folded | apply gen_charge_unfolded]. Qed.
Print Assumptions C09_generated_charge_is_HH.

(* between zero and the formal charge (either sign), half at pH = pK, never increasing with pH *)
Theorem C09_charge_between : forall q pk ph,
  (0 <= q -> 0 <= charge q pk ph <= q) /\ (q <= 0 -> q <= charge q pk ph <= 0).
Proof. exact charge_between. Qed.
Theorem C09_charge_half_at_pK : forall q pk, charge q pk pk = q / 2.
Proof. exact charge_half. Qed.
Theorem C09_charge_never_increases : forall q pk ph1 ph2, ph1 <= ph2 -> charge q pk ph2 <= charge q pk ph1.
Proof. exact charge_antitone. Qed.

(* the protein charge at a pH is the pair (unfolded: model pKa, folded: predicted pKa), sums over the titratable groups *)
Theorem C09_total_charge_is_sum : forall (gs : list (grp R)) ph,
  total_charge gs ph =
  (sumR (map (fun g => charge (grp_charge g) (grp_model_pka g) ph) (filter (fun g => grp_titratable g) gs)),
   sumR (map (fun g => charge (grp_charge g) (grp_pka_value g) ph) (filter (fun g => grp_titratable g) gs))).
Proof. exact total_charge_is_sum. Qed.
Theorem C09_profile_rows : forall (gs : list (grp R)) grid,
  charge_profile gs grid = map (fun ph => (ph, Qunfolded gs ph, Qfolded gs ph)) grid.
Proof. exact profile_rows. Qed.

(* pI: first component from the folded curve, second from the unfolded one; each within the precision of every
   sign-change point of its (antitone) curve whenever that curve changes sign inside the window *)
Theorem C09_get_pi_order : forall (gs : list (grp R)) g0 g1 prec fuel,
  get_pi gs g0 g1 prec fuel =
  (pi (Qfolded gs) prec fuel ((g0 + g1) / 2) g0 g1, pi (Qunfolded gs) prec fuel ((g0 + g1) / 2) g0 g1).
Proof. exact get_pi_order. Qed.
Theorem C09_pi_folded_is_root : forall gs g0 g1 prec fuel p r,
  g0 <= g1 -> 0 < Qfolded gs g0 -> Qfolded gs g1 <= 0 -> fst (get_pi gs g0 g1 prec fuel) = Some p ->
  (forall x, x < r -> 0 < Qfolded gs x) -> (forall x, r < x -> Qfolded gs x <= 0) -> Rabs (p - r) <= prec.
Proof. exact get_pi_folded_is_root. Qed.
Theorem C09_pi_unfolded_is_root : forall gs g0 g1 prec fuel p r,
  g0 <= g1 -> 0 < Qunfolded gs g0 -> Qunfolded gs g1 <= 0 -> snd (get_pi gs g0 g1 prec fuel) = Some p ->
  (forall x, x < r -> 0 < Qunfolded gs x) -> (forall x, r < x -> Qunfolded gs x <= 0) -> Rabs (p - r) <= prec.
Proof. exact get_pi_unfolded_is_root. Qed.
(* the recursion ends: fuel >= log2((max-min)/precision) + 1 suffices (out-of-fuel = None is excluded) *)
Theorem C09_pi_terminates : forall Q prec fuel pH lo hi, pH = (lo + hi) / 2 -> lo <= hi -> hi - lo <= prec * 2 ^ fuel ->
  exists p, pi Q prec (S fuel) pH lo hi = Some p.
Proof. exact pi_terminates. Qed.
Theorem C09_sign_change_exists :
  let gs := [mk_grp (-1) 4 4 0 true; mk_grp 1 10 10 0 true] in 0 < Qfolded gs 0 /\ Qfolded gs 14 <= 0.
Proof. exact sign_change_exists. Qed.
Print Assumptions C09_pi_folded_is_root.

(* strict versions.  A group with a non-zero formal charge loses charge STRICTLY as the pH rises; the total curves never
   increase, and decrease strictly once one titratable group carries a charge — so each curve has at most one zero and
   the isoelectric point that get_pi brackets is THE zero, not one of several *)
Theorem C09_charge_strictly_decreases : forall q pk ph1 ph2, q <> 0 -> ph1 < ph2 -> charge q pk ph2 < charge q pk ph1.
Proof. exact charge_strict. Qed.
Theorem C09_total_curves_never_increase : forall (gs : list (grp R)) ph1 ph2, ph1 <= ph2 ->
  Qfolded gs ph2 <= Qfolded gs ph1 /\ Qunfolded gs ph2 <= Qunfolded gs ph1.
Proof. intros gs ph1 ph2 H. split; [exact (Qfolded_antitone gs ph1 ph2 H) | exact (Qunfolded_antitone gs ph1 ph2 H)]. Qed.
Theorem C09_total_curves_strictly_decrease : forall (gs : list (grp R)) ph1 ph2,
  List.Exists (fun g => grp_charge g <> 0) (filter (fun g => grp_titratable g) gs) -> ph1 < ph2 ->
  Qfolded gs ph2 < Qfolded gs ph1 /\ Qunfolded gs ph2 < Qunfolded gs ph1.
Proof. intros gs ph1 ph2 Hex H. split; [exact (Qfolded_strict gs ph1 ph2 Hex H) | exact (Qunfolded_strict gs ph1 ph2 Hex H)]. Qed.
Theorem C09_isoelectric_point_unique : forall (gs : list (grp R)) x y,
  List.Exists (fun g => grp_charge g <> 0) (filter (fun g => grp_titratable g) gs) ->
  (Qfolded gs x = 0 -> Qfolded gs y = 0 -> x = y) /\ (Qunfolded gs x = 0 -> Qunfolded gs y = 0 -> x = y).
Proof. intros gs x y Hex. split; apply zero_unique; intros a b; [apply Qfolded_strict | apply Qunfolded_strict]; exact Hex. Qed.
Print Assumptions C09_isoelectric_point_unique.
