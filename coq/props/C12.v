(* C12 — incomplete structures degrade gracefully.  Statements only; model/Setup.v (error-explicit) is tied to group.py / input.py by the
   correspondence of tools/props/c12.py. *)
From Coq Require Import List Bool Arith String Ascii.
From V Require Import Setup SetupProofs.
Import ListNotations.

Theorem C12_carboxyl_setup_total : forall self oxygens, ok (coo_setup self oxygens).
Proof. exact coo_total. Qed.
Theorem C12_histidine_setup_total : forall self ring, ok (his_setup self ring).
Proof. exact his_total. Qed.
Theorem C12_amide_setup_total : forall self oxygens nitrogens, ok (amd_setup self oxygens nitrogens).
Proof. exact amd_total. Qed.
Theorem C12_amide_incomplete_returns_early : forall self oxygens nitrogens, (oxygens = [] \/ nitrogens = []) ->
  amd_setup self oxygens nitrogens = Ok {| centre := [self]; inter := None |}.
Proof. exact amd_early_return. Qed.
Theorem C12_arginine_setup_total : forall self nitrogens, ok (arg_setup self nitrogens).
Proof. exact arg_total. Qed.
Theorem C12_tryptophan_setup_total : forall self hydrogens, ok (trp_setup self hydrogens).
Proof. exact trp_total. Qed.
Theorem C12_cterminus_setup_total : forall self carbons, (forall c oxs, In (c, oxs) carbons -> In self oxs) -> ok (cterm_setup self carbons).
Proof. exact cterm_total. Qed.
Theorem C12_input_rejection : forall suffix n, read_dispatch suffix n = Accept <-> (lower suffix = ".pdb"%string /\ n <> 0).
Proof. exact read_dispatch_spec. Qed.
Print Assumptions C12_cterminus_setup_total.

(* the closest-pair search used by set_backbone_determinants / hydrogen_bond_interaction returns a pair for all non-empty atom lists
   (model/Locality.v, tied by C05's correspondence): the `assert ... is not None` behind the `if not interaction_atoms: continue` guards hold *)
From Coq Require Import Reals.
From V Require Import Num VecGen Locality LocalityProofs.
Theorem C12_closest_pair_exists_for_nonempty_lists : forall (a1 : VecGen.vec3 R) r1 a2 r2, snd (smallest None (a1 :: r1) (a2 :: r2)) <> None.
Proof. exact smallest_finds_a_pair. Qed.
Print Assumptions C12_closest_pair_exists_for_nonempty_lists.
