(* C17 — added hydrogens are chemically placed and complete.  Statements only, about the GENERATED Vector methods and rotation
   (gen/VecGen.v) that propka/protonate.py composes; a, u1, u2, u3 are bond vectors / unit bond directions at the atom being protonated. *)
From Coq Require Import Reals.
From V Require Import Num VecGen RotProofs HydrogenProofs.
Open Scope R_scope.

(* the helper axis is never the zero vector and always perpendicular (bond along any direction, also exactly along a coordinate axis) *)
Theorem C17_orthogonal_helper_axis : forall a, nonzero a -> dot a (Vector_orthogonal a) = 0 /\ nonzero (Vector_orthogonal a).
Proof. exact orthogonal_spec. Qed.
(* set_bond_distance: exactly the requested length, same direction *)
Theorem C17_bond_length : forall a L, nonzero a ->
  Vector_rescale a L = scal (L / Vector_length a) a /\ dot (Vector_rescale a L) (Vector_rescale a L) = L * L.
Proof. exact rescale_spec. Qed.
(* one neighbour: the hydrogen sits at distance L making exactly the construction angle with the bond (109.5 / 120 degrees) *)
Theorem C17_first_hydrogen : forall a t L, nonzero a -> 0 <= L ->
  let h := Vector_rescale (rotate_vector_around_an_axis t (Vector_orthogonal a) a) L in
  dot h h = L * L /\ dot a h = Vector_length a * L * cos t.
Proof. exact first_hydrogen. Qed.
(* two / three neighbours: the new direction points away from all of them *)
Theorem C17_completing_trigonal : forall u1 u2, dot u1 u1 = 1 -> dot u2 u2 = 1 ->
  let n := add (scal (-1) u1) (scal (-1) u2) in
  dot n n = 2 + 2 * dot u1 u2 /\ dot n u1 = - (1 + dot u1 u2) /\ dot n u2 = - (1 + dot u1 u2).
Proof. exact opposite_of_two. Qed.
Theorem C17_completing_tetrahedral_three : forall u1 u2 u3, dot u1 u1 = 1 -> dot u2 u2 = 1 -> dot u3 u3 = 1 ->
  let n := add (add (scal (-1) u1) (scal (-1) u2)) (scal (-1) u3) in
  dot n u1 = - (1 + dot u1 u2 + dot u1 u3) /\ dot n u2 = - (1 + dot u1 u2 + dot u2 u3) /\ dot n u3 = - (1 + dot u1 u3 + dot u2 u3) /\
  dot n n = 3 + 2 * (dot u1 u2 + dot u1 u3 + dot u2 u3).
Proof. exact opposite_of_three. Qed.
Theorem C17_completing_tetrahedral_two : forall u1 u2, dot u1 u1 = 1 -> dot u2 u2 = 1 -> dot u1 u2 <> -1 ->
  let n := rotate_vector_around_an_axis (PI / 2) (Vector___add__ u1 u2) (Vector___neg__ u1) in
  dot n n = 1 /\ dot n u1 = - (1 + dot u1 u2) / 2 /\ dot n u2 = - (1 + dot u1 u2) / 2.
Proof. exact tetrahedral_two_neighbours. Qed.
(* two hydrogens on one atom whose directions are at least 60 degrees apart are at least 0.5 A apart for every tabulated X-H length (>= 0.92 A) *)
Theorem C17_siblings_apart : forall (u w : vec3 R) L, dot u u = 1 -> dot w w = 1 -> dot u w <= 1 / 2 -> 92 / 100 <= L ->
  let d := add (scal L u) (scal (- L) w) in 1 / 4 <= dot d d.
Proof. exact siblings_apart. Qed.
Print Assumptions C17_first_hydrogen.
Print Assumptions C17_completing_tetrahedral_two.

(* ---- how many hydrogens, and which geometry (model/Electrons.v over the tables re-extracted from protonate.py / bonds.py) ---- *)
From Coq Require Import String List ZArith Bool.
From V Require Import Protonate_gen Electrons ElectronProofs.
(* with its regular number of bonded heavy atoms every nitrogen named in the property (and the other protein donors) receives exactly its
   share and a steric number with a construction: His 1+1, Arg 1+2+2, Asn/Gln 2, Trp 1, backbone amide 1, Pro 0, Lys 3, hydroxyl / thiol 1 *)
Theorem C17_regular_complements : forallb case_ok regular_cases = true.
Proof. exact regular_complements. Qed.
Theorem C17_backbone_amide_any_residue : forall res, zget (res ++ "-" ++ "N") pi_sidechains = None -> zget (res ++ "-" ++ "N") standard_charges = None ->
  protons_to_add "N" res "N" "" 2 = 1%Z /\ steric_number "N" res "N" "" 2 = 3%Z.
Proof. exact backbone_amide_any_residue. Qed.
Theorem C17_no_table_entry_for_a_backbone_N :
  forallb (fun kv => negb (String.eqb (substring 3 2 (fst kv)) "-N" && Nat.eqb (String.length (fst kv)) 5)) (pi_sidechains ++ standard_charges) = true.
Proof. exact no_residue_keyed_backbone_N. Qed.

(* the X-H bond-length table of the CURRENT source (re-extracted, in 1/100 A) is the tabulated one: C 1.09, N 1.01, O 0.96, F 0.92, Cl 1.27, Br 1.41,
   I 1.61, S 1.35 - no entry missing, none added, none changed *)
Import ListNotations.
Definition tabulated_centi : list (string * Z) :=
  [("C"%string, 109%Z); ("N"%string, 101%Z); ("O"%string, 96%Z); ("F"%string, 92%Z); ("Cl"%string, 127%Z); ("Br"%string, 141%Z);
   ("I"%string, 161%Z); ("S"%string, 135%Z)].
Definition same_entries (a b : list (string * Z)) : bool :=
  forallb (fun p => existsb (fun q => String.eqb (fst p) (fst q) && Z.eqb (snd p) (snd q)) b) a
  && forallb (fun p => existsb (fun q => String.eqb (fst p) (fst q) && Z.eqb (snd p) (snd q)) a) b
  && Nat.eqb (List.length a) (List.length b).
Theorem C17_bond_length_table_is_the_tabulated_one : same_entries bond_lengths_centi tabulated_centi = true.
Proof. vm_compute. reflexivity. Qed.
