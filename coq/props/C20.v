(* C20 — Rotation about an axis is the right-handed (Rodrigues) rotation for every non-zero axis.
   Statements only.  The function is gen/VecGen.v:rotate_vector_around_an_axis, regenerated from
   propka/vector_algebra.py on every run, at the real-number instance. *)
From Coq Require Import Reals.
From V Require Import Num VecGen RotProofs.
Open Scope R_scope.

Theorem C20_rotate_is_rodrigues : forall (t : R) (axis v : vec3 R),
  (vec3_x axis <> 0 \/ vec3_y axis <> 0 \/ vec3_z axis <> 0) ->
  rotate_vector_around_an_axis t axis v = rodrigues t (unit_of axis) v.
Proof. exact rotate_is_rodrigues. Qed.
Print Assumptions C20_rotate_is_rodrigues.

Theorem C20_length_preserved : forall t axis v, (vec3_x axis <> 0 \/ vec3_y axis <> 0 \/ vec3_z axis <> 0) ->
  dot (rotate_vector_around_an_axis t axis v) (rotate_vector_around_an_axis t axis v) = dot v v.
Proof. exact rotate_preserves_length. Qed.

Theorem C20_axial_component_preserved : forall t axis v, (vec3_x axis <> 0 \/ vec3_y axis <> 0 \/ vec3_z axis <> 0) ->
  dot (unit_of axis) (rotate_vector_around_an_axis t axis v) = dot (unit_of axis) v.
Proof. exact rotate_preserves_axial. Qed.

(* the perpendicular component turns by exactly t, counter-clockwise seen from the tip of the axis *)
Theorem C20_perpendicular_turns_by_theta : forall t axis v, (vec3_x axis <> 0 \/ vec3_y axis <> 0 \/ vec3_z axis <> 0) ->
  dot (unit_of axis) v = 0 ->
  dot v (rotate_vector_around_an_axis t axis v) = dot v v * cos t /\
  dot (unit_of axis) (cross v (rotate_vector_around_an_axis t axis v)) = dot v v * sin t.
Proof. exact rotate_turns_perpendicular. Qed.

(* non-vacuity / handedness convention *)
Theorem C20_quarter_turns :
  rodrigues (PI / 2) (mk_vec3 0 0 1) (mk_vec3 1 0 0) = mk_vec3 0 1 0 /\
  rodrigues (PI / 2) (mk_vec3 0 0 (-1)) (mk_vec3 1 0 0) = mk_vec3 0 (-1) 0.
Proof. exact quarter_turns. Qed.
Print Assumptions C20_perpendicular_turns_by_theta.
