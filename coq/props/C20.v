(* C20 — Rotation about an axis is the right-handed (Rodrigues) rotation for every non-zero axis.
   Statements only.  The function is gen/VecGen.v:rotate_vector_around_an_axis, regenerated from
   propka/vector_algebra.py on every run, at the real-number instance. *)
From Coq Require Import Reals.
From V Require Import Num VecGen RotProofs.
Open Scope R_scope.

Theorem C20_rotate_is_rodrigues : forall (t : R) (axis v : vec3 R),
  (vec3_x axis <> 0 \/ vec3_y axis <> 0 \/ vec3_z axis <> 0) ->
  rotate_vector_around_an_axis t axis v = rodrigues t (unit_of axis) v.
Proof. exact rotate_is_rodrigues. Qed.
Print Assumptions C20_rotate_is_rodrigues.

Theorem C20_length_preserved : forall t axis v, (vec3_x axis <> 0 \/ vec3_y axis <> 0 \/ vec3_z axis <> 0) ->
  dot (rotate_vector_around_an_axis t axis v) (rotate_vector_around_an_axis t axis v) = dot v v.
Proof. exact rotate_preserves_length. Qed.

Theorem C20_axial_component_preserved : forall t axis v, (vec3_x axis <> 0 \/ vec3_y axis <> 0 \/ vec3_z axis <> 0) ->
  dot (unit_of axis) (rotate_vector_around_an_axis t axis v) = dot (unit_of axis) v.
Proof. exact rotate_preserves_axial. Qed.

(* the perpendicular component turns by exactly t, counter-clockwise seen from the tip of the axis *)
Theorem C20_perpendicular_turns_by_theta : forall t axis v, (vec3_x axis <> 0 \/ vec3_y axis <> 0 \/ vec3_z axis <> 0) ->
  dot (unit_of axis) v = 0 ->
  dot v (rotate_vector_around_an_axis t axis v) = dot v v * cos t /\
  dot (unit_of axis) (cross v (rotate_vector_around_an_axis t axis v)) = dot v v * sin t.
Proof. exact rotate_turns_perpendicular. Qed.

(* non-vacuity / handedness convention *)
Theorem C20_quarter_turns :
  rodrigues (PI / 2) (mk_vec3 0 0 1) (mk_vec3 1 0 0) = mk_vec3 0 1 0 /\
  rodrigues (PI / 2) (mk_vec3 0 0 (-1)) (mk_vec3 1 0 0) = mk_vec3 0 (-1) 0.
Proof. exact quarter_turns. Qed.
Print Assumptions C20_perpendicular_turns_by_theta.

(* group laws (consequences of the Rodrigues form): a zero turn and a full turn are the identity, turns about the same
   axis add, turning back by -t undoes the turn — for every non-zero axis and every vector *)
Theorem C20_zero_turn_is_identity : forall axis v, (vec3_x axis <> 0 \/ vec3_y axis <> 0 \/ vec3_z axis <> 0) ->
  rotate_vector_around_an_axis 0 axis v = v.
Proof. exact rotate_zero. Qed.
Theorem C20_turns_about_one_axis_add : forall s t axis v, (vec3_x axis <> 0 \/ vec3_y axis <> 0 \/ vec3_z axis <> 0) ->
  rotate_vector_around_an_axis s axis (rotate_vector_around_an_axis t axis v) = rotate_vector_around_an_axis (s + t) axis v.
Proof. exact rotate_compose. Qed.
Theorem C20_opposite_turn_undoes : forall t axis v, (vec3_x axis <> 0 \/ vec3_y axis <> 0 \/ vec3_z axis <> 0) ->
  rotate_vector_around_an_axis (- t) axis (rotate_vector_around_an_axis t axis v) = v.
Proof. exact rotate_inverse. Qed.
Theorem C20_full_turn_is_identity : forall axis v, (vec3_x axis <> 0 \/ vec3_y axis <> 0 \/ vec3_z axis <> 0) ->
  rotate_vector_around_an_axis (2 * PI) axis v = v.
Proof. exact rotate_full_turn. Qed.
(* reversing the (unit) axis reverses the sense of rotation: right-handedness is tied to the direction of the axis *)
Theorem C20_reversed_axis_reverses_sense : forall t k v, rodrigues t (scal (-1) k) v = rodrigues (- t) k v.
Proof. exact rodrigues_neg_axis. Qed.
Print Assumptions C20_turns_about_one_axis_add.
