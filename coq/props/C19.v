(* C19 — Hybrid-36 atom serials decode correctly over the whole range.
   Only statements; every proof is `exact <lemma>`.  Model: model/Hy36.v:decode (tie: correspondence). *)
From Coq Require Import String List ZArith Ascii.
From V Require Import PyStr Hy36 Hy36Arith Hy36Proofs.
Open Scope Z_scope.

(* decoding the standard encoding of any representable n, with any left/right blank padding, returns n —
   for EVERY field width S w' (the property asks for widths 1-5) *)
Theorem C19_round_trip : forall (w' k1 k2 : nat) (n : Z),
  - 10 ^ Z.of_nat w' < n < 10 ^ Z.of_nat (S w') + 52 * 36 ^ Z.of_nat w' ->
  decode (spaces k1 ++ encode w' n ++ spaces k2) = Ok n.
Proof. exact decode_encode_all. Qed.
Print Assumptions C19_round_trip.

(* the ranges quoted in the property text *)
Theorem C19_range_width5 : forall n, in_range 4 n <-> -9999 <= n <= 87440031.
Proof. exact range_width5. Qed.
Print Assumptions C19_range_width5.

(* decoding is strictly increasing along the encoding order (= order of the encoded integers) *)
Theorem C19_strictly_increasing : forall (w' k1 k2 k3 k4 : nat) (n1 n2 r1 r2 : Z),
  in_range w' n1 -> in_range w' n2 -> n1 < n2 ->
  decode (spaces k1 ++ encode w' n1 ++ spaces k2) = Ok r1 ->
  decode (spaces k3 ++ encode w' n2 ++ spaces k4) = Ok r2 -> r1 < r2.
Proof. exact decode_strict_mono_all. Qed.
Print Assumptions C19_strictly_increasing.

(* every string (over all 256 byte-range characters, any length) that is not
   [ws]* -? (digit+ | Upper(Upper|digit)* | lower(lower|digit)* ) [ws]*  is rejected, and nothing else is *)
Theorem C19_rejects_exactly_malformed : forall s : str, decode s = ValueError <-> wf s = false.
Proof. exact decode_rejects_iff. Qed.
Print Assumptions C19_rejects_exactly_malformed.

Theorem C19_wf_examples :
  map (fun s => wf (S_ s)) ("12345" :: "A0000" :: "zzzzz" :: " -123" :: "-A0000" :: "  ZZZZY" :: nil)%string = repeat true 6 /\
  map (fun s => wf (S_ s)) ("1_0" :: "A00a0" :: "a0A00" :: "" :: "     " :: "-" :: "1 2" :: "+12" :: "1.5" :: "12-" :: "--1" :: "!NotOk" :: nil)%string
  = repeat false 12.
Proof. exact wf_examples. Qed.

(* blank padding never matters, for EVERY string (well-formed or not): the result — value or ValueError —
   is that of the unpadded string *)
Theorem C19_padding_irrelevant : forall (k1 k2 : nat) (s : str),
  decode (spaces k1 ++ s ++ spaces k2) = decode s.
Proof. exact decode_padding_irrelevant. Qed.
Print Assumptions C19_padding_irrelevant.

(* two different representable serials never share an encoding (so decode cannot conflate two atoms) *)
Theorem C19_encode_injective : forall (w' : nat) (n1 n2 : Z),
  in_range w' n1 -> in_range w' n2 -> encode w' n1 = encode w' n2 -> n1 = n2.
Proof. exact encode_injective. Qed.
Print Assumptions C19_encode_injective.

(* the narrowest field: one column holds 0-9, A-Z (10-35), a-z (36-61) and no negative number *)
Theorem C19_range_width1 : forall n, in_range 0 n <-> 0 <= n <= 61.
Proof. exact range_width1. Qed.
Print Assumptions C19_range_width1.
