(* C16 — Every contribution has the physically required sign and stays in model bounds.  Statements only.
   Every function mentioned is GENERATED from the current source: kernels of energy.py (gen/EnergyGen.v) and all the places where
   determinants.py / iterative.py create determinants (gen/DetsGen.v, as lists of emitted (owner, kind, partner, value) events). *)
From Coq Require Import Reals List Bool.
From V Require Import Num VecGen EnergyGen DetsGen Inventory_gen SignProofs.
Import ListNotations.
Open Scope R_scope.

(* buried fraction / pair weight in [0,1]; surface scaling in [s,1] *)
Theorem C16_buried_fraction_unit : forall (p : params R) nv, params_Nmin p < params_Nmax p -> 0 <= calculate_weight p nv <= 1.
Proof. exact weight_unit. Qed.
Theorem C16_pair_weight_unit : forall (p : params R) n1 n2, params_Nmin p < params_Nmax p -> 0 <= calculate_pair_weight p n1 n2 <= 1.
Proof. exact pair_weight_unit. Qed.
Theorem C16_scale_factor_range : forall (p : params R) w, 0 <= params_desolvationSurfaceScalingFactor p <= 1 -> 0 <= w <= 1 ->
  params_desolvationSurfaceScalingFactor p <= calculate_scale_factor p w <= 1.
Proof. exact scale_factor_range. Qed.
(* desolvation: per-atom increments are non-negative, the allowance clamp is non-negative, and the sign is -sign(charge) *)
Theorem C16_desolvation_increment_nonneg : forall dvol m sq, 0 <= dvol -> 0 < m -> 0 <= desolv_volume_increment dvol m sq.
Proof. exact desolv_increment_nonneg. Qed.
Theorem C16_desolvation_allowance_clamped : forall v (p : params R), 0 <= desolv_volume_after_allowance v p.
Proof. exact desolv_after_allowance_nonneg. Qed.
Theorem C16_desolvation_sign : forall (g : EnergyGen.grp R) (p : params R) v sc, params_desolvationPrefactor p < 0 -> 0 <= v -> 0 <= sc ->
  (EnergyGen.grp_charge g < 0 -> 0 <= desolv_energy g p v sc) /\ (0 < EnergyGen.grp_charge g -> desolv_energy g p v sc <= 0).
Proof. exact desolv_sign. Qed.
Theorem C16_reorganisation_increment : forall dist, dist < 6 -> 0 < reorg_increment (reorg_value dist) <= 4 / 5.
Proof. exact reorg_increment_positive. Qed.
Print Assumptions C16_desolvation_sign.
(* each buried-pair exception returns the value configured for ITS pair type, and fires exactly when the pair is buried *)
Theorem C16_exception_values : forall (g1 g2 : EnergyGen.grp R) (v : vers R),
  check_coo_his_exception g1 g2 v = (check_buried (EnergyGen.grp_num_volume g1) (EnergyGen.grp_num_volume g2), excp_COO_HIS_exception (vers_parameters v)) /\
  check_oco_his_exception g1 g2 v = (check_buried (EnergyGen.grp_num_volume g1) (EnergyGen.grp_num_volume g2), excp_OCO_HIS_exception (vers_parameters v)) /\
  check_cys_his_exception g1 g2 v = (check_buried (EnergyGen.grp_num_volume g1) (EnergyGen.grp_num_volume g2), excp_CYS_HIS_exception (vers_parameters v)) /\
  check_cys_cys_exception g1 g2 v = (check_buried (EnergyGen.grp_num_volume g1) (EnergyGen.grp_num_volume g2), excp_CYS_CYS_exception (vers_parameters v)).
Proof. exact exception_values. Qed.

(* hydrogen bonds and Coulomb: absolute-valued kernels with bounds *)
Theorem C16_hbond_bound : forall dist dmax c0 c1 fa, c0 < c1 -> 0 <= hydrogen_bond_energy dist dmax (c0, c1) fa <= Rabs dmax * Rabs fa.
Proof. exact hb_bound. Qed.
Theorem C16_angle_factor_unit : forall a1 a2 a3 : vec3 R,
  let '(d12, f, d23) := angle_distance_factors_atoms a1 a2 a3 in 0 < d12 -> 0 < d23 -> Rabs f <= 1.
Proof. exact f_angle_unit. Qed.
Theorem C16_coulomb_bound : forall dist w (p : params R), 0 < params_coulomb_cutoff1 p < params_coulomb_cutoff2 p -> 0 <= w <= 1 ->
  0 <= coulomb_energy dist w p <= (24412 / 100) / (30 * params_coulomb_cutoff1 p).
Proof. exact coulomb_bound. Qed.

(* the sign rules, one theorem per creation site *)
Theorem C16_backbone_sign : forall (g : grp R) hb, 0 <= hb ->
  (grp_charge g < 0 -> backbone_determinant_value g hb <= 0) /\ (0 < grp_charge g -> 0 <= backbone_determinant_value g hb).
Proof. exact backbone_determinant_sign. Qed.
Theorem C16_ion_sign_and_bound : forall (ion : grp R) c, 0 <= c ->
  (0 < grp_charge ion -> ion_determinant_value ion c <= 0) /\ (grp_charge ion < 0 -> 0 <= ion_determinant_value ion c) /\
  Rabs (ion_determinant_value ion c) = Rabs (grp_charge ion) * c.
Proof. exact ion_determinant_sign. Qed.
Theorem C16_acid_pair : forall (o1 o2 : grp R) v,
  add_coulomb_acid_pair o1 o2 v = if Rltb (grp_model_pka o2) (grp_model_pka o1) then [(1, 2, 2, v)] else [(2, 2, 1, v)].
Proof. exact acid_pair_events. Qed.
Theorem C16_base_pair : forall (o1 o2 : grp R) v,
  add_coulomb_base_pair o1 o2 v = if Rltb (grp_model_pka o1) (grp_model_pka o2) then [(1, 2, 2, - v)] else [(2, 2, 1, - v)].
Proof. exact base_pair_events. Qed.
Theorem C16_acid_base_pair_equal_and_opposite : forall (o1 o2 : grp R) v, grp_charge o1 = - grp_charge o2 ->
  match add_coulomb_ion_pair o1 o2 v with [e1; e2] => ev_value e1 = - ev_value e2 | _ => False end.
Proof. exact ion_pair_equal_and_opposite. Qed.
Theorem C16_acid_base_pair_events : forall (o1 o2 : grp R) v,
  add_coulomb_ion_pair o1 o2 v = [(1, 2, 2, grp_charge o1 * v); (2, 2, 1, grp_charge o2 * v)].
Proof. exact ion_pair_events. Qed.
Theorem C16_sidechain_values : forall (g1 g2 : grp R) h, (grp_charge g1 = 1 \/ grp_charge g1 = -1) -> (grp_charge g2 = 1 \/ grp_charge g2 = -1) ->
  Forall (fun e => Rabs (ev_value e) = Rabs h) (add_sidechain_determinants g1 g2 h).
Proof. exact sidechain_values_bounded. Qed.
Theorem C16_iterative_acid_pair : forall (o1 o2 : iter R) pr hb co a0 a1,
  let '(evs, _) := add_iterative_acid_pair o1 o2 (pr, (hb, co), (a0, a1)) in
  Forall (fun e => in4 (ev_value e) hb (- hb) co co /\ (ev_kind e = 2 -> ev_value e = co)) evs /\ length evs = 3%nat.
Proof. exact iterative_acid_events. Qed.
Theorem C16_iterative_base_pair : forall (o1 o2 : iter R) pr hb co a0 a1,
  let '(evs, _) := add_iterative_base_pair o1 o2 (pr, (hb, co), (a0, a1)) in
  Forall (fun e => in4 (ev_value e) hb (- hb) (- co) (- co) /\ (ev_kind e = 2 -> ev_value e = - co)) evs /\ length evs = 3%nat.
Proof. exact iterative_base_events. Qed.
Theorem C16_iterative_acid_base_pair : forall (o1 o2 : iter R) pr hb co a0 a1,
  let '(evs, _) := add_iterative_ion_pair o1 o2 (pr, (hb, co), (a0, a1)) in
  Forall (fun e => in4 (ev_value e) (iter_q o1 * hb) (iter_q o2 * hb) (iter_q o1 * co) (iter_q o2 * co) /\
                   (ev_kind e = 2 -> (ev_owner e = 1 -> ev_value e = iter_q o1 * co) /\ (ev_owner e = 2 -> ev_value e = iter_q o2 * co))) evs /\
  (length (filter (fun e => Reqb (ev_kind e) 2) evs) = 0%nat \/ length (filter (fun e => Reqb (ev_kind e) 2) evs) = 2%nat).
Proof. exact iterative_ion_events. Qed.
(* every pair of group types accepted by check_exceptions reaches the function named after that pair, symmetrically in the two types *)
Theorem C16_exception_dispatch_consistent : forallb dispatch_row_ok Inventory_gen.exception_dispatch = true /\ List.length Inventory_gen.exception_dispatch = 10%nat.
Proof. exact dispatch_consistent. Qed.
Print Assumptions C16_iterative_acid_base_pair.

(* ---- the reported AVERAGE over conformations (model/Dets.v, the operation sequence of C08): the buried fraction stays in [0,1] and the
   desolvation term keeps its sign when every conformation's value has it *)
From V Require Import Dets DetsProofs.
Theorem C16_average_buried_fraction_unit : forall (s : state R) dst src0 (srcs : list (nat * list nat)),
  ~ In dst (map fst srcs) -> srcs <> [] -> (forall x, In x (map fst srcs) -> 0 <= g_buried (s x) <= 1) ->
  let n := INR (length srcs) in let sc := step s (OClone dst src0) in
  let s' := step (iadd_all sc dst srcs) (ODiv dst n) in 0 <= g_buried (s' dst) <= 1.
Proof. exact average_buried_fraction_unit. Qed.
Theorem C16_average_desolvation_sign : forall (s : state R) dst src0 (srcs : list (nat * list nat)) lo hi,
  ~ In dst (map fst srcs) -> srcs <> [] -> (forall x, In x (map fst srcs) -> lo <= g_vol (s x) <= hi) ->
  let n := INR (length srcs) in let sc := step s (OClone dst src0) in
  let s' := step (iadd_all sc dst srcs) (ODiv dst n) in lo <= g_vol (s' dst) <= hi.
Proof. exact average_desolvation_range. Qed.
Print Assumptions C16_average_buried_fraction_unit.
