(* C03 — results are a pure function of input content and options.  Statements only.
   model/Purity.v: runs as access sequences on process-global cells; gen/Inventory_gen.v: the global objects of the current source and the
   accesses of their methods (re-extracted by AST on every run). *)
From Coq Require Import List Bool ZArith String.
From V Require Import Purity Inventory_gen PurityProofs.
Import ListNotations.

(* every access sequence (any length, any write functions) that writes each cell before reading it observes nothing of earlier runs *)
Theorem C03_write_before_read_is_history_independent : forall (I : Type) (ops : list (op I)), covered [] ops = true ->
  forall s1 s2 inp, fst (exec s1 inp [] ops) = fst (exec s2 inp [] ops).
Proof. exact @write_before_read_is_history_independent. Qed.
Theorem C03_uncovered_read_refuted : exists (ops : list (op unit)) s1 s2, fst (exec s1 tt [] ops) <> fst (exec s2 tt [] ops).
Proof. exact uncovered_read_refuted. Qed.
(* a default-insert memo is invisible to every later look-up *)
Theorem C03_default_memo_invisible : forall table dflt k j, memo_read (memo_insert table dflt k) dflt j = memo_read table dflt j.
Proof. exact memo_insert_invisible. Qed.
(* the current source: which process-global objects exist, and the complete list of their run-time mutations *)
Theorem C03_global_objects : global_classes = ["NonCovalentlyCoupledGroups"; "Protonate"; "squared_property"; "squared_property"; "squared_property"; "squared_property"]%string.
Proof. exact global_objects_are. Qed.
Theorem C03_only_known_mutations : runtime_mutations global_object_events = expected_mutations.
Proof. exact only_known_mutations. Qed.
Theorem C03_coupling_singleton_writes_parameters_first :
  first_access "parameters" (method_events global_object_events "NonCovalentlyCoupledGroups" "identify_non_covalently_coupled_groups") = Some "W"%string.
Proof. exact nccg_parameters_written_first. Qed.
Print Assumptions C03_write_before_read_is_history_independent.
Theorem C03_no_hidden_state_sites : hidden_state_sites =
  [("container-mutation", "_version.py", "decorate", "HANDLERS"); ("container-mutation", "_version.py", "register_vcs_handler", "HANDLERS")]%string.
Proof. exact no_hidden_state. Qed.
