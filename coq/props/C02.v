(* C02 — Reported pKa equals model pKa plus the contributions listed for it.  Statements only.
   Model: model/Dets.v, the determinant bookkeeping machine (hand-written; tie: bit-exact replay of the operation sequence
   recorded from real runs).  `consistent g` is the property for one group:
      not bridged:  pKa = model + volume term + local term + sum of side-chain, backbone and Coulomb determinants;   bridged:  pKa = 99.99 *)
From Coq Require Import List Reals.
From V Require Import Num Dets DetsProofs.
Import ListNotations.
Open Scope R_scope.

Theorem C02_recompute_establishes : forall g : grp R, consistent (recompute g) /\ g_dirty (recompute g) = false.
Proof. exact recompute_establishes. Qed.

(* after ANY sequence of bookkeeping operations (appends, energy writes, value overwrites, label removals, swaps, clones, sums,
   divisions, recomputations) every group whose total was recomputed after its last modification is consistent *)
Theorem C02_clean_groups_consistent : forall (ops : list (op R)) i, g_dirty (run ops i) = false -> consistent (run ops i).
Proof. intros ops i. apply clean_groups_consistent. Qed.
Print Assumptions C02_clean_groups_consistent.

(* the per-conformation script: whatever was added / shared / removed before, a final recomputation of all groups leaves
   every one of them clean and consistent *)
Theorem C02_script_ends_consistent : forall (before : list (op R)) (gs : list nat) i, In i gs ->
  let s := run (before ++ recompute_all gs) in g_dirty (s i) = false /\ consistent (s i).
Proof. exact script_ends_clean. Qed.
(* ... whereas overwriting a determinant after the totals were computed, without recomputing, is refuted *)
Theorem C02_stale_after_sharing_refuted :
  exists ops : list (op R), let s := run ops in g_dirty (s 0%nat) = true /\ ~ consistent (s 0%nat).
Proof. exact stale_after_sharing_refuted. Qed.

(* the conformation average (clone; += each conformation's group; / number of summands) is consistent when its summands are *)
Theorem C02_average_consistent : forall (s : state R) dst src0 (srcs : list (nat * list nat)) m b,
  ~ In dst (map fst srcs) -> srcs <> [] -> g_model (s src0) = m -> g_bridged (s src0) = b ->
  (forall x, In x (map fst srcs) -> consistent (s x) /\ g_model (s x) = m /\ g_bridged (s x) = b) ->
  consistent (step (iadd_all (step s (OClone dst src0)) dst srcs) (ODiv dst (INR (length srcs))) dst).
Proof. intros s dst src0 srcs m b H1 H2. exact (average_consistent s dst src0 srcs H1 H2 m b). Qed.
Theorem C02_wrong_divisor_refuted :
  exists (s : state R), consistent (s 1%nat) /\ g_dirty (s 1%nat) = false /\
    ~ consistent (step (step (step s (OClone 0 1)) (OIadd 0 1 [])) (ODiv 0 2) 0%nat).
Proof. exact wrong_divisor_refuted. Qed.
Print Assumptions C02_average_consistent.
