(* C14 — titrate_only restricts titration exactly to the listed residues.  Statements only; model/Titrate.v is tied to lib.py,
   conformation_container.py and group.py by the correspondences of tools/props/c14.py. *)
From Coq Require Import String Ascii List Bool ZArith.
From V Require Import PyString Titrate TitrateProofs Inventory_gen.
Import ListNotations.
Open Scope string_scope.

(* for every structure (list of groups with arbitrary payload) and every list *)
Theorem C14_titratable_exactly_listed : forall (E : Type) (l : list reskey) (g : grp E),
  g_titratable (init_group (Some l) g) = g_titratable g && key_mem (g_key g) l.
Proof. intros E. exact titratable_exactly_listed. Qed.
Theorem C14_reported_exactly_listed : forall (E : Type) (l : list reskey) (g : grp E), g_excl g = false ->
  use_in_calculations (init_group (Some l) g) = use_in_calculations g && key_mem (g_key g) l.
Proof. intros E. exact reported_exactly_listed. Qed.
Theorem C14_environment_untouched : forall (E : Type) (o : option (list reskey)) (g : grp E),
  g_key (init_group o g) = g_key g /\ g_is_cys (init_group o g) = g_is_cys g /\ g_env (init_group o g) = g_env g.
Proof. intros E. exact environment_untouched. Qed.
Theorem C14_all_listed_is_no_option : forall (E : Type) (l : list reskey) (gs : list (grp E)),
  (forall g, In g gs -> In (g_key g) l) -> map (init_group (Some l)) gs = map (init_group None) gs.
Proof. intros E. exact all_listed_is_no_option. Qed.
Theorem C14_nonexistent_entries_no_effect : forall (E : Type) (l extra : list reskey) (gs : list (grp E)),
  (forall g, In g gs -> ~ In (g_key g) extra) -> map (init_group (Some (l ++ extra)%list)) gs = map (init_group (Some l)) gs.
Proof. intros E. exact nonexistent_entries_no_effect. Qed.
Theorem C14_only_membership_matters : forall (E : Type) (l1 l2 : list reskey) (gs : list (grp E)),
  (forall g, In g gs -> (In (g_key g) l1 <-> In (g_key g) l2)) -> map (init_group (Some l1)) gs = map (init_group (Some l2)) gs.
Proof. intros E. exact same_members_same_effect. Qed.
Theorem C14_match_is_chain_number_icode : forall k l, key_mem k l = true <-> In k l.
Proof. exact key_mem_In. Qed.
(* the list syntax: every chain text without colon, every decimal numeral, every admissible insertion code *)
Theorem C14_documented_syntax : forall chain c r, has_char ":" chain = false -> all_digits (String c r) = true ->
  parse_res_string (chain ++ String ":" (String c r)) = Ok (chain, dec_val (String c r) 0, " ") /\
  (forall ic, is_digit ic = false -> Nat.eqb (code ic) 95 = false -> is_space ic = false -> Ascii.eqb ic ":" = false ->
     parse_res_string (chain ++ String ":" (String c r ++ String ic EmptyString)) = Ok (chain, dec_val (String c r) 0, String ic EmptyString)).
Proof. exact parse_documented_syntax. Qed.
Theorem C14_list_is_comma_separated : forall items keys, items <> [] -> Forall (fun s => has_char "," s = false) items ->
  Forall2 (fun s k => parse_res_string s = Ok k) items keys -> parse_res_list (join "," items) = Ok keys.
Proof. exact parse_list_joined. Qed.
(* the model's init_group is the ONLY place of the current source where the option touches a group: every assignment to titratable /
   exclude_cys_from_results (inventory re-extracted from propka/*.py on this run) is a modelled one, and the two writes of init_group are present *)
Theorem C14_flag_writes_are_the_modelled_operations :
  forallb row_ok Inventory_gen.flag_writes = true
  /\ has_row Inventory_gen.flag_writes "ConformationContainer.init_group" "titratable" "False" = true
  /\ has_row Inventory_gen.flag_writes "ConformationContainer.init_group" "exclude_cys_from_results" "True" = true.
Proof. vm_compute. repeat split. Qed.
(* non-vacuity *)
Example C14_example : parse_res_list "E:17,E:18A, :5" = Ok [("E", 17%Z, " "); ("E", 18%Z, "A"); (" ", 5%Z, " ")].
Proof. vm_compute. reflexivity. Qed.
Print Assumptions C14_reported_exactly_listed.
Print Assumptions C14_documented_syntax.
