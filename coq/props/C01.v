(* C01 — every ionizable group is predicted exactly once with the right model pKa.  Statements only.
   Parser part: model/PdbParse.v (tied to input.py / atom.py by the line-level correspondence); tables part: model/Census.v over the cfg text
   re-read from /repo on every run (gen/Cfg_gen.v), tied to group.py by the per-atom correspondence of tools/props/c01.py. *)
From Coq Require Import String Ascii List Bool ZArith QArith.
From V Require Import PyString PdbParse TerminusProofs Params Cfg_gen ShippedCfg Census CensusProofs.
Import ListNotations.
Open Scope string_scope.

(* ---- which records are tagged as chain termini: every file, every option setting ---- *)
Theorem C01_parser_implements_token_machine : forall o s l s' outs, step o s l = Ok (s', outs) ->
  tstate s' = fst (astep (tstate s) (tok o l)) /\ Forall (fun x => o_term x = snd (astep (tstate s) (tok o l))) outs /\ (length outs <= 1)%nat.
Proof. exact step_refines. Qed.
Theorem C01_yielded_tags_come_from_the_machine : forall o ls s outs, run o s ls = Ok outs ->
  forall x, In x outs -> In (o_term x) (arun (tstate s) (map (tok o) ls)).
Proof. exact run_refines. Qed.
Theorem C01_cterm_iff_terminal_oxygen : forall s k, snd (astep s k) = TCminus <-> exists nm rid, k = KAtom true nm rid /\ is_oxt_name nm = true.
Proof. exact cminus_iff. Qed.
Theorem C01_nterm_only_backbone_N_of_latched_residue : forall s k, snd (astep s k) = TNplus ->
  exists rid, k = KAtom true "N" rid /\ fst (fst (astep s k)) = Some rid.
Proof. exact nplus_sound. Qed.
Theorem C01_boundaries_reset : forall s k, is_boundary k = true -> fst (fst (astep s k)) = None.
Proof. exact boundary_resets. Qed.
(* after MODEL / TER / terminal oxygen: exactly the N records of the first ATOM residue are tagged, until the next boundary *)
Theorem C01_chain_start_segment : forall q waiting nm r rest,
  forallb (waits q) waiting = true -> opt_neqb q r = true -> is_oxt_name nm = false ->
  forallb (fun k => negb (is_boundary k)) rest = true ->
  arun (None, q) (waiting ++ KAtom true nm r :: rest)%list =
    (map (fun _ => TNone) waiting ++ map (tag_latched r) (KAtom true nm r :: rest))%list.
Proof. exact chain_start_segment. Qed.
Theorem C01_one_nterm_per_N_record_of_first_residue : forall q waiting nm r rest,
  forallb (waits q) waiting = true -> opt_neqb q r = true -> is_oxt_name nm = false ->
  forallb (fun k => negb (is_boundary k)) rest = true ->
  count_nplus (arun (None, q) (waiting ++ KAtom true nm r :: rest)%list) = length (filter (is_N_of r) (KAtom true nm r :: rest)).
Proof. exact chain_start_count. Qed.
Theorem C01_rest_of_cterminal_residue_starts_no_chain : forall r ia nm, is_oxt_name nm = false -> waits (Some r) (KAtom ia nm r) = true.
Proof. exact same_residue_after_oxt_waits. Qed.
(* non-vacuity: two chains, bare TER, insertion-coded first residue *)
Example C01_tagging_example :
  arun (None, None) [KAtom true "N" "A   1H"; KAtom true "CA" "A   1H"; KAtom true "N" "A   1G"; KAtom true "OXT" "A   1G"; KAtom true "O" "A   1G";
                     KAtom false "C1" "L 900 "; KAtom true "N" "B   1 "; KTer; KAtom true "N" "C   5 "]
  = [TNplus; TNone; TNone; TCminus; TNone; TNone; TNplus; TNone; TNplus].
Proof. vm_compute. reflexivity. Qed.
Print Assumptions C01_chain_start_segment.

(* ---- the tables: founding atoms, classes, model pKa values (shipped cfg, parsed inside Coq) ---- *)
Theorem C01_tables : table_ok_b = true.
Proof. exact table_ok. Qed.
Theorem C01_founder_site : forall a res an cls pk, In (res, an, cls, pk) side_chain_table ->
  c_type a = "atom" -> c_terminal a = "" -> c_res_name a = res -> c_name a = an ->
  exists s, census shipped a = Some s /\ s_class s = cls /\ s_residue_type s = res /\ pka_is (s_model_pka s) pk = true /\
            s_titratable s = negb (c_bridge a).
Proof. exact founder_site. Qed.
Theorem C01_nterm_site : forall a, c_type a = "atom" -> c_terminal a = "N+" -> no_custom a ->
  census shipped a = Some {| s_class := "Nterm"; s_residue_type := "N+"; s_model_pka := Some "8.00"; s_titratable := negb (c_bridge a) |}.
Proof. exact nterm_site. Qed.
Theorem C01_cterm_site : forall a, c_type a = "atom" -> c_terminal a = "C-" -> no_custom a ->
  census shipped a = Some {| s_class := "Cterm"; s_residue_type := "C-"; s_model_pka := Some "3.20"; s_titratable := negb (c_bridge a) |}.
Proof. exact cterm_site. Qed.
Theorem C01_custom_entries_are_dna_only :
  forallb (fun k => mem (substring 0 3 k) ["DA-"; "DC-"; "DG-"; "DT-"]) (map fst (drow "custom_model_pkas" (nd shipped))) = true.
Proof. exact custom_keys_are_dna. Qed.
(* nothing else titrates in a protein residue: one founding atom name per ionizable residue type *)
Theorem C01_titratable_protein_sites : forall a, c_type a = "atom" -> c_terminal a = "" -> String.length (c_res_name a) = 3%nat ->
  match census shipped a with Some s => s_titratable s = true -> In (c_res_name a, c_name a) founders | None => True end.
Proof. exact titratable_protein_sites. Qed.
Print Assumptions C01_titratable_protein_sites.
