(* C05 — parts of a structure beyond interaction range do not influence each other.  Statements only.
   Kernels: GENERATED (gen/EnergyGen.v).  Loops: model/Locality.v (validated against the implementation each run). *)
From Coq Require Import Reals List Bool ZArith.
From V Require Import Num VecGen EnergyGen Locality LocalityProofs.
Import ListNotations.
Open Scope R_scope.

Theorem C05_coulomb_zero_beyond_cutoff : forall dist w (p : params R),
  params_coulomb_cutoff1 p < params_coulomb_cutoff2 p -> params_coulomb_cutoff2 p <= dist -> coulomb_energy dist w p = 0.
Proof. exact coulomb_zero_beyond_cutoff. Qed.
Theorem C05_hbond_zero_beyond_cutoff : forall dist dmax c0 c1 fa, c0 < c1 -> c1 < dist -> hydrogen_bond_energy dist dmax (c0, c1) fa = 0.
Proof. exact hbond_zero_beyond_cutoff. Qed.
Theorem C05_no_coulomb_pair_beyond_cutoff : forall (p : params R) g1 g2 dist, params_coulomb_cutoff2 p < dist -> check_coulomb_pair p g1 g2 dist = false.
Proof. exact no_coulomb_pair_beyond_cutoff. Qed.
(* desolvation volume and buried count of a group: any atoms beyond both cut-offs, before, after or between the others, change nothing *)
Theorem C05_desolvation_sees_only_near_atoms : forall g dsq bsq m4 atoms,
  desolv_loop g dsq bsq m4 atoms = desolv_loop g dsq bsq m4 (filter (near g dsq bsq) atoms).
Proof. exact desolv_loop_local. Qed.
Theorem C05_desolvation_ignores_far_set_in_both_orders : forall g dsq bsq m4 own far,
  forallb (fun a => negb (near g dsq bsq a)) far = true ->
  desolv_loop g dsq bsq m4 (own ++ far) = desolv_loop g dsq bsq m4 own /\ desolv_loop g dsq bsq m4 (far ++ own) = desolv_loop g dsq bsq m4 own.
Proof. exact desolv_loop_ignores_far_set. Qed.
(* the closest-pair search returns a pair for every pair of non-empty atom lists, whatever the extent of the structure *)
Theorem C05_smallest_distance_always_finds_a_pair : forall (a1 : VecGen.vec3 R) r1 a2 r2, snd (smallest None (a1 :: r1) (a2 :: r2)) <> None.
Proof. exact smallest_finds_a_pair. Qed.
(* (the defect repaired in 46a4509: with a finite start value m every pair at squared distance >= m is lost) *)
Theorem C05_finite_start_value_refuted : forall (m : R) (l1 l2 : list (VecGen.vec3 R)),
  Forall (fun a1 => Forall (fun a2 => m <= squared_distance a1 a2) l2) l1 -> smallest (Some m) l1 l2 = (Some (sqrt m), None).
Proof. exact finite_start_misses_far_pairs. Qed.
(* the sweep limit / global convergence test: a cluster's result inside a product system equals its result alone, provided a converged
   cluster stays converged with the same observable results when swept again *)
Theorem C05_cluster_independent_of_other_cluster : forall (A B O : Type) (fa : A -> A) (fb : B -> B) (ca : A -> bool) (cb : B -> bool) (obs : A -> O),
  (forall a, ca a = true -> ca (fa a) = true /\ obs (fa a) = obs a) ->
  forall n a b, obs (fst (run_sweeps (fprod fa fb) (cprod ca cb) n (a, b))) = obs (run_sweeps fa ca n a).
Proof. exact @cluster_independent_of_other_cluster. Qed.
Print Assumptions C05_desolvation_ignores_far_set_in_both_orders.
Print Assumptions C05_cluster_independent_of_other_cluster.

(* ---- the iterative scheme itself (model/Iterative.v on the GENERATED pair functions): a sweep acts cluster-wise ---- *)
From V Require Import DetsGen Iterative IterativeProofs.
Theorem C05_sweep_is_cluster_local : forall (isA : nat -> bool) (objs objs' : list (obj (F:=R))) inters inters' o,
  agree isA objs objs' -> separated isA inters -> separated isA inters' -> filter (inA isA) inters = filter (inA isA) inters' -> isA o = true ->
  pka_new objs inters o = pka_new objs' inters' o.
Proof. intros isA. exact (pka_new_cluster_local isA). Qed.
Theorem C05_annihilation_is_cluster_local : forall (isA : nat -> bool) (objs objs' : list (obj (F:=R))) it,
  agree isA objs objs' -> inA isA it = true -> snd (pair_result objs it) = snd (pair_result objs' it).
Proof. intros isA. exact (annihilation_cluster_local isA). Qed.
Print Assumptions C05_sweep_is_cluster_local.
