(* C07 — Content the model does not use has no effect on any result.  Statements only (parser + frame inventory).
   Model: model/PdbParse.v (tie: correspondence).  The end-to-end claims (protonate-all, keep-protons round trip) are
   decided by the search of tools/props/c07.py and are not theorems. *)
From Coq Require Import String Ascii List Bool.
From V Require Import PyString PdbParse InertProofs Inventory_gen.
Import ListNotations.
Open Scope string_scope.

(* records other than ATOM / HETATM / MODEL / TER: removing them never changes the atom stream, from any state *)
Theorem C07_other_records_inert : forall o ls s, run o s (filter (fun l => negb (is_other_record l)) ls) = run o s ls.
Proof. exact other_records_inert. Qed.
Print Assumptions C07_other_records_inert.

(* ATOM/HETATM records of residues configured as ignorable (water, ...): removing them changes nothing *)
Theorem C07_ignored_residues_inert : forall o ls s, run o s (filter (fun l => negb (is_ignored_record o l)) ls) = run o s ls.
Proof. exact ignored_residues_inert. Qed.

(* two atom records that agree on the columns the parser reads (record name, atom name, alt-loc, residue name, chain,
   residue number, insertion code, x, y, z) and carry valid hybrid-36 serials produce the same atom up to the three
   stored-but-unused fields serial / occupancy / B-factor: columns 7-11 (value), 55-66 and 67-80 are inert *)
Theorem C07_unread_columns_inert : forall o s l1 l2, is_atom_tag (slice 0 6 l1) = true ->
  relevant l1 = relevant l2 -> serial_ok l1 = true -> serial_ok l2 = true ->
  erase_res (step o s l1) = erase_res (step o s l2).
Proof. exact unread_columns_inert. Qed.

(* ... and nothing downstream reads those three fields except the PDB/MOL2/CONECT writers, copies and log strings *)
Definition writers_and_copies : list (string * string) :=
  [("atom.py", "<module>"); ("atom.py", "Atom.make_conect_line"); ("atom.py", "Atom.make_copy"); ("output.py", "write_mol2_for_atoms")].
Definition site_allowed (x : string * string * string) : bool :=
  existsb (fun w => String.eqb (fst (fst x)) (fst w) && String.eqb (snd (fst x)) (snd w)) writers_and_copies.
Theorem C07_serial_occ_beta_only_read_by_writers : forallb site_allowed serial_occ_beta_readers = true.
Proof. vm_compute. reflexivity. Qed.

(* hydrogen records (keep-protons off): removing them changes nothing whenever each of them arrives in a harmless parser
   state (hwf, an executable check the harness also evaluates on every input it uses) *)
Theorem C07_hydrogen_records_inert : forall o, keep_protons o = false -> forall ls s, hwf o s ls = true ->
  run o s (filter (fun l => negb (is_h_record o l)) ls) = run o s ls.
Proof. exact strip_hydrogens_noop. Qed.
Theorem C07_hydrogen_nonvacuous :
  hwf o_default st0 dipeptide = true /\ length (filter (is_h_record o_default) dipeptide) = 4%nat /\
  match parse o_default dipeptide with Ok l => map (fun x => (a_name (o_atom x), o_term x)) l | Err _ => [] end
  = [("N", TNplus); ("CA", TNone); ("C", TNone); ("N", TNone); ("OXT", TCminus)].
Proof. exact dipeptide_hwf. Qed.
Print Assumptions C07_hydrogen_records_inert.
