(* C10 — Folding free energy obeys proton linkage and is reported on the requested grid.  Statements only.
   calculate_folding_energy_{neutral,lowph} and calculate_charge_* are GENERATED from propka/group.py; the container sum,
   optimum/ranges (model/Charge.v), the grid and the window filter (model/Grid.v) are hand models tied by correspondence. *)
From Coq Require Import Reals List QArith.
From Coquelicot Require Import Coquelicot.
From V Require Import Num GroupGen Charge ChargeProofs FoldingProofs Grid GridProofs.
Import ListNotations.

(* d(dG)/d(pH) = 1.36 (Q_folded - Q_unfolded), both reference states, with the very charge curves of C09 *)
Theorem C10_proton_linkage_neutral : forall (p : params R) (gs : list (gdet (F:=R))) (ph : R),
  List.Forall (fun g => grp_charge (fst g) = 1%R \/ grp_charge (fst g) = (-1)%R) gs ->
  is_derive (fun t : R => folding_energy_neutral p gs t) ph
            ((136/100) * (Qfolded (map fst gs) ph - Qunfolded (map fst gs) ph))%R.
Proof. exact linkage_total_neutral. Qed.
Theorem C10_proton_linkage_lowph : forall (p : params R) (gs : list (gdet (F:=R))) (ph : R),
  List.Forall (fun g => grp_charge (fst g) = 1%R \/ grp_charge (fst g) = (-1)%R) gs ->
  is_derive (fun t : R => folding_energy_lowph p gs t) ph
            ((136/100) * (Qfolded (map fst gs) ph - Qunfolded (map fst gs) ph))%R.
Proof. exact linkage_total_lowph. Qed.
Print Assumptions C10_proton_linkage_neutral.

(* the reported optimum is the minimum of the computed profile, and one of its points *)
Theorem C10_optimum_is_minimum : forall profile : list (R * R),
  (forall q, In q profile -> (snd (optimum profile) <= snd q)%R) /\
  (forall x, fst (optimum profile) = Some x -> In (x, snd (optimum profile)) profile) /\
  ((exists q, In q profile /\ (snd q < 1000000)%R) -> fst (optimum profile) <> None).
Proof. exact optimum_is_min. Qed.
Theorem C10_stability_range_consistent : forall profile : list (R * R),
  match stability_range profile with
  | (Some a, Some b) => (exists da db, In (a, da) profile /\ (da < 0)%R /\ In (b, db) profile /\ (db < 0)%R) /\
                        forall x d, In (x, d) profile -> (d < 0)%R -> (a <= x <= b)%R
  | (None, None) => forall x d, In (x, d) profile -> ~ (d < 0)%R
  | _ => False
  end.
Proof. exact stability_range_spec. Qed.
Theorem C10_range80_consistent : forall profile : list (R * R),
  let o := snd (optimum profile) in
  match range_80pct profile with
  | (Some a, Some b) => forall x d, In (x, d) profile -> (d < (8/10) * o)%R -> (a <= x <= b)%R
  | (None, None) => forall x d, In (x, d) profile -> ~ (d < (8/10) * o)%R
  | _ => False
  end.
Proof. exact range_80pct_spec. Qed.

(* the grid: exactly the lattice points min + i*step (i >= 0) that are <= max, in order; both end points when max is on the lattice *)
Theorem C10_grid_exact : forall fuel lo hi st l, (0 < st)%Q -> make_grid fuel lo hi st = Some l ->
  l = map (pt lo st) (map Z.of_nat (seq 0 (length l))) /\
  (forall i, (0 <= i)%Z -> ((pt lo st i <= hi)%Q <-> (i < Z.of_nat (length l))%Z)).
Proof. exact grid_exact. Qed.
Theorem C10_grid_both_endpoints : forall fuel lo hi st l n, (0 < st)%Q -> make_grid fuel lo hi st = Some l -> (0 <= n)%Z ->
  (hi == pt lo st n)%Q -> l = map (pt lo st) (map Z.of_nat (seq 0 (S (Z.to_nat n)))).
Proof. exact grid_endpoints. Qed.
(* the printed rows: exactly the profile points on the window lattice wmin + k*wstep inside [wmin, wmax] *)
Theorem C10_window_rows : forall (A : Type) (wlo whi wst : Q) (profile : list (Q * A)) (p : Q * A), (0 < wst)%Q ->
  (In p (window_rows wlo whi wst profile) <->
   In p profile /\ (wlo <= fst p <= whi)%Q /\ exists k : Z, (fst p == wlo + inject_Z k * wst)%Q).
Proof. exact @window_rows_spec. Qed.
Theorem C10_default_grid_and_window :
  match make_grid 200 0 14 (1#10) with
  | Some l => (length l, Qred (nth 140 l 0%Q), length (window_rows 0 14 1 (map (fun x => (x, tt)) l)))
  | None => (O, 0%Q, O) end = (141%nat, 14 # 1, 15%nat)
  /\ match make_grid 200 0 (3#10) (1#10) with Some l => map Qred l | None => [] end = [0%Q; 1#10; 1#5; 3#10].
Proof. exact default_grid_and_window. Qed.
Print Assumptions C10_grid_exact.
Print Assumptions C10_window_rows.
