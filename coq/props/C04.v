(* C04 — predictions do not depend on where the structure sits in space.  Statements only.
   All functions are the GENERATED ones (gen/VecGen.v, gen/EnergyGen.v) or the bonds model of C11 built on the generated squared_distance.
   M ranges over all proper orthogonal matrices (the 24 axis-permuting rotations are instances), t over all translations. *)
From Coq Require Import Reals List Bool ZArith.
From Flocq Require Import Raux.
From V Require Import Num VecGen EnergyGen RotProofs Bonds_gen Bonds BondsProofs BondsConcrete MotionProofs.
Import ListNotations.
Open Scope R_scope.

Theorem C04_distance_invariant : forall M t p q, orthogonal M -> squared_distance (move M t p) (move M t q) = squared_distance p q.
Proof. exact sqdist_move. Qed.
Theorem C04_angle_factors_invariant : forall M t a1 a2 a3, orthogonal M ->
  angle_distance_factors_atoms (toE (move M t a1)) (toE (move M t a2)) (toE (move M t a3)) = angle_distance_factors_atoms (toE a1) (toE a2) (toE a3).
Proof. exact angle_factors_move. Qed.
(* perceived bonds and disulfide flags, through the cell-list model of C11: same index pairs for the moved atom list *)
Theorem C04_bonds_invariant : forall M t (atoms : list batomR), orthogonal M -> Forall known atoms -> forall i j,
  In j (adj (bonds_using_boxes Zfloor (map (move_atom M t) atoms)) i) <-> In j (adj (bonds_using_boxes Zfloor atoms) i).
Proof. exact bonds_move. Qed.
Theorem C04_bridges_invariant : forall M t (atoms : list batomR), orthogonal M -> Forall known atoms -> forall k,
  bridge (bonds_using_boxes Zfloor (map (move_atom M t) atoms)) k = true ->
  exists m, (k < List.length atoms)%nat /\ (m < List.length atoms)%nat /\ k <> m /\
            check_distance (atom_at batomR dflt_atom atoms k) (atom_at batomR dflt_atom atoms m) = true /\
            is_sulfur (atom_at batomR dflt_atom atoms k) = true /\ is_sulfur (atom_at batomR dflt_atom atoms m) = true.
Proof. exact bridges_move. Qed.
(* hydrogen construction: the rotation about an axis and the Vector operations it is composed with commute with every proper rotation *)
Theorem C04_rotation_equivariant : forall M t axis v, proper M -> (VecGen.vec3_x axis <> 0 \/ VecGen.vec3_y axis <> 0 \/ VecGen.vec3_z axis <> 0) ->
  rotate_vector_around_an_axis t (mapply M axis) (mapply M v) = mapply M (rotate_vector_around_an_axis t axis v).
Proof. exact rotate_equivariant. Qed.
Theorem C04_vector_ops_equivariant : forall M a b, proper M ->
  Vector_cross (mapply M a) (mapply M b) = mapply M (Vector_cross a b) /\
  Vector_dot (mapply M a) (mapply M b) = Vector_dot a b /\
  Vector___add__ (mapply M a) (mapply M b) = mapply M (Vector___add__ a b) /\
  Vector___sub__ (mapply M a) (mapply M b) = mapply M (Vector___sub__ a b) /\
  Vector_sq_length (mapply M a) = Vector_sq_length a.
Proof. exact vector_ops_equivariant. Qed.
(* the 24 axis-permuting rotations are proper and have entries 0 / 1 / -1 (they map the 0.001 A grid onto itself) *)
Theorem C04_rots24_proper : Forall proper rots24.
Proof. exact rots24_proper. Qed.
Theorem C04_rots24_integer : Forall (fun M => Forall (fun e => e = 0 \/ e = 1 \/ e = -1) [m11 M; m12 M; m13 M; m21 M; m22 M; m23 M; m31 M; m32 M; m33 M]) rots24.
Proof. exact rots24_integer. Qed.
Print Assumptions C04_bonds_invariant.
Print Assumptions C04_rotation_equivariant.

(* group centres (Group.set_center, model/Centre.v): the centre of the moved atoms is the moved centre, for every matrix M (orthogonal or not),
   every translation and every atom list; and a centre exists exactly for non-empty atom lists - it is never a default position *)
From V Require Import Centre.
Theorem C04_group_centre_moves : forall M t (pts : list (VecGen.vec3 R)), set_center (map (move M t) pts) = option_map (move M t) (set_center pts).
Proof. exact centre_move. Qed.
Theorem C04_group_centre_from_atoms : forall pts : list (VecGen.vec3 R), set_center pts <> None <-> pts <> [].
Proof. exact centre_defined. Qed.
Print Assumptions C04_group_centre_moves.
