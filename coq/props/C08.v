(* C08 — The conformation average is the mean over the conformations that contain a group.  Statements only.
   Averaging is the operation sequence  OClone dst src0 ; OIadd dst c_1 ; ... ; OIadd dst c_n ; ODiv dst n  of model/Dets.v
   (Group.clone, __iadd__/add_determinant, __truediv__), where c_1..c_n are the groups found in the conformations. *)
From Coq Require Import List Reals.
From V Require Import Num Dets DetsProofs.
Import ListNotations.
Open Scope R_scope.

(* pKa, both desolvation terms, the buried fraction and - for every partner - the summed determinant towards that partner are
   the arithmetic means over the summands *)
Theorem C08_average_is_mean_over_present : forall (s : state R) dst src0 (srcs : list (nat * list nat)),
  ~ In dst (map fst srcs) -> srcs <> [] ->
  let n := INR (length srcs) in let sc := step s (OClone dst src0) in
  let s' := step (iadd_all sc dst srcs) (ODiv dst n) in
  g_pka (s' dst) = mean_of (@g_pka R) sc srcs / n /\ g_vol (s' dst) = mean_of (@g_vol R) sc srcs / n /\
  g_loc (s' dst) = mean_of (@g_loc R) sc srcs / n /\ g_buried (s' dst) = mean_of (@g_buried R) sc srcs / n /\
  (forall k, sumk k (g_sc (s' dst)) = mean_of (fun g => sumk k (g_sc g)) sc srcs / n) /\
  (forall k, sumk k (g_bb (s' dst)) = mean_of (fun g => sumk k (g_bb g)) sc srcs / n) /\
  (forall k, sumk k (g_co (s' dst)) = mean_of (fun g => sumk k (g_co g)) sc srcs / n).
Proof. intros s dst src0 srcs H1 H2. exact (average_is_mean_over_present s dst src0 srcs H1). Qed.
Print Assumptions C08_average_is_mean_over_present.

(* a single conformation (or n identical ones) is reported unchanged: mean of one summand / of equal summands *)
Corollary C08_single_conformation_identity : forall (s : state R) dst src fresh, dst <> src ->
  let s' := step (iadd_all (step s (OClone dst src)) dst [(src, fresh)]) (ODiv dst 1) in
  g_pka (s' dst) = g_pka (s src) /\ g_vol (s' dst) = g_vol (s src) /\ g_loc (s' dst) = g_loc (s src).
Proof. exact single_conformation_identity. Qed.
Theorem C08_dividing_by_more_than_the_summands_refuted :
  exists (s : state R), consistent (s 1%nat) /\ g_dirty (s 1%nat) = false /\
    ~ consistent (step (step (step s (OClone 0 1)) (OIadd 0 1 [])) (ODiv 0 2) 0%nat).
Proof. exact wrong_divisor_refuted. Qed.
