(* C06 — residue and chain labels identify residues but never influence the numbers.  Statements only.
   model/Labels.v: the residue keys the code compares (attribute reads re-extracted from the source each run, gen/Inventory_gen.v). *)
From Coq Require Import String List Bool ZArith.
From V Require Import Labels Inventory_gen LabelProofs.
Import ListNotations.
Open Scope string_scope.

(* any relabelling that keeps the (chain, number) keys of the structure's residues apart exactly as before changes no same-residue test
   and no group-equality test *)
Theorem C06_same_residue_invariant : forall (rho : resid -> resid) residues,
  (forall a b, In a residues -> In b residues -> (code_key (rho a) = code_key (rho b) <-> code_key a = code_key b)) ->
  forall a b, In a residues -> In b residues -> same_residue (rho a) (rho b) = same_residue a b.
Proof. exact same_residue_invariant. Qed.
Theorem C06_group_equality_invariant : forall (rho : resid -> resid) residues,
  (forall a b, In a residues -> In b residues -> (code_key (rho a) = code_key (rho b) <-> code_key a = code_key b)) ->
  forall t1 a t2 b, In a residues -> In b residues -> group_eq t1 (rho a) t2 (rho b) = group_eq t1 a t2 b.
Proof. exact group_equality_invariant. Qed.
(* chain renaming (injective) and per-chain shifts (any integers, also to negative numbers) are such relabellings *)
Theorem C06_rename_and_shift : forall ren shift, (forall c d, ren c = ren d -> c = d) ->
  forall a b, code_key (rename_shift ren shift a) = code_key (rename_shift ren shift b) <-> code_key a = code_key b.
Proof. exact rename_shift_preserves_keys. Qed.
(* renumbering in file order is one exactly when the structure has no insertion-code twins ... *)
Theorem C06_renumbering_without_twins : forall (rho : resid -> resid) residues,
  (forall a b, In a residues -> In b residues -> code_key (rho a) = code_key (rho b) -> a = b) ->
  (forall a b, In a residues -> In b residues -> code_key a = code_key b -> a = b) ->
  forall a b, In a residues -> In b residues -> (code_key (rho a) = code_key (rho b) <-> code_key a = code_key b).
Proof. exact renumbering_preserves_keys_without_twins. Qed.
(* ... and the last clause of the property (twins are distinct residues) is FALSE of the faithful model: known finding *)
Theorem C06_twins_conflated_refuted : exists a b, resid_eqb a b = false /\ same_residue a b = true /\ group_eq "ARG" a "ARG" b = true.
Proof. exact twins_conflated_refuted. Qed.
(* the attribute reads the model is built on, in the current source *)
Theorem C06_inventory : inventory_ok_b = true.
Proof. exact inventory_ok. Qed.
Print Assumptions C06_group_equality_invariant.

(* the atom sorting key (constants re-extracted from conformation_container.py): lexicographic while residue numbers are at most 9999 apart;
   beyond that, atoms of adjacent chains interleave (only the order of floating-point summation depends on it: compared with a tolerance) *)
Theorem C06_sort_key_lexicographic : forall ch1 n1 c1 ch2 n2 c2, (0 <= c1 < 1000)%Z -> (0 <= c2 < 1000)%Z -> (Z.abs (n1 - n2) <= 9999)%Z ->
  ((sort_key ch1 n1 c1 < sort_key ch2 n2 c2)%Z <-> (ch1 < ch2 \/ (ch1 = ch2 /\ (n1 < n2 \/ (n1 = n2 /\ c1 < c2))))%Z).
Proof. exact sort_key_lexicographic. Qed.
Theorem C06_sort_key_overlap_refuted : (sort_key 66 (-999) 0 < sort_key 65 9999 0)%Z.
Proof. exact sort_key_overlap_refuted. Qed.
