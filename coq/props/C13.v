(* C13 — Selecting chains equals deleting the other chains from the file.  Statements only.
   Model: model/PdbParse.v (hand-written model of get_atom_lines_from_pdb + Atom.set_properties; tie: correspondence). *)
From Coq Require Import String Ascii List Bool.
From V Require Import PyString PdbParse ParseProofs.
Import ListNotations.
Open Scope string_scope.

(* for EVERY list of lines whose ATOM/HETATM records have at least 22 columns and every non-empty selection:
   the atom stream (atoms, conformation tags, N+/C- tags, or the raised error) with `-c` equals the stream
   obtained without the option from the file with all other chains' ATOM/HETATM records removed *)
Theorem C13_chain_selection_is_deletion : forall (o : opts) (ls : list string),
  chains o <> [] -> forallb wf_line ls = true ->
  parse o ls = parse (no_chains o) (filter (keeps (chains o)) ls).
Proof. exact parse_chain_filter_is_deletion. Qed.
Print Assumptions C13_chain_selection_is_deletion.

(* from any parser state (i.e. also for the tail of a file, after MODEL/TER/OXT bookkeeping) *)
Theorem C13_from_any_state : forall (o : opts), chains o <> [] -> forall ls s, forallb wf_line ls = true ->
  run o s ls = run (no_chains o) s (filter (keeps (chains o)) ls).
Proof. exact run_chain_filter_is_deletion. Qed.

Theorem C13_blank_chain_selectable : forall (o : opts) (ls : list string),
  chains o = [" "%char] -> forallb wf_line ls = true ->
  parse o ls = parse (no_chains o) (filter (keeps [" "%char]) ls).
Proof. exact blank_chain_selectable. Qed.

Theorem C13_nonvacuous :
  forallb wf_line demo = true /\
  match parse {| ignore_residues := ["HOH"]; keep_protons := false; chains := ["B"%char] |} demo with
  | Ok l => map (fun x => (a_name (o_atom x), a_chain (o_atom x), o_term x)) l
  | Err _ => [] end = [("N", "B", TNplus); ("CA", "B", TNone)].
Proof. exact demo_selects_B. Qed.

(* consequences.  Deleting the other chains' records first and then selecting changes nothing (selection is idempotent),
   and the result depends only on WHICH identifiers are selected, not on their order or repetition in the option *)
Theorem C13_selection_idempotent : forall (o : opts) (ls : list string),
  chains o <> [] -> forallb wf_line ls = true -> parse o (filter (keeps (chains o)) ls) = parse o ls.
Proof. exact chain_selection_idempotent. Qed.
Theorem C13_selection_depends_on_membership_only : forall (o1 o2 : opts) (ls : list string),
  ignore_residues o1 = ignore_residues o2 -> keep_protons o1 = keep_protons o2 ->
  chains o1 <> [] -> chains o2 <> [] -> (forall c, mem_chr c (chains o1) = mem_chr c (chains o2)) ->
  forallb wf_line ls = true -> parse o1 ls = parse o2 ls.
Proof. exact chain_selection_depends_on_membership. Qed.
Print Assumptions C13_selection_depends_on_membership_only.
