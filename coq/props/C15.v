(* C15 — Coupling analysis observes without disturbing.  Statements only.  Model: model/Dets.v (transfer_determinant,
   swap_interactions as OSwap incl. its two recomputations). *)
From Coq Require Import List Reals Permutation.
From V Require Import Num Dets DetsProofs.
Import ListNotations.
Open Scope R_scope.

(* transferring twice gives back both lists up to order - for arbitrary labels (equal labels, several determinants towards the same
   partner, determinants of third parties carrying one of the two labels included) *)
Theorem C15_transfer_involutive : forall (d1 d2 : list (det R)) l1 l2,
  let '(a, b) := transfer d1 d2 l1 l2 in let '(a', b') := transfer a b l1 l2 in Permutation a' d1 /\ Permutation b' d2.
Proof. exact transfer_involutive. Qed.
Print Assumptions C15_transfer_involutive.
(* no value is created or lost by a transfer *)
Theorem C15_transfer_preserves_total : forall (d1 d2 : list (det R)) l1 l2,
  let '(a, b) := transfer d1 d2 l1 l2 in sumv a + sumv b = sumv d1 + sumv d2.
Proof. exact transfer_preserves_total. Qed.

(* swap; swap back (what is_coupled_protonation_state_probability does): both groups are clean again, their determinant lists are
   the old ones up to order (backbone lists untouched), their pKa values are EXACTLY the old ones, nobody else is touched *)
Theorem C15_swap_twice_restores : forall (s : state R) g1 g2, g1 <> g2 ->
  g_dirty (s g1) = false -> g_dirty (s g2) = false -> consistent (s g1) -> consistent (s g2) ->
  let s' := step (step s (OSwap g1 g2)) (OSwap g1 g2) in
  Permutation (g_sc (s' g1)) (g_sc (s g1)) /\ Permutation (g_co (s' g1)) (g_co (s g1)) /\ g_bb (s' g1) = g_bb (s g1) /\
  Permutation (g_sc (s' g2)) (g_sc (s g2)) /\ Permutation (g_co (s' g2)) (g_co (s g2)) /\ g_bb (s' g2) = g_bb (s g2) /\
  g_pka (s' g1) = g_pka (s g1) /\ g_pka (s' g2) = g_pka (s g2) /\
  (forall k, k <> g1 -> k <> g2 -> s' k = s k).
Proof. exact swap_twice_restores. Qed.
Print Assumptions C15_swap_twice_restores.

(* ---- coupling is symmetric: the registration model (model/Coupling.v = Group.couple_non_covalently) keeps the relation symmetric for every
   sequence of registrations, and the inventory of the CURRENT source shows that partner lists are changed nowhere else *)
From Coq Require Import String.
From V Require Import Coupling CouplingProofs Inventory_gen.
Theorem C15_coupling_symmetric : forall ops : list (nat * nat), symmetric (couple_all ops).
Proof. exact couple_all_symmetric. Qed.
Theorem C15_registration_registers_both_ways : forall s a b, In b (couple s a b a) /\ In a (couple s a b b).
Proof. exact couple_registers. Qed.
Theorem C15_partner_lists_change_only_by_registration :
  forallb cw_ok coupling_writes = true
  /\ cw_has coupling_writes "self.non_covalently_coupled_groups"%string "other"%string = true
  /\ cw_has coupling_writes "other.non_covalently_coupled_groups"%string "self"%string = true.
Proof. vm_compute. repeat split. Qed.
Print Assumptions C15_coupling_symmetric.

(* exact characterisation (stronger than symmetry): after ANY sequence of registrations the partners of x are exactly the groups that
   were registered together with x, in either role — nobody else is ever marked, nobody registered is ever lost — and each partner
   is listed once (so a determinant row has one reason for its star per partner) *)
Theorem C15_partners_are_exactly_the_registered : forall (ops : list (nat * nat)) x y,
  In y (couple_all ops x) <-> exists a b, In (a, b) ops /\ ((x = a /\ y = b) \/ (x = b /\ y = a)).
Proof. exact partners_are_the_registered. Qed.
Theorem C15_partners_listed_once : forall (ops : list (nat * nat)) x, NoDup (couple_all ops x).
Proof. exact partners_listed_once. Qed.
Print Assumptions C15_partners_are_exactly_the_registered.
