(* Hand-written executable model of the protein part of the group census:
     propka/group.py: is_protein_group (which atoms found a group, of which class), Group.__init__ (residue_type), BBN/BBC overrides,
                      Group.setup (model pKa incl. custom_model_pkas, titratable flag incl. cysteine bridges)
   over the parameter tables of model/Params.v.  Tie: tools/props/c01.py compares, for every protein atom of real runs, the class,
   residue_type, model pKa and titratable flag with this model evaluated on the cfg text re-read from /repo. *)
From Coq Require Import String Ascii List Bool ZArith QArith.
From V Require Import PyString Params.
Import ListNotations.
Open Scope string_scope.

Record catom := { c_type : string; c_res_name : string; c_name : string; c_terminal : string (* "" = None *);
                  c_bonded_O : nat; c_bridge : bool }.

Definition group_class (p : params) (a : catom) : option string :=
  if negb (String.eqb (c_type a) "atom") then None
  else if String.eqb (c_terminal a) "N+" then Some "Nterm"
  else if String.eqb (c_terminal a) "C-" then Some "Cterm"
  else if String.eqb (c_name a) "N" && negb (String.eqb (c_res_name a) "PRO") then Some "BBN"
  else if String.eqb (c_name a) "C" && Nat.eqb (c_bonded_O a) 1 then Some "BBC"
  else get2 (sd p) "protein_group_mapping" (c_res_name a ++ "-" ++ c_name a).

Definition residue_type (cls : string) (a : catom) : string :=
  if String.eqb cls "BBN" then "BBN" else if String.eqb cls "BBC" then "BBC"
  else if String.eqb (c_terminal a) "" then c_res_name a else c_terminal a.

Definition model_pka (p : params) (rt : string) (a : catom) : option string :=
  match get2 (nd p) "model_pkas" rt with
  | Some v => Some (match get2 (nd p) "custom_model_pkas" (strip (c_res_name a) ++ "-" ++ strip (c_name a)) with Some c => c | None => v end)
  | None => None
  end.

Record site := { s_class : string; s_residue_type : string; s_model_pka : option string; s_titratable : bool }.
Definition census (p : params) (a : catom) : option site :=
  match group_class p a with
  | None => None
  | Some cls =>
    let rt := residue_type cls a in
    let mp := model_pka p rt a in
    Some {| s_class := cls; s_residue_type := rt; s_model_pka := mp;
            s_titratable := match mp with Some _ => negb (c_bridge a) | None => false end |}
  end.

(* rendering for the correspondence: class, residue type, model pKa as a reduced fraction (or []), titratable *)
Definition site_out (o : option site) : list (list Z) :=
  match o with
  | None => [[0%Z]]
  | Some s => [[1%Z]; codes (s_class s); codes (s_residue_type s);
               match s_model_pka s with
               | Some t => match dec t with Some q => let r := Qred q in [Qnum r; Zpos (Qden r)] | None => [(-1)%Z] end
               | None => [] end;
               [Z.b2z (s_titratable s)]]
  end.
