(* Hand-written executable model of propka/hybrid36.py:decode (tie: correspondence check
   tools/props/c19.py runs this definition and the Python function on the same strings). *)
From Coq Require Import List ZArith Ascii Bool.
From V Require Import PyStr.
Import ListNotations.
Open Scope Z_scope.

Inductive result := Ok (z : Z) | ValueError.

Definition all_upper_set (s : str) := forallb (fun d => is_upper d || is_digit d) s.
Definition all_lower_set (s : str) := forallb (fun d => is_lower d || is_digit d) s.

Definition split_sign (s : str) : Z * str :=
  match s with
  | c :: r => if code c =? 45 then (-1, r) else (1, s)
  | [] => (1, s)
  end.

Definition decode (s0 : str) : result :=
  let s := strip s0 in
  let '(sign, s) := split_sign s in
  match s with
  | [] => ValueError
  | c :: tl =>
    let n := Z.of_nat (length s) in
    if is_digit c then
      if forallb is_digit tl then Ok (sign * int10 s) else ValueError
    else if is_upper c then
      if all_upper_set tl then Ok (sign * (int36 s + - (10 * 36 ^ (n - 1) - 10 ^ n))) else ValueError
    else if is_lower c then
      if all_lower_set tl then Ok (sign * (int36 s + (16 * 36 ^ (n - 1) + 10 ^ n))) else ValueError
    else ValueError
  end.
