(* Hand-written executable model of propka/bonds.py:
     BondMaker.find_bonds_for_atoms_using_boxes (cell list, half-space neighbour enumeration),
     find_bonds_for_atoms / find_bonds_for_atoms_disjoint / _find_bonds_for_atoms / make_bond,
     BondMaker.check_distance (on top of the GENERATED squared_distance of gen/VecGen.v)
   The neighbour offsets and the distance constants are the tables of gen/Bonds_gen.v (re-extracted every run).
   Atoms are identified by their index in the input list (Python: object identity).
   Tie: trace-level correspondence (tools/props/c11.py): examined pairs in order, bonded lists in order, flags. *)
From Coq Require Import String Ascii List Bool ZArith QArith.
From V Require Import Num VecGen Bonds_gen.
Import ListNotations.
Local Open Scope list_scope.

Definition cellT := (Z * Z * Z)%type.
Definition cadd (c d : cellT) : cellT := let '(x,y,z) := c in let '(a,b,e) := d in (x+a, y+b, z+e)%Z.
Definition cneg (d : cellT) : cellT := let '(a,b,e) := d in (-a,-b,-e)%Z.
Definition ceqb (c d : cellT) : bool := let '(x,y,z) := c in let '(a,b,e) := d in ((x =? a) && (y =? b) && (z =? e))%Z.

(* ------------------------------------------------------------------ the cell list, over abstract atoms *)
Section Cells.
Variable atom : Type.
Variable cell : atom -> cellT.
Variable offs : list cellT.

Definition iatom := (nat * atom)%type.
Fixpoint number (n : nat) (l : list atom) : list iatom :=
  match l with [] => [] | a :: r => (n, a) :: number (S n) r end.

(* boxes.setdefault((x, y, z), []).append(atom): association list in first-insertion order *)
Fixpoint box_add (c : cellT) (a : iatom) (bs : list (cellT * list iatom)) : list (cellT * list iatom) :=
  match bs with
  | [] => [(c, [a])]
  | (c', l) :: r => if ceqb c c' then (c', l ++ [a]) :: r else (c', l) :: box_add c a r
  end.
Definition boxes (l : list iatom) := fold_left (fun bs a => box_add (cell (snd a)) a bs) l [].
Fixpoint box_get (c : cellT) (bs : list (cellT * list iatom)) : option (list iatom) :=
  match bs with [] => None | (c', l) :: r => if ceqb c c' then Some l else box_get c r end.

(* find_bonds_for_atoms: i < j ;  find_bonds_for_atoms_disjoint: all of atoms1 x atoms2 *)
Fixpoint pairs_within (l : list iatom) : list (iatom * iatom) :=
  match l with [] => [] | a :: r => map (fun b => (a, b)) r ++ pairs_within r end.
Definition pairs_between (l1 l2 : list iatom) : list (iatom * iatom) :=
  flat_map (fun a => map (fun b => (a, b)) l2) l1.

(* the sequence of calls of _find_bonds_for_atoms made by the cell-list loop *)
Definition examined (bs : list (cellT * list iatom)) : list (iatom * iatom) :=
  flat_map (fun cb : cellT * list iatom =>
     let (c, v) := cb in
     pairs_within v ++
     flat_map (fun d => match box_get (cadd c d) bs with Some v2 => pairs_between v v2 | None => [] end) offs) bs.
End Cells.
Arguments number {atom}. Arguments boxes {atom}. Arguments examined {atom}. Arguments pairs_within {atom}.
Arguments box_get {atom}. Arguments box_add {atom}. Arguments pairs_between {atom}.

(* ------------------------------------------------------------------ make_bond and the bridge flags *)
Record bstate := { adj : nat -> list nat; bridge : nat -> bool }.
Definition bstate0 : bstate := {| adj := fun _ => []; bridge := fun _ => false |}.
Definition memn (i : nat) (l : list nat) : bool := existsb (Nat.eqb i) l.
Definition upd {A} (f : nat -> A) (i : nat) (v : A) : nat -> A := fun k => if Nat.eqb k i then v else f k.

(* if atom1 == atom2: return; if atom1 not in atom2.bonded_atoms: atom2.bonded_atoms.append(atom1); (and vice versa) *)
Definition make_bond (s : bstate) (i j : nat) : bstate :=
  if Nat.eqb i j then s else
  let a1 := if memn i (adj s j) then adj s else upd (adj s) j (adj s j ++ [i]) in
  let a2 := if memn j (a1 i) then a1 else upd a1 i (a1 i ++ [j]) in
  {| adj := a2; bridge := bridge s |}.

Section Find.
Variable atom : Type.
Variable check : atom -> atom -> bool.
Variable is_S : atom -> bool.
(* _find_bonds_for_atoms(atom1, atom2): (assert atom1 is not atom2) *)
Definition find_bond (s : bstate) (p : iatom atom * iatom atom) : bstate :=
  let '((i, a), (j, b)) := p in
  if memn i (adj s j) then s
  else if check a b then
    let s1 := make_bond s i j in
    if is_S a && is_S b then {| adj := adj s1; bridge := upd (upd (bridge s1) i true) j true |} else s1
  else s.
Definition find_all (ps : list (iatom atom * iatom atom)) : bstate := fold_left find_bond ps bstate0.
End Find.
Arguments find_bond {atom}. Arguments find_all {atom}.

(* ------------------------------------------------------------------ the concrete pair criterion *)
Fixpoint count_H (e : string) : nat :=
  match e with EmptyString => O | String c r => (if Ascii.eqb c "H"%char then 1 else 0) + count_H r end.
Fixpoint slookup {V} (k : string) (d : list (string * V)) : option V :=
  match d with [] => None | (k', v) :: r => if String.eqb k k' then Some v else slookup k r end.

Section Criterion.
Context {F : Type} {N : Num F}.
Record batom := { b_pos : vec3 F; b_elem : string }.
Definition qlit (q : Q) : F := nlit (Qnum q) (Zpos (Qden q)).
Definition cst (name : string) : F := match slookup name bond_consts with Some q => qlit q | None => nlit 0 1 end.
(* BondMaker.__init__ *)
Definition h_sq : F := nmul (cst "HYDROGEN_DISTANCE") (cst "HYDROGEN_DISTANCE").
Definition def_sq : F := nmul (cst "DEFAULT_DISTANCE") (cst "DEFAULT_DISTANCE").
Definition special_sq : list (string * F) := map (fun kv => (fst kv, nmul (qlit (snd kv)) (qlit (snd kv)))) special_distances.
(* max(list(self.distances_squared.values()) + [self.default_dist_squared]) *)
Definition max_sq : F :=
  match map snd special_sq ++ [def_sq] with [] => def_sq | x :: r => fold_left nmax r x end.
(* box_size = max(BOX_SIZE, self.max_sq_distance**0.5 + 0.01) *)
Definition box_size : F := nmax (cst "BOX_SIZE") (nadd (nsqrt max_sq) (nlit 1 100)).

Definition check_distance (a b : batom) : bool :=
  let sq_dist := squared_distance (b_pos a) (b_pos b) in
  if nltb max_sq sq_dist then false else
  let h_count := (count_H (b_elem a) + count_H (b_elem b))%nat in          (* key.count('H') of 'El1-El2' *)
  if nltb sq_dist h_sq && Nat.eqb h_count 1 then true
  else if nltb sq_dist def_sq && Nat.eqb h_count 0 then true
  else match slookup (b_elem a ++ "-" ++ b_elem b)%string special_sq with
       | Some s => nltb sq_dist s
       | None => false end.
Definition is_sulfur (a : batom) : bool := String.eqb (b_elem a) "S".

Variable floorZ : F -> Z.        (* math.floor *)
Definition cell_of (a : batom) : cellT :=
  (floorZ (ndiv (vec3_x (b_pos a)) box_size), floorZ (ndiv (vec3_y (b_pos a)) box_size), floorZ (ndiv (vec3_z (b_pos a)) box_size)).

(* find_bonds_for_atoms_using_boxes(atoms): final per-atom bonded lists and bridge flags *)
Definition bonds_using_boxes (atoms : list batom) : bstate :=
  find_all check_distance is_sulfur (examined offsets (boxes cell_of (number 0 atoms))).
(* the O(n^2) reference: find_bonds_for_atoms(atoms) *)
Definition bonds_all_pairs (atoms : list batom) : bstate :=
  find_all check_distance is_sulfur (pairs_within (number 0 atoms)).
End Criterion.
Arguments batom F : clear implicits.
