(* Hand-written models over exact rationals of
     lib.make_grid          (decimal stepping: min + index*step while <= max)
     the window filter of output.get_folding_profile_section
   Decimal arithmetic on the decimal strings of the arguments is exact, so Q is the faithful number system; the
   conversion of each grid point to binary64 is `flit` (correctly rounded quotient), used by the correspondence. *)
From Coq Require Import List Bool ZArith QArith.
Import ListNotations.
Open Scope Q_scope.

(* index = 0; while dec_min + index*dec_step <= dec_max: yield ...; index += 1      (None = out of fuel) *)
Fixpoint grid_loop (fuel : nat) (i : Z) (lo hi st : Q) : option (list Q) :=
  match fuel with
  | O => None
  | S f => let x := lo + inject_Z i * st in
           if Qle_bool x hi then match grid_loop f (i + 1) lo hi st with Some l => Some (x :: l) | None => None end
           else Some []
  end.
Definition make_grid (fuel : nat) (lo hi st : Q) : option (list Q) := grid_loop fuel 0 lo hi st.

(* Decimal `a % s == 0` for a >= 0, s > 0: a/s is an integer *)
Definition is_int (q : Q) : bool := Z.eqb (Zpos (Qden (Qred q))) 1.
Definition on_window (wlo whi wst : Q) (ph : Q) : bool :=
  Qle_bool wlo ph && Qle_bool ph whi && is_int ((ph - wlo) / wst).
Definition window_rows {A} (wlo whi wst : Q) (profile : list (Q * A)) : list (Q * A) :=
  filter (fun p => on_window wlo whi wst (fst p)) profile.
