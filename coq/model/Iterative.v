(* Hand-written executable model of the iterative scheme of propka/iterative.py:add_determinants, built on the GENERATED pair functions
   (gen/DetsGen.v: add_iterative_acid_pair / _base_pair / _ion_pair in event mode).
   Objects and interactions are lists; an interaction names its two objects by index.  During a sweep pka_old of every object is fixed,
   so each interaction is evaluated on its own: events (owner 1 -> first object, otherwise second), new annihilation pair.
   pka_new of an object = pka_noniterative + its side-chain values + its Coulomb values, added in the order the code adds them.
   Tie: tools/props/c05.py records the Iterative objects and interactions of real runs (wrapping Iterative.__init__ / add_determinants at
   run time) and compares pka_iter of every object after every sweep, bit for bit, with this model evaluated in binary64. *)
From Coq Require Import List Bool ZArith.
From V Require Import Num DetsGen.
Import ListNotations.

Section It.
Context {F : Type} {N : Num F}.

Record obj := mk_obj { o_q : F; o_non : F; o_old : F; o_excl : bool }.
Record inter := mk_inter { i_a : nat; i_b : nat; i_hb : F; i_co : F; i_an : F * F }.
Definition dflt_obj : obj := mk_obj (nlit 0 1) (nlit 0 1) (nlit 0 1) false.
Definition ev := (F * F * F * F)%type.

Definition pair_result (objs : list obj) (it : inter) : list ev * (F * F) :=
  let o1 := nth (i_a it) objs dflt_obj in let o2 := nth (i_b it) objs dflt_obj in
  let x1 := mk_iter (o_q o1) (o_old o1) (o_excl o1) in let x2 := mk_iter (o_q o2) (o_old o2) (o_excl o2) in
  let arg := (nlit 0 1, (i_hb it, i_co it), i_an it) in
  if nltb (o_q o1) (nlit 0 1) && nltb (o_q o2) (nlit 0 1) then add_iterative_acid_pair x1 x2 arg
  else if nltb (nlit 0 1) (o_q o1) && nltb (nlit 0 1) (o_q o2) then add_iterative_base_pair x1 x2 arg
  else add_iterative_ion_pair x1 x2 arg.

(* values of kind k that interaction `it` books on global object o *)
Definition contrib (objs : list obj) (k : Z) (o : nat) (it : inter) : list F :=
  flat_map (fun e : ev => let '(owner, kind, _, v) := e in
              let g := if neqb owner (nlit 1 1) then i_a it else i_b it in
              if Nat.eqb g o && neqb kind (nlit k 1) then [v] else []) (fst (pair_result objs it)).
Definition pka_new (objs : list obj) (inters : list inter) (o : nat) : F :=
  fold_left nadd (flat_map (contrib objs 0 o) inters ++ flat_map (contrib objs 2 o) inters) (o_non (nth o objs dflt_obj)).

Definition sweep (objs : list obj) (inters : list inter) : list obj * list inter * bool :=
  let news := map (pka_new objs inters) (seq 0 (length objs)) in
  let conv := forallb (fun p => neqb (fst p) (o_old (snd p))) (combine news objs) in
  (map (fun p => mk_obj (o_q (snd p)) (o_non (snd p)) (fst p) (o_excl (snd p))) (combine news objs),
   map (fun it => mk_inter (i_a it) (i_b it) (i_hb it) (i_co it) (snd (pair_result objs it))) inters, conv).

(* while not converged: sweep; stop after `limit` sweeps.  Returns pka_iter of every object (pka_noniterative first). *)
Fixpoint iterate (limit : nat) (objs : list obj) (inters : list inter) (hist : list (list F)) : list (list F) * list obj * list inter :=
  match limit with
  | O => (hist, objs, inters)
  | S k => let '(objs', inters', conv) := sweep objs inters in
           let hist' := map (fun p => fst p ++ [o_old (snd p)]) (combine hist objs') in
           if conv then (hist', objs', inters') else iterate k objs' inters' hist'
  end.
Definition run_iterative (objs : list obj) (inters : list inter) : list (list F) :=
  let '(h, _, _) := iterate 10 objs inters (map (fun o => [o_old o]) objs) in h.
End It.
