(* Hand-written model of the registration of non-covalently coupled groups:
     propka/group.py: Group.couple_non_covalently  (append other to self's list unless present; append self to other's list unless present)
   Groups are natural-number identifiers; the state maps a group to its list of partners.  The inventory gen/Inventory_gen.v (coupling_writes)
   lists EVERY place of the source that can change such a list; props/C15.v shows that they are exactly: the empty list of Group.__init__, the
   copy in Group.clone, and the two guarded appends below (the container's boolean flag of the same name is a different object). *)
From Coq Require Import List Arith Bool String.
Import ListNotations.

Definition cstate := nat -> list nat.
Definition cinit : cstate := fun _ => [].
Definition add_unless_present (x : nat) (l : list nat) : list nat := if existsb (Nat.eqb x) l then l else l ++ [x].
Definition cupd (s : cstate) (i : nat) (l : list nat) : cstate := fun j => if Nat.eqb j i then l else s j.
Definition couple (s : cstate) (a b : nat) : cstate :=
  let s1 := cupd s a (add_unless_present b (s a)) in
  cupd s1 b (add_unless_present a (s1 b)).
Definition couple_all (ops : list (nat * nat)) : cstate := fold_left (fun s p => couple s (fst p) (snd p)) ops cinit.
Definition symmetric (s : cstate) : Prop := forall x y, In y (s x) <-> In x (s y).

(* classification of the rows of Inventory_gen.coupling_writes *)
Open Scope string_scope.
Definition cw_row := (string * string * string * string * string * string)%type.
Definition cw_ok (r : cw_row) : bool :=
  let '(file, fn, kind, target, arg, guard) := r in
  (* the conformation containers keep a boolean of the same name *)
  (String.eqb kind "assign" && (String.eqb arg "True" || String.eqb arg "False") && negb (String.eqb file "group.py"))
  || (String.eqb fn "Group.__init__" && String.eqb kind "assign" && String.eqb arg "[]")
  || (String.eqb fn "Group.clone" && String.eqb kind "assign" && String.eqb arg "self.non_covalently_coupled_groups")
  || (String.eqb fn "Group.couple_non_covalently" && String.eqb kind "append" && String.eqb target "self.non_covalently_coupled_groups"
      && String.eqb arg "other" && String.eqb guard "other not in self.non_covalently_coupled_groups")
  || (String.eqb fn "Group.couple_non_covalently" && String.eqb kind "append" && String.eqb target "other.non_covalently_coupled_groups"
      && String.eqb arg "self" && String.eqb guard "self not in other.non_covalently_coupled_groups").
Definition cw_has (rows : list cw_row) (target arg : string) : bool :=
  existsb (fun r => let '(_, fn, kind, t, a, _) := r in String.eqb fn "Group.couple_non_covalently" && String.eqb kind "append" && String.eqb t target && String.eqb a arg) rows.
