(* Hand-written, error-explicit model of the group set-up glue that has to cope with missing atoms:
     propka/group.py: Group.set_center, COOGroup / HISGroup / AMDGroup / CtermGroup / ARGGroup / TRPGroup .setup_atoms
     propka/input.py: read_molecule_file (file-type dispatch and the empty-structure test)
   Atoms are natural-number identifiers; the arguments are the lists the code obtains from the structure (bonded atoms of an element,
   ring members, hydrogens found after protonation).  Python exceptions are explicit.
   Tie: tools/props/c12.py runs the real setup_atoms on fabricated atoms for every shape of these lists and compares outcome, centre
   atoms and interaction atoms. *)
From Coq Require Import List Bool Arith String Ascii.
Import ListNotations.

Inductive exn := IndexError | ValueError | ZeroDivisionError.
Inductive res (A : Type) := Ok (a : A) | Err (e : exn).
Arguments Ok {A}. Arguments Err {A}.
Definition bind {A B} (r : res A) (f : A -> res B) : res B := match r with Ok a => f a | Err e => Err e end.
Notation "'do' x <- r ; k" := (bind r (fun x => k)) (at level 200, x name, r at level 100, k at level 200).

Definition atom := nat.
(* outcome of a set-up: atoms averaged for the centre, interaction atoms for acids, for bases (None = set_interaction_atoms not called) *)
Record setup := { centre : list atom; inter : option (list atom * list atom) }.

Definition set_center (l : list atom) : res (list atom) := match l with [] => Err ValueError | _ => Ok l end.
Definition first (l : list atom) : res atom := match l with x :: _ => Ok x | [] => Err IndexError end.
(* list.remove(x): first occurrence, ValueError if absent *)
Fixpoint remove_first (x : atom) (l : list atom) : res (list atom) :=
  match l with
  | [] => Err ValueError
  | y :: r => if Nat.eqb x y then Ok r else do r' <- remove_first x r; Ok (y :: r')
  end.

Definition coo_setup (self : atom) (oxygens : list atom) : res setup :=
  do c <- set_center (match oxygens with [] => [self] | _ => oxygens end);
  Ok {| centre := c; inter := Some (oxygens, oxygens) |}.

(* ring: (atom, is nitrogen, hydrogens bonded to it after protonation) *)
Definition his_setup (self : atom) (ring : list (atom * bool * list atom)) : res setup :=
  let ids := map (fun r => fst (fst r)) ring in
  do c <- set_center (match ids with [] => [self] | _ => ids end);
  let nitrogens := filter (fun r => snd (fst r)) ring in
  let hydrogens := flat_map (fun r => snd r) nitrogens in
  let nids := map (fun r => fst (fst r)) nitrogens in
  Ok {| centre := c; inter := Some (hydrogens ++ nids, nids) |}.

(* nitrogens: (atom, hydrogens after protonation) *)
Definition amd_setup (self : atom) (oxygens : list atom) (nitrogens : list (atom * list atom)) : res setup :=
  match oxygens, nitrogens with
  | _ :: _, _ :: _ =>
    do n0 <- (match nitrogens with x :: _ => Ok x | [] => Err IndexError end);
    let nids := map fst nitrogens in
    do c <- set_center (oxygens ++ nids);
    Ok {| centre := c; inter := Some (nids ++ snd n0, oxygens) |}
  | _, _ => do c <- set_center [self]; Ok {| centre := c; inter := None |}
  end.

(* carbons: (carbon, oxygens bonded to that carbon) *)
Definition cterm_setup (self : atom) (carbons : list (atom * list atom)) : res setup :=
  match carbons with
  | [] => do c <- set_center [self]; Ok {| centre := c; inter := None |}
  | (_, oxs) :: _ =>
    do others <- remove_first self oxs;
    let oxygens := self :: others in
    do c <- set_center oxygens; Ok {| centre := c; inter := Some (oxygens, oxygens) |}
  end.

Definition arg_setup (self : atom) (nitrogens : list (atom * list atom)) : res setup :=
  do c <- set_center [self];
  let nids := map fst nitrogens in
  Ok {| centre := c; inter := Some (nids ++ flat_map snd nitrogens, nids) |}.
Definition trp_setup (self : atom) (hydrogens : list atom) : res setup :=
  do c <- set_center [self]; Ok {| centre := c; inter := Some (hydrogens ++ [self], [self]) |}.

(* read_molecule_file: suffix test (lower-cased) and the empty-structure test; everything after that is the calculation *)
Definition lower_char (c : ascii) : ascii := let n := nat_of_ascii c in if Nat.leb 65 n && Nat.leb n 90 then ascii_of_nat (n + 32) else c.
Fixpoint lower (s : string) : string := match s with EmptyString => EmptyString | String c r => String (lower_char c) (lower r) end.
Inductive accepted := Accept | RejectValueError.
Definition read_dispatch (suffix : string) (n_conformations : nat) : accepted :=
  if String.eqb (lower suffix) ".pdb" then (if Nat.eqb n_conformations 0 then RejectValueError else Accept) else RejectValueError.
