(* Hand-written model of the electron bookkeeping that decides how many hydrogens a protein atom receives and which geometry is used:
     propka/bonds.py: add_pi_electron_table_info (protein branch)
     propka/protonate.py: set_charge (protein branch), set_number_of_protons_to_add, set_steric_number_and_lone_pairs
   over the tables re-extracted from the source on every run (gen/Protonate_gen.v).
   Tie: tools/props/c17.py compares, for every protonated protein atom of real runs, the number of hydrogens added and the steric number. *)
From Coq Require Import String List ZArith Bool.
From V Require Import Protonate_gen.
Import ListNotations.
Open Scope string_scope.

Fixpoint zget (k : string) (l : list (string * Z)) : option Z :=
  match l with [] => None | (k', v) :: r => if String.eqb k k' then Some v else zget k r end.
Definition zdef (o : option Z) (d : Z) : Z := match o with Some v => v | None => d end.

(* res: the 3-column residue name; name: atom name; terminal: "" / "N+" / "C-"; nb: number of bonded atoms when the atom is protonated *)
Definition pi23 (res name : string) : Z :=
  match zget name pi_backbone with Some v => v | None => zdef (zget (res ++ "-" ++ name) pi_sidechains) 0 end.
Definition piconj (res name : string) (nb : Z) : Z :=
  match zget name piconj_backbone with
  | Some v => if (1 <? nb)%Z then v else zdef (zget (res ++ "-" ++ name) piconj_sidechains) 0
  | None => zdef (zget (res ++ "-" ++ name) piconj_sidechains) 0 end.
Definition charge (res name terminal : string) : Z :=
  zdef (zget (if String.eqb terminal "" then res ++ "-" ++ name else terminal) standard_charges) 0.
Definition valence (element : string) : Z := zdef (zget element valence_electrons) 4.

Definition protons_to_add (element res name terminal : string) (nb : Z) : Z :=
  (8 - valence element - nb - pi23 res name + charge res name terminal)%Z.
Definition steric_number (element res name terminal : string) (nb : Z) : Z :=
  ((valence element + nb + protons_to_add element res name terminal nb - pi23 res name - piconj res name nb - charge res name terminal) / 2)%Z.
