(* Hand-written executable model of the determinant bookkeeping of propka (over any Num instance):
     Group.determinants lists (append / remove), Determinant.label / .value writes,
     Group.calculate_total_pka, remove_determinants, clone, __iadd__ / add_determinant, __truediv__,
     NonCovalentlyCoupledGroups.transfer_determinant / swap_interactions.
   Groups and determinants are identified by indices (Python: object identity); labels and group-equality keys are
   numbers assigned by the harness.  A `dirty` bit per group records "determinants / energies changed since the total was
   last recomputed" - bookkeeping of the model only, used to state the C02 invariant.
   Tie: trace validation (tools/vlib/detstrace.py): the recorded operation sequence of a real run is replayed and must end in
   the same state, bit for bit. *)
From Coq Require Import List Bool ZArith.
From V Require Import Num.
Import ListNotations.
Local Open Scope list_scope.

Inductive kind := SC | BB | CO.
Definition kinds := [SC; BB; CO].

Section Dets.
Context {F : Type} {N : Num F}.

(* d_key: equality class of the partner (Group.__eq__); d_glabel: the partner's own label; d_label: the (mutable) printed label *)
Record det := { d_id : nat; d_key : nat; d_glabel : nat; d_label : nat; d_val : F }.
Record grp := {
  g_label : nat; g_key : nat; g_model : F; g_vol : F; g_loc : F; g_pka : F;
  g_nvol : F; g_nloc : F; g_buried : F; g_bridged : bool;
  g_sc : list det; g_bb : list det; g_co : list det; g_dirty : bool }.
Definition state := nat -> grp.

Definition dets_of (g : grp) (k : kind) : list det := match k with SC => g_sc g | BB => g_bb g | CO => g_co g end.
Definition with_dets (g : grp) (k : kind) (l : list det) (dirty : bool) : grp :=
  {| g_label := g_label g; g_key := g_key g; g_model := g_model g; g_vol := g_vol g; g_loc := g_loc g; g_pka := g_pka g;
     g_nvol := g_nvol g; g_nloc := g_nloc g; g_buried := g_buried g; g_bridged := g_bridged g;
     g_sc := match k with SC => l | _ => g_sc g end; g_bb := match k with BB => l | _ => g_bb g end;
     g_co := match k with CO => l | _ => g_co g end; g_dirty := dirty |}.
Definition with_pka (g : grp) (p : F) (dirty : bool) : grp :=
  {| g_label := g_label g; g_key := g_key g; g_model := g_model g; g_vol := g_vol g; g_loc := g_loc g; g_pka := p;
     g_nvol := g_nvol g; g_nloc := g_nloc g; g_buried := g_buried g; g_bridged := g_bridged g;
     g_sc := g_sc g; g_bb := g_bb g; g_co := g_co g; g_dirty := dirty |}.
Definition upd (s : state) (i : nat) (g : grp) : state := fun k => if Nat.eqb k i then g else s k.

Definition fzero : F := nlit 0 1.
Definition blank (label key : nat) : grp :=
  {| g_label := label; g_key := key; g_model := fzero; g_vol := fzero; g_loc := fzero; g_pka := fzero; g_nvol := fzero; g_nloc := fzero;
     g_buried := fzero; g_bridged := false; g_sc := []; g_bb := []; g_co := []; g_dirty := false |}.

(* self.pka_value = model + volume + local; then += every determinant, sidechain / backbone / coulomb in list order *)
Definition sum_dets (acc : F) (l : list det) : F := fold_left (fun a d => nadd a (d_val d)) l acc.
Definition total (g : grp) : F :=
  sum_dets (sum_dets (sum_dets (nadd (nadd (g_model g) (g_vol g)) (g_loc g)) (g_sc g)) (g_bb g)) (g_co g).
Definition recompute (g : grp) : grp := with_pka g (if g_bridged g then nlit 9999 100 else total g) false.

(* Group.remove_determinants(labels): matches are collected first, then removed one by one (identity) *)
Definition remove_labels (labels : list nat) (l : list det) : list det :=
  filter (fun d => negb (existsb (Nat.eqb (d_label d)) labels)) l.

(* transfer_determinant(determinants1, determinants2, label1, label2) *)
Definition has_label (lab : nat) (d : det) : bool := Nat.eqb (d_label d) lab.
Definition relabel (lab : nat) (d : det) : det := {| d_id := d_id d; d_key := d_key d; d_glabel := d_glabel d; d_label := lab; d_val := d_val d |}.
Definition transfer (d1 d2 : list det) (l1 l2 : nat) : list det * list det :=
  let f12 := filter (has_label l2) d1 in
  let f21 := filter (has_label l1) d2 in
  (filter (fun d => negb (has_label l2 d)) d1 ++ map (relabel l2) f21,
   filter (fun d => negb (has_label l1 d)) d2 ++ map (relabel l1) f12).

(* add_determinant: add to the first own determinant whose partner equals the new one's partner, else append a copy *)
Fixpoint add_det (fresh : nat) (d : det) (l : list det) : list det :=
  match l with
  | [] => [{| d_id := fresh; d_key := d_key d; d_glabel := d_glabel d; d_label := d_glabel d; d_val := d_val d |}]
  | e :: r => if Nat.eqb (d_key e) (d_key d)
              then {| d_id := d_id e; d_key := d_key e; d_glabel := d_glabel e; d_label := d_label e; d_val := nadd (d_val e) (d_val d) |} :: r
              else e :: add_det fresh d r
  end.

Inductive op :=
| ONew (g label key : nat) (model : F) (bridged : bool)      (* a Group object comes into existence (setup done) *)
| OAppend (g : nat) (k : kind) (d : det)                      (* determinants[k].append(Determinant(...)) *)
| OSetDesolv (g : nat) (vol nvol buried : F)                  (* radial_volume_desolvation *)
| OSetLocal (g : nat) (loc : F)                               (* backbone_reorganization *)
| OSetDetValue (g : nat) (k : kind) (id : nat) (v : F)        (* own_determinant.value = ... (set_determinant / sharing) *)
| ORecompute (g : nat)                                        (* calculate_total_pka *)
| ORemoveLabels (g : nat) (labels : list nat)                 (* remove_determinants *)
| OSwap (g1 g2 : nat)                                         (* swap_interactions([g1], [g2]) *)
| OClone (dst src : nat)                                      (* avr_group = group.clone() *)
| OIadd (dst src : nat) (fresh : list nat)                    (* avr_group += group_to_add; ids of the copies it creates *)
| ODiv (dst : nat) (k : F).                                   (* avr_group / len(...) *)

Definition set_kind (s : state) (g : nat) (k : kind) (l : list det) : state := upd s g (with_dets (s g) k l true).

(* for type_ in [...]: for determinant in other.determinants[type_]: self.add_determinant(determinant, type_) *)
Fixpoint iadd_dets (own : list det) (others : list det) (fresh : list nat) : list det * list nat :=
  match others with
  | [] => (own, fresh)
  | d :: r =>
    let hit := existsb (fun e => Nat.eqb (d_key e) (d_key d)) own in
    match hit, fresh with
    | true, _ => iadd_dets (add_det 0 d own) r fresh
    | false, f :: fr => iadd_dets (add_det f d own) r fr
    | false, [] => iadd_dets (add_det 0 d own) r []
    end
  end.

Definition step (s : state) (o : op) : state :=
  match o with
  | ONew g label key model bridged =>
    upd s g {| g_label := label; g_key := key; g_model := model; g_vol := fzero; g_loc := fzero; g_pka := fzero; g_nvol := fzero;
               g_nloc := fzero; g_buried := fzero; g_bridged := bridged; g_sc := []; g_bb := []; g_co := []; g_dirty := true |}
  | OAppend g k d => set_kind s g k (dets_of (s g) k ++ [d])
  | OSetDesolv g vol nvol buried =>
    let x := s g in
    upd s g {| g_label := g_label x; g_key := g_key x; g_model := g_model x; g_vol := vol; g_loc := g_loc x; g_pka := g_pka x;
               g_nvol := nvol; g_nloc := g_nloc x; g_buried := buried; g_bridged := g_bridged x;
               g_sc := g_sc x; g_bb := g_bb x; g_co := g_co x; g_dirty := true |}
  | OSetLocal g loc =>
    let x := s g in
    upd s g {| g_label := g_label x; g_key := g_key x; g_model := g_model x; g_vol := g_vol x; g_loc := loc; g_pka := g_pka x;
               g_nvol := g_nvol x; g_nloc := g_nloc x; g_buried := g_buried x; g_bridged := g_bridged x;
               g_sc := g_sc x; g_bb := g_bb x; g_co := g_co x; g_dirty := true |}
  | OSetDetValue g k id v =>
    set_kind s g k (map (fun d => if Nat.eqb (d_id d) id then {| d_id := d_id d; d_key := d_key d; d_glabel := d_glabel d; d_label := d_label d; d_val := v |} else d)
                        (dets_of (s g) k))
  | ORecompute g => upd s g (recompute (s g))
  | ORemoveLabels g labels =>
    let x := s g in
    upd s g {| g_label := g_label x; g_key := g_key x; g_model := g_model x; g_vol := g_vol x; g_loc := g_loc x; g_pka := g_pka x;
               g_nvol := g_nvol x; g_nloc := g_nloc x; g_buried := g_buried x; g_bridged := g_bridged x;
               g_sc := remove_labels labels (g_sc x); g_bb := remove_labels labels (g_bb x); g_co := remove_labels labels (g_co x);
               g_dirty := true |}
  | OSwap g1 g2 =>
    (* coulomb lists, then sidechain lists, then group1.calculate_total_pka(); group2.calculate_total_pka() *)
    let l1 := g_label (s g1) in let l2 := g_label (s g2) in
    let '(c1, c2) := transfer (g_co (s g1)) (g_co (s g2)) l1 l2 in
    let '(s1, s2) := transfer (g_sc (s g1)) (g_sc (s g2)) l1 l2 in
    let x1 := with_dets (with_dets (s g1) CO c1 true) SC s1 true in
    let x2 := with_dets (with_dets (s g2) CO c2 true) SC s2 true in
    let st := upd (upd s g1 x1) g2 x2 in
    let st := upd st g1 (recompute (st g1)) in
    upd st g2 (recompute (st g2))
  | OClone dst src =>
    let x := s src in
    upd s dst {| g_label := g_label x; g_key := g_key x; g_model := g_model x; g_vol := fzero; g_loc := fzero; g_pka := fzero;
                 g_nvol := fzero; g_nloc := fzero; g_buried := fzero; g_bridged := g_bridged x;
                 g_sc := []; g_bb := []; g_co := []; g_dirty := true |}
  | OIadd dst src fresh =>
    let a := s dst in let b := s src in
    let '(sc, fr1) := iadd_dets (g_sc a) (g_sc b) fresh in
    let '(bb, fr2) := iadd_dets (g_bb a) (g_bb b) fr1 in
    let '(co, _) := iadd_dets (g_co a) (g_co b) fr2 in
    upd s dst {| g_label := g_label a; g_key := g_key a; g_model := g_model a; g_vol := nadd (g_vol a) (g_vol b);
                 g_loc := nadd (g_loc a) (g_loc b); g_pka := nadd (g_pka a) (g_pka b); g_nvol := nadd (g_nvol a) (g_nvol b);
                 g_nloc := nadd (g_nloc a) (g_nloc b); g_buried := nadd (g_buried a) (g_buried b); g_bridged := g_bridged a;
                 g_sc := sc; g_bb := bb; g_co := co; g_dirty := true |}
  | ODiv dst k =>
    let a := s dst in
    let dv := map (fun d => {| d_id := d_id d; d_key := d_key d; d_glabel := d_glabel d; d_label := d_label d; d_val := ndiv (d_val d) k |}) in
    upd s dst {| g_label := g_label a; g_key := g_key a; g_model := g_model a; g_vol := ndiv (g_vol a) k; g_loc := ndiv (g_loc a) k;
                 g_pka := ndiv (g_pka a) k; g_nvol := ndiv (g_nvol a) k; g_nloc := ndiv (g_nloc a) k; g_buried := ndiv (g_buried a) k;
                 g_bridged := g_bridged a; g_sc := dv (g_sc a); g_bb := dv (g_bb a); g_co := dv (g_co a); g_dirty := true |}
  end.

Definition state0 : state := fun _ => blank 0 0.
Definition run (ops : list op) : state := fold_left step ops state0.
End Dets.
Arguments det F : clear implicits.
Arguments grp F : clear implicits.
Arguments op F : clear implicits.
Arguments state F : clear implicits.
