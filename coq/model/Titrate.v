(* Hand-written executable model of the --titrate_only path:
     propka/lib.py: parse_res_string, parse_res_list
     propka/conformation_container.py: ConformationContainer.init_group (the part after group.setup())
     propka/group.py: Group.use_in_calculations
   Strings are 8-bit.  Tie: tools/props/c14.py compares parse_res_string/parse_res_list with the real functions on generated
   strings and the flags predicted by init_group with those of real runs with the option. *)
From Coq Require Import String Ascii List Bool ZArith.
From V Require Import PyString.
Import ListNotations.
Open Scope string_scope.

(* s.split(sep) for a one-character separator *)
Fixpoint split (sep : ascii) (s : string) : list string :=
  match s with
  | EmptyString => [EmptyString]
  | String c r => if Ascii.eqb c sep then EmptyString :: split sep r
                  else match split sep r with h :: t => String c h :: t | [] => [String c EmptyString] end
  end.
Fixpoint join (sep : ascii) (l : list string) : string :=
  match l with [] => EmptyString | [x] => x | x :: r => x ++ String sep (join sep r) end.

(* s[:-1], s[-1] *)
Fixpoint but_last (s : string) : string :=
  match s with EmptyString => EmptyString | String c EmptyString => EmptyString | String c r => String c (but_last r) end.
Fixpoint last_char (s : string) : option ascii :=
  match s with EmptyString => None | String c EmptyString => Some c | String _ r => last_char r end.

Definition reskey := (string * Z * string)%type.
Definition parse_res_string (s : string) : result reskey :=
  match split ":" s with
  | [chain; num] =>
    match py_int num with
    | Ok n => Ok (chain, n, " ")
    | Err _ => match py_int (but_last num), last_char num with
               | Ok n, Some c => Ok (chain, n, String c EmptyString)
               | _, _ => Err ValueError end
    end
  | _ => Err ValueError
  end.
Fixpoint parse_all (l : list string) : result (list reskey) :=
  match l with
  | [] => Ok []
  | x :: r => match parse_res_string x with Ok k => match parse_all r with Ok ks => Ok (k :: ks) | Err e => Err e end | Err e => Err e end
  end.
Definition parse_res_list (s : string) : result (list reskey) := parse_all (split "," s).

Definition key_eqb (a b : reskey) : bool :=
  let '(c1, n1, i1) := a in let '(c2, n2, i2) := b in String.eqb c1 c2 && Z.eqb n1 n2 && String.eqb i1 i2.
Fixpoint key_mem (k : reskey) (l : list reskey) : bool :=
  match l with [] => false | x :: r => key_eqb k x || key_mem k r end.

(* a group as far as the option is concerned; `env` stands for everything else the group carries (type, atoms, coordinates, ...) *)
Record grp (E : Type) := mk_grp { g_key : reskey; g_titratable : bool; g_is_cys : bool; g_excl : bool; g_env : E }.
Arguments mk_grp {E}. Arguments g_key {E}. Arguments g_titratable {E}. Arguments g_is_cys {E}. Arguments g_excl {E}. Arguments g_env {E}.

Definition init_group {E} (titrate_only : option (list reskey)) (g : grp E) : grp E :=
  match titrate_only with
  | None => g
  | Some l => if negb (key_mem (g_key g) l)
              then mk_grp (g_key g) false (g_is_cys g) (if g_is_cys g then true else g_excl g) (g_env g)
              else g
  end.
Definition use_in_calculations {E} (g : grp E) : bool := g_titratable g || (g_is_cys g && negb (g_excl g)).

(* output helpers for the correspondence *)
Definition key_out (k : reskey) : list (list Z) := let '(c, n, i) := k in [codes c; [n]; codes i].
Definition res_out (r : result (list reskey)) : list (list Z) :=
  match r with Ok l => [1%Z] :: flat_map key_out l | Err _ => [[0%Z]] end.
